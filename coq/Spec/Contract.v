(** What collapsing and resolving are supposed to do, on observables (bipartitions with their
    length and support, tip set, path lengths), independently of the algorithms. *)
From Coq Require Import String ZArith QArith Bool Arith List.
From GT Require Import Base.Sexp Base.UTree Spec.Obs.
Import ListNotations.
Local Close Scope Q_scope.
Local Open Scope string_scope.

(** the documented criteria (cmd/collapsebrlen.go, collapsesupport.go, collapsedepth.go):
    length <= l (an absent length is the sentinel -1);  support present and < s;
    min <= depth <= max, depth = number of tips on the lightest side *)
Inductive crit : Type :=
| CLen (l : Q)
| CSup (s : Q)
| CDepth (mn mx : Z).

Definition crit_holds (ntips : nat) (cr : crit) (s : split) : bool :=
  match cr with
  | CLen l => Qle_bool (slen s) l
  | CSup x => negb (qeqb (ssup s) nilv) && negb (Qle_bool x (ssup s))
  | CDepth mn mx =>
    let k := length (sside s) in
    let d := Z.of_nat (Nat.min k (ntips - k)) in
    (mn <=? d)%Z && (d <=? mx)%Z
  end.

(** the bipartition defined by the two branches at a degree-2 root *)
Definition root_keys (t : utree) : list (list string) :=
  if rooted t then
    match kids t with
    | (_, c) :: _ => [canon_side (tipset t) (sset (leaves c))]
    | [] => []
    end
  else [].

Definition is_root_split (t : utree) (s : split) : bool := existsb (sset_eqb (sside s)) (root_keys t).

(** the splits that must remain: tips, the root split of a rooted tree, and the inner splits
    that do not satisfy the criterion *)
Definition expected_after_collapse (cr : crit) (t : utree) : list split :=
  let n := length (tipset t) in
  filter (fun s => stip s || is_root_split t s || negb (crit_holds n cr s)) (usplits t).

Definition collapse_ok (cr : crit) (t g : utree) : option string :=
  if negb (wf g) then Some "result is not a well-formed rooted structure"
  else if negb (sset_eqb (ssort (leaves t)) (ssort (leaves g))) then Some "tip names changed"
  else if negb (splits_sub same_key (expected_after_collapse cr t) (usplits g))
       then Some "a branch that does not satisfy the criterion (or a tip, or a root branch) was removed"
  else if negb (splits_sub same_key (usplits g) (expected_after_collapse cr t))
       then Some "an inner branch satisfying the criterion is still there (or a new split appeared)"
  else if negb (splits_eq same_len_sup (expected_after_collapse cr t) (usplits g))
       then Some "a remaining split changed its length or support"
  else None.

(** fully binary: no node with more than 3 neighbours, no inner node with 2 except the root *)
Definition binary (g : utree) : bool :=
  forallb (fun x => Nat.leb (degree x) 3) (nodes g) && no_single g && Nat.leb 2 (degree g).

Definition added_splits (t g : utree) : list split :=
  filter (fun s => match find_split (sside s) (usplits t) with None => true | Some _ => false end) (usplits g).

Definition resolve_ok (t g : utree) : option string :=
  if negb (wf g) then Some "result is not a well-formed rooted structure"
  else if negb (sset_eqb (ssort (leaves t)) (ssort (leaves g))) then Some "tip names changed"
  else if negb (binary g) then Some "result is not fully binary"
  else if negb (splits_sub same_len_sup (usplits t) (usplits g)) then Some "an original split is missing or changed its length or support"
  else if negb (forallb (fun s => qeqb (slen s) 0%Q && qeqb (ssup s) nilv) (added_splits t g))
       then Some "an added branch has a non-zero length or a support"
  else if negb (matrix_eqb (dist_matrix len0 t) (dist_matrix len0 g)) then Some "a tip-to-tip distance changed"
  else None.

(** ** the option --tips ("applies also to external branches, just by setting their length to 0.0"):
    the criterion read on a tip branch; a tip has depth 1; there is no --tips for supports *)
Definition tip_crit (cr : crit) (e : einfo) : bool :=
  match cr with
  | CLen l => Qle_bool (elen e) l
  | CSup _ => false
  | CDepth mn mx => (mn <=? 1)%Z && (1 <=? mx)%Z
  end.

(** the input tree with the qualifying tip branches set to length 0 *)
Fixpoint zero_tips (cr : crit) (t : utree) : utree :=
  match t with
  | UNode n c sl =>
    UNode n c (map (fun s => match s with
                             | None => None
                             | Some (e, ch) =>
                               Some ((match kids ch with
                                      | [] => if tip_crit cr e then mkE 0%Q (esup e) (epv e) (ecom e) else e
                                      | _ => e end), zero_tips cr ch)
                             end) sl)
  end.

(** removeTips = true, removeRoot = false: as [collapse_ok], and every tip branch satisfying the
    criterion (also one attached to the root of a rooted tree) has length 0 *)
Definition collapse_ok_tips (cr : crit) (t g : utree) : option string :=
  match collapse_ok cr (zero_tips cr t) g with
  | Some m => Some ("with --tips: " ++ m)
  | None => None
  end.

(** ** resolve on inputs that contain single-child inner nodes ("for resolve all trees"): such nodes
    stay as they are (Resolve only touches nodes with more than 3 neighbours) and none is created;
    every node ends with at most 3 neighbours, so every inner node other than the single-child ones
    is binary; the input's splits are kept with their (merged) length and support, added branches
    have length 0 and no support, distances are kept *)
Fixpoint count_single_sub (t : utree) : nat :=
  match t with
  | UNode _ _ sl =>
    (if Nat.eqb (length sl) 2 then 1 else 0) +
    fold_right (fun s acc => match s with Some (_, c) => count_single_sub c + acc | None => acc end) 0 sl
  end.
Definition count_single (t : utree) : nat :=
  fold_right (fun p acc => count_single_sub (snd p) + acc) 0 (kids t).

Definition resolve_ok_single (t g : utree) : option string :=
  if negb (wf g) then Some "result is not a well-formed rooted structure"
  else if negb (sset_eqb (ssort (leaves t)) (ssort (leaves g))) then Some "tip names changed"
  else if negb (forallb (fun x => Nat.leb (degree x) 3) (nodes g) && Nat.leb 2 (degree g))
       then Some "a node keeps more than three neighbours"
  else if negb (Nat.eqb (count_single g) (count_single t)) then Some "the number of single-child inner nodes changed"
  else if negb (splits_sub same_len_sup (usplits t) (usplits g)) then Some "an original split is missing or changed its length or support"
  else if negb (forallb (fun s => qeqb (slen s) 0%Q && qeqb (ssup s) nilv) (added_splits t g))
       then Some "an added branch has a non-zero length or a support"
  else if negb (matrix_eqb (dist_matrix len0 t) (dist_matrix len0 g)) then Some "a tip-to-tip distance changed"
  else None.

(** ** resolve keeps every branch of the input with all its data: the list of (leaf set below,
    length, support, p-value) of the branches of [t] is included, as a multiset, in that of [g]
    (Resolve does not change the rooting, so the leaf set below a branch is the same on both sides;
    [usplits] carries no p-value) *)
Fixpoint branch_data (t : utree) : list (list string * (Q * Q * Q)) :=
  match t with
  | UNode _ _ sl =>
    flat_map (fun s => match s with
                       | Some (e, c) => (sset (leaves c), (elen e, esup e, epv e)) :: branch_data c
                       | None => [] end) sl
  end.
Definition data_eqb (a b : list string * (Q * Q * Q)) : bool :=
  sset_eqb (fst a) (fst b) &&
  qeqb (fst (fst (snd a))) (fst (fst (snd b))) && qeqb (snd (fst (snd a))) (snd (fst (snd b))) && qeqb (snd (snd a)) (snd (snd b)).
Fixpoint data_remove (x : list string * (Q * Q * Q)) (l : list (list string * (Q * Q * Q))) : option (list (list string * (Q * Q * Q))) :=
  match l with
  | [] => None
  | y :: r => if data_eqb x y then Some r else match data_remove x r with Some r' => Some (y :: r') | None => None end
  end.
Fixpoint data_msub (a b : list (list string * (Q * Q * Q))) : bool :=
  match a with
  | [] => true
  | x :: r => match data_remove x b with Some b' => data_msub r b' | None => false end
  end.
Definition branches_kept (t g : utree) : option string :=
  if data_msub (branch_data t) (branch_data g) then None
  else Some "a branch of the input is missing or lost its length, support or p-value".
