(** Specification objects shared by Judge/C04.v and Proofs/SplitMap.v: the canonical key of a
    bipartition and the plain map keyed by bipartitions that the split index (EdgeIndex) is
    meant to behave like.  Independent of the hash map and of the bitsets. *)
From Coq Require Import String ZArith QArith Bool Arith List.
From GT Require Import Base.UTree Spec.Obs.
Import ListNotations.
Local Close Scope Q_scope.

(** the key of the bipartition {below, all \ below}: the side that does not contain the least
    name; [all] is the sorted duplicate-free tip set ([tipset t]) *)
Definition skey : Type := list string.
Definition split_key (all : list string) (below : list string) : skey := canon_side all (sset below).

(** one key per branch, in Tree.Edges() order *)
Definition split_sides (t : utree) : list skey :=
  let all := tipset t in map (fun ec => split_key all (leaves (snd ec))) (edges t).

Definition sinfo : Type := (Z * Q)%type.          (* Count, Len *)

Fixpoint sp_get (a : list (skey * sinfo)) (k : skey) : option sinfo :=
  match a with
  | [] => None
  | (k', v) :: r => if sset_eqb k k' then Some v else sp_get r k
  end.
Fixpoint sp_set (a : list (skey * sinfo)) (k : skey) (v : sinfo) : list (skey * sinfo) :=
  match a with
  | [] => [(k, v)]
  | (k', v') :: r => if sset_eqb k k' then (k', v) :: r else (k', v') :: sp_set r k v
  end.

(** PutEdgeValue(e, count, len) / AddEdgeCount(e) with e.Length() = len / Value(e) *)
Inductive sop : Type := SPut (k : skey) (v : sinfo) | SAdd (k : skey) (len : Q) | SValue (k : skey).
Inductive sres : Type := SOk | SVal (r : option sinfo).

Definition sp_add (a : list (skey * sinfo)) (k : skey) (l : Q) : list (skey * sinfo) :=
  sp_set a k (match sp_get a k with Some (cn, ln) => ((cn + 1)%Z, (ln + l)%Q) | None => (1%Z, l) end).

Fixpoint sp_run (a : list (skey * sinfo)) (ops : list sop) : list sres * list (skey * sinfo) :=
  match ops with
  | [] => ([], a)
  | SPut k v :: r => let '(rs, af) := sp_run (sp_set a k v) r in (SOk :: rs, af)
  | SAdd k l :: r => let '(rs, af) := sp_run (sp_add a k l) r in (SOk :: rs, af)
  | SValue k :: r => let '(rs, af) := sp_run a r in (SVal (sp_get a k) :: rs, af)
  end.
