(** Vocabulary of C17 (NNI neighbourhood), independent of the model of the rearranger. *)
From Coq Require Import String ZArith QArith Bool Arith List Permutation.
From GT Require Import Base.UTree Spec.Obs Spec.Unrooted.
Import ListNotations.
Local Close Scope Q_scope.

(** binary: every node below the root has one neighbour (tip) or three, the root two
    (rooted tree) or three (unrooted tree) *)
Fixpoint binary_sub (t : utree) : bool :=
  match t with
  | UNode _ _ sl =>
    (Nat.eqb (length sl) 1 || Nat.eqb (length sl) 3) &&
    forallb (fun s => match s with Some (_, c) => binary_sub c | None => true end) sl
  end.
Definition binary (t : utree) : bool :=
  (Nat.eqb (degree t) 2 || Nat.eqb (degree t) 3) &&
  forallb (fun s => match s with Some (_, c) => binary_sub c | None => true end) (uslots t).

(** number of root children that are inner nodes *)
Definition inner_root_kids (t : utree) : nat :=
  length (filter (fun p => negb (is_tip (snd p))) (kids t)).

(** Inner branches of the tree seen as an unrooted object: branches both of whose ends are
    inner nodes.  Every branch of [internal_edges] (lower end not a tip) has an inner upper
    end, except that the two branches at a degree-2 root are ONE branch of the unrooted
    tree, joining the two root children: when both are inner nodes the two internal root
    branches count once; when one is a tip the joined branch is a tip branch although the
    other root branch is in [internal_edges].  In both cases one is subtracted. *)
Definition inner_branch_count (t : utree) : nat :=
  length (internal_edges t) - (if rooted t then 1 else 0).

(** the same number through the bipartitions of Spec/Obs.v (used on concrete witnesses) *)
Definition inner_split_count (t : utree) : nat :=
  length (filter (nontrivial_split (length (tipset t))) (usplits t)).

(** two leaf lists denote the same bipartition of the tips [L] *)
Definition same_bipartition (L x y : list string) : Prop :=
  Permutation x y \/ Permutation (x ++ y) L.

(** [x] is (one side of) a split of [t] *)
Definition has_split (t : utree) (x : list string) : Prop :=
  exists y, In y (bsplits t) /\ same_bipartition (leaves t) x (snd (fst y)).

(** two trees on the same tips have the same set of splits *)
Definition same_splits (t t' : utree) : Prop :=
  forall x, has_split t x <-> has_split t' x.
