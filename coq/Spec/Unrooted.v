(** Order-insensitive notions used to state C05 ("re-rooting, unrooting and reordering never
    change the tree itself"): multiset equality of distance lists up to [Qeq], trees equal up
    to a permutation of the neighbour list of every node, and the splits of a tree seen as an
    unrooted object (one pair {below, rest} per branch, not canonicalised). *)
From Coq Require Import String ZArith QArith Bool Arith List Permutation.
From GT Require Import Base.UTree Spec.Obs.
Import ListNotations.
Local Close Scope Q_scope.

(** ** permutation up to an equivalence on the elements *)
Section PermRDef.
  Variable A : Type.
  Variable R : A -> A -> Prop.
  Inductive PermR : list A -> list A -> Prop :=
  | PR_nil : PermR [] []
  | PR_skip x y l l' : R x y -> PermR l l' -> PermR (x :: l) (y :: l')
  | PR_swap x y l : PermR (y :: x :: l) (x :: y :: l)
  | PR_trans l l' l'' : PermR l l' -> PermR l' l'' -> PermR l l''.
End PermRDef.
Arguments PermR {A} R _ _.

(** entries (tip, distance) and (tip, tip, distance): names equal, numbers [Qeq] *)
Definition pq_eq (x y : string * Q) : Prop := fst x = fst y /\ (snd x == snd y)%Q.
Definition tq_eq (x y : string * string * Q) : Prop := fst x = fst y /\ (snd x == snd y)%Q.

(** the two lists are the same multiset of (a, b, distance) entries, distances up to [Qeq] *)
Definition dists_equiv (l l' : list (string * string * Q)) : Prop := PermR tq_eq l l'.

(** ** trees equal up to the order of the neighbours of every node *)
Definition slot_rel (R : utree -> utree -> Prop) (s s' : slot) : Prop :=
  match s, s' with
  | None, None => True
  | Some (e, t), Some (e', t') => e = e' /\ R t t'
  | _, _ => False
  end.

(** [tperm t t']: same name and comments, and the slot list of [t'] is a permutation of a
    list [m] that matches the slots of [t] one by one (parent slot with parent slot, child
    with child through the same edge data, the children related recursively). *)
Fixpoint tperm (t t' : utree) {struct t} : Prop :=
  match t, t' with
  | UNode n c sl, UNode n' c' sl' =>
    n = n' /\ c = c' /\
    exists m, Permutation m sl' /\
      (fix go (l m : list slot) {struct l} : Prop :=
         match l, m with
         | [], [] => True
         | None :: l, None :: m => go l m
         | Some (e, ch) :: l, Some (e', ch') :: m => e = e' /\ tperm ch ch' /\ go l m
         | _, _ => False
         end) sl m
  end.

(** ** splits of the tree seen as an unrooted object, not canonicalised *)
Definition kleaves (ks : list (einfo * utree)) : list string :=
  flat_map (fun p => leaves (snd p)) ks.

(** one entry per branch: (edge data, leaves on the far side of the branch, is the far node
    a leaf).  This is [branch_splits] before the choice of a canonical side. *)
Fixpoint bsplits (t : utree) : list (einfo * list string * bool) :=
  match t with
  | UNode _ _ sl =>
    flat_map (fun s => match s with
                       | Some (e, c) =>
                         (e, leaves c, match kids c with [] => true | _ => false end) :: bsplits c
                       | None => [] end) sl
  end.

(** two entries denote the same branch of the unrooted tree whose leaves are [L]: same edge
    data, same flag, and the two leaf lists are either the same side (a permutation of each
    other) or complementary sides (together they are a permutation of [L]) *)
Definition bs_eq (L : list string) (x y : einfo * list string * bool) : Prop :=
  fst (fst x) = fst (fst y) /\ snd x = snd y /\
  (Permutation (snd (fst x)) (snd (fst y)) \/ Permutation (snd (fst x) ++ snd (fst y)) L).

(** same multiset of branches *)
Definition splits_equiv (L : list string) (l l' : list (einfo * list string * bool)) : Prop :=
  PermR (bs_eq L) l l'.

(** the stricter relation used for reorderings: the same side, up to the order of the names *)
Definition bs_same (x y : einfo * list string * bool) : Prop :=
  fst (fst x) = fst (fst y) /\ snd x = snd y /\ Permutation (snd (fst x)) (snd (fst y)).

(** the canonical form of an entry, as in [branch_splits] *)
Definition canon_split (all : list string) (x : einfo * list string * bool) : split :=
  mkSplit (canon_side all (sset (snd (fst x)))) (elen (fst (fst x))) (esup (fst (fst x))) (snd x).
