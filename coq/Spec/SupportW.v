(** The definitions of Spec/Support.v for a collection given with multiplicities: (k, T) stands
    for k copies of T.  Proofs/SupportW.v: these are the plain definitions on the expanded list. *)
From Coq Require Import String ZArith QArith Bool Arith List.
From GT Require Import Base.UTree Spec.Obs Spec.Support.
Import ListNotations.
Local Close Scope Q_scope.

Definition wtrees : Type := list (nat * utree).

Definition expand (w : wtrees) : list utree := flat_map (fun p => repeat (snd p) (fst p)) w.

(** number of trees, number of trees satisfying f, sum of d over the trees *)
Definition wlen (w : wtrees) : nat := fold_right (fun p acc => fst p + acc) 0 w.
Definition wcnt (f : utree -> bool) (w : wtrees) : nat :=
  fold_right (fun p acc => (if f (snd p) then fst p else 0) + acc) 0 w.
Definition wsum (d : utree -> nat) (w : wtrees) : nat :=
  fold_right (fun p acc => fst p * d (snd p) + acc) 0 w.

Definition fbp_spec_w (X A : list string) (w : wtrees) : Q :=
  (sqnat (wcnt (has_split X A) w) / sqnat (wlen w))%Q.

Definition tbe_spec_w (X A : list string) (w : wtrees) : Q :=
  let L := light X A in
  (1 - (sqnat (wsum (delta X L) w) / sqnat (wlen w)) / sqnat (length L - 1))%Q.
