(** What C09 speaks about, independently of the algorithm: the frequency of a split in a
    collection of trees (counted per TREE: a tree contains a split or not, [usplits] of
    Spec/Obs.v merges the two branches at a degree-2 root into one split), the set of splits
    whose frequency is strictly greater than the threshold or that occur in every tree, the mean
    length of a split over the trees containing it. *)
From Coq Require Import String ZArith QArith Bool Arith List.
From GT Require Import Base.UTree Spec.Obs.
Import ListNotations.
Local Close Scope Q_scope.

Definition key := list string.                (* canonical side of a bipartition, sorted *)
Definition key_eqb (a b : key) : bool := sset_eqb a b.

Definition tree_split (t : utree) (k : key) : option split := find_split k (usplits t).
Definition tree_has (t : utree) (k : key) : bool :=
  match tree_split t k with Some _ => true | None => false end.

(** number of trees of the collection that contain the split *)
Definition freq_count (ts : list utree) (k : key) : nat := length (filter (fun t => tree_has t k) ts).

(** lengths of the split in the trees containing it *)
Definition lens_of (ts : list utree) (k : key) : list Q :=
  flat_map (fun t => match tree_split t k with Some s => [slen s] | None => [] end) ts.

Definition qsum (l : list Q) : Q := fold_right Qplus 0%Q l.
Definition mean (l : list Q) : Q := (qsum l / inject_Z (Z.of_nat (length l)))%Q.

Fixpoint add_key (k : key) (l : list key) : list key :=
  match l with
  | [] => [k]
  | x :: r => if key_eqb k x then l else x :: add_key k r
  end.
(** every split of some tree, once, in order of first appearance *)
Definition all_keys (ts : list utree) : list key :=
  fold_left (fun acc k => add_key k acc) (flat_map (fun t => map sside (usplits t)) ts) [].

(** frequency strictly greater than the threshold, or present in every tree *)
Definition frequent (cutoff : Q) (n c : nat) : bool :=
  negb (Qle_bool (inject_Z (Z.of_nat c) / inject_Z (Z.of_nat n))%Q cutoff) || Nat.eqb c n.

Definition expected_keys (cutoff : Q) (ts : list utree) : list key :=
  filter (fun k => frequent cutoff (length ts) (freq_count ts k)) (all_keys ts).

Definition cutoff_ok (cutoff : Q) : bool := Qle_bool (1 # 2) cutoff && Qle_bool cutoff 1.

(** the domain of C09: a non-empty collection of well-formed trees (rooted or not) without
    single-child inner nodes, every branch with a length, distinct tip names, at least 4 of them *)
Fixpoint nodup_sorted (l : list string) : bool :=
  match l with
  | x :: ((y :: _) as r) => negb (String.eqb x y) && nodup_sorted r
  | _ => true
  end.
Definition all_lengths (t : utree) : bool := forallb (fun p => Qle_bool 0 (elen (fst p))) (edges t).
Definition tree_ok (t : utree) : bool :=
  wf t && Nat.leb 2 (degree t) && no_single t && nodup_sorted (ssort (leaves t)) && Nat.leb 4 (length (leaves t))
  && all_lengths t.
Definition same_taxa_all (ts : list utree) : bool :=
  match ts with
  | [] => true
  | t :: r => forallb (fun u => sset_eqb (tipset t) (tipset u)) r
  end.
