(** What C16 says about a generated tree, stated on the tree alone (independent of the
    generators): binary, rootedness, caterpillar / balanced / star shape, non-negative
    lengths, and the key under which two labelled topologies count as the same. *)
From Coq Require Import String ZArith QArith Bool Arith List.
From GT Require Import Base.UTree Spec.Obs.
Import ListNotations.
Local Close Scope Q_scope.

Definition sub_all (p : utree -> bool) (sl : list slot) : bool :=
  forallb (fun s => match s with Some (_, c) => p c | None => true end) sl.

(** every node below the root is a tip (1 neighbour) or has 3 neighbours *)
Fixpoint bin_sub (t : utree) : bool :=
  match t with
  | UNode _ _ sl => (Nat.eqb (length sl) 1 || Nat.eqb (length sl) 3) && sub_all bin_sub sl
  end.

(** binary tree: the root has 2 neighbours if rooted, 3 otherwise; inner nodes 3 *)
Definition binary (rooted : bool) (t : utree) : bool :=
  Nat.eqb (degree t) (if rooted then 2 else 3) && sub_all bin_sub (uslots t).

(** the enumerator represents a rooted topology as a "planted" tree: the root has one
    neighbour (an unnamed placeholder above the real root), everything below is binary *)
Definition planted (t : utree) : bool :=
  match t with
  | UNode _ _ [Some (_, c)] => negb (is_tip c) && bin_sub c
  | _ => false
  end.

Definition n_tip_kids (t : utree) : nat :=
  length (filter (fun p => is_tip (snd p)) (kids t)).

(** caterpillar: the inner nodes form a path, i.e. every node that is not a tip has a tip
    among its children (seen from any inner root) *)
Fixpoint cat_sub (t : utree) : bool :=
  match t with
  | UNode _ _ sl =>
    (Nat.eqb (length sl) 1 || Nat.leb 1 (n_tip_kids t)) && sub_all cat_sub sl
  end.
Definition caterpillar (t : utree) : bool :=
  Nat.leb 1 (n_tip_kids t) && sub_all cat_sub (uslots t).

(** perfect binary subtree of depth k below (and including) a non-root node *)
Fixpoint perfect (k : nat) (t : utree) : bool :=
  match k with
  | O => is_tip t
  | S k' => Nat.eqb (length (kids t)) 2 && Nat.eqb (degree t) 3 &&
            forallb (fun p => perfect k' (snd p)) (kids t)
  end.

(** balanced of depth d (d >= 1): rooted, two perfect subtrees of depth d-1; unrooted
    (d >= 2), the root is one end of the middle branch: one child of depth d-1 and two of
    depth d-2 *)
Definition balanced (rooted : bool) (d : nat) (t : utree) : bool :=
  let ks := map snd (kids t) in
  if rooted then Nat.eqb (degree t) 2 && forallb (perfect (d - 1)) ks
  else Nat.eqb (degree t) 3 &&
       existsb (fun i => perfect (d - 1) (nth i ks t) &&
                         forallb (fun j => Nat.eqb i j || perfect (d - 2) (nth j ks t)) (seq 0 3))
               (seq 0 3).

(** star: one inner node (the root), all its neighbours are tips *)
Definition star (t : utree) : bool :=
  forallb (fun s => match s with Some (_, c) => is_tip c | None => false end) (uslots t).

Fixpoint lens_nonneg (t : utree) : bool :=
  match t with
  | UNode _ _ sl =>
    forallb (fun s => match s with
                      | Some (e, c) => Qle_bool 0%Q (elen e) && lens_nonneg c
                      | None => true end) sl
  end.

(** ** labelled topologies *)
(** leaf sets below every branch *)
Fixpoint clades (t : utree) : list (list string) :=
  match t with
  | UNode _ _ sl =>
    flat_map (fun s => match s with
                       | Some (_, c) => sset (leaves c) :: clades c
                       | None => [] end) sl
  end.

(** sorted set of lists of strings *)
Fixpoint lcompare (a b : list string) : comparison :=
  match a, b with
  | [], [] => Eq
  | [], _ => Lt
  | _, [] => Gt
  | x :: a', y :: b' => match String.compare x y with Eq => lcompare a' b' | c => c end
  end.
Fixpoint linsert (x : list string) (l : list (list string)) : list (list string) :=
  match l with
  | [] => [x]
  | y :: r => match lcompare x y with
              | Lt => x :: l
              | Eq => l
              | Gt => y :: linsert x r
              end
  end.
Definition lset (l : list (list string)) : list (list string) := fold_right linsert [] l.

(** rooted topology = its set of clades (the clade of all tips, which only the planted
    representation has a branch for, left out); unrooted topology = its set of bipartitions,
    each written as the side that does not contain the least tip name *)
Definition topo_key (rooted : bool) (t : utree) : list (list string) :=
  let all := tipset t in
  if rooted then lset (filter (fun s => negb (sset_eqb s all)) (clades t))
  else lset (map (canon_side all) (clades t)).
