(** Observables the properties speak about, defined structurally and independently of the
    algorithms: tip set, tip-to-tip path lengths, splits (bipartitions) with their branch data. *)
From Coq Require Import String ZArith QArith Bool Arith List.
From GT Require Import Base.Sexp Base.UTree.
Import ListNotations.
Local Open Scope Q_scope.

(** ** sorted string sets *)
Fixpoint sinsert (x : string) (l : list string) : list string :=
  match l with
  | [] => [x]
  | y :: r => match String.compare x y with
              | Lt => x :: l
              | Eq => l
              | Gt => y :: sinsert x r
              end
  end.
Definition sset (l : list string) : list string := fold_right sinsert [] l.
(** multiset sort (keeps duplicates) *)
Fixpoint minsert (x : string) (l : list string) : list string :=
  match l with
  | [] => [x]
  | y :: r => if String.leb x y then x :: l else y :: minsert x r
  end.
Definition ssort (l : list string) : list string := fold_right minsert [] l.

Definition smem (x : string) (l : list string) : bool := existsb (String.eqb x) l.
Definition sdiff (a b : list string) : list string := filter (fun x => negb (smem x b)) a.
Definition sinter (a b : list string) : list string := filter (fun x => smem x b) a.
Definition sset_eqb (a b : list string) : bool := list_eqb String.eqb a b.
Definition ssubset (a b : list string) : bool := forallb (fun x => smem x b) a.

(** ** tips *)
(** leaves below a subtree node (a node all of whose slots are [Up] has no kids). *)
Fixpoint leaves (t : utree) : list string :=
  match t with
  | UNode n _ sl =>
    match kids_of sl with
    | [] => [n]
    | _ => flat_map (fun s => match s with Some (_, c) => leaves c | None => [] end) sl
    end
  end.
Definition tipset (t : utree) : list string := sset (leaves t).

(** a present length counts as itself, the absent sentinel as 0 *)
Definition len0 (e : einfo) : Q := if Qle_bool 0 (elen e) then elen e else 0.

(** ** path lengths *)
(** distance from the node to every leaf below it *)
Fixpoint depths (w : einfo -> Q) (t : utree) : list (string * Q) :=
  match t with
  | UNode n _ sl =>
    match kids_of sl with
    | [] => [(n, 0)]
    | _ => flat_map (fun s => match s with
                              | Some (e, c) => map (fun p => (fst p, w e + snd p)) (depths w c)
                              | None => [] end) sl
    end
  end.

Definition cross (a b : list (string * Q)) : list (string * string * Q) :=
  flat_map (fun x => map (fun y => (fst x, fst y, snd x + snd y)) b) a.

(** all ordered pairs (a, b, d) of leaves in different child subtrees of some node, both orders *)
Fixpoint cross_all (ds : list (list (string * Q))) : list (string * string * Q) :=
  match ds with
  | [] => []
  | d :: r => flat_map (fun d' => cross d d' ++ cross d' d) r ++ cross_all r
  end.

Fixpoint pairdists (w : einfo -> Q) (t : utree) : list (string * string * Q) :=
  match t with
  | UNode _ _ sl =>
    cross_all (flat_map (fun s => match s with
                                  | Some (e, c) => [map (fun p => (fst p, w e + snd p)) (depths w c)]
                                  | None => [] end) sl)
    ++ flat_map (fun s => match s with Some (_, c) => pairdists w c | None => [] end) sl
  end.

Definition dist_opt (w : einfo -> Q) (t : utree) (a b : string) : option Q :=
  if String.eqb a b then (if smem a (leaves t) then Some 0 else None) else
  match find (fun p => String.eqb (fst (fst p)) a && String.eqb (snd (fst p)) b) (pairdists w t) with
  | Some p => Some (snd p)
  | None => None
  end.

(** full matrix in tip-name order *)
Definition dist_matrix (w : einfo -> Q) (t : utree) : list (list (option Q)) :=
  let ts := ssort (leaves t) in
  let pd := pairdists w t in
  map (fun a => map (fun b =>
     if String.eqb a b then Some 0 else
     match find (fun p => String.eqb (fst (fst p)) a && String.eqb (snd (fst p)) b) pd with
     | Some p => Some (snd p) | None => None end) ts) ts.

Definition oq_eqb (a b : option Q) : bool :=
  match a, b with Some x, Some y => qeqb x y | None, None => true | _, _ => false end.
Definition matrix_eqb (a b : list (list (option Q))) : bool := list_eqb (list_eqb oq_eqb) a b.

(** ** splits *)
(** canonical side of a bipartition of [all]: the side that does not contain the least name *)
Definition canon_side (all side : list string) : list string :=
  match all with
  | [] => side
  | m :: _ => if smem m side then sdiff all side else side
  end.

Record split : Type := mkSplit { sside : list string; slen : Q; ssup : Q; stip : bool }.

(** every branch below [t] (not merging root branches): canonical side, length, support *)
Fixpoint branch_splits (all : list string) (t : utree) : list split :=
  match t with
  | UNode _ _ sl =>
    flat_map (fun s => match s with
                       | Some (e, c) =>
                         mkSplit (canon_side all (sset (leaves c))) (elen e) (esup e)
                                 (match kids c with [] => true | _ => false end)
                         :: branch_splits all c
                       | None => [] end) sl
  end.

Definition split_key_eqb (a b : split) : bool := sset_eqb (sside a) (sside b).

(** merge the two branches at a degree-2 root: they define the same bipartition; the merged
    branch has the sum of the lengths (absent counted as 0; absent if both absent). *)
Definition merge_len (a b : Q) : Q :=
  if qeqb a nilv && qeqb b nilv then nilv
  else (if Qle_bool 0 a then a else 0) + (if Qle_bool 0 b then b else 0).

Definition merge_split (a b : split) : split :=
  mkSplit (sside a) (merge_len (slen a) (slen b))
          (if Qle_bool (ssup a) (ssup b) then ssup b else ssup a)
          (stip a || stip b).

Fixpoint add_split (s : split) (l : list split) : list split :=
  match l with
  | [] => [s]
  | x :: r => if split_key_eqb s x then merge_split x s :: r else x :: add_split s r
  end.

(** the splits of the tree seen as unrooted: branches defining the same bipartition (the two
    branches at a degree-2 root, or at any degree-2 node) count as one branch whose length is
    the sum. *)
Definition usplits (t : utree) : list split :=
  fold_left (fun acc s => add_split s acc) (branch_splits (tipset t) t) [].

(** lookup / multiset comparison of split lists by key *)
Definition find_split (k : list string) (l : list split) : option split :=
  find (fun s => sset_eqb (sside s) k) l.

Definition splits_sub (cmp : split -> split -> bool) (a b : list split) : bool :=
  forallb (fun s => match find_split (sside s) b with
                    | Some s' => cmp s s'
                    | None => false end) a.
Definition splits_eq (cmp : split -> split -> bool) (a b : list split) : bool :=
  Nat.eqb (length a) (length b) && splits_sub cmp a b && splits_sub (fun x y => cmp y x) b a.

Definition same_len (a b : split) : bool := qeqb (slen a) (slen b).
Definition same_len_sup (a b : split) : bool := qeqb (slen a) (slen b) && qeqb (ssup a) (ssup b).
Definition same_key (a b : split) : bool := true.

Definition nontrivial_split (n : nat) (s : split) : bool :=
  let k := length (sside s) in (Nat.leb 2 k && Nat.leb 2 (n - k))%nat.
