(** What C08 speaks about, independently of the algorithm: the set of splits of each tree
    ([usplits] of Spec/Obs.v, keyed by the canonical side), with or without the tip branches, and
    the three set-algebra terms  S1 \ S2,  S1 /\ S2,  S2 \ S1  with the lengths they carry. *)
From Coq Require Import String ZArith QArith Bool Arith List.
From GT Require Import Base.UTree Spec.Obs.
Import ListNotations.
Local Close Scope Q_scope.

(** a split is counted when tip branches are requested or when its branch is not a tip branch *)
Definition counted (tips : bool) (s : split) : bool := tips || negb (stip s).

Definition split_list (tips : bool) (t : utree) : list split := filter (counted tips) (usplits t).

Definition has_key (l : list split) (s : split) : bool := existsb (split_key_eqb s) l.

(** the splits of [a] absent from / present in [b] *)
Definition only_in (a b : list split) : list split := filter (fun s => negb (has_key b s)) a.
Definition in_both (a b : list split) : list split := filter (has_key b) a.

Record counts : Type := mkCounts { c_only1 : nat; c_both : nat; c_only2 : nat }.

Definition spec_counts (tips : bool) (t1 t2 : utree) : counts :=
  let s1 := split_list tips t1 in
  let s2 := split_list tips t2 in
  mkCounts (length (only_in s1 s2)) (length (in_both s1 s2)) (length (only_in s2 s1)).

Definition spec_identical (tips : bool) (t1 t2 : utree) : bool :=
  let c := spec_counts tips t1 t2 in Nat.eqb (c_only1 c) 0 && Nat.eqb (c_only2 c) 0.

(** weighted terms, listed along the branches of the tree they come from:
    lengths of the splits only in the reference, lengths of the splits only in the compared tree,
    (reference length - compared length) for the shared splits (along the compared tree) *)
Definition len_in (l : list split) (s : split) : Q :=
  match find_split (sside s) l with Some s' => slen s' | None => 0%Q end.

Definition spec_w_only1 (tips : bool) (t1 t2 : utree) : list Q :=
  map slen (only_in (split_list tips t1) (split_list tips t2)).
Definition spec_w_only2 (tips : bool) (t1 t2 : utree) : list Q :=
  map slen (only_in (split_list tips t2) (split_list tips t1)).
Definition spec_w_common (tips : bool) (t1 t2 : utree) : list Q :=
  map (fun s2 => (len_in (split_list tips t1) s2 - slen s2)%Q) (in_both (split_list tips t2) (split_list tips t1)).

(** the domain of C08: both trees well formed, root of degree >= 3, no node with a single child,
    distinct tip names, at least 4 of them, the same ones in both trees *)
Fixpoint nodup_sorted (l : list string) : bool :=
  match l with
  | x :: ((y :: _) as r) => negb (String.eqb x y) && nodup_sorted r
  | _ => true
  end.

Definition unrooted_ok (t : utree) : bool :=
  wf t && Nat.leb 3 (degree t) && no_single t && nodup_sorted (ssort (leaves t)) && Nat.leb 4 (length (leaves t)).

Definition same_taxa (t1 t2 : utree) : bool := sset_eqb (tipset t1) (tipset t2).
