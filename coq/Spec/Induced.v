(** The tree induced on a subset of the tips, on observables (independent of the pruning
    algorithm): restricted bipartitions and restricted tip-to-tip path lengths. *)
From Coq Require Import String ZArith QArith Bool Arith List.
From GT Require Import Base.Sexp Base.UTree Spec.Obs.
Import ListNotations.
Local Close Scope Q_scope.

(** [R]: the remaining tips, sorted.  Restriction of a bipartition given by one side: the side
    intersected with R, re-canonicalised among R. *)
Definition restrict_side (R side : list string) : list string :=
  canon_side R (sinter side R).

(** non-trivial among |R| tips: both sides have at least two tips *)
Definition nontrivial_key (n : nat) (k : list string) : bool :=
  Nat.leb 2 (length k) && Nat.leb 2 (n - length k).

Definition key_mem (k : list string) (l : list (list string)) : bool := existsb (sset_eqb k) l.

Fixpoint dedup_keys (l : list (list string)) : list (list string) :=
  match l with
  | [] => []
  | k :: r => if key_mem k r then dedup_keys r else k :: dedup_keys r
  end.

(** the set of non-trivial restrictions of the bipartitions [keys] to R *)
Definition restrict (R : list string) (keys : list (list string)) : list (list string) :=
  dedup_keys (filter (nontrivial_key (length R)) (map (restrict_side R) keys)).

Definition keys_subset (a b : list (list string)) : bool := forallb (fun k => key_mem k b) a.
Definition keys_eq (a b : list (list string)) : bool := keys_subset a b && keys_subset b a.

(** non-trivial bipartitions of a tree *)
Definition nontrivial_keys (t : utree) : list (list string) :=
  dedup_keys (filter (nontrivial_key (length (tipset t))) (map sside (usplits t))).

(** path lengths between the tips of R in t *)
Definition restrict_dists (w : einfo -> Q) (t : utree) (R : list string) : list (list (option Q)) :=
  map (fun a => map (fun b => dist_opt w t a b) R) R.

(** [g] is the tree induced by [t] on the sorted tip list [R] *)
Definition induced_tips (g : utree) (R : list string) : bool := sset_eqb (ssort (leaves g)) R.
Definition induced_splits (t g : utree) (R : list string) : bool :=
  keys_eq (nontrivial_keys g) (restrict R (map sside (usplits t))).
Definition induced_dists (t g : utree) (R : list string) : bool :=
  matrix_eqb (dist_matrix len0 g) (restrict_dists len0 t R).

(** the same with every present length read as itself, negative ones included ([len0] of Spec/Obs.v
    reads every negative length as 0, not only the absent sentinel -1) *)
Definition len_raw (e : einfo) : Q := if qeqb (elen e) nilv then 0%Q else elen e.
Definition induced_dists_raw (t g : utree) (R : list string) : bool :=
  matrix_eqb (dist_matrix len_raw g) (restrict_dists len_raw t R).

(** ** single-child inner nodes: none may be created by the pruning *)
(** the (restricted, non-empty) leaf sets below the non-root nodes with exactly two neighbours *)
Fixpoint single_clades_sub (f : list string -> list string) (t : utree) : list (list string) :=
  match t with
  | UNode _ _ sl =>
    (if Nat.eqb (length sl) 2 then match f (leaves t) with [] => [] | L => [L] end else []) ++
    flat_map (fun s => match s with Some (_, c) => single_clades_sub f c | None => [] end) sl
  end.
Definition single_clades (f : list string -> list string) (t : utree) : list (list string) :=
  flat_map (fun p => single_clades_sub f (snd p)) (kids t).

Fixpoint remove_key (k : list string) (l : list (list string)) : option (list (list string)) :=
  match l with
  | [] => None
  | x :: r => if sset_eqb k x then Some r
              else match remove_key k r with Some r' => Some (x :: r') | None => None end
  end.
Fixpoint keys_msub (a b : list (list string)) : bool :=
  match a with
  | [] => true
  | k :: r => match remove_key k b with Some b' => keys_msub r b' | None => false end
  end.

(** every single-child node of [g] (with its leaf set) is accounted for by a single-child node of [t]
    whose leaf set restricted to the kept tips [R] is the same: the pruning created none.
    On an input without single-child nodes this is [no_single g]. *)
Definition singles_not_created (t g : utree) (R : list string) : bool :=
  keys_msub (single_clades (fun L => sset L) g) (single_clades (fun L => sinter (sset L) R) t).
