(** The tree induced on a subset of the tips, on observables (independent of the pruning
    algorithm): restricted bipartitions and restricted tip-to-tip path lengths. *)
From Coq Require Import String ZArith QArith Bool Arith List.
From GT Require Import Base.Sexp Base.UTree Spec.Obs.
Import ListNotations.
Local Close Scope Q_scope.

(** [R]: the remaining tips, sorted.  Restriction of a bipartition given by one side: the side
    intersected with R, re-canonicalised among R. *)
Definition restrict_side (R side : list string) : list string :=
  canon_side R (sinter side R).

(** non-trivial among |R| tips: both sides have at least two tips *)
Definition nontrivial_key (n : nat) (k : list string) : bool :=
  Nat.leb 2 (length k) && Nat.leb 2 (n - length k).

Definition key_mem (k : list string) (l : list (list string)) : bool := existsb (sset_eqb k) l.

Fixpoint dedup_keys (l : list (list string)) : list (list string) :=
  match l with
  | [] => []
  | k :: r => if key_mem k r then dedup_keys r else k :: dedup_keys r
  end.

(** the set of non-trivial restrictions of the bipartitions [keys] to R *)
Definition restrict (R : list string) (keys : list (list string)) : list (list string) :=
  dedup_keys (filter (nontrivial_key (length R)) (map (restrict_side R) keys)).

Definition keys_subset (a b : list (list string)) : bool := forallb (fun k => key_mem k b) a.
Definition keys_eq (a b : list (list string)) : bool := keys_subset a b && keys_subset b a.

(** non-trivial bipartitions of a tree *)
Definition nontrivial_keys (t : utree) : list (list string) :=
  dedup_keys (filter (nontrivial_key (length (tipset t))) (map sside (usplits t))).

(** path lengths between the tips of R in t *)
Definition restrict_dists (w : einfo -> Q) (t : utree) (R : list string) : list (list (option Q)) :=
  map (fun a => map (fun b => dist_opt w t a b) R) R.

(** [g] is the tree induced by [t] on the sorted tip list [R] *)
Definition induced_tips (g : utree) (R : list string) : bool := sset_eqb (ssort (leaves g)) R.
Definition induced_splits (t g : utree) (R : list string) : bool :=
  keys_eq (nontrivial_keys g) (restrict R (map sside (usplits t))).
Definition induced_dists (t g : utree) (R : list string) : bool :=
  matrix_eqb (dist_matrix len0 g) (restrict_dists len0 t R).
