(** What property C01 speaks about, independently of the writer and the parser:
    - [rose]: the rooted ordered tree with all its decorations (a [utree] with the parent
      slots dropped), and equality on it up to [Qeq] on the numbers;
    - [wfN]: the boolean transcription of the quantifier of C01 ("all well-formed trees: any
      number of tips >= 2, root with >= 2 children, any multifurcation degree, rooted or
      not; tip names non-empty, without the Newick metacharacters ()[],:; and without
      surrounding blanks; internal names additionally not numeric-looking (not a float, not
      float/float); finite lengths, supports and p-values other than the -1 'absent'
      sentinel; comments free of ']' on nodes and the root (any number) and on branches (at
      most one, only on a branch that has a length); an inner node carries either a name or
      a support (p-value only together with a support)").
    No proofs in this file. *)
From Coq Require Import String Ascii ZArith QArith Bool Arith List.
From GT Require Import Base.UTree Model.Newick.
Import ListNotations.
Local Close Scope Q_scope.
Local Open Scope string_scope.

Inductive rose : Type :=
| RNode (name : string) (ncom : list string) (kids : list (einfo * rose)).

Fixpoint rose_of (t : utree) : rose :=
  match t with
  | UNode n c sl =>
    RNode n c ((fix go (l : list slot) : list (einfo * rose) :=
                  match l with
                  | [] => []
                  | None :: r => go r
                  | Some (e, ch) :: r => (e, rose_of ch) :: go r
                  end) sl)
  end.

(** same shape, child order, names, comments; lengths, supports, p-values equal as
    rationals *)
Fixpoint rose_eqb (a b : rose) : bool :=
  match a, b with
  | RNode n1 c1 k1, RNode n2 c2 k2 =>
    String.eqb n1 n2 && list_eqb String.eqb c1 c2 &&
    (fix go (l1 l2 : list (einfo * rose)) : bool :=
       match l1, l2 with
       | [], [] => true
       | (e1, t1) :: r1, (e2, t2) :: r2 => einfo_eqb e1 e2 && rose_eqb t1 t2 && go r1 r2
       | _, _ => false
       end) k1 k2
  end.

(** * The quantifier *)
Fixpoint forall_chars (p : ascii -> bool) (s : string) : bool :=
  match s with
  | EmptyString => true
  | String c r => p c && forall_chars p r
  end.

(** Names and comments are text: valid UTF-8 without NUL.  (The reader decodes runes, turns
    undecodable bytes into U+FFFD and takes rune 0 for the end of its input: DESIGN 3.3
    reads "names" and "comments" in C01 as such text.) *)
Definition text_ok (s : string) : bool :=
  let '(o, st) := ufold uclean s in String.eqb o s && Nat.eqb (uneed st) 0.

(** none of  ( ) [ ] , : ;  (and not NUL) *)
Definition name_char (c : ascii) : bool := negb (is_meta c) && negb (Ascii.eqb c ";") && negb (is_nul c).
Definition no_blank_around (n : string) : bool := String.eqb (trim_space n) n.

Definition tip_name_ok (n : string) : bool :=
  negb (String.eqb n "") && forall_chars name_char n && no_blank_around n && text_ok n.

(** characters of a printed number: ASCII, no metacharacter, no ';', no blank, no '/', no NUL *)
Definition num_char (c : ascii) : bool :=
  is_ident false c && negb (is_ws c) && negb (Ascii.eqb c "/") && negb (is_nul c) &&
  Nat.ltb (nat_of_ascii c) 128.
Definition no_slash (s : string) : bool := forall_chars (fun c => negb (Ascii.eqb c "/")) s.

Definition comment_char (x : ascii) : bool := negb (Ascii.eqb x "]") && negb (is_nul x).
Definition comment_ok (c : string) : bool := forall_chars comment_char c && text_ok c.

Section Quantifier.
  (** "is a float" as the reader understands it (strconv.ParseFloat succeeds), and which
      numbers are values of the implementation's number type *)
  Variable numeric : string -> bool.
  Variable numok : Q -> bool.

  (** not a float, not float/float *)
  Definition numeric_looking (n : string) : bool :=
    numeric n || match split2 n with Some (a, b) => numeric a && numeric b | None => false end.

  Definition inner_name_ok (n : string) : bool :=
    String.eqb n "" ||
    (forall_chars name_char n && no_blank_around n && text_ok n && negb (numeric_looking n)).

  Definition num_ok (x : Q) : bool := negb (present x) || numok x.

  (** the branch [e] above the node named [n] *)
  Definition edge_ok (e : einfo) (n : string) : bool :=
    num_ok (elen e) && num_ok (esup e) && num_ok (epv e) &&
    (* either a name or a support; a tip always has a name *)
    (String.eqb n "" || (negb (present (esup e)) && negb (present (epv e)))) &&
    (* p-value only together with a support *)
    (negb (present (epv e)) || present (esup e)) &&
    (* at most one branch comment, only on a branch that has a length *)
    forallb comment_ok (ecom e) &&
    match ecom e with [] => true | [_] => present (elen e) | _ => false end.

  Fixpoint wfN_sub (e : einfo) (t : utree) : bool :=
    match t with
    | UNode n c sl =>
      Nat.eqb (n_up sl) 1 &&
      (match kids_of sl with [] => tip_name_ok n | _ => inner_name_ok n end) &&
      forallb comment_ok c &&
      edge_ok e n &&
      forallb (fun s => match s with Some (e', ch) => wfN_sub e' ch | None => true end) sl
    end.

  Definition wfN (t : utree) : bool :=
    match t with
    | UNode n c sl =>
      Nat.eqb (n_up sl) 0 &&
      Nat.leb 2 (length (kids_of sl)) &&
      inner_name_ok n &&
      forallb comment_ok c &&
      forallb (fun s => match s with Some (e', ch) => wfN_sub e' ch | None => true end) sl
    end.
End Quantifier.
