(** Bootstrap supports by their definitions, independently of the algorithms of
    support/fbp.go and support/tbe.go.

    X is the taxon set (the leaves of the reference tree); a branch is the set of leaves below
    it; the bipartition it defines is {A, X \ A}.
    - Felsenstein support of a reference branch: the fraction of bootstrap trees having a
      branch that defines the same bipartition.
    - transfer distance between a reference branch and a bootstrap branch: the number of taxa
      to move (remove from one side, add to the other) to turn one bipartition into the other,
      i.e. min(|L Δ B|, |X| - |L Δ B|) for L one side of the first and B one side of the second;
      transfer index of a branch and a bootstrap tree: the minimum over the branches of the
      tree; transfer support: 1 - (mean transfer index) / (p - 1), p the size of the light
      (smaller) side of the reference branch.  *)
From Coq Require Import String ZArith QArith Bool Arith List.
From GT Require Import Base.UTree Spec.Obs.
Import ListNotations.
Local Close Scope Q_scope.

(** every branch of the tree, as the list of the leaves below it *)
Fixpoint clades (t : utree) : list (list string) :=
  match t with
  | UNode _ _ sl =>
    flat_map (fun s => match s with
                       | Some (_, c) => leaves c :: clades c
                       | None => [] end) sl
  end.

(** A and B are the same subset of X *)
Definition same_side (X A B : list string) : bool :=
  forallb (fun x => Bool.eqb (smem x A) (smem x B)) X.

(** {A, X\A} = {B, X\B} *)
Definition same_split (X A B : list string) : bool :=
  same_side X A B || same_side X A (sdiff X B).

Definition has_split (X A : list string) (T : utree) : bool :=
  existsb (same_split X A) (clades T).

Definition sqnat (n : nat) : Q := inject_Z (Z.of_nat n).

(** number of bootstrap trees containing the split *)
Definition n_with_split (X A : list string) (boots : list utree) : nat :=
  length (filter (has_split X A) boots).

Definition fbp_spec (X A : list string) (boots : list utree) : Q :=
  (sqnat (n_with_split X A boots) / sqnat (length boots))%Q.

(** the light side of {A, X\A} (A itself on a tie) *)
Definition light (X A : list string) : list string :=
  let a := sinter X A in
  let b := sdiff X A in
  if Nat.leb (length a) (length b) then a else b.

(** |L Δ B| within X *)
Definition symdiff (X L B : list string) : nat :=
  length (filter (fun x => xorb (smem x L) (smem x B)) X).

(** taxa to move between the bipartitions {L, X\L} and {B, X\B} *)
Definition tdist (X L B : list string) : nat :=
  Nat.min (symdiff X L B) (length X - symdiff X L B).

(** transfer index: minimum over the branches of T (|X| bounds every tdist from above) *)
Definition delta (X L : list string) (T : utree) : nat :=
  fold_right Nat.min (length X) (map (tdist X L) (clades T)).

Definition sum_delta (X L : list string) (boots : list utree) : nat :=
  fold_right (fun T acc => delta X L T + acc) 0 boots.

Definition tbe_spec (X A : list string) (boots : list utree) : Q :=
  let L := light X A in
  (1 - (sqnat (sum_delta X L boots) / sqnat (length boots)) / sqnat (length L - 1))%Q.
