(** Vocabulary of the C20 counting statements: the finite space of choice vectors within given
    bounds (each component uniform on its range -- the only assumption on math/rand), counting
    in it, factorials, k-subsets. *)
From Coq Require Import Bool Arith List.
Import ListNotations.

(** a choice vector is within bounds: component i is < bound i, same length *)
Definition in_bounds (cs bounds : list nat) : Prop := Forall2 lt cs bounds.

(** number of elements of [l] satisfying [p] *)
Definition count_where {A} (p : A -> bool) (l : list A) : nat := length (filter p l).

Definition prod (l : list nat) : nat := fold_right Nat.mul 1 l.

(** all k-subsets of a list, as sublists (sorted when the list is) *)
Fixpoint subsets (k : nat) (l : list nat) : list (list nat) :=
  match k, l with
  | O, _ => [[]]
  | S _, [] => []
  | S k', x :: r => map (cons x) (subsets k' r) ++ subsets k r
  end.

Fixpoint ninsert (x : nat) (l : list nat) : list nat :=
  match l with
  | [] => [x]
  | y :: r => if Nat.leb x y then x :: l else y :: ninsert x r
  end.
Definition nsort (l : list nat) : list nat := fold_right ninsert [] l.

Definition nat_list_eqb (a b : list nat) : bool :=
  (fix go (l1 l2 : list nat) : bool :=
     match l1, l2 with
     | [], [] => true
     | x :: r1, y :: r2 => Nat.eqb x y && go r1 r2
     | _, _ => false
     end) a b.

(** the content of a reservoir: the filled slots *)
Definition filled {A} (out : list (option A)) : list A :=
  flat_map (fun s => match s with Some x => [x] | None => [] end) out.

(** the outcome of a selection loop is exactly the given vector of items *)
Definition onat_eqb (a b : option nat) : bool :=
  match a, b with
  | Some x, Some y => Nat.eqb x y
  | None, None => true
  | _, _ => false
  end.
Fixpoint onat_list_eqb (l1 l2 : list (option nat)) : bool :=
  match l1, l2 with
  | [], [] => true
  | x :: r1, y :: r2 => onat_eqb x y && onat_list_eqb r1 r2
  | _, _ => false
  end.
Definition out_is (v : list nat) (o : option (list (option nat))) : bool :=
  match o with
  | Some out => onat_list_eqb out (map Some v)
  | None => false
  end.
(** the set of selected items is exactly the sorted list [s] *)
Definition out_set_is (s : list nat) (o : option (list (option nat))) : bool :=
  match o with
  | Some out => nat_list_eqb (nsort (filled out)) s
  | None => false
  end.
