(** Specification of maximum parsimony on a tree, independent of the algorithm.

    A state is a [nat].  A tip (a node without children) called [n] may hold any state of
    the set [ts n].  A labelling gives a state to every node; the states given to tips are
    ignored: a branch to a tip costs 0 when the state of its upper end belongs to the tip's
    set and 1 otherwise; a branch between two inner nodes costs 1 when the two states differ.
    [is_mincost ts t m]: [m] is the least cost over all labellings (of any states). *)
From Coq Require Import String ZArith QArith Bool Arith List.
From GT Require Import Base.UTree.
Import ListNotations.
Local Close Scope Q_scope.

(** labels, in the shape of the tree: slot i of the labelling mirrors slot i of the node *)
Inductive ltree : Type := LNode (x : nat) (sl : list (option ltree)).
Definition lroot (l : ltree) : nat := match l with LNode x _ => x end.
Definition lslots (l : ltree) : list (option ltree) := match l with LNode _ s => s end.

Definition is_leaf (t : utree) : bool := match kids t with [] => true | _ => false end.
Definition mem (x : nat) (l : list nat) : bool := existsb (Nat.eqb x) l.

Definition shape_slots (rec : utree -> ltree -> bool) : list slot -> list (option ltree) -> bool :=
  fix go (a : list slot) (b : list (option ltree)) : bool :=
    match a, b with
    | [], [] => true
    | None :: a', None :: b' => go a' b'
    | Some (_, c) :: a', Some lc :: b' => rec c lc && go a' b'
    | _, _ => false
    end.

Fixpoint shape_ok (t : utree) (l : ltree) : bool :=
  match t, l with
  | UNode _ _ sl, LNode _ ll => shape_slots shape_ok sl ll
  end.

(** cost of the branch from a node labelled [x] to its child [c] labelled as [lc], plus
    what [rec] says of the subtree *)
Definition branch_cost (ts : string -> list nat) (rec : utree -> ltree -> nat)
           (x : nat) (c : utree) (lc : ltree) : nat :=
  if is_leaf c then (if mem x (ts (uname c)) then 0 else 1)
  else (if Nat.eqb x (lroot lc) then 0 else 1) + rec c lc.

Definition cost_slots (ts : string -> list nat) (rec : utree -> ltree -> nat) (x : nat)
  : list slot -> list (option ltree) -> nat :=
  fix go (a : list slot) (b : list (option ltree)) : nat :=
    match a, b with
    | Some (_, c) :: a', Some lc :: b' => branch_cost ts rec x c lc + go a' b'
    | _ :: a', _ :: b' => go a' b'
    | _, _ => 0
    end.

(** number of changes of the labelling [l] of [t] *)
Fixpoint cost (ts : string -> list nat) (t : utree) (l : ltree) : nat :=
  match t, l with
  | UNode _ _ sl, LNode x ll => cost_slots ts (cost ts) x sl ll
  end.

Definition is_mincost (ts : string -> list nat) (t : utree) (m : nat) : Prop :=
  (exists l, shape_ok t l = true /\ cost ts t l = m) /\
  (forall l, shape_ok t l = true -> m <= cost ts t l).

Definition optimal (ts : string -> list nat) (t : utree) (l : ltree) : Prop :=
  shape_ok t l = true /\ forall l', shape_ok t l' = true -> cost ts t l <= cost ts t l'.

(** labels in pre-order (parallel to [nodes t]) *)
Fixpoint lflat (l : ltree) : list nat :=
  match l with
  | LNode x sl => x :: flat_map (fun s => match s with Some c => lflat c | None => [] end) sl
  end.

(** state [x] occurs at the node of pre-order index [i] in some most-parsimonious labelling *)
Definition opt_state (ts : string -> list nat) (t : utree) (i x : nat) : Prop :=
  exists l, optimal ts t l /\ nth_error (lflat l) i = Some x.

(** nodes addressed by their path from the root (slot indexes, as Model.Reroot.paths, which
    lists the paths of [nodes t] in the same order) *)
Fixpoint lsub (l : ltree) (p : list nat) : option ltree :=
  match p with
  | [] => Some l
  | i :: q => match nth_error (lslots l) i with
              | Some (Some c) => lsub c q
              | _ => None
              end
  end.
Definition label_at (l : ltree) (p : list nat) : option nat :=
  match lsub l p with Some c => Some (lroot c) | None => None end.

(** state [x] occurs at the node of path [p] in some most-parsimonious labelling *)
Definition opt_state_at (ts : string -> list nat) (t : utree) (p : list nat) (x : nat) : Prop :=
  exists l, optimal ts t l /\ label_at l p = Some x.

(** * Executable versions (tests and the judge's oracle) *)

Definition list_min (l : list nat) : nat :=
  match l with [] => 0 | x :: r => fold_left Nat.min r x end.

(** ** brute force: every labelling with states < k (tips get the dummy label 0) *)
Fixpoint all_labellings (k : nat) (t : utree) : list ltree :=
  match t with
  | UNode _ _ sl =>
    match kids_of sl with
    | [] => [LNode 0 (map (fun _ => None) sl)]
    | _ =>
      let choices : list (list (option ltree)) :=
          fold_right (fun s acc =>
                        match s with
                        | None => map (cons None) acc
                        | Some (_, c) => flat_map (fun lc => map (cons (Some lc)) acc) (all_labellings k c)
                        end) [[]] sl in
      flat_map (fun x => map (LNode x) choices) (seq 0 k)
    end
  end.

Definition mincost_bf (k : nat) (ts : string -> list nat) (t : utree) : nat :=
  list_min (map (cost ts t) (all_labellings k t)).

(** the states found at node [i] in the optimal labellings, by enumeration *)
Definition opt_states_bf (k : nat) (ts : string -> list nat) (t : utree) (i : nat) : list nat :=
  let ls := all_labellings k t in
  let m := list_min (map (cost ts t) ls) in
  let best := filter (fun l => Nat.eqb (cost ts t l) m) ls in
  filter (fun x => existsb (fun l => match nth_error (lflat l) i with Some y => Nat.eqb x y | None => false end) best)
         (seq 0 k).

(** ** Sankoff dynamic programme with unit costs over the states 0..k-1 *)
(** [gvec]: for each state x of the upper end of the branch to [c], the least cost of the
    branch plus the subtree; [fc] = the subtree costs of [c] per state of [c] *)
Definition gtrans (f : list nat) : list nat :=
  let m := list_min f in map (fun fx => Nat.min fx (S m)) f.

Definition gvec (k : nat) (ts : string -> list nat) (c : utree) (fc : list nat) : list nat :=
  if is_leaf c then map (fun x => if mem x (ts (uname c)) then 0 else 1) (seq 0 k)
  else gtrans fc.

Fixpoint vplus (a b : list nat) : list nat :=
  match a, b with
  | x :: a', y :: b' => (x + y) :: vplus a' b'
  | _, _ => a
  end.
Fixpoint vminus (a b : list nat) : list nat :=
  match a, b with
  | x :: a', y :: b' => (x - y) :: vminus a' b'
  | _, _ => a
  end.

(** least cost of the subtree of [t] for every state of [t] ([t] not a leaf) *)
Fixpoint sank (k : nat) (ts : string -> list nat) (t : utree) : list nat :=
  match t with
  | UNode _ _ sl =>
    fold_left vplus
              (flat_map (fun s => match s with
                                  | Some (_, c) => [gvec k ts c (sank k ts c)]
                                  | None => [] end) sl)
              (repeat 0 k)
  end.

Definition mincost_sank (k : nat) (ts : string -> list nat) (t : utree) : nat :=
  if is_leaf t then 0 else list_min (sank k ts t).

(** second pass: for every node in pre-order, [Some tot] with [tot x] = least cost of a
    labelling of the whole tree giving x to this node ([None] at leaves).
    [above x] = least cost of everything outside the subtree, branch included, given x here. *)
Fixpoint sank_down (k : nat) (ts : string -> list nat) (t : utree) (above : list nat)
  : list (option (list nat)) :=
  match t with
  | UNode _ _ sl =>
    match kids_of sl with
    | [] => [None]
    | _ =>
      let tot := vplus (sank k ts t) above in
      Some tot ::
      flat_map (fun s => match s with
                         | Some (_, c) =>
                           sank_down k ts c (gtrans (vminus tot (gvec k ts c (sank k ts c))))
                         | None => [] end) sl
    end
  end.

Definition sank_totals (k : nat) (ts : string -> list nat) (t : utree) : list (option (list nat)) :=
  sank_down k ts t (repeat 0 k).

(** the states of minimal total, as a 0/1 list *)
Definition opt_set (m : nat) (tot : list nat) : list bool := map (fun c => Nat.eqb c m) tot.

(** ** a labelling from the list of labels in pre-order *)
Fixpoint ltree_of (t : utree) (ls : list nat) : ltree * list nat :=
  match t with
  | UNode _ _ sl =>
    let x := hd 0 ls in
    let '(sl', rest) :=
        (fix go (a : list slot) (ls : list nat) : list (option ltree) * list nat :=
           match a with
           | [] => ([], ls)
           | None :: a' => let '(r, ls') := go a' ls in (None :: r, ls')
           | Some (_, c) :: a' =>
             let '(lc, ls1) := ltree_of c ls in
             let '(r, ls2) := go a' ls1 in
             (Some lc :: r, ls2)
           end) sl (tl ls) in
    (LNode x sl', rest)
  end.
