(** Specification of "cutting branches at a length threshold" (C14), written independently
    of the flood fill of the code: the tree is seen as a graph on numbered nodes; the classes
    of the smallest equivalence joining the two ends of every branch shorter than the
    threshold are computed by repeated merging (a naive union-find); the groups are the sets
    of tips of the classes that contain at least one tip. *)
From Coq Require Import String ZArith QArith Bool Arith List.
From GT Require Import Base.UTree Spec.Obs.
Import ListNotations.
Local Close Scope Q_scope.

(** nodes are numbered in pre-order (the position in [nodes t]); one entry
    (parent, child, branch) per branch *)
Fixpoint gedges (t : utree) (id : nat) : list (nat * nat * einfo) :=
  match t with
  | UNode _ _ sl =>
    (fix go (l : list slot) (next : nat) : list (nat * nat * einfo) :=
       match l with
       | [] => []
       | None :: r => go r next
       | Some (e, c) :: r => (id, next, e) :: gedges c next ++ go r (next + usize c)
       end) sl (S id)
  end.

Definition nmem (x : nat) (l : list nat) : bool := existsb (Nat.eqb x) l.

(** merge the classes of [u] and [v] *)
Definition union (u v : nat) (cl : list (list nat)) : list (list nat) :=
  let hit := filter (fun c => nmem u c || nmem v c) cl in
  let miss := filter (fun c => negb (nmem u c || nmem v c)) cl in
  concat hit :: miss.

(** is the branch shorter than the threshold?  The stored number is compared: a branch
    without length carries -1 and is shorter than every threshold above -1. *)
Definition is_short (maxlen : Q) (e : einfo) : bool := negb (Qle_bool maxlen (elen e)).

Definition classes (maxlen : Q) (t : utree) : list (list nat) :=
  fold_left (fun cl x => if is_short maxlen (snd x) then union (fst (fst x)) (snd (fst x)) cl else cl)
            (gedges t 0)
            (map (fun i => [i]) (seq 0 (length (nodes t)))).

(** names of the tips (nodes with exactly one neighbour) among the nodes of a class *)
Definition class_tips (t : utree) (c : list nat) : list string :=
  flat_map (fun i => match nth_error (nodes t) i with
                     | Some x => if is_tip x then [uname x] else []
                     | None => [] end) c.

(** the groups: sorted tip names of every class that holds a tip *)
Definition cut_groups (maxlen : Q) (t : utree) : list (list string) :=
  filter (fun g => match g with [] => false | _ => true end)
         (map (fun c => ssort (class_tips t c)) (classes maxlen t)).

(** comparison as sets of sets (each group given as a sorted list of names) *)
Definition group_mem (g : list string) (l : list (list string)) : bool :=
  existsb (fun h => list_eqb String.eqb g h) l.
Definition groups_eqb (a b : list (list string)) : bool :=
  Nat.eqb (length a) (length b) &&
  forallb (fun g => group_mem g b) a && forallb (fun g => group_mem g a) b.

(** * the same specification, said with paths *)
(** a branch that is not shorter than the threshold counts 1, a shorter one 0: the sum over
    the path between two tips ([pairdists] of Spec/Obs.v with this weight) is the number of
    long branches on the path; two tips are joined by a path of branches all shorter than the
    threshold exactly when this number is 0. *)
Definition w_long (maxlen : Q) (e : einfo) : Q := if is_short maxlen e then 0%Q else 1%Q.

Definition joined (maxlen : Q) (t : utree) (a b : string) : bool :=
  match dist_opt (w_long maxlen) t a b with
  | Some d => Qeq_bool d 0%Q
  | None => false
  end.

Definition same_bag (bags : list (list string)) (a b : string) : bool :=
  existsb (fun g => smem a g && smem b g) bags.

(** the bags are the classes of [joined]: every tip is in exactly one bag, and two tips are in
    the same bag exactly when they are joined *)
Definition bags_are_classes (maxlen : Q) (t : utree) (bags : list (list string)) : bool :=
  let ts := leaves t in
  list_eqb String.eqb (ssort (concat bags)) (ssort ts) &&
  forallb (fun a => forallb (fun b => Bool.eqb (joined maxlen t a b) (same_bag bags a b)) ts) ts.
