(** Judge for C06: pruning yields exactly the induced subtree.
    case: ((tree T) (names ("a" ...)) (revert T|F))
    obs : ((err msg)) on refusal, else
          ((err "") (tree T') (audit (...)) (lookups ((name exists tipnode tipindex) ...))
           (nbtips n) (ntips n) (nalltips n))
    Verdict priority: oracle clauses about the tree, then the oracle clause about the name look-ups,
    then the correspondence with the model (structure and name index). *)
From Coq Require Import String ZArith QArith Bool Arith List.
From GT Require Import Base.Sexp Base.UTree Base.Codec Spec.Obs Spec.Induced Model.Reroot Model.Prune Judge.Common.
Import ListNotations.
Local Close Scope Q_scope.
Local Open Scope string_scope.

Record lookup : Type := mkLookup { lname : string; lexists : string; ltipnode : string; ltipindex : string }.

Definition dec_lookup (s : sexp) : option lookup :=
  match s with
  | SList [a; b; c; d] =>
    a' <- dec_string a ;; b' <- dec_string b ;; c' <- dec_string c ;; d' <- dec_string d ;;
    Some (mkLookup a' b' c' d')
  | _ => None
  end.

Fixpoint nodup_sorted (l : list string) : bool :=
  match l with
  | a :: ((b :: _) as r) => negb (String.eqb a b) && nodup_sorted r
  | _ => true
  end.

(** the answers the name table [idx] gives for [nm] when the tree is [g] *)
Definition expect_lookup (idx : list string) (g : utree) (nm : string) : lookup :=
  match idx with
  | [] => mkLookup nm "E" "F" "F"
  | _ => if smem nm idx
         then mkLookup nm "T" (if has_tip nm g then "T" else "S") "T"
         else mkLookup nm "F" "F" "F"
  end.

Definition lookup_eqb (a b : lookup) : bool :=
  String.eqb (lname a) (lname b) && String.eqb (lexists a) (lexists b) &&
  String.eqb (ltipnode a) (ltipnode b) && String.eqb (ltipindex a) (ltipindex b).

Definition show_lookup (l : lookup) : string :=
  lname l ++ ": ExistsTip=" ++ lexists l ++ " TipNode=" ++ ltipnode l ++ " TipIndex=" ++ ltipindex l.

(** first look-up that differs from what the table [idx] answers *)
Definition lookups_against (idx : list string) (g : utree) (ls : list lookup) (nb : Z) : option string :=
  match find (fun l => negb (lookup_eqb l (expect_lookup idx g (lname l)))) ls with
  | Some l => Some (show_lookup l ++ " expected " ++ show_lookup (expect_lookup idx g (lname l)))
  | None =>
    let want := match idx with [] => (-1)%Z | _ => Z.of_nat (length idx) end in
    if Z.eqb nb want then None
    else Some ("NbTips=" ++ string_of_Z nb ++ " expected " ++ string_of_Z want)
  end.

Definition judge (c o : sexp) : verdict :=
  match get_tree "tree" c, get_strings "names" c, get_bool "revert" c with
  | Some t0, Some names, Some rev =>
    (* with a pre-history the input of RemoveTips is the tree dumped just before the call *)
    let t := match get_tree "pretree" o with Some p => p | None => t0 end in
    match get_string "preerr" o with
    | Some m => VOk false "pre:err"
    | None =>
    match (match get "preaudit" o with Some _ => get_strings "preaudit" o | None => Some [] end) with
    | Some (_ :: _) => VOk false "pre:audit"
    | None => VBad "undecodable preaudit"
    | Some [] =>
    let orig := tip_names t in
    let kept := ssort (filter (fun x => negb (selected rev names x)) (leaves t)) in
    let removed := filter (fun x => selected rev names x) (leaves t) in
    (* the property's quantifier *)
    let in_dom := wf t && no_single t && Nat.leb 2 (degree t) && nodup_sorted (ssort (leaves t))
                  && Nat.leb 3 (length kept) in
    let in_dom_single := wf t && negb (no_single t) && Nat.leb 2 (degree t) && nodup_sorted (ssort (leaves t))
                         && Nat.leb 3 (length kept) in
    let tag := (match get "pretree" o with Some _ => "pre:" | None => "" end) ++ (if rev then "keep" else "remove") ++
               (match removed with [] => ":none" | _ => "" end) ++
               (if in_dom then "" else if in_dom_single then ":single" else ":outside") in
    match get_string "panic" o with
    | Some p => if in_dom then VOracle ("crash: " ++ p) else VCorr ("crash outside the property's domain: " ++ p)
    | None =>
    match get_string "err" o with
    | None => VBad "no err in observation"
    | Some gerr =>
      match remove_tips rev names t with
      | Err m =>
        if String.eqb gerr "" then VCorr ("model refuses (" ++ m ++ "), implementation succeeds")
        else if negb (String.eqb gerr m) then VCorr ("model error: " ++ m ++ " / implementation error: " ++ gerr)
        else if in_dom then VOracle ("pruning refused: " ++ gerr)
        else VOk true (tag ++ ":err")
      | Ok t' =>
        if negb (String.eqb gerr "") then
          (if in_dom then VOracle ("pruning refused: " ++ gerr)
           else VCorr ("implementation refuses: " ++ gerr ++ " / model: " ++ show_utree t'))
        else
        match get_tree "tree" o, (x <- get "lookups" o ;; dec_list dec_lookup x),
              (x <- get "nbtips" o ;; dec_Z x), get_nat "ntips" o, get_nat "nalltips" o with
        | Some g, Some ls, Some nb, Some ntips, Some nall =>
          let tree_oracle :=
              if in_dom then
                first_some
                  [audit_ok o;
                   (if wf g then None else Some "result is not a well-formed rooted structure");
                   (if induced_tips g kept then None else Some "tip set is not the requested one");
                   (if no_single g then None else Some "a single-child inner node is left");
                   (if induced_splits t g kept then None else Some "splits are not the non-trivial restrictions of the original splits");
                   (if induced_dists t g kept then None else Some "a path length between two remaining tips changed")]
              else if in_dom_single then
                (* the input has single-child nodes (outside the proviso of the theorems); when the
                   pruning succeeds: exact tip set, unchanged path lengths, and no single-child node
                   CREATED (those of the input whose subtree keeps a tip may remain) *)
                first_some
                  [audit_ok o;
                   (if wf g then None else Some "result is not a well-formed rooted structure");
                   (if induced_tips g kept then None else Some "tip set is not the requested one");
                   (if singles_not_created t g kept then None else Some "a single-child inner node is left behind by the pruning");
                   (if induced_dists t g kept then None else Some "a path length between two remaining tips changed")]
              else None in
          match tree_oracle with
          | Some m => VOracle m
          | None =>
            let corr :=
                first_some
                  [(if utree_eqb t' g then None else Some ("model: " ++ show_utree t'));
                   (if Nat.eqb ntips (length (tips t')) then None else Some "len(Tips()) differs from the model");
                   (if Nat.eqb nall (length (all_tip_names t')) then None else Some "len(AllTipNames()) differs from the model");
                   match lookups_against (tip_index_after orig t') t' ls nb with
                   | Some m => Some ("name index differs from the model: " ++ m)
                   | None => None
                   end] in
            (* the look-up clause of the oracle speaks before the correspondence (the table of the
               model is the tip set of the result, so a wrong table is an oracle failure first) *)
            match (if in_dom then lookups_against (tip_names g) g ls nb else None) with
            | Some m => VOracle ("name look-ups do not reflect the new tip set: " ++ m)
            | None =>
              match corr with
              | Some m => VCorr m
              | None =>
                (* LAST, when every other clause and the correspondence passed: the path lengths with
                   every present length read as itself ([len0] reads a negative length as 0); known
                   finding C06-negative-length-clamped-on-merge *)
                if (in_dom || in_dom_single) && negb (induced_dists_raw t g kept)
                then VOracle "a path length between two remaining tips changed (a negative branch length was replaced by 0)"
                else VOk (negb (utree_eqb t g)) tag
              end
            end
          end
        | _, _, _, _, _ => VBad "undecodable observation"
        end
      end
    end
    end
    end
    end
  | _, _, _ => VBad "undecodable case"
  end.
