(** Judge for C11 (threaded computations).  The single-threaded semantics of the computations
    is tied to the model by C08/C10; here the observation holds the real results with one
    thread ("base") and with k threads ("multi") on the same input, and the oracle demands:
    no hang, no panic, identical per-tree results (records sorted by tree id by the worker),
    and an erroneous / foreign-taxon tree at any stream position reaches the caller as an error.
    case: ((op compare|weighted|fbp|tbe) (ref T) (trees (T ...)) (threads k) (badkind none|err|taxa) (badposs (i ...)) (tips b))
    obs : ((base R) (multi R)),  R = ((hang b) (err msg) (results (...))) | ((hang F) (panic msg))          *)
From Coq Require Import String ZArith QArith Bool Arith List.
From GT Require Import Base.Sexp Base.UTree Base.Codec Judge.Common.
Import ListNotations.
Local Close Scope Q_scope.
Local Open Scope string_scope.

Fixpoint sexp_eqb (a b : sexp) : bool :=
  match a, b with
  | Atom x, Atom y => String.eqb x y
  | SList l1, SList l2 =>
    (fix go (l1 l2 : list sexp) : bool :=
       match l1, l2 with
       | [], [] => true
       | x :: r1, y :: r2 => sexp_eqb x y && go r1 r2
       | _, _ => false
       end) l1 l2
  | _, _ => false
  end.

(** does a result record carry an error?  compare / weighted records end with the error text *)
Definition last_atom (s : sexp) : string :=
  match s with SList l => match last l (Atom "") with Atom a => a | _ => "" end | _ => "" end.

Definition run_problem (which : string) (op badkind : string) (r : sexp) : option string :=
  match get "panic" r with
  | Some _ => Some (which ++ ": panic")
  | None =>
    match get_bool "hang" r with
    | Some true => Some (which ++ ": the computation did not terminate (watchdog)")
    | Some false =>
      if String.eqb badkind "none" then
        (match get_string "err" r with Some "" => None | Some m => Some (which ++ ": unexpected error " ++ m) | None => Some "no err" end)
      else
        (* the error must reach the caller: as the function's error, or inside a result record *)
        let ferr := match get_string "err" r with Some m => negb (String.eqb m "") | None => false end in
        let rerr := match get "results" r with
                    | Some (SList l) => existsb (fun x => negb (String.eqb (last_atom x) "")) l
                    | _ => false end in
        let by_record := String.eqb op "compare" || String.eqb op "weighted" in
        if ferr || (by_record && rerr) then None
        else Some (which ++ ": the erroneous tree did not reach the caller as an error")
    | None => Some "undecodable run"
    end
  end.

Definition judge (c o : sexp) : verdict :=
  match get_string "op" c, get_string "badkind" c, get "base" o, get "multi" o with
  | Some op, Some bk, Some b, Some m =>
    match first_some [run_problem "one thread" op bk b; run_problem "several threads" op bk m] with
    | Some msg => VOracle msg
    | None =>
      (* with an erroneous tree FBP/TBE stop early: only the error is compared, supports are unspecified *)
      let comparable := String.eqb bk "none" || String.eqb op "compare" || String.eqb op "weighted" in
      if comparable && negb (match get "results" b, get "results" m with
                             | Some x, Some y => sexp_eqb x y | _, _ => false end)
      then VOracle "results with several threads differ from the single-threaded results"
      else VOk true (op ++ ":" ++ bk)
    end
  | _, _, _, _ => VBad "undecodable case or observation"
  end.
