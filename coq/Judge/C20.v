(** Judge for C20: random selection is unbiased.

    Per-seed cases tie the transcribed loops (Model/Sampling.v) to the code: the worker
    records the raw rand stream of the seed ([raw]); for [sample] and [prune] the case also
    carries what the real `gotree` binary selected when run with --seed (collected by
    driver/props/c20.py), and the model driven by the stream must predict it exactly; for
    [shuffle] the worker runs Tree.ShuffleTips on the seeded stream.

      ((op sample)  (n N) (k K) (replace T|F) (seed S) (nraw R) (rc 0) (selected (i ...)))
      ((op prune)   (tips ("a" ...)) (k K) (revert T|F) (seed S) (nraw R) (rc 0) (remaining ("a" ...)))
      ((op shuffle) (tree T) (seed S) (nraw R))
    obs: ((raw (x ...)) [(err "") (tree T') (audit (...))])

    Enumeration cases run the model on EVERY choice vector of a small instance and judge the
    resulting distribution (each component of the vector uniform on its range):
      ((op enum-sample) (n N) (k K) (replace T|F))     subsets (without replacement) / slot values
      ((op enum-prune) (n N) (k K))
      ((op enum-uniform) (n N) (rooted T|F))            labelled topologies of the uniform generator
      ((op enum-perm) (n N) (which perm|rotate))        permutations                                *)
From Coq Require Import String ZArith NArith QArith Bool Arith List.
From GT Require Import Base.Sexp Base.UTree Base.Codec Spec.Obs Spec.GenShape Spec.Counting
     Model.Reroot Model.Rand Model.Rand2 Model.TreeGen Model.Sampling Judge.Common.
Import ListNotations.
Local Close Scope Q_scope.
Local Open Scope string_scope.

Definition get_raw (o : sexp) : option (list N) := x <- get "raw" o ;; dec_list dec_N x.

Definition show_nats (l : list nat) : string := "(" ++ concat_with " " (map string_of_nat l) ++ ")".
Definition show_onats (l : list (option nat)) : string :=
  "(" ++ concat_with " " (map (fun o => match o with Some i => string_of_nat i | None => "nil" end) l) ++ ")".

(** ** per-seed predictions *)
Definition judge_sample (c o : sexp) : verdict :=
  match get_nat "n" c, get_nat "k" c, get_bool "replace" c, get_nats "selected" c, get_nat "rc" c, get_raw o with
  | Some n, Some k, Some repl, Some sel, Some rc, Some raw =>
    let bounds := if repl then replace_bounds k n else reservoir_bounds code_bound k n in
    if Nat.eqb n 0 then
      (* readTrees refuses an empty input (EOF) before the selection loop *)
      if Nat.eqb rc 0 then VCorr "an empty input is accepted" else VOk false "sample:empty-input"
    else if existsb (Nat.eqb 0) bounds then
      (* rand.Intn(0) panics *)
      if Nat.eqb rc 0 then VCorr "model: rand.Intn(0) panics; the command succeeds" else VOk false "sample:intn0"
    else
    match draws bounds raw with
    | None => VBad "recorded stream too short"
    | Some (cs, _) =>
      let m := if repl then sample_replace k (seq 0 n) cs else sample_noreplace k (seq 0 n) cs in
      match m with
      | None => VBad "model: choice vector too short"
      | Some out =>
        if existsb (fun s => match s with None => true | Some _ => false end) out then
          (* a nil *tree.Tree is printed: nil dereference *)
          if Nat.eqb rc 0 then VCorr "model: an output slot stays nil; the command succeeds" else VOk false "sample:nil-slot"
        else if negb (Nat.eqb rc 0) then VCorr "the command failed"
        else if list_eqb (fun a b => match a, b with Some i, Some j => Nat.eqb i j | _, _ => false end) out (map Some sel)
             then VOk true (if repl then "sample:replace" else "sample:noreplace")
             else VCorr ("model selects " ++ show_onats out ++ ", gotree sample selected " ++ show_nats sel)
      end
    end
  | _, _, _, _, _, _ => VBad "undecodable sample case"
  end.

Definition judge_prune (c o : sexp) : verdict :=
  match get_strings "tips" c, get_nat "k" c, get_bool "revert" c, get_strings "remaining" c, get_nat "rc" c, get_raw o with
  | Some tips, Some k, Some rev, Some remaining, Some rc, Some raw =>
    let n := length tips in
    let bounds := reservoir_bounds code_bound k n in
    match draws bounds raw with
    | None => VBad "recorded stream too short"
    | Some (cs, _) =>
      match reservoir code_bound k tips cs with
      | None => VBad "model: choice vector too short"
      | Some out =>
        let sampled := flat_map (fun s => match s with Some x => [x] | None => [] end) out in
        (* --random 0 does not select the random mode: nothing is removed *)
        let expected := if Nat.eqb k 0 then tips else if rev then sampled else sdiff tips sampled in
        if Nat.ltb (length (sset expected)) 3 then
          (* RemoveTips refuses to leave fewer than 3 tips (C06) *)
          VOk false "prune:too-few-tips-left"
        else if negb (Nat.eqb rc 0) then VCorr "the command failed"
        else if sset_eqb (sset expected) (sset remaining)
             then VOk true (if rev then "prune:random-keep" else "prune:random-remove")
             else VCorr ("model samples " ++ concat_with "," sampled ++ "; tips left by gotree prune: " ++ concat_with "," remaining)
      end
    end
  | _, _, _, _, _, _ => VBad "undecodable prune case"
  end.

(** several trees in one input file: one randomTips call per tree, in file order, on the
    continuing stream
      ((op prunemulti) (trees (("a" ...) ...)) (k K) (revert T|F) (seed S) (nraw R) (rc 0)
       (remainings (("a" ...) ...)))                                                          *)
Fixpoint multi_expected (k : nat) (rev : bool) (trees : list (list string)) (cs : list nat)
  : option (list (list string)) :=
  match trees with
  | [] => Some []
  | tips :: r =>
    let nb := length (reservoir_bounds code_bound k (length tips)) in
    match reservoir code_bound k tips (firstn nb cs) with
    | None => None
    | Some out =>
      let sampled := filled out in
      match multi_expected k rev r (skipn nb cs) with
      | Some rest => Some ((if rev then sampled else sdiff tips sampled) :: rest)
      | None => None
      end
    end
  end.

Definition dec_strss (s : sexp) : option (list (list string)) := dec_list dec_strings s.

Definition judge_prunemulti (c o : sexp) : verdict :=
  match (x <- get "trees" c ;; dec_strss x), get_nat "k" c, get_bool "revert" c,
        (x <- get "remainings" c ;; dec_strss x), get_nat "rc" c, get_raw o with
  | Some trees, Some k, Some rev, Some rems, Some rc, Some raw =>
    let bounds := flat_map (fun tips => reservoir_bounds code_bound k (length tips)) trees in
    (* the oracle first, on the binary's output alone: every tree keeps exactly min(k, n) of ITS tips
       (-r), or loses exactly k of them *)
    let count_ok :=
        Nat.eqb (length rems) (length trees) &&
        forallb (fun p => let tips := fst p in let rem := snd p in
                          ssubset rem tips && Nat.eqb (length (sset rem)) (length rem) &&
                          Nat.eqb (length rem) (if rev then Nat.min k (length tips) else length tips - k))
                (combine trees rems) in
    let small := existsb (fun tips => Nat.ltb (if rev then Nat.min k (length tips) else length tips - k) 3) trees in
    if Nat.eqb rc 0 && negb small && negb count_ok
    then VOracle (if rev then "a tree does not keep exactly min(k, n) of its own tips"
                  else "a tree does not lose exactly k of its own tips")
    else
    match draws bounds raw with
    | None => VBad "recorded stream too short"
    | Some (cs, _) =>
      match multi_expected k rev trees cs with
      | None => VBad "model: choice vector too short"
      | Some exp =>
        if existsb (fun e => Nat.ltb (length (sset e)) 3) exp then VOk false "prunemulti:too-few-tips-left"
        else if negb (Nat.eqb rc 0) then VCorr "the command failed"
        else if list_eqb (fun a b => sset_eqb (sset a) (sset b)) exp rems
             then VOk true (if rev then "prunemulti:keep" else "prunemulti:remove")
             else VCorr ("model leaves " ++ concat_with " | " (map (concat_with ",") exp) ++
                         "; gotree prune left " ++ concat_with " | " (map (concat_with ",") rems))
      end
    end
  | _, _, _, _, _, _ => VBad "undecodable prunemulti case"
  end.

(** the uniform generator on the recorded stream: same structure (lengths are tied in C16)
      ((op uniform) (n N) (rooted T|F) (seed S) (nraw R))   obs ((raw ..) (err "") (tree T))   *)
Fixpoint skel_eqb (a b : utree) : bool :=
  match a, b with
  | UNode n1 _ s1, UNode n2 _ s2 =>
    String.eqb n1 n2 &&
    (fix go (l1 l2 : list slot) : bool :=
       match l1, l2 with
       | [], [] => true
       | None :: r1, None :: r2 => go r1 r2
       | Some (_, t1) :: r1, Some (_, t2) :: r2 => skel_eqb t1 t2 && go r1 r2
       | _, _ => false
       end) s1 s2
  end.

Definition judge_uniform (c o : sexp) : verdict :=
  match get_nat "n" c, get_bool "rooted" c, get_raw o, get_string "err" o with
  | Some n, Some rooted, Some raw, Some gerr =>
    match run_plan (uniform_plan n rooted) 0 raw with
    | None => VBad "recorded stream too short"
    | Some (cs, _, _) =>
      match uniform_tree n rooted cs [] with
      | GErr m => if String.eqb gerr m then VOk false "uniform:rejected"
                  else VCorr ("model error: " ++ m ++ " / implementation: " ++ gerr)
      | GPanic => VBad "model panic"
      | GOk t =>
        if negb (String.eqb gerr "") then VCorr ("model: a tree; implementation refuses: " ++ gerr)
        else match get_tree "tree" o with
             | None => VBad "no tree in observation"
             | Some g => if skel_eqb t g then VOk true (if rooted then "uniform:rooted" else "uniform:unrooted")
                         else VCorr ("model: " ++ show_utree t)
             end
      end
    end
  | _, _, _, _ => VBad "undecodable uniform case"
  end.

(** same tree up to tip names *)
Fixpoint same_shape (a b : utree) : bool :=
  match a, b with
  | UNode n1 c1 s1, UNode n2 c2 s2 =>
    (Nat.eqb (length s1) 1 || String.eqb n1 n2) && list_eqb String.eqb c1 c2 &&
    (fix go (l1 l2 : list slot) : bool :=
       match l1, l2 with
       | [], [] => true
       | None :: r1, None :: r2 => go r1 r2
       | Some (e1, t1) :: r1, Some (e2, t2) :: r2 => einfo_eqb e1 e2 && same_shape t1 t2 && go r1 r2
       | _, _ => false
       end) s1 s2
  end.

Definition judge_shuffle (c o : sexp) : verdict :=
  match get_tree "tree" c, get_raw o, get_tree "tree" o with
  | Some t, Some raw, Some g =>
    match draws (shuffle_bounds t) raw with
    | None => VBad "recorded stream too short"
    | Some (cs, _) =>
      let m := shuffle_tips t cs in
      match first_some [audit_ok o;
                        (if same_shape t g then None else Some "ShuffleTips changed more than tip names");
                        (if sset_eqb (ssort (tip_names t)) (ssort (tip_names g)) then None
                         else Some "ShuffleTips changed the multiset of tip names")] with
      | Some msg => VOracle msg
      | None => if utree_eqb m g then VOk (negb (utree_eqb t g)) "shuffle"
                else VCorr ("model: " ++ show_utree m)
      end
    end
  | _, _, _ => VBad "undecodable shuffle case"
  end.

(** the same tree under several seeds: every result obeys the per-result oracle, and the results are
    not all the identity (with at least 3 distinct tip names and 16 seeds the identity every time
    has probability < 1e-12 under any uniform shuffle)
      ((op shufflemulti) (tree T) (seeds (s ...)) (nraw R))   obs ((results (((raw ..) (tree T') (audit ..)) ...))) *)
Definition judge_shufflemulti (c o : sexp) : verdict :=
  match get_tree "tree" c, (x <- get "results" o ;; list_of x) with
  | Some t, Some rs =>
    let one (r : sexp) : option (option string * bool * bool) :=   (* oracle message, model agrees, identity *)
        match get_raw r, get_tree "tree" r with
        | Some raw, Some g =>
          match draws (shuffle_bounds t) raw with
          | None => None
          | Some (cs, _) =>
            Some (first_some [audit_ok r;
                              (if same_shape t g then None else Some "ShuffleTips changed more than tip names (shape or an inner node name)");
                              (if sset_eqb (ssort (tip_names t)) (ssort (tip_names g)) then None
                               else Some "ShuffleTips changed the multiset of tip names")],
                  utree_eqb (shuffle_tips t cs) g, utree_eqb t g)
          end
        | _, _ => None
        end in
    match omap one rs with
    | None => VBad "undecodable shufflemulti result"
    | Some l =>
      match first_some (map (fun x => fst (fst x)) l) with
      | Some msg => VOracle msg
      | None =>
        if Nat.leb 3 (length (sset (tip_names t))) && Nat.leb 16 (length l) && forallb (fun x => snd x) l
        then VOracle "ShuffleTips leaves the tip names in place for every seed"
        else if forallb (fun x => snd (fst x)) l then VOk true "shufflemulti"
        else VCorr "a shuffled tree differs from the model's prediction"
      end
    end
  | _, _ => VBad "undecodable shufflemulti case"
  end.

(** ** exhaustive enumeration over the choice vectors of a small instance *)
Fixpoint count_occ_by {A} (eqb : A -> A -> bool) (x : A) (l : list A) : nat :=
  match l with
  | [] => 0
  | y :: r => (if eqb x y then 1 else 0) + count_occ_by eqb x r
  end.

(** every expected outcome occurs equally often among the observed ones, and nothing else occurs *)
Definition uniform_over {A} (eqb : A -> A -> bool) (show : A -> string) (expected observed : list A) : option string :=
  match expected with
  | [] => None
  | e0 :: _ =>
    let c0 := count_occ_by eqb e0 observed in
    match find (fun e => negb (Nat.eqb (count_occ_by eqb e observed) c0)) expected with
    | Some e => Some ("outcome " ++ show e ++ " is produced by " ++ string_of_nat (count_occ_by eqb e observed) ++
                      " of the " ++ string_of_nat (length observed) ++ " equally likely choice vectors, outcome " ++
                      show e0 ++ " by " ++ string_of_nat c0)
    | None => if Nat.eqb (c0 * length expected) (length observed) then None
              else Some "an outcome outside the expected set is produced"
    end
  end.

Definition the {A} (d : A) (o : option A) : A := match o with Some x => x | None => d end.

Definition enum_reservoir (bnd : nat -> nat) (n k : nat) : option string :=
  let outs := map (fun cs => nsort (filled (the [] (reservoir bnd k (seq 0 n) cs))))
                  (all_choices (reservoir_bounds bnd k n)) in
  uniform_over nat_list_eqb show_nats (subsets (Nat.min k n) (seq 0 n)) outs.

(** with replacement: the vector of slot values is uniform on [0,n)^k *)
Definition enum_replace (n k : nat) : option string :=
  let outs := map (fun cs => map (the 0) (the [] (sample_replace k (seq 0 n) cs))) (all_choices (replace_bounds k n)) in
  uniform_over nat_list_eqb show_nats (all_choices (repeat n k)) outs.

Definition key_eqb (a b : list (list string)) : bool := list_eqb (list_eqb String.eqb) a b.
Definition show_key (k : list (list string)) : string := concat_with ";" (map (concat_with ",") k).

(** labelled topologies reached by the uniform generator over all choice vectors, against the
    full list of labelled topologies (from the enumerator's model, tips renamed Tip0..) *)
(** the KNOWN defect of the rooted generator, exactly: it never inserts a tip above the initial
    root, so it reaches the rooted topologies in which Tip0 and Tip1 are on different sides of
    the root (no clade contains both), each of them equally often, and no other *)
Definition known_rooted_marker : string := "KNOWN-ROOT-BRANCH".
Definition separates_01 (key : list (list string)) : bool :=
  negb (existsb (fun clade => smem (tip_name 0) clade && smem (tip_name 1) clade) key).

Definition enum_uniform (n : nat) (rooted : bool) : option string :=
  let names := map tip_name (seq 0 n) in
  let outs := flat_map (fun cs => match uniform_tree n rooted cs [] with
                                  | GOk t => [topo_key rooted t]
                                  | _ => [] end)
                       (all_choices (uniform_bounds n rooted)) in
  match all_topologies n rooted names with
  | Err m => Some m
  | Ok ts =>
    let all := map (topo_key rooted) ts in
    match uniform_over key_eqb show_key all outs with
    | None => None
    | Some msg =>
      if rooted then
        match uniform_over key_eqb show_key (filter separates_01 all) outs with
        | None => Some (known_rooted_marker ++ " the generator is uniform on exactly the " ++
                        string_of_nat (length (filter separates_01 all)) ++ " of " ++ string_of_nat (length all) ++
                        " rooted topologies that separate Tip0 and Tip1 at the root (it never inserts above the root): " ++ msg)
        | Some msg2 => Some ("not uniform, and not the known root-branch defect either: " ++ msg2)
        end
      else Some msg
    end
  end.

Fixpoint perms (l : list nat) (fuel : nat) : list (list nat) :=
  match fuel with
  | O => [[]]
  | S f => flat_map (fun x => map (cons x) (perms (filter (fun y => negb (Nat.eqb x y)) l) f)) l
  end.

Definition enum_perm (which : string) (n : nat) : option string :=
  let outs := if String.eqb which "perm" then map go_perm (all_choices (perm_bounds n))
              else map (fun cs => rotate_neighbors cs (seq 0 n)) (all_choices (rotate_neighbors_bounds n)) in
  uniform_over nat_list_eqb show_nats (perms (seq 0 n) n) outs.

Definition judge_enum (op : string) (c : sexp) : verdict :=
  let res : option (option string) :=
      if String.eqb op "enum-sample" then
        n <- get_nat "n" c ;; k <- get_nat "k" c ;; r <- get_bool "replace" c ;;
        Some (if r then enum_replace n k else enum_reservoir code_bound n k)
      else if String.eqb op "enum-prune" then
        n <- get_nat "n" c ;; k <- get_nat "k" c ;; Some (enum_reservoir code_bound n k)
      else if String.eqb op "enum-std" then
        n <- get_nat "n" c ;; k <- get_nat "k" c ;; Some (enum_reservoir std_bound n k)
      else if String.eqb op "enum-uniform" then
        n <- get_nat "n" c ;; r <- get_bool "rooted" c ;; Some (enum_uniform n r)
      else if String.eqb op "enum-perm" then
        n <- get_nat "n" c ;; w <- get_string "which" c ;; Some (enum_perm w n)
      else None in
  match res with
  | None => VBad "undecodable enumeration case"
  | Some None => VOk true op
  | Some (Some msg) => VOracle ("model enumeration (" ++ op ++ "): " ++ msg)
  end.

Definition judge (c o : sexp) : verdict :=
  match get_string "op" c with
  | Some op =>
    if String.eqb op "sample" then judge_sample c o
    else if String.eqb op "prune" then judge_prune c o
    else if String.eqb op "prunemulti" then judge_prunemulti c o
    else if String.eqb op "uniform" then judge_uniform c o
    else if String.eqb op "shuffle" then judge_shuffle c o
    else if String.eqb op "shufflemulti" then judge_shufflemulti c o
    else judge_enum op c
  | None => VBad "no op"
  end.
