(** Shared pieces of the judges: observation decoding, the structural audit of a Go dump,
    generic oracle checks. *)
From Coq Require Import String ZArith QArith Bool Arith List.
From GT Require Import Base.Sexp Base.UTree Base.Codec Spec.Obs.
Import ListNotations.
Local Close Scope Q_scope.
Local Open Scope string_scope.

(** An observation of a Go tree:  ((err "msg"|"") (tree T) (audit ("problem" ...)) ...) *)
Definition get_tree (k : string) (s : sexp) : option utree := x <- get k s ;; dec_utree x.
Definition get_string (k : string) (s : sexp) : option string := x <- get k s ;; dec_string x.
Definition get_nat (k : string) (s : sexp) : option nat := x <- get k s ;; dec_nat x.
Definition get_Q (k : string) (s : sexp) : option Q := x <- get k s ;; dec_Q x.
Definition get_bool (k : string) (s : sexp) : option bool := x <- get k s ;; dec_bool x.
Definition get_strings (k : string) (s : sexp) : option (list string) := x <- get k s ;; dec_strings x.
Definition get_nats (k : string) (s : sexp) : option (list nat) := x <- get k s ;; dec_list dec_nat x.

(** The Go worker audits pointer-level well-formedness (symmetric adjacency, neigh/br
    parallel, edge ends, orientation away from the root, acyclicity, enumerations) and lists
    the problems it found; the dump is only meaningful when that list is empty. *)
Definition audit_ok (o : sexp) : option string :=
  match get_strings "audit" o with
  | Some [] => None
  | Some (p :: _) => Some ("structural audit: " ++ p)
  | None => Some "no audit in observation"
  end.

(** oracle: same tips, same splits with lengths, same path lengths *)
Definition same_tree_obs (t g : utree) : option string :=
  if negb (wf g) then Some "result is not a well-formed rooted structure"
  else if negb (sset_eqb (ssort (leaves t)) (ssort (leaves g))) then Some "tip multiset changed"
  else if negb (splits_eq same_len (usplits t) (usplits g)) then Some "set of splits or a split length changed"
  else if negb (matrix_eqb (dist_matrix len0 t) (dist_matrix len0 g)) then Some "a tip-to-tip path length changed"
  else None.

Definition first_some (l : list (option string)) : option string :=
  fold_right (fun o acc => match o with Some m => Some m | None => acc end) None l.
