(** Judge for C12: parsimony reconstruction is optimal.
    case (character variant):
       ((kind acr) (tree T) (states ((tip state) ...)) (algo downpass|deltran|acctran|none)
        [(tree2 T2) (i n)] [(rr T) (seed n) (nraw n)])
                                            T2 = T re-rooted at pre-order node i; rr = randomResolve, the
                                            observation then carries (raw (int63 ...)), the recorded stream
    obs:   ((err msg) (steps n) (map ((key states) ...)) (tree T') (audit (...))
            [(rerooted ((err ..) (steps ..) (map ..) (tree ..) (audit ..)))])
    case (sequence variant):
       ((kind asr) (tree T) (aln ((tip seq) ...)) (algo ...) (sitewise T|F))
    obs:   ((err msg) (steps (n ...)) (alphabet a) (tree T') (audit (...))
            [(sites (obs-of-the-character-variant-at-site-j ...))])                          *)
From Coq Require Import String Ascii ZArith QArith Bool Arith List.
From GT Require Import Base.Sexp Base.UTree Base.Codec Spec.Obs Spec.Parsimony
     Model.Reroot Model.Rand Model.Parsimony Model.ParsimonyRand Judge.Common.
Import ListNotations.
Local Close Scope Q_scope.
Local Open Scope string_scope.

Definition dec_pairs (s : sexp) : option (list (string * string)) :=
  dec_list (dec_pair dec_string dec_string) s.

Definition dec_algo (s : string) : option algo :=
  if String.eqb s "downpass" then Some Downpass
  else if String.eqb s "deltran" then Some Deltran
  else if String.eqb s "acctran" then Some Acctran
  else if String.eqb s "none" then Some NoPass
  else None.

Fixpoint strip_com (t : utree) : utree :=
  match t with
  | UNode n _ sl =>
    UNode n [] (map (fun s => match s with Some (e, c) => Some (e, strip_com c) | None => None end) sl)
  end.

Fixpoint split_on (c : ascii) (s : string) : list string :=
  match s with
  | EmptyString => [EmptyString]
  | String a r =>
    let l := split_on c r in
    if Ascii.eqb a c then EmptyString :: l
    else match l with [] => [String a EmptyString] | x :: l' => String a x :: l' end
  end.

Definition nat_list_eqb (a b : list nat) : bool := list_eqb Nat.eqb a b.
Definition subset (a b : list nat) : bool := forallb (fun x => mem x b) a.
Definition set_eqb (a b : list nat) : bool := subset a b && subset b a.

(** * the oracle for one character: Go's step count and reported state sets (state indices,
      per node in pre-order) against the specification *)
Definition n_inner (t : utree) : nat := length (filter (fun n => negb (is_leaf n)) (nodes t)).

Definition oracle_char (rr : bool) (k : nat) (ts : string -> list nat) (t : utree) (a : algo)
           (gsteps : nat) (gsets : list (list nat)) : option string :=
  let ns := nodes t in
  if negb (Nat.eqb (length gsets) (length ns)) then Some "wrong number of annotated nodes" else
  let m := mincost_sank k ts t in
  let totals := sank_totals k ts t in
  let small := Nat.leb (n_inner t) 5 && Nat.leb k 4 in
  if small && negb (Nat.eqb (mincost_bf k ts t) m)
  then Some "INTERNAL: Sankoff oracle differs from the brute-force minimum" else
  if small && negb (forallb (fun p => match snd p with
                                      | None => true
                                      | Some tot => nat_list_eqb (opt_states_bf k ts t (fst p))
                                                                 (filter (fun x => Nat.eqb (nth x tot 0) m) (seq 0 k))
                                      end) (combine (seq 0 (length ns)) totals))
  then Some "INTERNAL: Sankoff optimal-state sets differ from brute force" else
  if negb (Nat.eqb gsteps m)
  then Some ("steps " ++ string_of_nat gsteps ++ " but the minimum number of changes is " ++ string_of_nat m) else
  let zipped := combine (combine (combine (seq 0 (length ns)) ns) gsets) totals in
  (* inner nodes first, then the unambiguous output, then the tips *)
  let inner_checks :=
      map (fun p =>
             let '(i, n, gs, tot) := p in
             match tot with
             | None => None
             | Some tot =>
               match a with
               | NoPass => None
               | _ =>
                 if negb (forallb (fun x => Nat.eqb (nth x tot (S m)) m) gs)
                 then Some ("node " ++ string_of_nat i ++ ": a reported state occurs in no most-parsimonious reconstruction")
                 else if rr then
                        (* random resolution: exactly one state at every inner node *)
                        (if Nat.eqb (length gs) 1 then None
                         else Some ("node " ++ string_of_nat i ++ ": random resolution left " ++ string_of_nat (length gs) ++ " states"))
                 else match a with
                      | Downpass =>
                        if forallb (fun x => negb (Nat.eqb (nth x tot (S m)) m) || mem x gs) (seq 0 k) then None
                        else Some ("node " ++ string_of_nat i ++ ": DOWNPASS misses a state of a most-parsimonious reconstruction")
                      | _ => None
                      end
               end
             end) zipped in
  let unamb_check :=
      match a, rr with
      | NoPass, _ => None
      (* with random resolution the property only speaks of ... nothing; the model proves ACCTRAN
         optimal for every choice, DOWNPASS and DELTRAN are refuted (independent choices) *)
      | Downpass, true => None
      | Deltran, true => None
      | _, _ =>
        if forallb (fun gs => Nat.eqb (length gs) 1) gsets
        then let l := fst (ltree_of t (map (fun gs => hd 0 gs) gsets)) in
             if Nat.eqb (cost ts t l) m then None
             else Some ("the output is unambiguous at every node but costs " ++ string_of_nat (cost ts t l)
                        ++ " > " ++ string_of_nat m)
        else None
      end in
  let tip_checks :=
      map (fun p =>
             let '(i, n, gs, tot) := p in
             match tot with
             | None =>
               if set_eqb gs (ts (uname n)) then None
               else Some ("the state of tip " ++ uname n ++ " was altered")
             | Some _ => None
             end) zipped in
  first_some (inner_checks ++ [unamb_check] ++ tip_checks)%list.

(** * character variant *)
(** decode a node comment "A|B" into state indices; "*" = every state *)
Definition dec_states (alpha : list string) (c : string) : option (list nat) :=
  if String.eqb c "*" then Some (seq 0 (length alpha))
  else omap (fun s => index_of s alpha) (split_on "|"%char c).

Definition map_eqb (a b : list (string * string)) : bool :=
  Nat.eqb (length a) (length b) &&
  forallb (fun p => match lookup (fst p) b with Some v => String.eqb v (snd p) | None => false end) a.

Inductive outcome : Type :=
| OBad (m : string) | OCorr (m : string) | OOracle (m : string) | OOk (steps : nat) (err : bool).

(** one run of ParsimonyAcr: [t] the input, [o] the observation *)
Definition judge_acr_run (rr : bool) (raw : list N) (t : utree) (m : list (string * string)) (a : algo) (o : sexp) : outcome :=
  match get_string "err" o, get_nat "steps" o, get_tree "tree" o, (x <- get "map" o ;; dec_pairs x) with
  | Some gerr, Some gsteps, Some g, Some gmap =>
    match audit_ok o with
    | Some msg => OOracle msg
    | None =>
      (* the oracle first, from Go's output only: a property violation is reported as such even
         when the model disagrees as well *)
      let alpha := sset (map snd m) in
      let ts := fun n => match lookup n m with
                         | Some s => match index_of s alpha with Some i => [i] | None => [] end
                         | None => [] end in
      let orc : option string :=
          if negb (String.eqb gerr "") then None
          else match omap (fun n => match ucom n with
                                    | [c] => dec_states alpha c
                                    | _ => None end) (nodes g) with
               | None => Some "a node does not carry exactly one comment made of known states"
               | Some gsets => oracle_char rr (length alpha) ts t a gsteps gsets
               end in
      match orc with
      | Some msg => OOracle msg
      | None =>
      match (if rr then match parsimony_acr_r (list N) draw_raw t m a raw with
                        | Ok (r, rest) => match rest with
                                          | [] => Err "INTERNAL: recorded random stream too short"
                                          | _ => Ok r end
                        | Err e => Err e end
             else parsimony_acr t m a) with
      | Err msg =>
        if String.eqb gerr msg then OOk 0 true
        else OCorr ("model refuses (" ++ msg ++ "), implementation says: " ++ gerr)
      | Ok r =>
        if negb (String.eqb gerr "") then OCorr ("implementation refuses: " ++ gerr) else
        if negb (Nat.eqb gsteps (acr_steps r))
        then OCorr ("steps: model " ++ string_of_nat (acr_steps r) ++ ", implementation " ++ string_of_nat gsteps) else
        if negb (utree_eqb (strip_com t) (strip_com g)) then OCorr "the tree itself was modified" else
        if negb (list_eqb (list_eqb String.eqb) (map ucom (nodes g)) (acr_comments r))
        then OCorr ("node comments: model " ++ concat_with " ; " (map (concat_with "+") (acr_comments r))
                    ++ " implementation " ++ concat_with " ; " (map (fun n => concat_with "+" (ucom n)) (nodes g))) else
        if negb (map_eqb (acr_map r) gmap && map_eqb gmap (acr_map r))
        then OCorr ("state map: model " ++ concat_with " ; " (map (fun p => fst p ++ "=" ++ snd p) (acr_map r)))
        else OOk gsteps false
      end
      end
    end
  | _, _, _, _ => OBad "undecodable observation"
  end.

Definition algo_name (a : algo) : string :=
  match a with Downpass => "downpass" | Deltran => "deltran" | Acctran => "acctran" | NoPass => "none" end.

Definition judge_acr (c o : sexp) : verdict :=
  match get_tree "tree" c, (x <- get "states" c ;; dec_pairs x), (x <- get_string "algo" c ;; dec_algo x) with
  | Some t, Some m, Some a =>
    let rr := match get_bool "rr" c with Some b => b | None => false end in
    let raw := match (x <- get "raw" o ;; dec_list dec_N x) with Some l => l | None => [] end in
    match judge_acr_run rr raw t m a o with
    | OBad msg => VBad msg
    | OCorr msg => VCorr msg
    | OOracle msg => VOracle msg
    | OOk steps iserr =>
      match get "tree2" c with
      | None => VOk (Nat.ltb 0 steps) (algo_name a ++ (if rr then ":rr" else "") ++ (if iserr then ":err" else ""))
      | Some t2s =>
        match dec_utree t2s, get_nat "i" c, get "rerooted" o with
        | Some t2, Some i, Some o2 =>
          match reroot t i with
          | Ok t2' =>
            if negb (utree_eqb t2 t2') then VBad "tree2 is not the tree re-rooted at node i" else
            match judge_acr_run rr raw t2 m a o2 with
            | OBad msg => VBad ("rerooted: " ++ msg)
            | OCorr msg => VCorr ("rerooted: " ++ msg)
            | OOracle msg => VOracle ("rerooted: " ++ msg)
            | OOk steps2 iserr2 =>
              if negb (Bool.eqb iserr iserr2) then VOracle "an error on one rooting only"
              else if Nat.eqb steps steps2 then VOk (Nat.ltb 0 steps) (algo_name a ++ (if rr then ":rr" else "") ++ ":rerooted")
              else VOracle ("steps " ++ string_of_nat steps ++ " but " ++ string_of_nat steps2
                            ++ " after re-rooting at node " ++ string_of_nat i)
            end
          | Err msg => VBad ("cannot re-root: " ++ msg)
          end
        | _, _, _ => VBad "undecodable rerooted part"
        end
      end
    end
  | _, _, _ => VBad "undecodable case"
  end.

(** * sequence variant *)
(** "A{CG}T" -> per site the list of characters *)
Fixpoint parse_sites (s : string) (inside : bool) (cur : list ascii) : list (list ascii) :=
  match s with
  | EmptyString => []
  | String c r =>
    if inside then
      (if Ascii.eqb c "}"%char then rev cur :: parse_sites r false [] else parse_sites r true (c :: cur))
    else
      (if Ascii.eqb c "{"%char then parse_sites r true [] else [c] :: parse_sites r false [])
  end.

Fixpoint ascii_index (c : ascii) (l : list ascii) : option nat :=
  match l with
  | [] => None
  | x :: r => if Ascii.eqb x c then Some 0 else match ascii_index c r with Some i => Some (S i) | None => None end
  end.

Definition nt_set (c : ascii) : list nat :=
  flat_map (fun x => match ascii_index x nt_alphabet with Some i => [i] | None => [] end) (iupac (upper c)).

Fixpoint transpose {A} (n : nat) (rows : list (list A)) : list (list A) :=
  match n with
  | O => []
  | S n' => flat_map (fun r => match r with x :: _ => [x] | [] => [] end) rows
            :: transpose n' (map (@tl A) rows)
  end.

Definition last_com (n : utree) : string := last (ucom n) "".

(** a site at which some tip of the tree holds a character outside the IUPAC table (X . ? and
    the star): outside the property's quantifier, judged by correspondence only *)
Definition site_in_scope (t : utree) (aln : list (string * string)) (j : nat) : bool :=
  forallb (fun n => match lookup n aln with
                    | Some s => match string_nth j s with
                                | Some ch => match iupac (upper ch) with [] => false | _ => true end
                                | None => true end
                    | None => true end) (all_tip_names t).

(** the oracle of the sequence variant, from Go's output only *)
Definition asr_oracle (o : sexp) (t : utree) (aln : list (string * string)) (a : algo) (rr : bool)
           (gsteps : list nat) (g : utree) : option string :=
  let len := aln_length aln in
  let per_node := map (fun n => parse_sites (last_com n) false []) (nodes g) in
  if negb (forallb (fun l => Nat.eqb (length l) len) per_node)
  then Some "a node's sequence does not have one entry per site" else
  match omap (fun l => omap (fun cs => omap (fun ch => ascii_index ch nt_alphabet) cs) l) per_node with
  | None => Some "a node's sequence contains an unknown character"
  | Some sets_by_node =>
    let by_site := transpose len sets_by_node in   (* site -> node -> states *)
    if negb (Nat.leb len (length gsteps)) then Some "fewer step counts than sites" else
    let site_res :=
        map (fun p =>
               let '(j, gsets, st) := p in
               if negb (site_in_scope t aln j) then None else
               let ts := fun n => match lookup n aln with
                                  | Some s => match string_nth j s with Some ch => nt_set ch | None => [] end
                                  | None => [] end in
               match oracle_char rr 6 ts t a st gsets with
               | Some msg => Some ("site " ++ string_of_nat j ++ ": " ++ msg)
               | None => None
               end)
            (combine (combine (seq 0 len) by_site) gsteps) in
    match first_some site_res with
    | Some msg => Some msg
    | None =>
      (* site-by-site agreement with the character variant (both are Go's outputs) *)
      match get "sites" o with
      | None => None
      | Some ss =>
        match list_of ss with
        | None => Some "INTERNAL: sites"
        | Some sl =>
          if negb (Nat.eqb (length sl) len) then Some "INTERNAL: one character run per site expected" else
          first_some
            (map (fun p =>
                    let '(j, so, gsets, st) := p in
                    match get_string "err" so, get_nat "steps" so, get_tree "tree" so with
                    | Some cerr, Some csteps, Some cg =>
                      if negb (String.eqb cerr "") then Some ("site " ++ string_of_nat j ++ ": character variant refuses") else
                      if negb (Nat.eqb csteps st)
                      then Some ("site " ++ string_of_nat j ++ ": sequence variant " ++ string_of_nat st
                                 ++ " steps, character variant " ++ string_of_nat csteps)
                      else
                        let csets := map (fun n => match ucom n with
                                                   | [cm] => omap (fun s => match s with
                                                                            | String ch EmptyString => ascii_index ch nt_alphabet
                                                                            | _ => None end)
                                                                  (split_on "|"%char cm)
                                                   | _ => None end) (nodes cg) in
                        if Nat.eqb (length csets) (length gsets) &&
                           forallb (fun q => match fst q with
                                             | Some l => set_eqb l (snd q)
                                             | None => false end) (combine csets gsets)
                        then None
                        else Some ("site " ++ string_of_nat j ++ ": states differ from the character variant")
                    | _, _, _ => Some ("site " ++ string_of_nat j ++ ": character variant failed")
                    end)
                 (combine (combine (combine (seq 0 len) sl) by_site) gsteps))
        end
      end
    end
  end.

Definition judge_asr (c o : sexp) : verdict :=
  match get_tree "tree" c, (x <- get "aln" c ;; dec_pairs x), (x <- get_string "algo" c ;; dec_algo x) with
  | Some t, Some aln, Some a =>
    match get_string "err" o, get_nats "steps" o, get_tree "tree" o, get_nat "alphabet" o with
    | Some gerr, Some gsteps, Some g, Some galpha =>
      match audit_ok o with
      | Some msg => VOracle msg
      | None =>
        if negb (Nat.eqb galpha 1) then VBad "the alignment was not read as nucleotides" else
        let rr := match get_bool "rr" c with Some b => b | None => false end in
        let raw := match (x <- get "raw" o ;; dec_list dec_N x) with Some l => l | None => [] end in
        (* the oracle first *)
        match (if String.eqb gerr "" then asr_oracle o t aln a rr gsteps g else None) with
        | Some msg => VOracle msg
        | None =>
        match (if rr then match parsimony_asr_r (list N) draw_raw t aln a raw with
                          | Ok (r, rest) => match rest with
                                            | [] => Err "INTERNAL: recorded random stream too short"
                                            | _ => Ok r end
                          | Err e => Err e end
               else parsimony_asr t aln a) with
        | Err msg =>
          if String.eqb gerr msg then VOk false (algo_name a ++ ":asr:err")
          else VCorr ("model refuses (" ++ msg ++ "), implementation says: " ++ gerr)
        | Ok r =>
          if negb (String.eqb gerr "") then VCorr ("implementation refuses: " ++ gerr) else
          if negb (nat_list_eqb gsteps (asr_steps r))
          then VCorr ("steps: model " ++ concat_with " " (map string_of_nat (asr_steps r))) else
          if negb (utree_eqb (strip_com t) (strip_com g)) then VCorr "the tree itself was modified" else
          if negb (list_eqb (list_eqb String.eqb) (map ucom (nodes g))
                            (map (fun p => (ucom (fst p) ++ [snd p])%list) (combine (nodes t) (asr_added r))))
          then VCorr ("node comments: model adds " ++ concat_with " ; " (asr_added r)
                      ++ " implementation has " ++ concat_with " ; " (map (fun n => concat_with "+" (ucom n)) (nodes g)))
          else VOk (existsb (Nat.ltb 0) gsteps)
                   (algo_name a ++ ":asr" ++ (if rr then ":rr" else "")
                    ++ (match get "sites" o with Some _ => ":sitewise" | None => "" end)
                    ++ (if forallb (site_in_scope t aln) (seq 0 (aln_length aln)) then "" else ":unknownchars"))
        end
        end
      end
    | _, _, _, _ => VBad "undecodable observation"
    end
  | _, _, _ => VBad "undecodable case"
  end.

(** * very wide star trees (oracle only, binary numbers)
    case: ((kind star) (counts (c0 c1 ...)) (names (s0 s1 ...)) (algo a)): the worker builds the
    star whose state si is carried by ci tips.  A labelling of a star is the state x of its
    root; its cost is the number of tips with another state, sum_{s<>x} c_s.  The model (unary
    numbers) is not run on these; the specification is evaluated directly.
    obs: ((err e) (steps n) (root (s ...)) (altered n)) *)
Definition star_cost (counts : list N) (x : nat) : N :=
  fold_right N.add 0%N (map (fun p => if Nat.eqb (fst p) x then 0%N else snd p) (combine (seq 0 (length counts)) counts)).
Definition nmin (l : list N) : N := match l with [] => 0%N | x :: r => fold_left N.min r x end.

Definition judge_star (c o : sexp) : verdict :=
  match (x <- get "counts" c ;; dec_list dec_N x), get_strings "names" c, (x <- get_string "algo" c ;; dec_algo x) with
  | Some counts, Some names, Some a =>
    match get_string "err" o, (x <- get "steps" o ;; dec_N x), get_strings "root" o, get_nat "altered" o with
    | Some gerr, Some gsteps, Some groot, Some altered =>
      if negb (String.eqb gerr "") then VOracle ("implementation refuses: " ++ gerr) else
      let k := length counts in
      let costs := map (star_cost counts) (seq 0 k) in
      let m := nmin costs in
      if negb (N.eqb gsteps m)
      then VOracle ("star: steps " ++ string_of_Z (Z.of_N gsteps) ++ " but the minimum number of changes is "
                    ++ string_of_Z (Z.of_N m))
      else if negb (Nat.eqb altered 0) then VOracle "star: the state of a tip was altered"
      else match omap (fun st => index_of st names) groot with
           | None => VOracle "star: the root carries an unknown state"
           | Some idx =>
             if negb (forallb (fun i => N.eqb (nth i costs (N.succ m)) m) idx)
             then VOracle "star: a state reported at the root occurs in no most-parsimonious reconstruction"
             else match a with
                  | Downpass =>
                    if forallb (fun i => negb (N.eqb (nth i costs (N.succ m)) m) || mem i idx) (seq 0 k)
                    then VOk (N.ltb 0 m) "star:downpass"
                    else VOracle "star: DOWNPASS misses a state of a most-parsimonious reconstruction"
                  | _ => VOk (N.ltb 0 m) ("star:" ++ algo_name a)
                  end
           end
    | _, _, _, _ => VBad "undecodable observation"
    end
  | _, _, _ => VBad "undecodable case"
  end.

(** * a tree with a history: parsed from Newick (parser ids), edited through the public API, dumped
    just before the reconstruction ("pre" in the observation), which is the input judged here.
    case: ((kind hist) (newick text) (ops (...)) (states ...) (algo a) (sameroot T|F))
    [sameroot]: the operations only re-root, so the number of steps must be the one of the tree
    as parsed ("steps0"). *)
Definition judge_hist (c o : sexp) : verdict :=
  match (x <- get "states" c ;; dec_pairs x), (x <- get_string "algo" c ;; dec_algo x), get_tree "pre" o with
  | Some m, Some a, Some pre =>
    match get_strings "preaudit" o with
    | Some [] =>
      match judge_acr_run false [] pre m a o with
      | OBad msg => VBad msg
      | OCorr msg => VCorr msg
      | OOracle msg => VOracle msg
      | OOk steps iserr =>
        match get_bool "sameroot" c, (x <- get "steps0" o ;; dec_Z x) with
        | Some true, Some z0 =>
          if iserr then VOk false "hist:err"
          else if Z.eqb z0 (Z.of_nat steps) then VOk (Nat.ltb 0 steps) ("hist:" ++ algo_name a ++ ":sameroot")
          else VOracle ("steps " ++ string_of_nat steps ++ " after re-rooting through the API but "
                        ++ string_of_Z z0 ++ " on the tree as parsed")
        | _, _ => VOk (Nat.ltb 0 steps) ("hist:" ++ algo_name a ++ (if iserr then ":err" else ""))
        end
      end
    | Some (p :: _) => VOk false "hist:edited-tree-not-well-formed"
    | None => VBad "no preaudit"
    end
  | _, _, _ => VBad "undecodable case or observation"
  end.

Definition judge (c o : sexp) : verdict :=
  match get_string "kind" c with
  | Some k => if String.eqb k "acr" then judge_acr c o
              else if String.eqb k "asr" then judge_asr c o
              else if String.eqb k "star" then judge_star c o
              else if String.eqb k "hist" then judge_hist c o
              else VBad "unknown kind"
  | None => VBad "no kind"
  end.
