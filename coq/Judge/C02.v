(** Judge for C02: tree readers are total (never crash, never hang; every delivered tree can
    be traversed, indexed and written).
    case: ((fmt newick|multi|nexus|phyloxml|nextstrain) (text "bytes") ...)
    obs : ((utf8 T|F) (eps (EP ...)))
    EP  : ((name n) (class ok|panic|hang) (msg m) (items (ITEM ...)))
    ITEM: ((id n) (err "message"))
          ((id n) (err "") (name tn) (nwk text) (use ""|"what crashed") (nodes n) [(tree T) (audit (...))])
    or obs: ((panic msg)) -- the handler itself panicked / the worker died; ((bad msg)).

    Oracle (no model involved): every entry point ended in class ok (so: returned an error or
    delivered trees; no panic, no hang); for every delivered tree Nodes/Edges/Tips/Newick/
    ReinitIndexes ran without panic or hang and the pointer-level audit of the dump is empty.

    Correspondence: the outcome of the modelled readers -- the single-tree Newick parser
    (Model/Newick.v of C01), the multi-Newick reader loop (Model/MultiTree.v over the
    bufio.ReadLine reads of the text, buffer 4096), the Nexus parser (Model/Nexus.v) -- equals
    Go's: same accept/reject decision, the model's error message is a prefix of Go's, same
    number of records with the same ids, same tree names, same trees (the structural dump
    when it was sent, else the Newick text).  The models are exact on valid UTF-8 without NUL;
    other inputs and texts with a non-finite number are judged by the oracle only.  The entry
    points of io/utils must agree with the underlying parser. *)
From Coq Require Import String Ascii ZArith QArith Bool Arith List.
From GT Require Import Base.Sexp Base.UTree Base.Codec Model.Newick Model.NewickNum
     Model.MultiTree Model.Nexus Model.C02Extra8 Judge.Common.
Import ListNotations.
Local Close Scope Q_scope.
Local Open Scope string_scope.

Definition writeC : utree -> string := Newick.write fmt_go.
(** newick.Parser.Parse as a total function: a tree or an error message *)
Definition npC (s : string) : utree + string :=
  match Newick.parse numericC parse_numC s with
  | Newick.POk t => inl t
  | Newick.PErr m => inr m
  | Newick.POutOfFuel => inr "model: newick parser out of fuel"
  end.

Record oitem : Type := mkI { i_id : nat; i_err : string; i_name : string; i_nwk : string;
                             i_use : string; i_tree : option utree; i_audit : option string }.
Record oep : Type := mkEP { e_name : string; e_class : string; e_msg : string; e_items : list oitem }.

Definition str_or (k : string) (s : sexp) : string :=
  match get_string k s with Some x => x | None => "" end.

Definition dec_item (s : sexp) : option oitem :=
  id <- get_nat "id" s ;;
  err <- get_string "err" s ;;
  if negb (String.eqb err "") then Some (mkI id err "" "" "" None None)
  else
    let tr := get_tree "tree" s in
    Some (mkI id "" (str_or "name" s) (str_or "nwk" s) (str_or "use" s) tr
              (* the audit list does not depend on the dump being decodable (a NaN length is not) *)
              (match get "tree" s with
               | None => None
               | Some _ => audit_ok s
               end)).

Definition dec_ep (s : sexp) : option oep :=
  n <- get_string "name" s ;;
  c <- get_string "class" s ;;
  its <- (x <- get "items" s ;; dec_list dec_item x) ;;
  Some (mkEP n c (str_or "msg" s) its).

Definition is_tree_item (i : oitem) : bool := String.eqb (i_err i) "".

(** * Oracle *)
Definition oracle_item (epn : string) (i : oitem) : option string :=
  if negb (is_tree_item i) then None
  else if negb (String.eqb (i_use i) "")
  then Some (epn ++ ": tree " ++ string_of_nat (i_id i) ++ " was delivered but " ++ i_use i)
  else match i_audit i with
       | Some m => Some (epn ++ ": tree " ++ string_of_nat (i_id i) ++ ": " ++ m)
       | None => None
       end.

Definition oracle_ep (e : oep) : option string :=
  if negb (String.eqb (e_class e) "ok")
  then Some (e_name e ++ ": " ++ e_class e ++ ": " ++ e_msg e)
  else first_some (map (oracle_item (e_name e)) (e_items e)).

(** * Correspondence *)
Fixpoint has_nul (s : string) : bool :=
  match s with
  | EmptyString => false
  | String c r => Ascii.eqb c "000" || has_nul r
  end.

Definition same_tree (m : utree) (i : oitem) : bool :=
  match i_tree i with
  | Some g => utree_eqb m g
  | None => String.eqb (writeC m) (i_nwk i)
  end.

Definition is_nonfinite (m : string) : bool := String.eqb m nonfinite_msg.

(** a model record against a Go record: [None] = agree *)
Definition cmp_record (what : string) (id : nat) (name : option string) (m : utree + string) (i : oitem) : option string :=
  let pos := what ++ " record " ++ string_of_nat id in
  if negb (Nat.eqb id (i_id i)) then Some (pos ++ ": implementation id " ++ string_of_nat (i_id i))
  else match m with
       | inr e =>
         if is_tree_item i then Some (pos ++ ": model rejects (" ++ e ++ "), implementation delivers " ++ i_nwk i)
         else if prefix e (i_err i) then None
         else Some (pos ++ ": model rejects with (" ++ e ++ "), implementation with (" ++ i_err i ++ ")")
       | inl t =>
         if negb (is_tree_item i) then Some (pos ++ ": implementation rejects (" ++ i_err i ++ "), model delivers " ++ writeC t)
         else if negb (match name with Some n => String.eqb n (i_name i) | None => true end)
         then Some (pos ++ ": tree name " ++ i_name i)
         else if same_tree t i then None
         else Some (pos ++ ": model tree " ++ writeC t ++ " implementation " ++ i_nwk i)
       end.

Fixpoint cmp_records (what : string) (ms : list (nat * option string * (utree + string))) (gs : list oitem) : option string :=
  match ms, gs with
  | [], [] => None
  | (id, nm, m) :: mr, g :: gr =>
    match cmp_record what id nm m g with
    | Some e => Some e
    | None => cmp_records what mr gr
    end
  | [], g :: _ => Some (what ++ ": implementation delivers an extra record " ++ string_of_nat (i_id g))
  | (id, _, _) :: _, [] => Some (what ++ ": implementation stops before model record " ++ string_of_nat id)
  end.

(** some record of the model is the "non-finite number" refusal of the Newick model *)
Definition mentions_nonfinite (ms : list (nat * option string * (utree + string))) : bool :=
  existsb (fun r => match snd r with inr e => is_nonfinite e | inl _ => false end) ms.

Definition find_ep (n : string) (l : list oep) : option oep :=
  find (fun e => String.eqb (e_name e) n) l.

Definition model_items (l : list item) : list (nat * option string * (utree + string)) :=
  map (fun i => match i with
                | ITree id t => (id, None, inl t)
                | IErr id m => (id, None, inr m)
                end) l.

(** 4096 = the buffer of bufio.NewReader *)
Definition bufsz : nat := 64 * 64.

(** model records and predicted class for the modelled entry point of each format *)
Definition model_of (fmt text : string) : option (string * string * list (nat * option string * (utree + string))) :=
  if String.eqb fmt "newick" then
    Some ("newick.Parser.Parse", "ok", [(0, None, npC text)])
  else if String.eqb fmt "multi" then
    match read_multi npC (phys_reads (S (String.length text)) bufsz text) with
    | MDone l => Some ("ReadMultiTrees(newick) reader loop", "ok", model_items l)
    | MPanic l => Some ("ReadMultiTrees(newick) reader loop", "panic", model_items l)
    | MFuel => Some ("ReadMultiTrees(newick) reader loop", "hang", [])
    end
  else if String.eqb fmt "nexus" then
    match nexus_parse npC text with
    | Nexus.POk d =>
      Some ("nexus.Parser.Parse", "ok",
            combine (combine (seq 0 (length (doc_trees d))) (map (fun p => Some (fst p)) (doc_trees d)))
                    (map (fun p => inl (snd p)) (doc_trees d)))
    | Nexus.PErr e => Some ("nexus.Parser.Parse", "ok", [(0, None, inr e)])
    | Nexus.PPanic => Some ("nexus.Parser.Parse", "panic", [])
    | Nexus.POutOfFuel => Some ("nexus.Parser.Parse", "hang", [])
    end
  else None.

(** the io/utils entry points against the underlying parser's records [base] *)
Definition same_items (a b : list oitem) : bool :=
  list_eqb (fun x y => Nat.eqb (i_id x) (i_id y) && String.eqb (i_err x) (i_err y) && String.eqb (i_nwk x) (i_nwk y)) a b.

Definition first_of (base : list oitem) (nofirst : string) : list oitem :=
  match base with
  | [] => [mkI 0 nofirst "" "" "" None None]
  | i :: _ => [mkI 0 (i_err i) "" (i_nwk i) "" None None]
  end.

Definition utils_agree (fmt text : string) (eps : list oep) : option string :=
  let chk (base first multi nofirst : string) : option string :=
      match find_ep base eps with
      | None => Some ("no entry point " ++ base)
      | Some b =>
        if negb (String.eqb (e_class b) "ok") then None
        else
          first_some
            [match find_ep multi eps with
             | Some m => if String.eqb (e_class m) "ok" && same_items (e_items m) (e_items b) then None
                         else Some (multi ++ " differs from " ++ base)
             | None => Some ("no entry point " ++ multi)
             end;
             match find_ep first eps with
             | Some f => if String.eqb first "" then None
                         else if String.eqb (e_class f) "ok" && same_items (e_items f) (first_of (e_items b) nofirst) then None
                         else Some (first ++ " differs from the first record of " ++ base)
             | None => if String.eqb first "" then None else Some ("no entry point " ++ first)
             end]
      end in
  if String.eqb fmt "newick" then
    (* after the fix 6227553 ReadTreeReader parses the first ';'-terminated text as the multi-tree reader cuts it
       (line breaks dropped), no longer the raw input: compared with its own model *)
    match find_ep "newick.Parser.Parse" eps, find_ep "utils.ReadTreeReader(newick)" eps with
    | Some a, Some b =>
      if negb (String.eqb (e_class b) "ok") then Some "utils.ReadTreeReader(newick): the model predicts neither panic nor hang"
      else cmp_records "utils.ReadTreeReader(newick)"
                       [(0, None, first_tree_newick npC (phys_reads (S (String.length text)) bufsz text))] (e_items b)
    | Some a, None => if String.eqb (e_class a) "ok" then Some "no entry point utils.ReadTreeReader(newick)" else None
    | None, _ => Some "no entry point newick.Parser.Parse"
    end
  else if String.eqb fmt "multi" then
    chk "ReadMultiTrees(newick) reader loop" "" "utils.ReadMultiTrees(newick)" ""
  else if String.eqb fmt "nexus" then
    chk "nexus.Parser.Parse" "utils.ReadTreeReader(nexus)" "utils.ReadMultiTrees(nexus)" "No tree in the input Nexus file"
  else None.   (* PhyloXML / Nextstrain accessors: C13 *)

Definition n_delivered (eps : list oep) : nat :=
  fold_right (fun e acc => length (filter is_tree_item (e_items e)) + acc) 0 eps.

Definition judge_eps (fmt text : string) (utf8 : bool) (eps : list oep) : verdict :=
  match first_some (map oracle_ep eps) with
  | Some m => VOracle m
  | None =>
    let delivered := negb (Nat.eqb (n_delivered eps) 0) in
    let tag := fmt ++ (if delivered then ":trees" else ":error") in
    match model_of fmt text with
    | None => VOk delivered (tag ++ ":oracle-only")
    | Some (epn, cls, ms) =>
      if negb utf8 || has_nul text then VOk false (tag ++ ":outside-model-domain")
      else if mentions_nonfinite ms then VOk false (tag ++ ":nonfinite")
      else
        match find_ep epn eps with
        | None => VBad ("no entry point " ++ epn)
        | Some e =>
          if negb (String.eqb cls (e_class e))
          then VCorr (epn ++ ": model predicts " ++ cls ++ ", implementation " ++ e_class e)
          else match cmp_records epn ms (e_items e) with
               | Some m => VCorr m
               | None =>
                 match utils_agree fmt text eps with
                 | Some m => VCorr m
                 | None => VOk true tag
                 end
               end
        end
    end
  end.

Definition has_key (k : string) (o : sexp) : option string :=
  match get k o with
  | Some (Atom m) => Some m
  | Some _ => Some ""
  | None => None
  end.

(** family "chan": the channel hand-off of utils.ReadMultiTrees against Model/C02Extra8.v.
    case ((fmt chan) (src ..) (text ..) (policy drain|stop)); obs ((chan T) (sent (flags)) (got n) (buf n) (rest n)).
    The model runs the records actually sent (their error flags) through the channel of 10 with the
    consumer policy under the alternating schedule until nothing moves any more (2n+2 rounds are
    enough: Proofs/C02Extra8.v); compared: records received by the consumer, records waiting in the
    buffer, records left (buffer + still held by the goroutine).  Oracle: a draining consumer, or a
    stream whose only error record is the last one, leaves nothing behind (the goroutine returned). *)
Fixpoint err_lastb (l : list bool) : bool :=
  match l with
  | [] => true
  | r :: t => (negb r || match t with [] => true | _ => false end) && err_lastb t
  end.

Definition judge_chan (c o : sexp) : verdict :=
  match get_string "policy" c, (x <- get "sent" o ;; dec_list dec_bool x),
        get_nat "got" o, get_nat "buf" o, get_nat "rest" o with
  | Some pol, Some sent, Some g, Some b, Some r =>
    let stop := String.eqb pol "stop" in
    let s := run bool (fun x => x) 10 stop (concat (repeat [false; true] (2 * length sent + 4))) (init bool sent) in
    let mg := length (got bool s) in
    let mb := length (buf bool s) in
    let mr := length (buf bool s) + length (pending bool s) in
    if (negb stop || err_lastb sent) && negb (Nat.eqb r 0)
    then VOracle "the reader goroutine of ReadMultiTrees did not finish although the consumer took every record"
    else if Nat.eqb mg g && Nat.eqb mb b && Nat.eqb mr r
    then VOk (Nat.ltb 1 (length sent))
             ("chan:" ++ pol ++ (if final bool s then ":finished" else ":goroutine-blocked"))
    else VCorr ("channel protocol: model got/buf/rest " ++ string_of_nat mg ++ "/" ++ string_of_nat mb ++ "/" ++ string_of_nat mr
                ++ ", implementation " ++ string_of_nat g ++ "/" ++ string_of_nat b ++ "/" ++ string_of_nat r)
  | _, _, _, _, _ => VBad "undecodable chan case or observation"
  end.

Definition judge (c o : sexp) : verdict :=
  match has_key "bad" o, has_key "panic" o with
  | Some m, _ => VBad ("harness: " ++ m)
  | None, Some m => VOracle ("the worker process or handler died: " ++ m)
  | None, None =>
    if match get_string "fmt" c with Some f => String.eqb f "chan" | None => false end then judge_chan c o else
    match get_string "fmt" c, get_string "text" c, get_bool "utf8" o,
          (x <- get "eps" o ;; dec_list dec_ep x) with
    | Some fmt, Some text, Some utf8, Some eps => judge_eps fmt text utf8 eps
    | _, _, _, _ => VBad "undecodable case or observation"
    end
  end.
