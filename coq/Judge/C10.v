(** Judge for C10: bootstrap supports equal their definitions (FBP and TBE).
    case:  ((mode nil|fresh|chain) (cpus n) (ref T) (boots (T ...)) [(alg1 a) (alg2 a) (ref2 T) (boots2 (T ...))])
    obs :  ((fbp RUN) (tbe RUN))  or, for mode chain (alg1 on (ref, boots) then alg2 on
           (ref2, boots2) with one shared Supporter),  ((first RUN) (second RUN));
           RUN = ((hang T)) | ((hang F) (panic "msg"))
               | ((hang F) (err "msg") (sup ((T|F q) ...)) [(progress n)])
    [sup]: per branch of the reference in Edges() order, (Right().Tip(), Support()) after the call.

    Oracle (Spec/Support.v, computed from [leaves] only), for a collection on the taxa of the
    reference: no error; tip branches keep "no support"; for every other branch the FBP value
    is the fraction of trees with the split and the TBE value is 1 - mean delta / (p - 1), both
    within 1e-9; both in [0,1]; TBE >= FBP; value 1 exactly when every tree has the split.  For a
    collection with a tree on other taxa: an error, no hang, no panic.
    Correspondence (Model/Support.v): same error text and, when there is no error, the same
    supports within 1e-9.  *)
From Coq Require Import String ZArith QArith Qabs Bool Arith List.
From GT Require Import Base.Sexp Base.UTree Base.Codec Spec.Obs Spec.Support Spec.SupportW Model.Support Model.SupportW Model.SupportFamily Judge.Common.
Import ListNotations.
Local Close Scope Q_scope.
Local Open Scope string_scope.

Definition tol : Q := (1 # 1000000000)%Q.
Definition qclose (a b : Q) : bool := Qle_bool (Qabs (a - b)) tol.
Definition qleb (a b : Q) : bool := Qle_bool a b.

Record run : Type := mkRun { rhang : bool; rpanic : option string; rerr : string; rsup : list (bool * Q);
                             rprog : option nat (* sup.Progress() after the call, when a Supporter was passed *) }.

Definition dec_run (o : sexp) : option run :=
  match get_bool "hang" o with
  | Some true => Some (mkRun true None "" [] None)
  | Some false =>
    match get_string "panic" o with
    | Some m => Some (mkRun false (Some m) "" [] None)
    | None =>
      e <- get_string "err" o ;;
      (* after an error the supports are not part of the result (they may be NaN) *)
      if negb (String.eqb e "") then Some (mkRun false None e [] (get_nat "progress" o)) else
      s <- (x <- get "sup" o ;; dec_list (dec_pair dec_bool dec_Q) x) ;;
      Some (mkRun false None e s (get_nat "progress" o))
    end
  | None => None
  end.

(** ** the domain of the property *)
Definition distinct (l : list string) : bool := Nat.eqb (length (sset l)) (length l).
Definition tree_ok (t : utree) : bool :=
  wf t && no_single t && distinct (leaves t) && Nat.leb 2 (degree t).
Definition same_taxa (ref b : utree) : bool := sset_eqb (tipset ref) (tipset b).

(** ** oracle *)
Definition show_q (q : Q) : string := string_of_Q (Qred q).

Definition spec_is_tip (c : utree) : bool := match kids c with [] => true | _ => false end.

(** one branch of the reference, one algorithm *)
Definition check_branch (alg : string) (i : nat) (X : list string) (boots : wtrees)
           (ec : einfo * utree) (g : bool * Q) (spec : Q) : option string :=
  let '(e, c) := ec in
  let A := leaves c in
  let gs := snd g in
  let here := alg ++ ": branch " ++ string_of_nat i in
  if spec_is_tip c then
    if qeqb gs nilv || qeqb gs (esup e) then None
    else Some (here ++ " is a tip branch and received the support " ++ show_q gs)
  else
    let p := length (light X A) in
    let all := Nat.eqb (wcnt (has_split X A) boots) (wlen boots) in
    let one_taxon := if Nat.eqb p 1 then " (inner branch with a one-taxon side)" else "" in
    if negb (qleb 0 gs && qleb gs 1) then
      Some (here ++ one_taxon ++ ": support " ++ show_q gs ++ " is outside [0,1]; the definition gives " ++ show_q spec)
    else if negb (qclose gs spec) then
      Some (here ++ one_taxon ++ ": support " ++ show_q gs ++ " but the definition gives " ++ show_q spec)
    else if negb (Bool.eqb (qeqb gs 1) all) then
      Some (here ++ ": support is 1 exactly when every bootstrap tree has the split: violated (" ++ show_q gs ++ ")")
    else None.

(** [late = false]: tip branches and inner branches with two or more taxa on both sides;
    [late = true]: inner branches with a one-taxon side (the branch beside a tip child of a
    degree-2 root), reported after everything else so that they never hide another failure *)
Definition one_taxon_side (X : list string) (c : utree) : bool :=
  negb (spec_is_tip c) && Nat.eqb (length (light X (leaves c))) 1.

Fixpoint check_branches (late : bool) (alg : string) (i : nat) (X : list string) (boots : wtrees)
         (spec : list string -> Q) (es : list (einfo * utree)) (gs : list (bool * Q)) : option string :=
  match es, gs with
  | [], [] => None
  | ec :: es', g :: gs' =>
    match (if Bool.eqb late (one_taxon_side X (snd ec))
           then check_branch alg i X boots ec g (spec (leaves (snd ec))) else None) with
    | Some m => Some m
    | None => check_branches late alg (S i) X boots spec es' gs'
    end
  | _, _ => Some (alg ++ ": number of observed branches differs from the reference's")
  end.

(** transfer support is never below Felsenstein support (inner branches) *)
Fixpoint check_order (X : list string) (i : nat) (es : list (einfo * utree)) (gf gt : list (bool * Q)) : option string :=
  match es, gf, gt with
  | ec :: es', f :: gf', t :: gt' =>
    if negb (spec_is_tip (snd ec)) && negb (one_taxon_side X (snd ec)) && negb (qleb (snd f - tol) (snd t))
    then Some ("branch " ++ string_of_nat i ++ ": transfer support " ++ show_q (snd t) ++
               " is below Felsenstein support " ++ show_q (snd f))
    else check_order X (S i) es' gf' gt'
  | _, _, _ => None
  end.

Definition run_accepts (alg : string) (r : run) : option string :=
  if rhang r then Some (alg ++ ": the call does not return on a valid collection")
  else match rpanic r with
       | Some m => Some (alg ++ ": panic on a valid collection: " ++ m)
       | None => if String.eqb (rerr r) "" then None
                 else Some (alg ++ ": a valid collection is refused: " ++ rerr r)
       end.

Definition run_rejects (alg : string) (r : run) : option string :=
  if rhang r then Some (alg ++ ": a bootstrap tree on other taxa makes the call block forever (no error)")
  else match rpanic r with
       | Some m => Some (alg ++ ": a bootstrap tree on other taxa makes the call panic: " ++ m)
       | None => if String.eqb (rerr r) ""
                 then Some (alg ++ ": a bootstrap tree on other taxa is accepted (no error)")
                 else None
       end.

Definition both (a b : option string) : option string :=
  match a, b with
  | Some x, Some y => Some (x ++ "; " ++ y)
  | Some x, None => Some x
  | None, y => y
  end.

(** one call: [lab] names it in messages, [alg] is fbp or tbe *)
Definition spec_of (alg : string) (X : list string) (boots : wtrees) (A : list string) : Q :=
  if String.eqb alg "fbp" then fbp_spec_w X A boots else tbe_spec_w X A boots.

Definition oracle_early (lab alg : string) (ref : utree) (boots : wtrees) (r : run) : option string :=
  if forallb (fun p => same_taxa ref (snd p)) boots then
    let X := leaves ref in
    first_some [ run_accepts lab r;
                 check_branches false lab 0 X boots (spec_of alg X boots) (edges ref) (rsup r) ]
  else run_rejects lab r.

Definition oracle_late (lab alg : string) (ref : utree) (boots : wtrees) (r : run) : option string :=
  if forallb (fun p => same_taxa ref (snd p)) boots then
    let X := leaves ref in
    check_branches true lab 0 X boots (spec_of alg X boots) (edges ref) (rsup r)
  else None.

(** FBP and TBE on the same collection *)
Definition oracle (ref : utree) (boots : wtrees) (rf rt : run) : option string :=
  if forallb (fun p => same_taxa ref (snd p)) boots then
    first_some [ oracle_early "fbp" "fbp" ref boots rf; oracle_early "tbe" "tbe" ref boots rt;
                 check_order (leaves ref) 0 (edges ref) (rsup rf) (rsup rt);
                 both (oracle_late "fbp" "fbp" ref boots rf) (oracle_late "tbe" "tbe" ref boots rt) ]
  else both (oracle_early "fbp" "fbp" ref boots rf) (oracle_early "tbe" "tbe" ref boots rt).

(** two calls in a row (sharing one Supporter): each is judged on its own collection *)
Definition oracle_chain (a1 a2 : string) (ref1 : utree) (boots1 : wtrees) (ref2 : utree)
           (boots2 : wtrees) (r1 r2 : run) : option string :=
  let l1 := "first call (" ++ a1 ++ ")" in
  let l2 := "second call (" ++ a2 ++ ", same Supporter)" in
  first_some [ both (oracle_early l1 a1 ref1 boots1 r1) (oracle_early l2 a2 ref2 boots2 r2);
               both (oracle_late l1 a1 ref1 boots1 r1) (oracle_late l2 a2 ref2 boots2 r2) ].

(** ** correspondence *)
Fixpoint sup_agree (alg : string) (i : nat) (m g : list (bool * Q)) : option string :=
  match m, g with
  | [], [] => None
  | a :: m', b :: g' =>
    if negb (Bool.eqb (fst a) (fst b)) then Some (alg ++ ": tip flag of branch " ++ string_of_nat i ++ " differs")
    else if negb (qclose (snd a) (snd b))
         then Some (alg ++ ": branch " ++ string_of_nat i ++ ": model " ++ show_q (snd a) ++ ", implementation " ++ show_q (snd b))
         else sup_agree alg (S i) m' g'
  | _, _ => Some (alg ++ ": number of branches differs")
  end.

(** [progress]: the value sup.Progress() must have after the call (None: no Supporter) *)
(** with several threads and an error the number of trees read is schedule dependent *)
Definition par_of (c : sexp) : bool := match get_nat "cpus" c with Some n => Nat.ltb 1 n | None => false end.

Definition corr_run (par : bool) (alg : string) (m : outcome) (progress : option nat) (r : run) : option string :=
  if rhang r then Some (alg ++ ": implementation does not return, model returns")
  else match rpanic r with
       | Some p => Some (alg ++ ": implementation panics (" ++ p ++ "), model returns")
       | None =>
         if negb (String.eqb (oerr m) (rerr r))
         then Some (alg ++ ": error: model '" ++ oerr m ++ "', implementation '" ++ rerr r ++ "'")
         else
           match (if String.eqb (oerr m) "" then sup_agree alg 0 (osup m) (rsup r) else None) with
           | Some d => Some d
           | None =>
             match progress, rprog r with
             | None, _ => None
             | Some n, Some g =>
               if Nat.eqb n g || (par && negb (String.eqb (oerr m) "")) then None
               else Some (alg ++ ": Supporter.Progress() is " ++ string_of_nat g ++ ", model " ++ string_of_nat n)
             | Some _, None => Some (alg ++ ": no progress value in the observation")
             end
           end
       end.

(** a plain list goes through the model proper, a list with multiplicities through its
    closed form (Proofs/SupportW.v: the same outcome as on the expanded list) *)
Definition plain (boots : wtrees) : bool := forallb (fun p => Nat.eqb (fst p) 1) boots.
Definition model_of (alg : string) (ref : utree) (boots : wtrees) : outcome :=
  if plain boots then
    (if String.eqb alg "fbp" then fbp ref (map snd boots) else Model.Support.tbe ref (map snd boots))
  else
    (if String.eqb alg "fbp" then fbp_w ref boots else tbe_w ref boots).

Definition corr (par fresh : bool) (ref : utree) (boots : wtrees) (rf rt : run) : option string :=
  let pr := if fresh then Some (wn_processed ref boots) else None in
  first_some [ corr_run par "fbp" (model_of "fbp" ref boots) pr rf; corr_run par "tbe" (model_of "tbe" ref boots) pr rt ].

Definition corr_chain (par : bool) (a1 a2 : string) (ref1 : utree) (boots1 : wtrees) (ref2 : utree)
           (boots2 : wtrees) (r1 r2 : run) : option string :=
  let n1 := wn_processed ref1 boots1 in
  first_some [ corr_run par ("first call (" ++ a1 ++ ")") (model_of a1 ref1 boots1) (Some n1) r1;
               corr_run par ("second call (" ++ a2 ++ ")") (model_of a2 ref2 boots2)
                        (if par && negb (String.eqb (oerr (model_of a1 ref1 boots1)) "") then None
                         else Some (n1 + wn_processed ref2 boots2)) r2 ].

(** ** statistics *)
Definition strictly_inside (q : Q) : bool := negb (qleb q 0) && negb (qleb 1 q).
Definition nontrivial_case (ref : utree) (boots : wtrees) : bool :=
  let X := leaves ref in
  existsb (fun ec => negb (spec_is_tip (snd ec)) &&
                     (strictly_inside (fbp_spec_w X (leaves (snd ec)) boots) ||
                      strictly_inside (tbe_spec_w X (leaves (snd ec)) boots))) (edges ref).

Definition in_domain (ref : utree) (boots : wtrees) : bool :=
  tree_ok ref && forallb (fun p => tree_ok (snd p) && Nat.leb 1 (fst p)) boots &&
  Nat.leb 4 (length (leaves ref)) && negb (Nat.eqb (wlen boots) 0).

Definition finish (om cm : option string) (nontrivial : bool) (tag : string) : verdict :=
  match om with
  | Some m =>
    VOracle (m ++ match cm with
                  | None => " [the model agrees with the implementation]"
                  | Some d => " [the model differs: " ++ d ++ "]"
                  end)
  | None =>
    match cm with
    | Some d => VCorr d
    | None => VOk nontrivial tag
    end
  end.

(** a bootstrap collection: trees, or (repeat k tree) for k consecutive copies *)
Definition dec_wtree (s : sexp) : option (nat * utree) :=
  match s with
  | SList [Atom a; k; t] =>
    if String.eqb a "repeat" then (n <- dec_nat k ;; u <- dec_utree t ;; Some (n, u))
    else (u <- dec_utree s ;; Some (1, u))
  | _ => u <- dec_utree s ;; Some (1, u)
  end.
Definition get_trees (k : string) (c : sexp) : option wtrees := x <- get k c ;; dec_list dec_wtree x.
Definition get_run (k : string) (o : sexp) : option run := x <- get k o ;; dec_run x.

Definition is_alg (a : string) : bool := String.eqb a "fbp" || String.eqb a "tbe".

Definition judge_pair (fresh : bool) (c o : sexp) : verdict :=
  match get_tree "ref" c, get_trees "boots" c, get_run "fbp" o, get_run "tbe" o with
  | Some ref, Some boots, Some rf, Some rt =>
    if negb (in_domain ref boots) then VBad "case outside the domain of the property"
    else
      let pre := if fresh then "fresh-supporter:" else "" in
      if forallb (fun p => same_taxa ref (snd p)) boots
      then finish (oracle ref boots rf rt) (corr (par_of c) fresh ref boots rf rt) (nontrivial_case ref boots)
                  (pre ++ (if rooted ref then "accept:rooted-ref" else "accept:unrooted-ref"))
      else finish (oracle ref boots rf rt) (corr (par_of c) fresh ref boots rf rt) true (pre ++ "reject")
  | _, _, _, _ => VBad "undecodable case or observation"
  end.

Definition judge_chain (c o : sexp) : verdict :=
  match get_string "alg1" c, get_string "alg2" c, get_tree "ref" c, get_trees "boots" c,
        get_tree "ref2" c, get_trees "boots2" c, get_run "first" o, get_run "second" o with
  | Some a1, Some a2, Some ref1, Some boots1, Some ref2, Some boots2, Some r1, Some r2 =>
    if negb (is_alg a1 && is_alg a2) then VBad "unknown algorithm"
    else if negb (in_domain ref1 boots1 && in_domain ref2 boots2)
    then VBad "case outside the domain of the property"
    else
      finish (oracle_chain a1 a2 ref1 boots1 ref2 boots2 r1 r2)
             (corr_chain (par_of c) a1 a2 ref1 boots1 ref2 boots2 r1 r2)
             (negb (forallb (fun p => same_taxa ref2 (snd p)) boots2) || nontrivial_case ref2 boots2)
             ("chain:" ++ a1 ++ ">" ++ a2 ++
              (if forallb (fun p => same_taxa ref1 (snd p)) boots1 then ":accept" else ":reject") ++
              (if forallb (fun p => same_taxa ref2 (snd p)) boots2 then ">accept" else ">reject"))
  | _, _, _, _, _, _, _, _ => VBad "undecodable case or observation"
  end.

(** ** mode family: transfer distances on a pair of trees with more than 65536 taxa
    reference (((a,b),(c,d)),(e,f),H), bootstrap ((H,(c,e)),(a,f),(b,d)), H the same clade on m taxa
    in groups of g.  The worker reports, for the ten reference branches outside H and the branch
    above H, TopoDepth and MinTransferDist with absent = false / true on the trees with the m of
    the case.  The judge does not rebuild trees of that size: it evaluates the definition
    ([delta]) and the model on the member of the family with m = 12, g = 4.  For these eleven
    branches neither the light side nor the transfer index depends on H, for any common clade H on
    at least 8 taxa: Proofs/SupportFamily.v [family_spec], [family_model], [family_model_absent]. *)
Definition dec_ztriple (s : sexp) : option (Z * Z * Z) :=
  match s with
  | SList [a; b; c] => x <- dec_Z a ;; y <- dec_Z b ;; z <- dec_Z c ;; Some (x, y, z)
  | _ => None
  end.
Definition show_ztriple (t : Z * Z * Z) : string :=
  "(" ++ string_of_Z (fst (fst t)) ++ ", " ++ string_of_Z (snd (fst t)) ++ ", " ++ string_of_Z (snd t) ++ ")".
Definition neg_triple (t : Z * Z * Z) : bool :=
  (fst (fst t) <? 0)%Z || (snd (fst t) <? 0)%Z || (snd t <? 0)%Z.
Definition nat_triple (t : Z * Z * Z) : nat * nat * nat :=
  (Z.to_nat (fst (fst t)), Z.to_nat (snd (fst t)), Z.to_nat (snd t)).

Fixpoint fam_check (i : nat) (es : list (einfo * utree)) (g : list (nat * nat * nat))
  : option string * option string :=        (* (oracle, correspondence) *)
  match es, g with
  | [], [] => (None, None)
  | ec :: es', (gp, g0, g1) :: g' =>
    let c := snd ec in
    let X := leaves fam_ref in
    let L := light X (leaves c) in
    let p := length L in
    let dl := delta X L fam_boot in
    let mp := topo_depth fam_ref c in
    let m0 := min_transfer_dist (length (tips fam_ref)) mp (ntax_right c) (below c) false fam_boot in
    let m1 := min_transfer_dist (length (tips fam_ref)) mp (ntax_right c) (below c) true fam_boot in
    let here := "family: reference branch " ++ string_of_nat i ++ " (light side " ++ string_of_nat p ++ "): " in
    let o :=
        if negb (Nat.eqb gp p) then Some (here ++ "TopoDepth is " ++ string_of_nat gp)
        else if negb (Nat.eqb g0 dl)
        then Some (here ++ "transfer distance to the bootstrap tree is " ++ string_of_nat g0 ++
                   ", the definition gives " ++ string_of_nat dl)
        else if Nat.leb 2 p && Nat.leb 1 dl && negb (Nat.eqb g1 dl)
        then Some (here ++ "transfer distance (absent = true) is " ++ string_of_nat g1 ++
                   ", the definition gives " ++ string_of_nat dl)
        else None in
    let k :=
        if Nat.eqb gp mp && Nat.eqb g0 m0 && Nat.eqb g1 m1 then None
        else Some (here ++ "model (p, d, d absent) = (" ++ string_of_nat mp ++ ", " ++ string_of_nat m0 ++ ", " ++
                   string_of_nat m1 ++ "), implementation (" ++ string_of_nat gp ++ ", " ++ string_of_nat g0 ++
                   ", " ++ string_of_nat g1 ++ ")") in
    let '(o', k') := fam_check (S i) es' g' in
    (match o with Some _ => o | None => o' end, match k with Some _ => k | None => k' end)
  | _, _ => (Some "family: eleven branches expected", None)
  end.

Definition judge_family (c o : sexp) : verdict :=
  match get_nat "m" c, get_nat "g" c, get_nat "ntips" o, (x <- get "dist" o ;; dec_list dec_ztriple x) with
  | Some m, Some g, Some nt, Some zs =>
    if negb (Nat.leb 12 m && Nat.leb 2 g) then VBad "family: case outside the family"
    else if negb (Nat.eqb nt (m + 6)) then VOracle "family: wrong number of tips"
    else match find neg_triple zs with
         | Some t => VOracle ("family: negative TopoDepth or transfer distance (p, d, d absent) = " ++ show_ztriple t)
         | None =>
           let '(om, cm) := fam_check 0 (firstn 11 (edges fam_ref)) (map nat_triple zs) in
           finish om cm true "family"
         end
  | _, _, _, _ =>
    match get_string "panic" o with
    | Some msg => VOracle ("family: panic: " ++ msg)
    | None => VBad "undecodable case or observation"
    end
  end.

Definition judge (c o : sexp) : verdict :=
  match get_string "mode" c with
  | Some m => if String.eqb m "chain" then judge_chain c o
              else if String.eqb m "family" then judge_family c o
              else if String.eqb m "fresh" then judge_pair true c o
              else judge_pair false c o
  | None => judge_pair false c o
  end.
