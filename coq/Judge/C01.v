(** Judge for C01: Newick write/parse round trip preserves the whole tree.
    case:  ((op roundtrip) (tree T))       obs: ((err e) (text s) (tree T') (audit (...)) (text2 s2))
           ((op parse) (text "..."))       obs: ((err e) (tree T') (audit (...)))
    or obs: ((panic msg))  -- the Go code panicked;  ((bad msg)) -- the harness failed.

    Correspondence: [write T] = Go's text byte for byte; [parse text] and Go's parser take
    the same accept/reject decision (the model's message is a prefix of Go's) and build the
    same tree; [write T'] = Go's second text.
    Oracle (does not use the model of the writer or of the parser): when T is inside the
    quantifier of C01 ([wfN]), Go's parser must accept Go's text, the parsed tree must have
    the same rooted shape, child order, names, numbers and comments as T, and the second
    text must be the first one.  Go must never panic.
    The glue: every observation also carries (glue ((id err [tree audit]) ...)), the records
    utils.ReadMultiTrees delivers for the same text (fileutils.ReadUntilSemiColon over
    bufio.Reader.ReadLine chunks of 4096 bytes, then the parser).  Correspondence: the same
    records as Model/MultiTree.v [read_multi] over [phys_reads] with the C01 parser.  Oracle:
    for T inside the quantifier whose text contains no line feed (a multi-tree stream is
    line based: a line feed inside a name or comment is removed by this reader), exactly one
    record, id 0, a tree with the rose view of T. *)
From Coq Require Import String ZArith QArith Bool Arith List.
From GT Require Import Base.Sexp Base.UTree Base.Codec Spec.NewickSpec Model.Newick Model.NewickNum Model.MultiTree Judge.Common.
Import ListNotations.
Local Close Scope Q_scope.
Local Open Scope string_scope.

Definition writeC : utree -> string := write_go.
Definition parseC : string -> pres := parse_go.
Definition wfNC : utree -> bool := wfN numericC is_b64.
(** the domain of the proved round-trip theorem of the executable model (Properties/C01.v);
    the tag "rt:wf-numgap" counts trees of the quantifier that are outside it *)
Definition wfNT : utree -> bool := wfN numericC numokC.

Definition has_key (k : string) (o : sexp) : option string :=
  match get k o with
  | Some (Atom m) => Some m
  | Some _ => Some ""
  | None => None
  end.

(** model parse result against Go's (err, tree); [k] continues when both accepted *)
Definition corr_parse (text gerr : string) (o : sexp) (k : utree -> verdict) (rej : verdict) : verdict :=
  match parseC text with
  | POutOfFuel => VCorr "model parser ran out of fuel"
  | PErr m =>
    if String.eqb m nonfinite_msg then VOk false "skip:nonfinite"
    else if String.eqb gerr "" then VCorr ("model rejects (" ++ m ++ "), implementation accepts")
    else if prefix m gerr then rej
    else VCorr ("model rejects with (" ++ m ++ "), implementation with (" ++ gerr ++ ")")
  | POk tm =>
    if negb (String.eqb gerr "") then VCorr ("implementation rejects (" ++ gerr ++ "), model accepts")
    else match get_tree "tree" o with
         | None => VBad "no tree in observation"
         | Some g => if utree_eqb tm g then k g else VCorr ("parser, model: " ++ show_utree tm)
         end
  end.

(** * the glue path *)
Definition npP (s : string) : utree + string :=
  match parseC s with
  | POk t => inl t
  | PErr m => inr m
  | POutOfFuel => inr "model: newick parser out of fuel"
  end.

(** 4096 = the buffer of bufio.NewReader *)
Definition bufsz : nat := 64 * 64.

Definition model_glue (text : string) : option (list item) :=
  match read_multi npP (phys_reads (S (String.length text)) bufsz text) with
  | MDone l => Some l
  | _ => None
  end.

(** a record of the implementation: (id err) or (id "" tree audit) *)
Definition dec_rec (s : sexp) : option (nat * string * option utree) :=
  match s with
  | SList [i; Atom e] => n <- dec_nat i ;; Some (n, e, None)
  | SList [i; Atom e; t; _] => n <- dec_nat i ;; u <- dec_utree t ;; Some (n, e, Some u)
  | _ => None
  end.
Definition get_glue (o : sexp) : option (list (nat * string * option utree)) :=
  x <- get "glue" o ;; dec_list dec_rec x.

Fixpoint has_nonfinite (l : list item) : bool :=
  match l with
  | [] => false
  | IErr _ m :: r => String.eqb m nonfinite_msg || has_nonfinite r
  | _ :: r => has_nonfinite r
  end.

Fixpoint glue_same (m : list item) (g : list (nat * string * option utree)) : option string :=
  match m, g with
  | [], [] => None
  | ITree i t :: mr, (j, e, Some u) :: gr =>
    if negb (Nat.eqb i j) then Some "glue: record ids differ"
    else if negb (String.eqb e "") then Some "glue: implementation reports an error with a tree"
    else if negb (utree_eqb t u) then Some ("glue: trees differ, model: " ++ show_utree t)
    else glue_same mr gr
  | IErr i msg :: mr, (j, e, None) :: gr =>
    if negb (Nat.eqb i j) then Some "glue: record ids differ"
    else if negb (prefix msg e) then Some ("glue: model error (" ++ msg ++ "), implementation (" ++ e ++ ")")
    else glue_same mr gr
  | ITree _ _ :: _, (_, e, None) :: _ => Some ("glue: model delivers a tree, implementation the error " ++ e)
  | IErr _ msg :: _, (_, _, Some _) :: _ => Some ("glue: model reports (" ++ msg ++ "), implementation delivers a tree")
  | [], _ :: _ => Some "glue: implementation delivers more records than the model"
  | _ :: _, [] => Some "glue: implementation delivers fewer records than the model"
  end.

Definition corr_glue (text : string) (o : sexp) : option string :=
  match model_glue text with
  | None => Some "glue: model panics or runs out of fuel"
  | Some m =>
    if has_nonfinite m then None
    else match get_glue o with
         | None => Some "glue: no or undecodable records in observation"
         | Some g => glue_same m g
         end
  end.

Definition has_lf (s : string) : bool := negb (forall_chars (fun c => negb (Ascii.eqb c (Ascii.ascii_of_nat 10))) s).

(** oracle on the glue for a tree inside the quantifier *)
Definition oracle_glue (t : utree) (text : string) (o : sexp) : option string :=
  if has_lf text then None
  else match get_glue o with
       | Some [(0, e, Some g)] =>
         if negb (String.eqb e "") then Some ("utils.ReadMultiTrees on the writer's output: " ++ e)
         else if rose_eqb (rose_of g) (rose_of t) then None
         else Some ("utils.ReadMultiTrees: the tree read back differs: " ++ show_utree g)
       | Some ((_, e, None) :: _) => Some ("utils.ReadMultiTrees rejects the writer's output: " ++ e)
       | Some _ => Some "utils.ReadMultiTrees does not deliver exactly one tree for the writer's output"
       | None => Some "glue: no or undecodable records in observation"
       end.

Definition judge_roundtrip (c o : sexp) : verdict :=
  match get_tree "tree" c, get_string "err" o, get_string "text" o with
  | Some t, Some gerr, Some s =>
    let inq := wfNC t in
    let oracle : option string :=
        if negb inq then None
        else if negb (String.eqb gerr "") then Some ("the parser rejects the writer's output " ++ s ++ " : " ++ gerr)
        else match get_tree "tree" o, get_string "text2" o with
             | Some g, Some s2 =>
               first_some [audit_ok o;
                           (if rose_eqb (rose_of g) (rose_of t) then None
                            else Some ("the tree read back from " ++ s ++ " differs: " ++ show_utree g));
                           (if String.eqb s2 s then None
                            else Some ("second text " ++ s2 ++ " differs from the first " ++ s));
                           oracle_glue t s o]
             | _, _ => Some "no tree/text2 in observation"
             end in
    match oracle with
    | Some m => VOracle m
    | None =>
      if negb (String.eqb (writeC t) s) then VCorr ("writer, model: " ++ writeC t ++ " implementation: " ++ s)
      else match corr_glue s o with Some m => VCorr m | None =>
           corr_parse s gerr o
             (fun g => match get_string "text2" o with
                       | None => VBad "no text2"
                       | Some s2 =>
                         if String.eqb (writeC g) s2
                         then VOk inq (if inq then (if wfNT t then "rt:wf" else "rt:wf-numgap") else "rt:outside")
                         else VCorr ("second write, model: " ++ writeC g ++ " implementation: " ++ s2)
                       end)
             (VOk false "rt:outside-rejected")
           end
    end
  | _, _, _ => VBad "undecodable case or observation"
  end.

Definition judge_parse (c o : sexp) : verdict :=
  match get_string "text" c, get_string "err" o with
  | Some s, Some gerr =>
    match corr_glue s o with Some m => VCorr m | None =>
    corr_parse s gerr o
      (fun g => match audit_ok o with
                | Some m => VOracle m
                | None => VOk true "parse:accept"
                end)
      (VOk false "parse:reject")
    end
  | _, _ => VBad "undecodable case or observation"
  end.

Definition judge (c o : sexp) : verdict :=
  match has_key "bad" o, has_key "panic" o with
  | Some m, _ => VBad ("harness: " ++ m)
  | None, Some m => VOracle ("panic: " ++ m)
  | None, None =>
    match get_string "op" c with
    | Some op =>
      if String.eqb op "roundtrip" then judge_roundtrip c o
      else if String.eqb op "parse" then judge_parse c o
      else VBad "unknown op"
    | None => VBad "no op"
    end
  end.
