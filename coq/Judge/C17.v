(** Judge for C17: the NNI neighbourhood is complete, minimal and reversible.
    case:  ((tree T))      or  ((trees (T1 T2 ...)))  with obs ((runs (obs1 obs2 ...))): the
                               trees are rearranged one after the other with the SAME
                               NNIRearranger value, as cmd/nni.go does for a multi-tree input;
                               every tree is judged on its own, exactly as a single tree
           ((par (T1 T2 ...)))   the trees are enumerated concurrently by one goroutine each, all
                               sharing ONE rearranger value, the enumerations made to overlap;
                               obs and judgement as for (trees ...)
           ((tree T) (at i) [(nested T2)])   from inside the callback of proposal i (applied) a
                               second enumeration is run with the same rearranger value on T2,
                               or without (nested ..) on the same tree object (= that
                               neighbour); obs ((runs (outer inner))), both judged on their own
           ((tree T) (ops (A U A U)))   the operations done on every proposal object inside the
                               callback instead of Apply, Undo; props carry (steps (((op A)
                               (err e) (tree T) (audit ..) (nw s)) ...)), one entry per operation
           ((tree T) (collect (i ...)) [(ops ..)])   the callback only keeps the proposal
                               objects; after Rearrange returned they are visited (operations
                               as above, default A U) in the order of the entries < n of the
                               list; every visit carries (idx i).
    The model follows the [applied] flag of the nni object ([run_ops], [enumerate_ops]).  The
    oracle for operations uses the meaning of the flag only: after Apply the tree is this
    proposal's neighbour (the same at every use of the object), after Undo the original tree
    and text, never an error; distinctness and coverage are judged on the first use of every
    object.
    Trees that are not binary are outside the property: the clause "two per inner branch"
    ([coverage]) is not demanded of them, everything else (correspondence, every proposal a
    one-split neighbour, distinctness, restoration) is.
    obs :  ((err e) (n k) (orig T) (nw0 s)
            (props (((tree T_i) (audit (...)) (nw s_i)) ...))     -- inside the callback, after Apply
            (final T') (audit (...)) (nwf s'))                    -- after the whole enumeration

    Correspondence: [rearrange T] (Model/NNI.v: Apply then Undo for every proposal of
    [nni_list T], threaded through the same tree) gives the same list of rearranged trees,
    proposal by proposal, exact structure ([utree_eqb]: neighbour order, parent-slot
    positions, names, comments, branch data), the same final tree, and the Newick writer
    model gives Go's text for each of them.

    Oracle (property text only, never uses Model/NNI.v): branches are the bipartitions of
    the tree seen as unrooted ([usplits]: the two branches at a degree-2 root are one
    branch); an inner branch is a non-trivial bipartition.  Every proposal must be a
    well-formed tree on the same tips whose split set is the original one with exactly one
    inner split replaced by another, every kept split with its length and support; all
    proposals pairwise different as split sets; every inner branch is the replaced split of
    exactly two proposals (hence 2 x inner branches proposals); after the enumeration the
    dump and the Newick text are those before it. *)
From Coq Require Import String ZArith QArith Bool Arith List.
From GT Require Import Base.Sexp Base.UTree Base.Codec Spec.Obs Spec.NNISpec Model.Reroot Model.NNI
     Model.Newick Model.NewickNum Judge.Common.
Import ListNotations.
Local Close Scope Q_scope.
Local Open Scope string_scope.

Definition writeC : utree -> string := write fmt_go.

Definition has_key (s : split) (l : list split) : bool :=
  match find_split (sside s) l with Some _ => true | None => false end.
(** splits of [a] whose bipartition is not in [b] *)
Definition missing (a b : list split) : list split := filter (fun s => negb (has_key s b)) a.

Definition show_side (s : split) : string := "{" ++ concat_with "," (sside s) ++ "}".

Definition inner_splits (t : utree) : list split :=
  filter (nontrivial_split (length (tipset t))) (usplits t).

(** the bipartition of the branch through a degree-2 root *)
Definition root_split (t : utree) : option (list string) :=
  if rooted t then
    match kids t with
    | (_, c) :: _ => Some (canon_side (tipset t) (sset (leaves c)))
    | [] => None
    end
  else None.

(** one operation on a proposal object and the tree after it *)
Record step_obs : Type := mkSO { so_op : op; so_err : string; so_tree : utree; so_obs : sexp; so_nw : string }.

Definition dec_op (s : sexp) : option op :=
  a <- atom_of s ;;
  if String.eqb a "A" then Some OpApply else if String.eqb a "U" then Some OpUndo else None.

Definition dec_step (s : sexp) : option step_obs :=
  o <- (x <- get "op" s ;; dec_op x) ;; e <- get_string "err" s ;;
  g <- get_tree "tree" s ;; nw <- get_string "nw" s ;; Some (mkSO o e g s nw).

(** one visit of a proposal object: its index in the enumeration, the tree after (the first)
    Apply, and, when the case asks for it, the tree after every operation *)
Record prop_obs : Type := mkPO { po_tree : utree; po_obs : sexp; po_nw : string;
                                 po_idx : nat; po_steps : list step_obs }.

Definition dec_prop (s : sexp) : option prop_obs :=
  g <- get_tree "tree" s ;; nw <- get_string "nw" s ;; i <- get_nat "idx" s ;;
  st <- match get "steps" s with Some x => dec_list dec_step x | None => Some [] end ;;
  Some (mkPO g s nw i st).

(** one proposed neighbour against the original; returns the replaced split *)
Definition neighbour_check (t : utree) (i : nat) (p : prop_obs) : string + split :=
  let g := po_tree p in
  let pre := "proposal " ++ string_of_nat i ++ ": " in
  match first_some [audit_ok (po_obs p);
                    (if wf g then None else Some "not a well-formed rooted structure");
                    (if sset_eqb (ssort (leaves t)) (ssort (leaves g)) then None else Some "tip multiset changed")] with
  | Some m => inl (pre ++ m)
  | None =>
    let s0 := usplits t in
    let sg := usplits g in
    let n := length (tipset t) in
    match missing s0 sg, missing sg s0 with
    | [r], [a] =>
      if negb (nontrivial_split n r) then inl (pre ++ "a tip branch was replaced")
      else if negb (splits_sub same_len_sup (filter (fun s => has_key s sg) s0) sg)
           then inl (pre ++ "a kept split changed its length or support")
      else inr r
    | rm, ad => inl (pre ++ "differs from the original by " ++ string_of_nat (length rm) ++ " removed and "
                         ++ string_of_nat (length ad) ++ " added splits instead of one each: " ++ show_utree g)
    end
  end.

Fixpoint check_all (t : utree) (i : nat) (ps : list prop_obs) : string + list split :=
  match ps with
  | [] => inr []
  | p :: r => match neighbour_check t i p with
              | inl m => inl m
              | inr s => match check_all t (S i) r with inl m => inl m | inr l => inr (s :: l) end
              end
  end.

(** pairwise distinct as split sets *)
Fixpoint distinct_from (i j : nat) (s : list split) (r : list (list split)) : option string :=
  match r with
  | [] => None
  | s' :: r' => if splits_eq same_key s s'
                then Some ("proposals " ++ string_of_nat i ++ " and " ++ string_of_nat j ++ " are the same tree")
                else distinct_from i (S j) s r'
  end.
Fixpoint pairwise_distinct (i : nat) (l : list (list split)) : option string :=
  match l with
  | [] => None
  | s :: r => match distinct_from i (S i) s r with Some m => Some m | None => pairwise_distinct (S i) r end
  end.

Definition count_key (s : split) (l : list split) : nat :=
  length (filter (fun x => split_key_eqb s x) l).

(** two proposals per inner branch *)
Definition coverage (t : utree) (removed : list split) : option string :=
  let inner := inner_splits t in
  let np := length removed in
  let ni := length inner in
  let tot := string_of_nat np ++ " proposals for " ++ string_of_nat ni ++ " inner branches" in
  match filter (fun s => negb (Nat.eqb (count_key s removed) 2)) inner with
  | [] => if Nat.eqb np (2 * ni) then None else Some tot
  | s :: more =>
    let is_root := match root_split t with Some k => sset_eqb k (sside s) | None => false end in
    if is_root && Nat.eqb (count_key s removed) 0 && Nat.eqb (np + 2) (2 * ni)
       && match more with [] => true | _ => false end
    then Some ("the inner branch through the degree-2 root " ++ show_side s ++ " gets no proposal, every other inner branch two: " ++ tot)
    else Some ("inner branch " ++ show_side s ++ " is replaced by " ++ string_of_nat (count_key s removed)
                 ++ " proposals instead of 2: " ++ tot)
  end.

Definition oracle (t : utree) (o : sexp) (ps : list prop_obs) : option string :=
  match get_tree "orig" o, get_tree "final" o, get_string "nw0" o, get_string "nwf" o, get_nat "n" o with
  | Some g0, Some gf, Some nw0, Some nwf, Some n =>
    if negb (utree_eqb t g0) then Some "harness: the tree built is not the tree of the case"
    else if negb (Nat.eqb n (length ps)) then Some "harness: proposal count and list differ"
    else
    match check_all t 0 ps with
    | inl m => Some m
    | inr removed =>
      first_some [pairwise_distinct 0 (map (fun p => usplits (po_tree p)) ps);
                  audit_ok o;
                  (if utree_eqb g0 gf then None
                   else Some ("after the full enumeration the tree is not restored: " ++ show_utree gf));
                  (if String.eqb nw0 nwf then None
                   else Some ("after the full enumeration the text changed from " ++ nw0 ++ " to " ++ nwf));
                  (if binary t then coverage t removed else None)]
    end
  | _, _, _, _, _ => Some "undecodable observation"
  end.

(** the first visit of every proposal object *)
Fixpoint firsts (seen : list nat) (ps : list prop_obs) : list prop_obs :=
  match ps with
  | [] => []
  | p :: r => if existsb (Nat.eqb (po_idx p)) seen then firsts seen r
              else p :: firsts (po_idx p :: seen) r
  end.

(** oracle for the operations on one object, from the meaning of the [applied] flag only:
    after an Apply the tree is the neighbour of this proposal (always the same one), after an
    Undo it is the original tree, text included; no operation reports an error *)
Fixpoint steps_check (pre : string) (g0 : utree) (nw0 : string) (nb : utree) (nbw : string)
         (k : nat) (sts : list step_obs) : option string :=
  match sts with
  | [] => None
  | st :: r =>
    let here := pre ++ "operation " ++ string_of_nat k ++ (match so_op st with OpApply => " (Apply): " | OpUndo => " (Undo): " end) in
    if negb (String.eqb (so_err st) "") then Some (here ++ "error " ++ so_err st)
    else match audit_ok (so_obs st) with
         | Some m => Some (here ++ m)
         | None =>
           match so_op st with
           | OpApply =>
             if negb (utree_eqb (so_tree st) nb && String.eqb (so_nw st) nbw)
             then Some (here ++ "the tree is not the neighbour this proposal gave before: " ++ so_nw st)
             else steps_check pre g0 nw0 nb nbw (S k) r
           | OpUndo =>
             if negb (utree_eqb (so_tree st) g0 && String.eqb (so_nw st) nw0)
             then Some (here ++ "the original tree is not restored: " ++ so_nw st)
             else steps_check pre g0 nw0 nb nbw (S k) r
           end
         end
  end.

Fixpoint visits_check (g0 : utree) (nw0 : string) (fs : list prop_obs) (nops : option nat) (k : nat) (ps : list prop_obs)
  : option string :=
  match ps with
  | [] => None
  | p :: r =>
    let pre := "visit " ++ string_of_nat k ++ " of proposal " ++ string_of_nat (po_idx p) ++ ": " in
    match find (fun f => Nat.eqb (po_idx f) (po_idx p)) fs with
    | None => Some (pre ++ "harness: unknown proposal")
    | Some f =>
      if negb (utree_eqb (po_tree f) (po_tree p))
      then Some (pre ++ "the same proposal object gives another tree than at its first use: " ++ po_nw p)
      else if match nops with Some n => negb (Nat.eqb n (length (po_steps p))) | None => false end
      then Some (pre ++ "harness: number of operations")
      else match steps_check pre g0 nw0 (po_tree f) (po_nw f) 1 (po_steps p) with
           | Some m => Some m
           | None => visits_check g0 nw0 fs nops (S k) r
           end
    end
  end.

Definition oracle_visits (o : sexp) (nops : option nat) (ps : list prop_obs) : option string :=
  match get_tree "orig" o, get_string "nw0" o with
  | Some g0, Some nw0 => visits_check g0 nw0 (firsts [] ps) nops 1 ps
  | _, _ => Some "undecodable observation"
  end.

(** model against Go: proposals one by one, then the final tree *)
Fixpoint corr_list (i : nat) (ms : list utree) (ps : list prop_obs) : option string :=
  match ms, ps with
  | [], [] => None
  | m :: mr, p :: pr =>
    if negb (utree_eqb m (po_tree p))
    then Some ("proposal " ++ string_of_nat i ++ ", model: " ++ show_utree m ++ " implementation: " ++ show_utree (po_tree p))
    else if negb (String.eqb (writeC m) (po_nw p))
    then Some ("proposal " ++ string_of_nat i ++ " text, model: " ++ writeC m ++ " implementation: " ++ po_nw p)
    else corr_list (S i) mr pr
  | _, _ => Some ("model has " ++ string_of_nat (i + length ms) ++ " proposals, implementation "
                    ++ string_of_nat (i + length ps))
  end.

Definition corr_final (tf : utree) (o : sexp) : option string :=
  match get_tree "final" o, get_string "nwf" o with
  | Some gf, Some nwf =>
    if negb (utree_eqb tf gf) then Some ("final tree, model: " ++ show_utree tf)
    else if negb (String.eqb (writeC tf) nwf) then Some ("final text, model: " ++ writeC tf)
    else None
  | _, _ => Some "no final tree"
  end.

Definition correspondence (t : utree) (o : sexp) (ps : list prop_obs) : option string :=
  match rearrange t with
  | None => Some "model: a rearrangement is not applicable"
  | Some (ms, tf) =>
    match corr_list 0 ms ps with
    | Some m => Some m
    | None => corr_final tf o
    end
  end.

(** operations on kept objects: the model's tree after every operation of every visit *)
Fixpoint corr_steps (v k : nat) (ms : list utree) (sts : list step_obs) : option string :=
  match ms, sts with
  | [], [] => None
  | m :: mr, st :: sr =>
    let here := "visit " ++ string_of_nat v ++ " operation " ++ string_of_nat k in
    if negb (utree_eqb m (so_tree st))
    then Some (here ++ ", model: " ++ show_utree m ++ " implementation: " ++ show_utree (so_tree st))
    else if negb (String.eqb (writeC m) (so_nw st))
    then Some (here ++ " text, model: " ++ writeC m ++ " implementation: " ++ so_nw st)
    else corr_steps v (S k) mr sr
  | _, _ => Some ("visit " ++ string_of_nat v ++ ": model has " ++ string_of_nat (k - 1 + length ms)
                    ++ " operations, implementation " ++ string_of_nat (k - 1 + length sts))
  end.

Fixpoint corr_visits (v : nat) (mls : list (list utree)) (order : list nat) (ps : list prop_obs) : option string :=
  match mls, order, ps with
  | [], [], [] => None
  | ml :: mr, i :: ir, p :: pr =>
    if negb (Nat.eqb i (po_idx p))
    then Some ("visit " ++ string_of_nat v ++ ": model visits proposal " ++ string_of_nat i ++ ", implementation "
                 ++ string_of_nat (po_idx p))
    else match corr_steps v 1 ml (po_steps p) with
         | Some m => Some m
         | None => corr_visits (S v) mr ir pr
         end
  | _, _, _ => Some ("model has " ++ string_of_nat (v - 1 + length mls) ++ " visits, implementation "
                       ++ string_of_nat (v - 1 + length ps))
  end.

Definition correspondence_ops (t : utree) (o : sexp) (ops : list op) (collect : option (list nat))
           (ps : list prop_obs) : option string :=
  let n := length (nni_list t) in
  let order := match collect with
               | Some perm => filter (fun i => Nat.ltb i n) perm
               | None => seq 0 n
               end in
  match get_nat "n" o with
  | None => Some "no proposal count"
  | Some gn =>
    if negb (Nat.eqb gn n)
    then Some ("model has " ++ string_of_nat n ++ " proposals, implementation " ++ string_of_nat gn)
    else
    match pick t order with
    | None => Some "model: internal"
    | Some rs =>
      match enumerate_ops ops rs t with
      | None => Some "model: an operation is not applicable"
      | Some (mls, tf) =>
        match corr_visits 1 mls order ps with
        | Some m => Some m
        | None => corr_final tf o
        end
      end
    end
  end.

(** the case's operations stay inside the property: some Apply, and the object is left undone *)
Fixpoint ops_flag (fl : bool) (ops : list op) : bool :=
  match ops with
  | [] => fl
  | OpApply :: r => ops_flag true r
  | OpUndo :: r => ops_flag false r
  end.
Definition ops_ok (ops : list op) : bool :=
  existsb (fun o => match o with OpApply => true | _ => false end) ops && negb (ops_flag false ops).

(** one tree against its observation *)
Definition judge_one (t : utree) (o : sexp) (ops : option (list op)) (collect : option (list nat)) : verdict :=
  match get "panic" o with
  | Some m => VOracle ("the implementation panicked: " ++ match m with Atom a => a | _ => "" end)
  | None =>
    match get_string "err" o, (x <- get "props" o ;; dec_list dec_prop x) with
    | Some gerr, Some ps =>
      let plain := match ops, collect with None, None => true | _, _ => false end in
      let ops' := match ops with Some l => l | None => [OpApply; OpUndo] end in
      if negb (ops_ok ops') then VBad "operations outside the domain of the check" else
      let co := if plain then correspondence t o ps else correspondence_ops t o ops' collect ps in
      let agree := match co with
                   | None => " [the model agrees with the implementation]"
                   | Some m => " [the model differs: " ++ m ++ "]" end in
      if negb (String.eqb gerr "") then VOracle ("the implementation reports an error: " ++ gerr ++ agree)
      else match first_some [oracle t o (firsts [] ps);
                             oracle_visits o (if plain then None else Some (length ops')) ps] with
           | Some m => VOracle (m ++ agree)
           | None =>
             match co with
             | Some m => VCorr m
             | None => VOk (negb (Nat.eqb (length ps) 0))
                           (if negb (binary t) then "nonbinary"
                            else if plain then (if rooted t then "rooted" else "unrooted")
                            else match collect with Some _ => "kept" | None => "ops" end)
             end
           end
    | _, _ => VBad "undecodable observation"
    end
  end.

(** several trees given to the same rearranger value one after the other (the loop over the
    input trees of cmd/nni.go): every tree is judged on its own, exactly as a single tree.
    Reported: the first undecodable observation, else the first failure other than the
    known root-branch message, else that message, else OK. *)
Definition root_msg : string := "the inner branch through the degree-2 root ".
Definition is_root_finding (v : verdict) : bool :=
  match v with VOracle m => String.prefix root_msg m | _ => false end.
Definition is_bad (v : verdict) : bool := match v with VBad _ => true | _ => false end.
Definition is_fail (v : verdict) : bool :=
  match v with VCorr _ | VOracle _ => negb (is_root_finding v) | _ => false end.
Definition is_nontrivial (v : verdict) : bool := match v with VOk b _ => b | _ => false end.

Definition label (i n : nat) (v : verdict) : verdict :=
  let pre := "tree " ++ string_of_nat i ++ " of " ++ string_of_nat n ++ ": " in
  match v with
  | VCorr m => VCorr (pre ++ m)
  | VBad m => VBad (pre ++ m)
  | VOracle m => if is_root_finding v then VOracle (m ++ " (" ++ pre ++ "same rearranger value)") else VOracle (pre ++ m)
  | VOk b tg => VOk b tg
  end.

Fixpoint judge_seq (i n : nat) (ts : list utree) (os : list sexp) : list verdict :=
  match ts, os with
  | t :: tr, o :: or => label i n (judge_one t o None None) :: judge_seq (S i) n tr or
  | _, _ => []
  end.

Definition judge_multi (ts : list utree) (os : list sexp) : verdict :=
  if negb (Nat.eqb (length ts) (length os)) then VBad "number of runs differs from the number of trees"
  else
    let vs := judge_seq 1 (length ts) ts os in
    match find is_bad vs with
    | Some v => v
    | None =>
      match find is_fail vs with
      | Some v => v
      | None =>
        match find is_root_finding vs with
        | Some v => v
        | None => VOk (existsb is_nontrivial vs) "sequence"
        end
      end
    end.

(** the callback keeps some proposals applied and lets the enumeration go on (one sweep of an
    accept-on-the-fly search).  Outside the literal quantifier of the property (Apply/Undo in
    enumeration order); judged by the per-proposal clauses read against the tree AS IT IS WHEN
    THE PROPOSAL IS HANDED OUT: applying it gives a well-formed tree on the same tips with
    exactly one split replaced (kept splits with their data), undoing it restores that tree
    exactly (dump and text), no error.  No model is involved (oracle only). *)
Record visit_obs : Type := mkVO {
  vo_kept : bool; vo_err : string; vo_po : prop_obs;
  vo_undo : option (string * utree * list string * string) }.

Definition dec_visit (s : sexp) : option visit_obs :=
  k <- get_bool "kept" s ;; e <- get_string "err" s ;; g <- get_tree "tree" s ;; nw <- get_string "nw" s ;;
  i <- get_nat "idx" s ;;
  let u := match get_string "uerr" s, get_tree "utree" s, get_strings "uaudit" s, get_string "unw" s with
           | Some ue, Some ut, Some ua, Some un => Some (ue, ut, ua, un)
           | _, _, _, _ => None
           end in
  Some (mkVO k e (mkPO g s nw i []) u).

Fixpoint greedy_check (cur : utree) (curnw : string) (vs : list visit_obs) : string + (utree * string) :=
  match vs with
  | [] => inr (cur, curnw)
  | v :: r =>
    let i := po_idx (vo_po v) in
    let pre := "proposal " ++ string_of_nat i ++ (if vo_kept v then " (kept): " else ": ") in
    if negb (String.eqb (vo_err v) "") then inl (pre ++ "Apply on the tree as it is when the proposal is handed out: error " ++ vo_err v)
    else match neighbour_check cur i (vo_po v) with
         | inl m => inl (m ++ " (against the tree as it is when the proposal is handed out)")
         | inr _ =>
           if vo_kept v then greedy_check (po_tree (vo_po v)) (po_nw (vo_po v)) r
           else match vo_undo v with
                | None => inl (pre ++ "harness: no observation after Undo")
                | Some (ue, ut, ua, un) =>
                  if negb (String.eqb ue "") then inl (pre ++ "Undo: error " ++ ue)
                  else match ua with
                       | a :: _ => inl (pre ++ "after Undo, structural audit: " ++ a)
                       | [] => if utree_eqb ut cur && String.eqb un curnw then greedy_check cur curnw r
                               else inl (pre ++ "Undo does not restore the tree as it was: " ++ un)
                       end
                end
         end
  end.

(** the callback returns false after proposal [stop]: the generator must not hand out anything
    more ([after] = calls made after that answer), exactly [stop]+1 proposals were handed out *)
Definition stop_check (c o : sexp) (nvisits : nat) : option string :=
  match get_nat "stop" c with
  | None => None
  | Some j =>
    match get_nat "after" o with
    | None => Some "harness: no count of the calls after the stop"
    | Some k =>
      if negb (Nat.eqb k 0)
      then Some ("the callback returned false at proposal " ++ string_of_nat j ++ " and was called again "
                   ++ string_of_nat k ++ " times: the enumeration does not stop")
      else if negb (Nat.eqb nvisits (S j)) then Some "harness: the enumeration ended before the stop"
      else None
    end
  end.

Definition judge_greedy (c : sexp) (t : utree) (o : sexp) : verdict :=
  match get "panic" o with
  | Some m => VOracle ("the implementation panicked: " ++ match m with Atom a => a | _ => "" end)
  | None =>
    match get_tree "orig" o, get_string "nw0" o, (x <- get "visits" o ;; dec_list dec_visit x),
          get_tree "final" o, get_string "nwf" o with
    | Some g0, Some nw0, Some vs, Some gf, Some nwf =>
      if negb (utree_eqb t g0) then VBad "harness: the tree built is not the tree of the case"
      else match greedy_check g0 nw0 vs with
           | inl m => VOracle m
           | inr (cur, curnw) =>
             match audit_ok o with
             | Some m => VOracle m
             | None =>
               match stop_check c o (length vs) with
               | Some m => if String.prefix "harness" m then VBad m else VOracle m
               | None =>
               if utree_eqb gf cur && String.eqb nwf curnw
               then VOk (existsb vo_kept vs) (match get "stop" c with Some _ => "greedy-stop" | None => "greedy" end)
               else VOracle ("after the enumeration the tree is not the one left by the kept proposals: " ++ nwf)
               end
             end
           end
    | _, _, _, _, _ => VBad "undecodable observation"
    end
  end.

(** a second enumeration started from inside the callback of the first one, with the same
    rearranger value, while proposal [at] is applied: on another tree ([nested]) or on the
    same tree object, i.e. on that neighbour of the case's tree; both enumerations are judged
    on their own *)
Definition nested_trees (c : sexp) (t : utree) : option (list utree) :=
  at_ <- get_nat "at" c ;;
  match get "nested" c with
  | Some x => t2 <- dec_utree x ;; Some [t; t2]
  | None =>
    match rearrange t with
    | Some (ms, _) => m <- nth_error ms at_ ;; Some [t; m]
    | None => None
    end
  end.

Definition judge (c o : sexp) : verdict :=
  match (match get "trees" c with Some x => Some x | None => get "par" c end) with
  | Some x =>
    match dec_list dec_utree x, (r <- get "runs" o ;; list_of r) with
    | Some ts, Some os => judge_multi ts os
    | _, _ => match get "panic" o with
              | Some (Atom a) => VOracle ("the implementation panicked: " ++ a)
              | _ => VBad "undecodable case or observation"
              end
    end
  | None =>
    match get_tree "tree" c with
    | Some t =>
      match get "keep" c with
      | Some _ => judge_greedy c t o
      | None =>
      match get "at" c with
      | Some _ =>
        match nested_trees c t, (r <- get "runs" o ;; list_of r) with
        | Some ts, Some os => judge_multi ts os
        | _, _ => match get "panic" o with
                  | Some (Atom a) => VOracle ("the implementation panicked: " ++ a)
                  | _ => VBad "undecodable nested case or observation"
                  end
        end
      | None =>
      let ops := match get "ops" c with Some x => dec_list dec_op x | None => None end in
      let collect := match get "collect" c with Some x => dec_list dec_nat x | None => None end in
      match get "ops" c, ops with
      | Some _, None => VBad "undecodable operations"
      | _, _ => judge_one t o ops collect
      end
      end
      end
    | None => VBad "undecodable case or observation"
    end
  end.
