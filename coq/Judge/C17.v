(** Judge for C17: the NNI neighbourhood is complete, minimal and reversible.
    case:  ((tree T))      or  ((trees (T1 T2 ...)))  with obs ((runs (obs1 obs2 ...))): the
                               trees are rearranged one after the other with the SAME
                               NNIRearranger value, as cmd/nni.go does for a multi-tree input;
                               every tree is judged on its own, exactly as a single tree
    obs :  ((err e) (n k) (orig T) (nw0 s)
            (props (((tree T_i) (audit (...)) (nw s_i)) ...))     -- inside the callback, after Apply
            (final T') (audit (...)) (nwf s'))                    -- after the whole enumeration

    Correspondence: [rearrange T] (Model/NNI.v: Apply then Undo for every proposal of
    [nni_list T], threaded through the same tree) gives the same list of rearranged trees,
    proposal by proposal, exact structure ([utree_eqb]: neighbour order, parent-slot
    positions, names, comments, branch data), the same final tree, and the Newick writer
    model gives Go's text for each of them.

    Oracle (property text only, never uses Model/NNI.v): branches are the bipartitions of
    the tree seen as unrooted ([usplits]: the two branches at a degree-2 root are one
    branch); an inner branch is a non-trivial bipartition.  Every proposal must be a
    well-formed tree on the same tips whose split set is the original one with exactly one
    inner split replaced by another, every kept split with its length and support; all
    proposals pairwise different as split sets; every inner branch is the replaced split of
    exactly two proposals (hence 2 x inner branches proposals); after the enumeration the
    dump and the Newick text are those before it. *)
From Coq Require Import String ZArith QArith Bool Arith List.
From GT Require Import Base.Sexp Base.UTree Base.Codec Spec.Obs Model.Reroot Model.NNI
     Model.Newick Model.NewickNum Judge.Common.
Import ListNotations.
Local Close Scope Q_scope.
Local Open Scope string_scope.

Definition writeC : utree -> string := write fmt_go.

Definition has_key (s : split) (l : list split) : bool :=
  match find_split (sside s) l with Some _ => true | None => false end.
(** splits of [a] whose bipartition is not in [b] *)
Definition missing (a b : list split) : list split := filter (fun s => negb (has_key s b)) a.

Definition show_side (s : split) : string := "{" ++ concat_with "," (sside s) ++ "}".

Definition inner_splits (t : utree) : list split :=
  filter (nontrivial_split (length (tipset t))) (usplits t).

(** the bipartition of the branch through a degree-2 root *)
Definition root_split (t : utree) : option (list string) :=
  if rooted t then
    match kids t with
    | (_, c) :: _ => Some (canon_side (tipset t) (sset (leaves c)))
    | [] => None
    end
  else None.

Record prop_obs : Type := mkPO { po_tree : utree; po_obs : sexp; po_nw : string }.

Definition dec_prop (s : sexp) : option prop_obs :=
  g <- get_tree "tree" s ;; nw <- get_string "nw" s ;; Some (mkPO g s nw).

(** one proposed neighbour against the original; returns the replaced split *)
Definition neighbour_check (t : utree) (i : nat) (p : prop_obs) : string + split :=
  let g := po_tree p in
  let pre := "proposal " ++ string_of_nat i ++ ": " in
  match first_some [audit_ok (po_obs p);
                    (if wf g then None else Some "not a well-formed rooted structure");
                    (if sset_eqb (ssort (leaves t)) (ssort (leaves g)) then None else Some "tip multiset changed")] with
  | Some m => inl (pre ++ m)
  | None =>
    let s0 := usplits t in
    let sg := usplits g in
    let n := length (tipset t) in
    match missing s0 sg, missing sg s0 with
    | [r], [a] =>
      if negb (nontrivial_split n r) then inl (pre ++ "a tip branch was replaced")
      else if negb (splits_sub same_len_sup (filter (fun s => has_key s sg) s0) sg)
           then inl (pre ++ "a kept split changed its length or support")
      else inr r
    | rm, ad => inl (pre ++ "differs from the original by " ++ string_of_nat (length rm) ++ " removed and "
                         ++ string_of_nat (length ad) ++ " added splits instead of one each: " ++ show_utree g)
    end
  end.

Fixpoint check_all (t : utree) (i : nat) (ps : list prop_obs) : string + list split :=
  match ps with
  | [] => inr []
  | p :: r => match neighbour_check t i p with
              | inl m => inl m
              | inr s => match check_all t (S i) r with inl m => inl m | inr l => inr (s :: l) end
              end
  end.

(** pairwise distinct as split sets *)
Fixpoint distinct_from (i j : nat) (s : list split) (r : list (list split)) : option string :=
  match r with
  | [] => None
  | s' :: r' => if splits_eq same_key s s'
                then Some ("proposals " ++ string_of_nat i ++ " and " ++ string_of_nat j ++ " are the same tree")
                else distinct_from i (S j) s r'
  end.
Fixpoint pairwise_distinct (i : nat) (l : list (list split)) : option string :=
  match l with
  | [] => None
  | s :: r => match distinct_from i (S i) s r with Some m => Some m | None => pairwise_distinct (S i) r end
  end.

Definition count_key (s : split) (l : list split) : nat :=
  length (filter (fun x => split_key_eqb s x) l).

(** two proposals per inner branch *)
Definition coverage (t : utree) (removed : list split) : option string :=
  let inner := inner_splits t in
  let np := length removed in
  let ni := length inner in
  let tot := string_of_nat np ++ " proposals for " ++ string_of_nat ni ++ " inner branches" in
  match filter (fun s => negb (Nat.eqb (count_key s removed) 2)) inner with
  | [] => if Nat.eqb np (2 * ni) then None else Some tot
  | s :: more =>
    let is_root := match root_split t with Some k => sset_eqb k (sside s) | None => false end in
    if is_root && Nat.eqb (count_key s removed) 0 && Nat.eqb (np + 2) (2 * ni)
       && match more with [] => true | _ => false end
    then Some ("the inner branch through the degree-2 root " ++ show_side s ++ " gets no proposal, every other inner branch two: " ++ tot)
    else Some ("inner branch " ++ show_side s ++ " is replaced by " ++ string_of_nat (count_key s removed)
                 ++ " proposals instead of 2: " ++ tot)
  end.

Definition oracle (t : utree) (o : sexp) (ps : list prop_obs) : option string :=
  match get_tree "orig" o, get_tree "final" o, get_string "nw0" o, get_string "nwf" o, get_nat "n" o with
  | Some g0, Some gf, Some nw0, Some nwf, Some n =>
    if negb (utree_eqb t g0) then Some "harness: the tree built is not the tree of the case"
    else if negb (Nat.eqb n (length ps)) then Some "harness: proposal count and list differ"
    else
    match check_all t 0 ps with
    | inl m => Some m
    | inr removed =>
      first_some [pairwise_distinct 0 (map (fun p => usplits (po_tree p)) ps);
                  audit_ok o;
                  (if utree_eqb g0 gf then None
                   else Some ("after the full enumeration the tree is not restored: " ++ show_utree gf));
                  (if String.eqb nw0 nwf then None
                   else Some ("after the full enumeration the text changed from " ++ nw0 ++ " to " ++ nwf));
                  coverage t removed]
    end
  | _, _, _, _, _ => Some "undecodable observation"
  end.

(** model against Go: proposals one by one, then the final tree *)
Fixpoint corr_list (i : nat) (ms : list utree) (ps : list prop_obs) : option string :=
  match ms, ps with
  | [], [] => None
  | m :: mr, p :: pr =>
    if negb (utree_eqb m (po_tree p))
    then Some ("proposal " ++ string_of_nat i ++ ", model: " ++ show_utree m ++ " implementation: " ++ show_utree (po_tree p))
    else if negb (String.eqb (writeC m) (po_nw p))
    then Some ("proposal " ++ string_of_nat i ++ " text, model: " ++ writeC m ++ " implementation: " ++ po_nw p)
    else corr_list (S i) mr pr
  | _, _ => Some ("model has " ++ string_of_nat (i + length ms) ++ " proposals, implementation "
                    ++ string_of_nat (i + length ps))
  end.

Definition correspondence (t : utree) (o : sexp) (ps : list prop_obs) : option string :=
  match rearrange t with
  | None => Some "model: a rearrangement is not applicable"
  | Some (ms, tf) =>
    match corr_list 0 ms ps with
    | Some m => Some m
    | None =>
      match get_tree "final" o, get_string "nwf" o with
      | Some gf, Some nwf =>
        if negb (utree_eqb tf gf) then Some ("final tree, model: " ++ show_utree tf)
        else if negb (String.eqb (writeC tf) nwf) then Some ("final text, model: " ++ writeC tf)
        else None
      | _, _ => Some "no final tree"
      end
    end
  end.

(** one tree against its observation *)
Definition judge_one (t : utree) (o : sexp) : verdict :=
  match get "panic" o with
  | Some m => VOracle ("the implementation panicked: " ++ match m with Atom a => a | _ => "" end)
  | None =>
    match get_string "err" o, (x <- get "props" o ;; dec_list dec_prop x) with
    | Some gerr, Some ps =>
      let co := correspondence t o ps in
      let agree := match co with
                   | None => " [the model agrees with the implementation]"
                   | Some m => " [the model differs: " ++ m ++ "]" end in
      if negb (String.eqb gerr "") then VOracle ("the implementation reports an error: " ++ gerr ++ agree)
      else match oracle t o ps with
           | Some m => VOracle (m ++ agree)
           | None =>
             match co with
             | Some m => VCorr m
             | None => VOk (negb (Nat.eqb (length ps) 0)) (if rooted t then "rooted" else "unrooted")
             end
           end
    | _, _ => VBad "undecodable observation"
    end
  end.

(** several trees given to the same rearranger value one after the other (the loop over the
    input trees of cmd/nni.go): every tree is judged on its own, exactly as a single tree.
    Reported: the first undecodable observation, else the first failure other than the
    known root-branch message, else that message, else OK. *)
Definition root_msg : string := "the inner branch through the degree-2 root ".
Definition is_root_finding (v : verdict) : bool :=
  match v with VOracle m => String.prefix root_msg m | _ => false end.
Definition is_bad (v : verdict) : bool := match v with VBad _ => true | _ => false end.
Definition is_fail (v : verdict) : bool :=
  match v with VCorr _ | VOracle _ => negb (is_root_finding v) | _ => false end.
Definition is_nontrivial (v : verdict) : bool := match v with VOk b _ => b | _ => false end.

Definition label (i n : nat) (v : verdict) : verdict :=
  let pre := "tree " ++ string_of_nat i ++ " of " ++ string_of_nat n ++ ": " in
  match v with
  | VCorr m => VCorr (pre ++ m)
  | VBad m => VBad (pre ++ m)
  | VOracle m => if is_root_finding v then VOracle (m ++ " (" ++ pre ++ "same rearranger value)") else VOracle (pre ++ m)
  | VOk b tg => VOk b tg
  end.

Fixpoint judge_seq (i n : nat) (ts : list utree) (os : list sexp) : list verdict :=
  match ts, os with
  | t :: tr, o :: or => label i n (judge_one t o) :: judge_seq (S i) n tr or
  | _, _ => []
  end.

Definition judge_multi (ts : list utree) (os : list sexp) : verdict :=
  if negb (Nat.eqb (length ts) (length os)) then VBad "number of runs differs from the number of trees"
  else
    let vs := judge_seq 1 (length ts) ts os in
    match find is_bad vs with
    | Some v => v
    | None =>
      match find is_fail vs with
      | Some v => v
      | None =>
        match find is_root_finding vs with
        | Some v => v
        | None => VOk (existsb is_nontrivial vs) "sequence"
        end
      end
    end.

Definition judge (c o : sexp) : verdict :=
  match get "trees" c with
  | Some x =>
    match dec_list dec_utree x, (r <- get "runs" o ;; list_of r) with
    | Some ts, Some os => judge_multi ts os
    | _, _ => match get "panic" o with
              | Some (Atom a) => VOracle ("the implementation panicked: " ++ a)
              | _ => VBad "undecodable case or observation"
              end
    end
  | None =>
    match get_tree "tree" c with
    | Some t => judge_one t o
    | None => VBad "undecodable case or observation"
    end
  end.
