(** Judge for C05: re-rooting, unrooting, reordering never change the tree itself.
    case:  ((op reroot|unroot|rotate|sort) (tree T) (i n) (cs (n ...)))
           ((op outgroup) (tree T) (names ("a" ...)) (remove T|F) (strict T|F))
           ((op midpoint) (tree T))
           ((op outgroup) (tree T) (pre (rename "old" "new")|(graft i "name")) (names ...) (remove b) (strict b))
           ((op outgroup_multi) (trees (T ...)) (names ...) (remove b) (strict b))
           ((op handbuilt) (tree T) (flip (b ...)) (i n))   built with NewNode/ConnectNodes, then Reroot(Nodes()[i])
           (pre (cli ...)): input and output trees of the command line, oracle only (no correspondence)
    obs :  ((err msg) (tree T') (audit (...)))   |   ((err msg))   |   ((panic msg))   *)
From Coq Require Import String ZArith QArith Bool Arith List.
From GT Require Import Base.Sexp Base.UTree Base.Codec Spec.Obs Model.Reroot Model.Rand Model.Outgroup Judge.Common.
Import ListNotations.
Local Close Scope Q_scope.
Local Open Scope string_scope.

(** * the name index after an operation that recomputes (or must keep) it:
    obs fields  (tipidx ("name" ...))  sorted keys of the tip-name index,
                (tipstate (("name" T|F id) ...))  ExistsTip / TipIndex for every tip of Tips(),
                (bitsets (w ...))  width of the bitset of every branch, -1 when nil.
    Clause: the tip-name index is exactly the tip set of the resulting tree, tip ids are the
    ranks in the sorted names and every branch has a bitset of that width. *)
Fixpoint rank_of (x : string) (l : list string) : option Z :=
  match l with
  | [] => None
  | y :: r => if String.eqb x y then Some 0%Z
              else match rank_of x r with Some k => Some (k + 1)%Z | None => None end
  end.

Definition dec_tipstate (s : sexp) : option (string * bool * Z) :=
  match s with
  | SList [n; e; i] => nm <- dec_string n ;; ex <- dec_bool e ;; id <- dec_Z i ;; Some (nm, ex, id)
  | _ => None
  end.

(** the clause, on the decoded fields *)
Definition index_ok_data (g : utree) (idx : list string) (st : list (string * bool * Z)) (bs : list Z)
  : option string :=
  let tn := ssort (leaves g) in
  if negb (list_eqb String.eqb idx tn)
  then Some "the tip-name index is not the tip set of the resulting tree"
  else if negb (list_eqb String.eqb (ssort (map (fun x => fst (fst x)) st)) tn)
  then Some "Tips() is not the tip set of the resulting tree"
  else if negb (forallb (fun x => snd (fst x) &&
                                  match rank_of (fst (fst x)) tn with
                                  | Some r => Z.eqb (snd x) r
                                  | None => false
                                  end) st)
  then Some "a tip is not found through the name index, or its id is not its rank in the sorted tip names"
  else if negb (forallb (fun w => Z.eqb w (Z.of_nat (length tn))) bs)
  then Some "a branch has no bitset of the width of the tip index"
  else None.

Definition index_ok (g : utree) (o : sexp) : option string :=
  match get_strings "tipidx" o,
        (x <- get "tipstate" o ;; dec_list dec_tipstate x),
        (x <- get "bitsets" o ;; dec_list dec_Z x) with
  | Some idx, Some st, Some bs => index_ok_data g idx st bs
  | _, _, _ => Some "no index state in the observation"
  end.

Definition judge_basic (op : string) (c o : sexp) : verdict :=
  match get_tree "tree" c, get_string "err" o with
  | Some t, Some gerr =>
    let model : option (res utree) :=
        if String.eqb op "reroot" then i <- get_nat "i" c ;; Some (reroot t i)
        else if String.eqb op "unroot" then Some (Ok (unroot t))
        else if String.eqb op "rotate" then
          raw <- (x <- get "raw" o ;; dec_list dec_N x) ;;
          d <- draws (rotate_bounds t) raw ;;
          Some (Ok (fst (rotate_all t (fst d))))
        else if String.eqb op "sort" then Some (Ok (sort_by_tips t))
        else None in
    match model with
    | None => VBad "bad case"
    | Some (Err m) =>
      if String.eqb gerr "" then VCorr ("model refuses (" ++ m ++ "), implementation succeeds")
      else VOk false (op ++ ":err")
    | Some (Ok t') =>
      if negb (String.eqb gerr "") then VCorr ("implementation refuses: " ++ gerr)
      else match get_tree "tree" o with
           | None => VBad "no tree in observation"
           | Some g =>
             match first_some [audit_ok o; same_tree_obs t g;
                               if String.eqb op "reroot" || String.eqb op "unroot" then index_ok g o else None] with
             | Some m => VOracle m
             | None =>
               if utree_eqb t' g then VOk (negb (utree_eqb t g)) op
               else VCorr ("model: " ++ show_utree t')
             end
           end
    end
  | _, _ => VBad "undecodable case or observation"
  end.


(** * rooting on an outgroup / at the midpoint *)

(** ** oracle, written from the property text on the specification's observables only *)

(** every branch carries a length (the property quantifies over trees with branch lengths) *)
Definition all_lengths (t : utree) : bool :=
  forallb (fun s => negb (qeqb (slen s) nilv)) (branch_splits [] t).

(** non-empty node names are pairwise distinct (a name designates at most one node) *)
Definition distinct_names (t : utree) : bool :=
  negb (has_dup (filter (fun s => negb (String.eqb s "")) (map uname (nodes t)))).

(** the requested names that are tips of the tree, as a sorted set *)
Definition present (t : utree) (names : list string) : list string :=
  sset (filter (fun x => smem x (leaves t)) names).

(** [P] is one side of a split of [t] (some branch separates exactly [P] from the rest) *)
Definition is_side (t : utree) (P : list string) : bool :=
  let all := tipset t in
  negb (sset_eqb P []) && negb (sset_eqb P all) &&
  existsb (fun s => sset_eqb (sside s) (canon_side all P)) (branch_splits all t).

(** supports of untouched branches: every internal split of [t] other than the one cut by the
    new root keeps its support *)
Definition root_key (g : utree) : option (list string) :=
  match kids g with
  | [(_, c1); _] => Some (canon_side (tipset g) (sset (leaves c1)))
  | _ => None
  end.
Definition supports_kept (t g : utree) : bool :=
  let n := length (tipset t) in
  let ug := usplits g in
  forallb (fun s =>
             if negb (nontrivial_split n s) then true
             else if match root_key g with Some k => sset_eqb k (sside s) | None => false end then true
             else match find_split (sside s) ug with
                  | Some s' => qeqb (ssup s) (ssup s')
                  | None => false
                  end) (usplits t).

(** [keep]-filtered sub-matrix *)
Fixpoint filter_by {A} (keep : list bool) (l : list A) : list A :=
  match keep, l with
  | b :: k, x :: r => if b then x :: filter_by k r else filter_by k r
  | _, _ => []
  end.

(** the outgroup was removed.  [exact]: the outgroup is one side of a split -- tips = old tips
    minus the outgroup; otherwise (non-monophyletic, non-strict): the remaining tips are some of
    the old tips minus the outgroup.  In both cases the path lengths among the remaining tips are
    unchanged. *)
Definition removed_obs (exact : bool) (t g : utree) (P : list string) : option string :=
  if negb (wf g) then Some "result is not a well-formed rooted structure"
  else
    let ts := ssort (leaves t) in
    let keep := map (fun x => negb (smem x P) && smem x (leaves g)) ts in
    if negb (sset_eqb (filter_by keep ts) (ssort (leaves g)))
    then Some "the tips of the result are not among the old tips minus the outgroup"
    else if exact && negb (sset_eqb (ssort (sdiff (leaves t) P)) (ssort (leaves g)))
    then Some "the tips of the result are not the old tips minus the outgroup"
    else
      let sub := filter_by keep (map (filter_by keep) (dist_matrix len0 t)) in
      if negb (matrix_eqb sub (dist_matrix len0 g))
      then Some "a path length between two remaining tips changed" else None.

Definition oracle_outgroup_ok (remove strict : bool) (t g : utree) (names : list string) : option string :=
  let P := present t names in
  let side := is_side t P in
  if negb side && strict && negb (sset_eqb P []) && negb (sset_eqb P (tipset t))
  then Some "a non-monophyletic outgroup was accepted in strict mode"
  else if remove then removed_obs side t g P
  else match same_tree_obs t g with
       | Some m => Some m
       | None =>
         if negb (supports_kept t g) then Some "the support of an untouched branch changed" else
         match kids g with
         | [(e1, c1); (e2, c2)] =>
           let l1 := sset (leaves c1) in
           let l2 := sset (leaves c2) in
           if side then
             if negb (sset_eqb l1 P || sset_eqb l2 P)
             then Some "the outgroup is not one of the two clades below the new root"
             else if negb (all_lengths t) then None
             else
               (* the separating branch: the branch of [t] with this bipartition (the two root
                  branches counting as one); when a node with a single child makes several
                  branches define the same bipartition, any one of them *)
               let key := canon_side (tipset t) P in
               let cands := (match find_split key (usplits t) with Some s => [slen s] | None => [] end
                             ++ match kids t with
                                | [(r1, c1'); (r2, _)] =>
                                  if sset_eqb (canon_side (tipset t) (sset (leaves c1'))) key
                                  then [merge_len (elen r1) (elen r2)] else []
                                | _ => []
                                end
                             ++ map slen (filter (fun s => sset_eqb (sside s) key) (branch_splits (tipset t) t)))%list in
               if qeqb (elen e1) (elen e2) && existsb (fun l => qeqb (elen e1) (l * (1 # 2))%Q) cands
               then None
               else Some "the separating branch was not cut into two equal halves"
           else if sset_eqb P [] || sset_eqb P (tipset t) then None
           else if ssubset P l1 || ssubset P l2 then None
                else Some "the non-monophyletic outgroup is not inside one root clade"
         | _ => Some "the new root does not have exactly two children"
         end
       end.

(** a refusal is never questioned: the text speaks of what a successful rooting looks like *)
Definition oracle_outgroup_refused (remove strict : bool) (t : utree) (names : list string) : option string :=
  None.

Definition qmax_list (l : list Q) : Q := fold_right (fun x acc => if Qle_bool acc x then x else acc) 0%Q l.
Definition depth_of (ds : list (string * Q)) (a : string) : option Q :=
  match find (fun p => String.eqb (fst p) a) ds with Some p => Some (snd p) | None => None end.

Definition oracle_midpoint_ok (t g : utree) : option string :=
  match same_tree_obs t g with
  | Some m => Some m
  | None =>
    if negb (supports_kept t g) then Some "the support of an untouched branch changed" else
    match kids g with
    | [_; _] =>
      if negb (all_lengths t) then None else
      let pd := pairdists len0 t in
      let D := qmax_list (map snd pd) in
      let ds := depths len0 g in
      if existsb (fun x => qeqb (snd x) D &&
                           oq_eqb (depth_of ds (fst (fst x))) (Some (D * (1 # 2))%Q) &&
                           oq_eqb (depth_of ds (snd (fst x))) (Some (D * (1 # 2))%Q)) pd
      then None
      else Some "the root is not halfway along a longest tip-to-tip path"
    | _ => Some "the new root does not have exactly two children"
    end
  end.

Fixpoint has_prefix (p s : string) : bool :=
  match p, s with
  | EmptyString, _ => true
  | String a p', String b s' => Ascii.eqb a b && has_prefix p' s'
  | _, _ => false
  end.

(** a branch with a negative length other than the "absent" code -1: outside the property ("trees
    with branch lengths"), such trees are used for the correspondence only *)
Definition has_neg (t : utree) : bool :=
  existsb (fun s => negb (qeqb (slen s) nilv) && negb (Qle_bool 0 (slen s))) (branch_splits [] t).

Definition oracle_reduced (t g : utree) : option string :=
  if negb (wf g) then Some "result is not a well-formed rooted structure"
  else if negb (sset_eqb (ssort (leaves t)) (ssort (leaves g))) then Some "tip multiset changed"
  else None.

(** [t]: the tree the operation is applied to; [with_index]: the index clause applies (not after a
    pre-edit that leaves the name index stale on purpose).  The oracle speaks first: a result that
    the specification rejects is reported as such, with this input; then the correspondence. *)
Definition judge_root_on (op : string) (t : utree) (with_index : bool) (c o : sexp) : verdict :=
    let setup : option (res utree * (utree -> option string) * option string * string) :=
        (* model result, oracle on success, oracle on refusal, tag *)
        if String.eqb op "outgroup" then
          names <- get_strings "names" c ;;
          remove <- get_bool "remove" c ;;
          strict <- get_bool "strict" c ;;
          let P := present t names in
          let tag := (if is_side t P then "outgroup:side" else
                      if sset_eqb P [] then "outgroup:none" else
                      if sset_eqb P (tipset t) then "outgroup:all" else "outgroup:nonmono")
                     ++ (if remove then "-rm" else "") ++ (if strict then "-strict" else "") in
          Some (reroot_outgroup remove strict t names,
                fun g => oracle_outgroup_ok remove strict t g names,
                oracle_outgroup_refused remove strict t names, tag)
        else if String.eqb op "midpoint" then
          Some (reroot_midpoint t,
                (if has_neg t then oracle_reduced t else oracle_midpoint_ok t), None,
                if has_neg t then "midpoint:negative" else "midpoint")
        else None in
    match setup with
    | None => VBad "bad case"
    | Some (model, oracle_ok, oracle_refused, tag) =>
      match get_string "panic" o with
      | Some m =>
        if has_prefix "build: " m || has_prefix "reinit: " m then VBad m
        else VOracle ("panic: " ++ m)
      | None =>
        match get_string "err" o with
        | None => VBad "undecodable observation"
        | Some gerr =>
          if negb (String.eqb gerr "") then
            (* the implementation refuses *)
            match model with
            | Err _ => match oracle_refused with
                       | Some m' => VOracle m'
                       | None => VOk false (tag ++ ":err")
                       end
            | Ok t' => VCorr ("implementation refuses: " ++ gerr ++ "; model: " ++ show_utree t')
            end
          else
            match get_tree "tree" o with
            | None => VBad "no tree in observation"
            | Some g =>
              match first_some [audit_ok o; oracle_ok g; if with_index then index_ok g o else None] with
              | Some m => VOracle m
              | None =>
                match model with
                | Err m => VCorr ("model refuses (" ++ m ++ "), implementation succeeds")
                | Ok t' => if utree_eqb t' g then VOk true tag else VCorr ("model: " ++ show_utree t')
                end
              end
            end
        end
      end
    end.

(** pre-edits that leave the name index stale: (pre (rename old new)): the case tree is the tree
    after the renaming; (pre (graft i name)): the tree after the graft is read in the observation *)
Definition pre_kind (c : sexp) : string :=
  match get "pre" c with
  | Some (SList (Atom k :: _)) => k
  | _ => ""
  end.

(** the command line (`gotree reroot outgroup|midpoint -i multi.nw ...`): the case carries one input
    tree and the observation the tree printed for it, both read from Newick text, so only the
    oracle speaks (neighbour orders are not comparable through the text) *)
Definition judge_cli (op : string) (t : utree) (c o : sexp) : verdict :=
  match get_string "err" o with
  | None => VBad "undecodable observation"
  | Some gerr =>
    if negb (String.eqb gerr "") then VOk false (op ++ ":cli:err") else
    match get_tree "tree" o with
    | None => VBad "no tree in observation"
    | Some g =>
      let oracle : option (option string) :=
          if String.eqb op "outgroup" then
            names <- get_strings "names" c ;;
            remove <- get_bool "remove" c ;;
            strict <- get_bool "strict" c ;;
            Some (oracle_outgroup_ok remove strict t g names)
          else if String.eqb op "midpoint" then Some (oracle_midpoint_ok t g)
          else None in
      match oracle with
      | None => VBad "bad case"
      | Some (Some m) => VOracle m
      | Some None => VOk true (op ++ ":cli")
      end
    end
  end.

Definition judge_root (op : string) (c o : sexp) : verdict :=
  let k := pre_kind c in
  if String.eqb k "graft" then
    match get_string "panic" o with
    | Some m => if has_prefix "build: " m || has_prefix "reinit: " m then VBad m else VOracle ("panic: " ++ m)
    | None =>
      match get_tree "mid" o, get_strings "midaudit" o with
      | Some t, Some [] => judge_root_on op t false c o
      | _, _ => VBad "no tree after the graft"
      end
    end
  else
    match get_tree "tree" c with
    | None => VBad "undecodable case"
    | Some t => if String.eqb k "cli" then judge_cli op t c o else judge_root_on op t (String.eqb k "") c o
    end.

(** one outgroup list applied in a loop to several trees: every result is judged on its own, and
    the list must come back unchanged (a function must not write into its argument's storage) *)
Fixpoint judge_each (c : sexp) (ts : list utree) (rs : list sexp) : verdict :=
  match ts, rs with
  | [], [] => VOk true "outgroup_multi"
  | t :: ts', r :: rs' =>
    match judge_root_on "outgroup" t true c r with
    | VOk _ _ => judge_each c ts' rs'
    | v => v
    end
  | _, _ => VBad "results and trees do not match"
  end.

Definition judge_multi (c o : sexp) : verdict :=
  match get_string "panic" o with
  | Some m => if has_prefix "build: " m || has_prefix "reinit: " m then VBad m else VOracle ("panic: " ++ m)
  | None =>
    match (x <- get "trees" c ;; dec_list dec_utree x), (x <- get "results" o ;; list_of x),
          get_strings "names" c, get_strings "names_after" o with
    | Some ts, Some rs, Some names, Some after =>
      match judge_each c ts rs with
      | VOk _ _ =>
        if list_eqb String.eqb names after then VOk true "outgroup_multi"
        else VOracle "the outgroup list of the caller was modified by the call (the next call with it roots on other tips)"
      | v => v
      end
    | _, _, _, _ => VBad "undecodable multi-tree case"
    end
  end.

(** a support below zero other than the "absent" code -1: outside the property (a support is a
    non-negative number; when UnRoot merges the two root branches s1, s2 it writes
    max (max 0 s1) (max 0 s2) unless both are absent or a root child is a tip, so a negative support
    on a root branch is not kept).  Such trees are used for the correspondence only (the model
    follows the code on them), with the reduced oracle, the audit and the index clause. *)
Definition has_neg_sup (t : utree) : bool :=
  existsb (fun s => negb (qeqb (ssup s) nilv) && negb (Qle_bool 0 (ssup s))) (branch_splits [] t).

Definition negsup_case (c : sexp) : bool :=
  match get_tree "tree" c with Some t => has_neg_sup t | None => false end.

Definition judge_negsup (op : string) (c o : sexp) : verdict :=
  match get_tree "tree" c, get_string "err" o, get_string "panic" o with
  | _, _, Some m => if has_prefix "build: " m || has_prefix "reinit: " m then VBad m else VOracle ("panic: " ++ m)
  | Some t, Some gerr, None =>
    let model : option (res utree) :=
        if String.eqb op "unroot" then Some (Ok (unroot t))
        else if String.eqb op "midpoint" then Some (reroot_midpoint t)
        else if String.eqb op "outgroup" then
          names <- get_strings "names" c ;;
          remove <- get_bool "remove" c ;;
          strict <- get_bool "strict" c ;;
          Some (reroot_outgroup remove strict t names)
        else None in
    match model with
    | None => VBad "bad case"
    | Some (Err m) =>
      if String.eqb gerr "" then VCorr ("model refuses (" ++ m ++ "), implementation succeeds")
      else VOk false (op ++ ":negsup:err")
    | Some (Ok t') =>
      if negb (String.eqb gerr "") then VCorr ("implementation refuses: " ++ gerr ++ "; model: " ++ show_utree t')
      else match get_tree "tree" o with
           | None => VBad "no tree in observation"
           | Some g =>
             match first_some [audit_ok o;
                               if String.eqb op "outgroup" && match get_bool "remove" c with Some true => true | _ => false end
                               then None else oracle_reduced t g;
                               index_ok g o] with
             | Some m => VOracle m
             | None => if utree_eqb t' g then VOk true (op ++ ":negsup") else VCorr ("model: " ++ show_utree t')
             end
           end
    end
  | _, _, _ => VBad "undecodable case or observation"
  end.

Definition judge (c o : sexp) : verdict :=
  match get_string "op" c with
  | Some op => if String.eqb op "outgroup_multi" then judge_multi c o
               else if String.eqb op "handbuilt" then judge_basic "reroot" c o
               else if (String.eqb op "unroot" || String.eqb op "outgroup" || String.eqb op "midpoint")
                       && String.eqb (pre_kind c) "" && negsup_case c then judge_negsup op c o
               else if String.eqb op "outgroup" || String.eqb op "midpoint" then judge_root op c o
               else judge_basic op c o
  | None => VBad "no op"
  end.
