(** Judge for C05: re-rooting, unrooting, reordering never change the tree itself.
    case:  ((op reroot|unroot|rotate|sort) (tree T) (i n) (cs (n ...)))
    obs :  ((err msg) (tree T') (audit (...)))                                         *)
From Coq Require Import String ZArith QArith Bool Arith List.
From GT Require Import Base.Sexp Base.UTree Base.Codec Spec.Obs Model.Reroot Model.Rand Judge.Common.
Import ListNotations.
Local Close Scope Q_scope.
Local Open Scope string_scope.

Definition judge_basic (op : string) (c o : sexp) : verdict :=
  match get_tree "tree" c, get_string "err" o with
  | Some t, Some gerr =>
    let model : option (res utree) :=
        if String.eqb op "reroot" then i <- get_nat "i" c ;; Some (reroot t i)
        else if String.eqb op "unroot" then Some (Ok (unroot t))
        else if String.eqb op "rotate" then
          raw <- (x <- get "raw" o ;; dec_list dec_N x) ;;
          d <- draws (rotate_bounds t) raw ;;
          Some (Ok (fst (rotate_all t (fst d))))
        else if String.eqb op "sort" then Some (Ok (sort_by_tips t))
        else None in
    match model with
    | None => VBad "bad case"
    | Some (Err m) =>
      if String.eqb gerr "" then VCorr ("model refuses (" ++ m ++ "), implementation succeeds")
      else VOk false (op ++ ":err")
    | Some (Ok t') =>
      if negb (String.eqb gerr "") then VCorr ("implementation refuses: " ++ gerr)
      else match get_tree "tree" o with
           | None => VBad "no tree in observation"
           | Some g =>
             match first_some [audit_ok o; same_tree_obs t g] with
             | Some m => VOracle m
             | None =>
               if utree_eqb t' g then VOk (negb (utree_eqb t g)) op
               else VCorr ("model: " ++ show_utree t')
             end
           end
    end
  | _, _ => VBad "undecodable case or observation"
  end.

Definition judge (c o : sexp) : verdict :=
  match get_string "op" c with
  | Some op => judge_basic op c o
  | None => VBad "no op"
  end.
