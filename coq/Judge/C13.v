(** Judge for C13: format conversions and reader entry points agree.
    case: ((trees (T ...)) (translate T|F) (seps ("sep" ...)) (breaks T|F) (breakat (i ...)) (nsjson "..."))
          [breakat]: indices of the commas (counted over the whole file) followed by a line break
    obs : ((texts (...)) (src s) (multi (REC ...)) (nexus s) (nexus_err e) (nexus_recs (REC ...))
           (px s) (px_err e) (px_recs (REC ...)) (tnexus s) (tnexus_recs (REC ...))
           (px_b ..) (nexus_b ..) (nexus_z ..) each with _err and _recs: the writers fed with the trees as BUILT
           (parent slot anywhere, not re-parsed), ids 0,1,.. (px_b, nexus_b) or never set (nexus_z: all "tree0")
           (first (((fmt f) (first REC) (head REC|())) ...)))
    REC : ((id n) (err msg)) | ((id n) (err "") (nwk text) (tree T) (audit (...)))
    optional in the case: (pxdoc "a PhyloXML document") -- the same trees rendered by the generator (not by the writer under
    test) as a PhyloXML file: <name>, <branch_length>, <confidence> on every clade that has them, in any order.  Then
    obs has (pxd_recs ..) the document read, (pxd_px s) (pxd_px_err e) (pxd_px_recs ..) document -> WritePhyloXML -> read,
    (pxd_nwk s) (pxd_nwk_recs ..) Newick() of the trees read, one per line, and its records, (pxd_nexus ..)(_err)(_recs)
    document -> WriteNexus -> read.

    optional in the case: (nxdoc "a Nexus file") -- the same trees, in order, as TREE statements spread over several TREES
    blocks, rendered by the generator; obs has (nxd_recs ..), the records of the multi-tree reader on it.

    Domain of the oracle (the quantifier of C13): every tree is well formed in the sense of
    C01 ([wfN]: >= 2 tips, root with >= 2 children, ...), carries no comment and no p-value,
    and every non-empty name is legal in the three formats: free of blanks, '=', quotes,
    XML metacharacters (and of the Newick metacharacters, by wfN) and not a Nexus keyword in
    any letter case (the Nexus scanner classifies it as IDENT or NUMERIC); tip names of one
    tree are distinct.

    Oracle (no model of a writer or reader involved), inside the domain:
      - Newick -> Nexus (with/without translate) -> Newick, Newick -> PhyloXML -> Newick and
        Tree.Nexus() -> Newick deliver, for every input tree, in order and with ids 0,1,...,
        a tree with the same rooted shape, child order, names, lengths and supports;
      - the same chains starting from the trees as built through the API (not re-parsed), and
        WriteNexus fed with records whose Id was never set (every TREE statement is named
        tree0): every TREE statement comes back, in order;
      - the multi-tree reader on the Newick file delivers tree i as record i with id i, until
        the end of the file or an error record: no tree is skipped or altered silently;
      - for each format the single-tree accessor returns the first record of the iterator
        (both an error, or the same tree).
    Correspondence: Go's Newick texts = [write]; Go's Nexus texts = [write_nexus] /
    [tree_nexus] byte for byte; records of the multi-tree readers = [read_multi] /
    [nexus_parse] on the same text; trees read back from PhyloXML =
    [clade_to_tree (write_clade t)]. *)
From Coq Require Import String Ascii ZArith QArith Bool Arith List.
From GT Require Import Base.Sexp Base.UTree Base.Codec Spec.NewickSpec Model.Newick Model.NewickNum
     Model.MultiTree Model.Nexus Model.Clade Judge.Common Judge.C02.
Import ListNotations.
Local Close Scope Q_scope.
Local Open Scope string_scope.

Definition wfNC : utree -> bool := wfN numericC is_b64.

(** * Domain *)
Definition label_char (c : ascii) : bool :=
  negb (Ascii.eqb c " " || Ascii.eqb c "009" || Ascii.eqb c "010" || Ascii.eqb c "013" ||
        Ascii.eqb c "=" || Ascii.eqb c "'" || Ascii.eqb c """" ||
        Ascii.eqb c "<" || Ascii.eqb c ">" || Ascii.eqb c "&" || Ascii.eqb c "000").
Definition legal_label (n : string) : bool :=
  String.eqb n "" ||
  (forall_chars label_char n &&
   (tok_eqb (classify n) IDENT || tok_eqb (classify n) NUMERIC)).

Definition plain_edge (e : einfo) : bool := qeqb (epv e) nilv && is_nil (ecom e).
Definition plain_tree (t : utree) : bool :=
  forallb (fun n => legal_label (uname n) && is_nil (ucom n)) (nodes t) &&
  forallb (fun p => plain_edge (fst p)) (edges t) &&
  negb (has_dup (tip_names t)).

Definition in_domain (t : utree) : bool := wfNC t && plain_tree t.

(** what Newick / Nexus text can carry of [t]: the support of a branch above a named inner node is not written *)
Definition strip_edge (e : einfo) (ch : utree) : einfo :=
  if negb (String.eqb (uname ch) "") && negb (is_nil (kids ch)) then mkE (elen e) nilv (epv e) (ecom e) else e.
Fixpoint strip_sup (t : utree) : utree :=
  match t with
  | UNode n c sl =>
    UNode n c (map (fun s => match s with
                             | Some (e, ch) => Some (strip_edge e ch, strip_sup ch)
                             | None => None
                             end) sl)
  end.

(** the domain for trees that may carry a name and a support on the same inner node *)
Definition in_domain_px (t : utree) : bool :=
  in_domain (strip_sup t) && forallb (fun p => num_ok is_b64 (esup (fst p))) (edges t).

(** * Oracle *)
Definition rec_tree (r : oitem) : option utree := if is_tree_item r then i_tree r else None.

Definition same_rose (t : utree) (r : oitem) : bool :=
  match rec_tree r with
  | Some g => rose_eqb (rose_of g) (rose_of t)
  | None => false
  end.

Definition rec_problem (r : oitem) : option string :=
  if negb (is_tree_item r) then None
  else match i_audit r with
       | Some m => Some m
       | None => match i_tree r with None => Some "undecodable tree dump" | Some _ => None end
       end.

(** a conversion chain: every input tree comes back, in order, ids 0.. *)
Fixpoint chain_go (what : string) (i : nat) (ts : list utree) (rs : list oitem) : option string :=
  match ts, rs with
  | [], [] => None
  | [], r :: _ => Some (what ++ ": more trees come back than were written")
  | _ :: _, [] => Some (what ++ ": tree " ++ string_of_nat i ++ " does not come back (" ++
                        string_of_nat i ++ " records, no error)")
  | t :: tr, r :: rr =>
    if negb (is_tree_item r) then Some (what ++ ": reading back fails at record " ++ string_of_nat i ++ ": " ++ i_err r)
    else if negb (Nat.eqb (i_id r) i) then Some (what ++ ": record " ++ string_of_nat i ++ " has id " ++ string_of_nat (i_id r))
    else match rec_problem r with
         | Some m => Some (what ++ ": record " ++ string_of_nat i ++ ": " ++ m)
         | None =>
           if same_rose t r then chain_go what (S i) tr rr
           else Some (what ++ ": tree " ++ string_of_nat i ++ " comes back as " ++ i_nwk r)
         end
  end.

Definition chain_oracle (what werr : string) (ts : list utree) (rs : list oitem) : option string :=
  if negb (String.eqb werr "") then Some (what ++ ": the writer fails: " ++ werr)
  else chain_go what 0 ts rs.

(** the multi-tree reader: record i is tree i with id i, until an error record or the end *)
Fixpoint multi_go (i : nat) (ts : list utree) (rs : list oitem) : option string :=
  match ts, rs with
  | [], [] => None
  | [], r :: _ =>
    if is_tree_item r then Some ("multi-tree reader: an extra record after the " ++ string_of_nat i ++ " trees of the file")
    else None
  | _ :: _, [] => Some ("multi-tree reader: tree " ++ string_of_nat i ++ " of the file is silently skipped (the stream ends after " ++
                        string_of_nat i ++ " records without an error)")
  | t :: tr, r :: rr =>
    if negb (is_tree_item r) then None          (* an error is reported *)
    else if negb (Nat.eqb (i_id r) i) then Some ("multi-tree reader: record " ++ string_of_nat i ++ " has id " ++ string_of_nat (i_id r))
    else match rec_problem r with
         | Some m => Some ("multi-tree reader: record " ++ string_of_nat i ++ ": " ++ m)
         | None =>
           if same_rose t r then multi_go (S i) tr rr
           else Some ("multi-tree reader: record " ++ string_of_nat i ++ " is not tree " ++ string_of_nat i ++
                      " of the file but " ++ i_nwk r ++ " (a tree is silently skipped or altered)")
         end
  end.

(** single-tree accessor against the iterator's first record *)
Definition first_oracle (f : string) (first : oitem) (head : option oitem) : option string :=
  match head with
  | None =>
    if is_tree_item first then Some (f ++ ": the single-tree reader returns " ++ i_nwk first ++ " but the multi-tree reader delivers nothing")
    else None
  | Some h =>
    if is_tree_item first && is_tree_item h then
      if String.eqb (i_nwk first) (i_nwk h) &&
         match i_tree first, i_tree h with Some a, Some b => utree_eqb a b | _, _ => true end
      then None
      else Some (f ++ ": the single-tree reader returns " ++ i_nwk first ++ ", the multi-tree reader delivers first " ++ i_nwk h)
    else if negb (is_tree_item first) && negb (is_tree_item h) then None
    else if is_tree_item h
    then Some (f ++ ": the single-tree reader fails (" ++ i_err first ++ ") on a file whose first tree the multi-tree reader delivers: " ++ i_nwk h)
    else Some (f ++ ": the single-tree reader returns " ++ i_nwk first ++ ", the multi-tree reader reports " ++ i_err h)
  end.

Definition dec_first (s : sexp) : option (string * oitem * option oitem) :=
  f <- get_string "fmt" s ;;
  a <- (x <- get "first" s ;; dec_item x) ;;
  match get "head" s with
  | Some (SList []) => Some (f, a, None)
  | Some x => h <- dec_item x ;; Some (f, a, Some h)
  | None => None
  end.

(** * Correspondence helpers *)
Fixpoint break_commas (s : string) : string :=
  match s with
  | EmptyString => EmptyString
  | String c r => if Ascii.eqb c "," then String c (String "010" (break_commas r)) else String c (break_commas r)
  end.

(** a line break after the commas whose index (counted over the whole file) is in [bs]
    (increasing) *)
Fixpoint break_at (s : string) (i : nat) (bs : list nat) : string * nat * list nat :=
  match s with
  | EmptyString => (EmptyString, i, bs)
  | String c r =>
    if Ascii.eqb c "," then
      match bs with
      | b :: bt =>
        if Nat.eqb b i then let '(x, i', bs') := break_at r (S i) bt in (String c (String "010" x), i', bs')
        else let '(x, i', bs') := break_at r (S i) bs in (String c x, i', bs')
      | [] => let '(x, i', bs') := break_at r (S i) bs in (String c x, i', bs')
      end
    else let '(x, i', bs') := break_at r i bs in (String c x, i', bs')
  end.

(** [e] before every [n]-th ',' ')' ':' (counted over the whole file from [i]): a line break after a label or number *)
Fixpoint break_before (e : string) (n : nat) (s : string) (i : nat) : string * nat :=
  match s with
  | EmptyString => (EmptyString, i)
  | String c r =>
    if Ascii.eqb c "," || Ascii.eqb c ")" || Ascii.eqb c ":" then
      let '(x, i') := break_before e n r (S i) in
      ((if Nat.eqb (Nat.modulo i n) 0 then e else "") ++ String c x, i')
    else let '(x, i') := break_before e n r i in (String c x, i')
  end.

Fixpoint build_src_before (e : string) (n : nat) (i : nat) (texts seps : list string) : string :=
  match texts, seps with
  | x :: xr, s :: sr => let '(y, i') := break_before e n x i in y ++ s ++ build_src_before e n i' xr sr
  | _, _ => ""
  end.

Fixpoint build_src (breaks : bool) (i : nat) (bs : list nat) (texts seps : list string) : string :=
  match texts, seps with
  | x :: xr, s :: sr =>
    if breaks then break_commas x ++ s ++ build_src breaks i bs xr sr
    else match bs with
         | [] => x ++ s ++ build_src breaks i bs xr sr
         | _ => let '(y, i', bs') := break_at x i bs in y ++ s ++ build_src breaks i' bs' xr sr
         end
  | _, _ => ""
  end.

Fixpoint all_inl {A B} (l : list (A + B)) : option (list A) :=
  match l with
  | [] => Some []
  | inl a :: r => match all_inl r with Some x => Some (a :: x) | None => None end
  | inr _ :: _ => None
  end.

Definition nexus_model_recs (text : string) : option (string * list (nat * option string * (utree + string))) :=
  match nexus_parse npC text with
  | Nexus.POk d => Some ("ok", combine (combine (seq 0 (length (doc_trees d))) (map (fun _ => None) (doc_trees d)))
                                       (map (fun p => inl (snd p)) (doc_trees d)))
  | Nexus.PErr e => Some ("ok", [(0, None, inr e)])
  | _ => None
  end.

Definition recs_of (k : string) (o : sexp) : option (list oitem) := x <- get k o ;; dec_list dec_item x.

Definition nexus_chain_corr (what key : string) (ids : list nat) (ts : list utree) (translate : bool) (o : sexp) : option string :=
  match get_string key o, recs_of (key ++ "_recs") o with
  | Some text, Some recs =>
    if negb (String.eqb (str_or (key ++ "_err") o) "") then Some (what ++ ": WriteNexus fails, the model does not")
    else if negb (String.eqb (write_nexus writeC translate (combine ids ts)) text)
    then Some (what ++ ": WriteNexus, model: " ++ write_nexus writeC translate (combine ids ts))
    else match nexus_model_recs text with
         | Some (_, ms) => cmp_records (what ++ ": Nexus reader") ms recs
         | None => Some (what ++ ": model predicts a panic or hang")
         end
  | _, _ => Some "undecodable observation"
  end.

Definition built_corr (ts : list utree) (translate : bool) (o : sexp) : option string :=
  first_some
    [ nexus_chain_corr "built trees" "nexus_b" (seq 0 (length ts)) ts translate o;
      nexus_chain_corr "built trees, ids unset" "nexus_z" (map (fun _ => 0) ts) ts translate o;
      match recs_of "px_b_recs" o with
      | Some recs =>
        cmp_records "built trees: PhyloXML reader"
                    (combine (combine (seq 0 (length ts)) (map (fun _ => None) ts))
                             (map (fun t => clade_to_tree (write_clade None t)) ts))
                    recs
      | None => Some "undecodable observation"
      end ].

Definition px_model_recs (ts : list utree) : list (nat * option string * (utree + string)) :=
  combine (combine (seq 0 (length ts)) (map (fun _ => None) ts))
          (map (fun t => clade_to_tree (write_clade None t)) ts).

Fixpoint lines_of (l : list string) : string :=
  match l with [] => "" | x :: r => x ++ String "010" (lines_of r) end.

(** chains that start from a PhyloXML document *)
Definition px_doc_corr (ts : list utree) (translate : bool) (c o : sexp) : option string :=
  match get_string "pxdoc" c with
  | None => None
  | Some _ =>
    match recs_of "pxd_recs" o, recs_of "pxd_px_recs" o, get_string "pxd_nwk" o, recs_of "pxd_nwk_recs" o with
    | Some dr, Some pr, Some ntext, Some nr =>
      first_some
        [ cmp_records "PhyloXML document: reader" (px_model_recs ts) dr;
          match all_inl (map (fun t => clade_to_tree (write_clade None t)) ts) with
          | None => None
          | Some l1 =>
            first_some
              [ (if String.eqb (str_or "pxd_px_err" o) "" then None else Some "PhyloXML -> PhyloXML: WritePhyloXML fails, the model does not");
                cmp_records "PhyloXML -> PhyloXML: reader" (px_model_recs l1) pr;
                (if String.eqb (lines_of (map writeC l1)) ntext then None
                 else Some ("PhyloXML -> Newick: writer, model: " ++ lines_of (map writeC l1)));
                (match read_multi npC (phys_reads (S (String.length ntext)) bufsz ntext) with
                 | MDone l => cmp_records "PhyloXML -> Newick: reader" (model_items l) nr
                 | _ => Some "PhyloXML -> Newick: model predicts a panic"
                 end);
                nexus_chain_corr "PhyloXML document" "pxd_nexus" (seq 0 (length l1)) l1 translate o ]
          end ]
    | _, _, _, _ => Some "undecodable observation"
    end
  end.

Definition px_doc_oracle (ts : list utree) (c o : sexp) : option string :=
  match get_string "pxdoc" c with
  | None => None
  | Some _ =>
    match recs_of "pxd_recs" o, recs_of "pxd_px_recs" o, recs_of "pxd_nwk_recs" o, recs_of "pxd_nexus_recs" o with
    | Some dr, Some pr, Some nr, Some xr =>
      let ts' := map strip_sup ts in
      first_some
        [ chain_oracle "PhyloXML document -> tree" "" ts dr;
          chain_oracle "PhyloXML -> PhyloXML (name, length and support of every clade)" (str_or "pxd_px_err" o) ts pr;
          chain_oracle "PhyloXML -> Newick (shape, names, lengths; supports of unnamed inner nodes)" "" ts' nr;
          chain_oracle "PhyloXML -> Nexus -> Newick (shape, names, lengths; supports of unnamed inner nodes)" (str_or "pxd_nexus_err" o) ts' xr ]
    | _, _, _, _ => Some "undecodable observation"
    end
  end.

(** a Nexus file with several TREES blocks *)
Fixpoint file_go (what : string) (i : nat) (ts : list utree) (rs : list oitem) : option string :=
  match ts, rs with
  | [], [] => None
  | [], r :: _ =>
    if is_tree_item r then Some (what ++ ": an extra record after the " ++ string_of_nat i ++ " trees of the file")
    else None
  | _ :: _, [] => Some (what ++ ": tree " ++ string_of_nat i ++ " of the file is silently skipped (the stream ends after " ++
                        string_of_nat i ++ " records without an error)")
  | t :: tr, r :: rr =>
    if negb (is_tree_item r) then None          (* an error is reported *)
    else if negb (Nat.eqb (i_id r) i) then Some (what ++ ": record " ++ string_of_nat i ++ " has id " ++ string_of_nat (i_id r))
    else match rec_problem r with
         | Some m => Some (what ++ ": record " ++ string_of_nat i ++ ": " ++ m)
         | None =>
           if same_rose t r then file_go what (S i) tr rr
           else Some (what ++ ": record " ++ string_of_nat i ++ " is not tree " ++ string_of_nat i ++
                      " of the file but " ++ i_nwk r ++ " (a tree is silently skipped or altered)")
         end
  end.

Definition nx_doc_corr (c o : sexp) : option string :=
  match get_string "nxdoc" c with
  | None => None
  | Some text =>
    match recs_of "nxd_recs" o with
    | Some recs =>
      match nexus_model_recs text with
      | Some (_, ms) => cmp_records "Nexus file with several TREES blocks: reader" ms recs
      | None => Some "Nexus file with several TREES blocks: model predicts a panic or hang"
      end
    | None => Some "undecodable observation"
    end
  end.

Definition nx_doc_oracle (ts : list utree) (c o : sexp) : option string :=
  match get_string "nxdoc" c with
  | None => None
  | Some _ =>
    match recs_of "nxd_recs" o with
    | Some recs => file_go "Nexus file with several TREES blocks" 0 (map strip_sup ts) recs
    | None => Some "undecodable observation"
    end
  end.

Definition corr (ts : list utree) (translate breaks : bool) (breakat : list nat) (brk : option (string * nat)) (seps : list string) (o : sexp) : option string :=
  match get_strings "texts" o, get_string "src" o, get_string "nexus" o, get_string "tnexus" o,
        (x <- get "multi" o ;; dec_list dec_item x),
        (x <- get "nexus_recs" o ;; dec_list dec_item x),
        (x <- get "px_recs" o ;; dec_list dec_item x),
        (x <- get "tnexus_recs" o ;; dec_list dec_item x) with
  | Some texts, Some src, Some nex, Some tnex, Some multi, Some nrecs, Some precs, Some trecs =>
    if negb (list_eqb String.eqb (map writeC ts) texts) then Some "Newick writer: model and implementation differ"
    else if negb (String.eqb (match brk with
                              | Some (e, n) => build_src_before e n 0 texts seps
                              | None => build_src breaks 0 breakat texts seps
                              end) src) then Some "harness: src is not the requested layout"
    else
      first_some
        [ (* multi-tree Newick reader on the layout *)
          (match read_multi npC (phys_reads (S (String.length src)) bufsz src) with
           | MDone l => cmp_records "multi-tree reader" (model_items l) multi
           | _ => Some "multi-tree reader: model predicts a panic"
           end);
          (* the trees the writers receive: the one-per-line file read back *)
          (match all_inl (map npC texts) with
           | None => Some "model: a written tree is not read back"
           | Some ts' =>
             first_some
               [ (if String.eqb (str_or "nexus_err" o) "" then
                    if String.eqb (write_nexus writeC translate (combine (seq 0 (length ts')) ts')) nex then None
                    else Some ("WriteNexus, model: " ++ write_nexus writeC translate (combine (seq 0 (length ts')) ts'))
                  else Some "WriteNexus fails, the model does not");
                 (match nexus_model_recs nex with
                  | Some (_, ms) => cmp_records "Nexus reader" ms nrecs
                  | None => Some "Nexus reader: model predicts a panic or hang"
                  end);
                 cmp_records "PhyloXML reader"
                             (combine (combine (seq 0 (length ts')) (map (fun _ => None) ts'))
                                      (map (fun t => clade_to_tree (write_clade None t)) ts'))
                             precs ]
           end);
          (* the writers fed with the trees as built: ids 0.., and ids never set *)
          built_corr ts translate o;
          (match ts with
           | t0 :: _ =>
             if negb (String.eqb (tree_nexus writeC t0) tnex) then Some ("Tree.Nexus, model: " ++ tree_nexus writeC t0)
             else match nexus_model_recs tnex with
                  | Some (_, ms) => cmp_records "Nexus reader (Tree.Nexus)" ms trecs
                  | None => Some "Nexus reader: model predicts a panic or hang"
                  end
           | [] => None
           end) ]
  | _, _, _, _, _, _, _, _ => Some "undecodable observation"
  end.

Definition oracle (ts0 : list utree) (o : sexp) : option string :=
  let ts := map strip_sup ts0 in
  match (x <- get "multi" o ;; dec_list dec_item x),
        (x <- get "nexus_recs" o ;; dec_list dec_item x),
        (x <- get "px_recs" o ;; dec_list dec_item x),
        (x <- get "tnexus_recs" o ;; dec_list dec_item x),
        (x <- get "first" o ;; dec_list dec_first x) with
  | Some multi, Some nrecs, Some precs, Some trecs, Some firsts =>
    first_some
      ([ chain_oracle "Newick -> Nexus -> Newick" (str_or "nexus_err" o) ts nrecs;
         chain_oracle "Newick -> PhyloXML -> Newick" (str_or "px_err" o) ts precs;
         chain_oracle "Tree.Nexus() -> Newick" "" (firstn 1 ts) trecs;
         (match recs_of "px_b_recs" o with
          | Some r => chain_oracle "tree built through the API -> PhyloXML -> tree" (str_or "px_b_err" o) ts0 r
          | None => Some "undecodable observation" end);
         (match recs_of "nexus_b_recs" o with
          | Some r => chain_oracle "tree built through the API -> Nexus -> Newick" (str_or "nexus_b_err" o) ts r
          | None => Some "undecodable observation" end);
         (match recs_of "nexus_z_recs" o with
          | Some r => chain_oracle "trees written under one name (ids never set) -> Nexus: every TREE statement in order" (str_or "nexus_z_err" o) ts r
          | None => Some "undecodable observation" end);
         multi_go 0 ts multi ] ++
       map (fun x => match x with (f, a, h) => first_oracle f a h end) firsts)
  | _, _, _, _, _ => Some "undecodable observation"
  end.

Definition judge (c o : sexp) : verdict :=
  match has_key "bad" o, has_key "panic" o with
  | Some m, _ => VBad ("harness: " ++ m)
  | None, Some m => VOracle ("the worker process or handler died: " ++ m)
  | None, None =>
    match (x <- get "trees" c ;; dec_list dec_utree x), get_bool "translate" c, get_bool "breaks" c, get_strings "seps" c with
    | Some ts, Some translate, Some breaks, Some seps =>
      let breakat := match get_nats "breakat" c with Some l => l | None => [] end in
      let brk := match get_string "brk_before" c with
                 | Some e => if String.eqb e "" then None
                             else Some (e, match get_nat "brk_every" c with Some n => Nat.max 1 n | None => 1 end)
                 | None => None
                 end in
      let dom := forallb in_domain_px ts in
      match (if dom then first_some [oracle ts o; px_doc_oracle ts c o; nx_doc_oracle ts c o] else None) with
      | Some m => VOracle m
      | None =>
        match first_some [corr ts translate breaks breakat brk seps o; px_doc_corr ts translate c o; nx_doc_corr c o] with
        | Some m => if String.eqb m "undecodable observation" then VBad m else VCorr m
        | None => VOk dom (if dom then (if translate then "translate" else "plain") else "outside-domain")
        end
      end
    | _, _, _, _ => VBad "undecodable case"
    end
  end.
