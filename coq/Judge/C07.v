(** Judge for C07: collapse removes exactly the targeted branches; resolve only refines.
    case: ((op collapse_len|collapse_sup|collapse_depth|resolve) (tree T) (l q) (s q) (min z) (max z)
           (rr T|F) (rt T|F) (seed n) (nraw n))
    obs : ((raw (n ...))? (err msg) (tree T') (audit (...)))
    The exact-set oracle for collapse applies on trees without single-child nodes with removeRoot
    = false, or removeRoot = true when the root has >= 3 neighbours (no effect there), with
    removeTips = false ([collapse_ok]) or true ([collapse_ok_tips]); removeRoot = true on a rooted
    tree is judged by correspondence (plus: well-formed, same tips).  resolve: [resolve_ok], or
    [resolve_ok_single] when the input contains single-child inner nodes. *)
From Coq Require Import String ZArith QArith Bool Arith List.
From GT Require Import Base.Sexp Base.UTree Base.Codec Spec.Obs Spec.Induced Spec.Contract Model.Reroot Model.Rand Model.Collapse Judge.Common.
Import ListNotations.
Local Close Scope Q_scope.
Local Open Scope string_scope.

Definition get_Z (k : string) (s : sexp) : option Z := x <- get k s ;; dec_Z x.

Definition basic_ok (t g : utree) : option string :=
  if negb (wf g) then Some "result is not a well-formed rooted structure"
  else if negb (sset_eqb (ssort (leaves t)) (ssort (leaves g))) then Some "tip names changed"
  else None.

Definition judge (c o : sexp) : verdict :=
  match get_string "op" c, get_tree "tree" c with
  | Some op, Some t =>
    match get_string "panic" o with
    | Some p => VOracle ("crash: " ++ p)
    | None =>
    match get_string "err" o, get_tree "tree" o with
    | Some gerr, Some g =>
      let rr := match get_bool "rr" c with Some b => b | None => false end in
      let rt := match get_bool "rt" c with Some b => b | None => false end in
      let in_dom := wf t && no_single t && Nat.leb 2 (degree t) in
      (* removeRoot has no effect when the root has three neighbours or more (C07_collapse_removeRoot_irrelevant_unrooted) *)
      let rr_off := negb rr || Nat.leb 3 (degree t) in
      let exact := in_dom && rr_off && negb rt in
      (* model result, oracle on Go's output *)
      let mo : option (res utree * option string * string) :=
          if String.eqb op "collapse_len" then
            l <- get_Q "l" c ;;
            Some (Ok (collapse_len l rr rt t),
                  (if exact then collapse_ok (CLen l) t g
                   else if in_dom && rr_off && rt then collapse_ok_tips (CLen l) t g else basic_ok t g), "len")
          else if String.eqb op "collapse_sup" then
            s <- get_Q "s" c ;;
            Some (Ok (collapse_sup s rr t),
                  (if in_dom && rr_off then collapse_ok (CSup s) t g else basic_ok t g), "sup")
          else if String.eqb op "collapse_depth" then
            mn <- get_Z "min" c ;; mx <- get_Z "max" c ;;
            Some (collapse_depth mn mx rr rt t,
                  (if exact then collapse_ok (CDepth mn mx) t g
                   else if in_dom && rr_off && rt then collapse_ok_tips (CDepth mn mx) t g else basic_ok t g), "depth")
          else if String.eqb op "resolve" then
            raw <- (x <- get "raw" o ;; dec_list dec_N x) ;;
            d <- draws (resolve_bounds t) raw ;;
            Some (Ok (resolve t (fst d)),
                  first_some
                    [(if in_dom then resolve_ok t g
                      else if wf t && Nat.leb 2 (degree t) then resolve_ok_single t g else basic_ok t g);
                     (* every branch with its length, support and p-value, tip branches included *)
                     (if wf t && Nat.leb 2 (degree t) then branches_kept t g else None);
                     (* negative lengths read as themselves ([len0] reads them as 0) *)
                     (if wf t && Nat.leb 2 (degree t) && negb (matrix_eqb (dist_matrix Induced.len_raw t) (dist_matrix Induced.len_raw g))
                      then Some "a tip-to-tip distance changed (negative lengths read as themselves)" else None)], "resolve")
          else None in
      match mo with
      | None => VBad "bad case"
      | Some (Err m, _, _) =>
        if String.eqb gerr "" then VCorr ("model refuses (" ++ m ++ "), implementation succeeds")
        else if String.eqb gerr m then VOk false (op ++ ":err")
        else VCorr ("model error: " ++ m ++ " / implementation error: " ++ gerr)
      | Some (Ok t', orc, tag) =>
        if negb (String.eqb gerr "") then
          (if in_dom then VOracle ("operation refused: " ++ gerr) else VCorr ("implementation refuses: " ++ gerr))
        else
          match first_some [audit_ok o; orc] with
          | Some m => VOracle m
          | None =>
            if utree_eqb t' g
            then VOk (negb (utree_eqb t g))
                     (tag ++ (if rr then ":root" else "") ++ (if rt then ":tips" else "") ++ (if in_dom then "" else ":outside"))
            else VCorr ("model: " ++ show_utree t')
          end
      end
    | _, _ => VBad "undecodable observation"
    end
    end
  | _, _ => VBad "undecodable case"
  end.
