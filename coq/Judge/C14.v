(** Judge for C14: distance matrices and length-threshold clusters are exact.
    Every case may carry (pre (step ...)) (seed n): steps applied to the tree(s) before the call
    (reinit, matrix, matrixnone, swap, renamehi, renamelo, reroot, rotate; nothing re-indexed
    afterwards); the observation then carries (used T') (audit (...)), the dump of the tree as
    it was when the call was made, and the model and the oracle are run on that tree.
    cases:
      ((op matrix) (metric brlen|boot|none) (tree T))
      ((op avg)    (metric m) (trees (T ...)))
      ((op cut)    (maxlen q) (tree T))
    observations:
      matrix: ((names ("a" ...)) (matrix ((q ...) ...)))
      avg   : ((err msg) (names (...)) (matrix (...)))
      cut   : ((err msg) (bags (("a" ...) ...)))
    Correspondence: names, every cell (exactly; for the average, a quotient, within a relative 2^-50) and the list of
    bags in order equal those of Model/Matrix.v.  Oracle (Spec/Obs.v, Spec/Cut.v): the cells
    are the path sums [pairdists w], rows in tip-name order, symmetric, zero diagonal; the
    average is the entrywise mean of the path-sum matrices; the bags are, as a set of sets,
    the groups of tips joined by branches shorter than the threshold. *)
From Coq Require Import String ZArith QArith Bool Arith List.
From GT Require Import Base.Sexp Base.UTree Base.Codec Spec.Obs Spec.Cut Model.Reroot Model.Matrix Model.C14Extra8 Model.Consensus Judge.Common.
Import ListNotations.
Local Close Scope Q_scope.
Local Open Scope string_scope.

Definition dec_metric (s : string) : option metric :=
  if String.eqb s "brlen" then Some MBrlen
  else if String.eqb s "boot" then Some MBoots
  else if String.eqb s "none" then Some MNone
  else None.

(** the weight of a branch in the statement of the property *)
Definition wspec (m : metric) (e : einfo) : Q :=
  match m with
  | MBrlen => if qeqb (elen e) nilv then 0%Q else elen e
  | MBoots => if qeqb (esup e) nilv then 1%Q else esup e
  | MNone => 1%Q
  end.

Fixpoint nodup_sorted (l : list string) : bool :=
  match l with
  | a :: ((b :: _) as r) => negb (String.eqb a b) && nodup_sorted r
  | _ => true
  end.

(** the quantifier of the property as far as the oracle can speak: a well-formed tree whose
    root has at least two neighbours (so that tips are the leaves) with distinct tip names *)
Definition in_dom (t : utree) : bool :=
  wf t && Nat.leb 2 (degree t) && nodup_sorted (ssort (tip_names t)).
(** distinct names of the one-neighbour nodes: what the model itself needs *)
Definition model_dom (t : utree) : bool := wf t && nodup_sorted (ssort (tip_names t)).

Definition dec_matrix (s : sexp) : option (list (list Q)) := dec_list (dec_list dec_Q) s.

Definition qmat_eqb (a b : list (list Q)) : bool := list_eqb (list_eqb qeqb) a b.

(** only for quotients (the average divides by the number of trees; the sums are exact): Go's
    float is the rounding of the model's rational, so the two differ by at most a relative
    2^-53; accepted: a relative 2^-50 (no absolute tolerance: branch lengths may be tiny) *)
Definition qabs (a : Q) : Q := if Qle_bool 0 a then a else (- a)%Q.
Definition qclose (a b : Q) : bool :=
  Qle_bool (qabs (a - b) * (1125899906842624 # 1))%Q (qabs a + qabs b)%Q.
Definition qmat_close (a b : list (list Q)) : bool := list_eqb (list_eqb qclose) a b.

(** the average, exactly: the sums of the generated (dyadic) cells are exact in binary64, and the
    code makes ONE rounded division per cell: the float64 it returns must be the binary64
    nearest (ties to even) to the rational mean, [Model/Consensus.round53]; [a] is the
    rational mean, [b] the exact value of Go's float64 *)
Definition qrounded (a b : Q) : bool := qeqb (round53 a) b.
Definition qmat_rounded (a b : list (list Q)) : bool := list_eqb (list_eqb qrounded) a b.

Definition spec_matrix (m : metric) (t : utree) : option (list (list Q)) :=
  omap (omap (fun x : option Q => x)) (dist_matrix (wspec m) t).

Definition transpose_row (a : list (list Q)) (k : nat) : list Q :=
  map (fun r => nth k r 0%Q) a.
Definition symmetric (a : list (list Q)) : bool :=
  forallb (fun k => list_eqb qeqb (nth k a []) (transpose_row a k)) (seq 0 (length a)).
Definition zero_diag (a : list (list Q)) : bool :=
  forallb (fun k => qeqb (nth k (nth k a []) 1%Q) 0%Q) (seq 0 (length a)).

Definition show_matrix (a : list (list Q)) : string :=
  concat_with " | " (map (fun r => concat_with " " (map string_of_Q (map Qred r))) a).

Definition matrix_oracle (m : metric) (t : utree) (names : list string) (g : list (list Q)) : option string :=
  if negb (list_eqb String.eqb names (ssort (leaves t))) then Some "rows are not the tips in name order"
  else match spec_matrix m t with
       | None => Some "oracle: a pair of tips has no path (malformed input)"
       | Some s =>
         if negb (qmat_eqb g s) then Some ("a cell is not the sum over the path; expected " ++ show_matrix s)
         else if negb (symmetric g) then Some "matrix is not symmetric"
         else if negb (zero_diag g) then Some "diagonal is not zero"
         else None
       end.

(** the tree the call was made on: the case's tree after the "pre" steps of the case (earlier
    calls, renamings, re-rooting, rotations; nothing re-indexed), as dumped by the worker just
    before the call *)
Definition used_tree (t0 : utree) (o : sexp) : utree :=
  match get_tree "used" o with Some u => u | None => t0 end.
Definition used_audit (o : sexp) : option string :=
  match get "used" o with Some _ => audit_ok o | None => None end.

(** homonymous tips (at most 12 tips: the sort of the code is then stable): the tree and the
    returned names are renamed apart the same way (Model/Matrix.v [relabel]); everything else
    is judged on the renamed tree, whose tip names are distinct *)
Definition has_dup (t : utree) : bool := negb (nodup_sorted (ssort (tip_names t))).
Definition norm_tree (t : utree) : utree := if has_dup t then relabel_tips t else t.
Definition norm_names (t : utree) (names : list string) : list string :=
  if has_dup t then relabel_names names else names.
Definition dup_too_big (t : utree) : bool := has_dup t && Nat.ltb 12 (length (tip_names t)).

(** matrices printed by the command line (%.12f): cells within 6e-13 (+ a relative 2^-50) *)
Definition qcli (a b : Q) : bool :=
  Qle_bool (qabs (a - b)) ((6 # 10000000000000) + (qabs a + qabs b) * (1 # 1125899906842624))%Q.
Definition qmat_cli (a b : list (list Q)) : bool := list_eqb (list_eqb qcli) a b.
Definition is_cli (c : sexp) : bool := match get_bool "cli" c with Some b => b | None => false end.

Definition matrix_oracle_cli (m : metric) (t : utree) (names : list string) (g : list (list Q)) : option string :=
  if negb (list_eqb String.eqb names (ssort (leaves t))) then Some "rows are not the tips in name order"
  else match spec_matrix m t with
       | None => Some "oracle: a pair of tips has no path (malformed input)"
       | Some s =>
         if negb (qmat_cli g s) then Some ("a printed cell is not the sum over the path; expected " ++ show_matrix s)
         else None
       end.

Definition judge_matrix (c o : sexp) : verdict :=
  match get_tree "tree" c, (s <- get_string "metric" c ;; dec_metric s) with
  | Some t0, Some m =>
    let tu := used_tree t0 o in
    let t := norm_tree tu in
    let cli := is_cli c in
    match get_string "panic" o with
    | Some p => if in_dom t then VOracle ("crash: " ++ p) else VCorr ("crash: " ++ p)
    | None =>
      match get_strings "names" o, (x <- get "matrix" o ;; dec_matrix x) with
      | Some names0, Some g =>
        let names := norm_names tu names0 in
        if dup_too_big tu then VBad "homonymous tips beyond 12 tips are not modelled (unstable sort)" else
        if negb (model_dom t) then VBad "case outside the model's domain" else
        match (if in_dom t then first_some [used_audit o;
                                            if cli then matrix_oracle_cli m t names g else matrix_oracle m t names g]
               else None) with
        | Some msg => VOracle msg
        | None =>
          let '(mn, mm) := to_matrix m t in
          if negb (list_eqb String.eqb mn names) then VCorr ("model names: " ++ concat_with "," mn)
          else if negb (if cli then qmat_cli mm g else qmat_eqb mm g) then VCorr ("model matrix: " ++ show_matrix mm)
          else VOk (Nat.leb 3 (length names))
                   ("matrix:" ++ (match m with MBrlen => "brlen" | MBoots => "boot" | MNone => "none" end)
                    ++ (if in_dom t then "" else ":outside"))
        end
      | _, _ => VBad "undecodable observation"
      end
    end
  | _, _ => VBad "undecodable case"
  end.

(** entrywise mean of the specification matrices *)
Fixpoint msum (l : list (list (list Q))) : list (list Q) :=
  match l with
  | [] => []
  | [a] => a
  | a :: r => madd a (msum r)
  end.

Definition avg_oracle (cli : bool) (m : metric) (ts : list utree) (names : list string) (g : list (list Q)) : option string :=
  match ts with
  | [] => None
  | t :: _ =>
    if negb (list_eqb String.eqb names (ssort (leaves t))) then Some "rows are not the tips in name order"
    else match omap (spec_matrix m) ts with
         | None => Some "oracle: a pair of tips has no path (malformed input)"
         | Some ms =>
           let mean := mdiv (length ts) (msum ms) in
           if (if cli then qmat_cli g mean else qmat_rounded mean g) then None
           else Some ("a cell is not the (correctly rounded) mean of the path sums; exact means " ++ show_matrix mean)
         end
  end.

Definition judge_avg (c o : sexp) : verdict :=
  match (x <- get "trees" c ;; dec_list dec_utree x), (s <- get_string "metric" c ;; dec_metric s) with
  | Some ts0, Some m =>
    let tsu := match (x <- get "used" o ;; dec_list dec_utree x) with Some us => us | None => ts0 end in
    let anydup := existsb has_dup tsu in
    let ts := if anydup then map relabel_tips tsu else tsu in
    let cli := is_cli c in
    let dom := forallb in_dom ts in
    let same := match ts with
                | [] => true
                | t :: r => forallb (fun t' => list_eqb String.eqb (ssort (leaves t)) (ssort (leaves t'))) r
                end in
    match get_string "panic" o with
    | Some p => if dom && same then VOracle ("crash: " ++ p) else
                (* other taxa (outside the property): the exact model of the two loops of AvgDistanceMatrix
                   (Model/C14Extra8.v) says whether the code indexes out of range *)
                match avg_matrix_x m ts with
                | APanic => if String.prefix "runtime error: index out of range" p
                            then VOk true "avg:crash:outside" else VCorr ("crash: " ++ p)
                | _ => VCorr ("crash: " ++ p)
                end
    | None =>
      match get_string "err" o with
      | None => VBad "no err in observation"
      | Some gerr =>
        if negb (forallb model_dom ts) then VBad "case outside the model's domain (duplicate tip names)" else
        match avg_matrix m ts with
        | Err e0 =>
          let e := match avg_matrix_x m ts with AErr e2 => e2 | _ => e0 end in
          if String.eqb gerr "" then VCorr ("model refuses (" ++ e ++ "), implementation succeeds")
          else if negb (String.eqb gerr e) then VCorr ("model error: " ++ e ++ " / implementation error: " ++ gerr)
          else if dom && same then VOracle ("average refused on the same taxa: " ++ gerr)
          else VOk true "avg:err"
        | Ok (mn, mm) =>
          if negb (String.eqb gerr "") then
            (if dom && same then VOracle ("average refused on the same taxa: " ++ gerr)
             else VCorr ("implementation refuses: " ++ gerr))
          else
          match get_strings "names" o, (x <- get "matrix" o ;; dec_matrix x) with
          | Some names0, Some g =>
            let names := if anydup then relabel_names names0 else names0 in
            match (if dom && same then first_some [used_audit o; avg_oracle cli m ts names g] else None) with
            | Some msg => VOracle msg
            | None =>
              if negb (list_eqb String.eqb mn names) then VCorr ("model names: " ++ concat_with "," mn)
              else if negb (if cli then qmat_cli mm g else qmat_rounded mm g) then VCorr ("model matrix (before rounding): " ++ show_matrix mm)
              else VOk (Nat.leb 2 (length ts))
                       ("avg:" ++ (match m with MBrlen => "brlen" | MBoots => "boot" | MNone => "none" end)
                        ++ (if dom && same then "" else ":outside"))
            end
          | _, _ => VBad "undecodable observation"
          end
        end
      end
    end
  | _, _ => VBad "undecodable case"
  end.

Definition show_groups (l : list (list string)) : string :=
  concat_with " | " (map (concat_with ",") l).

Definition judge_cut (c o : sexp) : verdict :=
  match get_tree "tree" c, get_Q "maxlen" c with
  | Some t0, Some maxlen =>
    let t := used_tree t0 o in
    match get_string "panic" o with
    | Some p => if in_dom t then VOracle ("crash: " ++ p) else VCorr ("crash: " ++ p)
    | None =>
      match get_string "err" o, (x <- get "bags" o ;; dec_list dec_strings x) with
      | Some gerr, Some bags =>
        if negb (model_dom t) then VBad "case outside the model's domain (duplicate tip names)" else
        if negb (String.eqb gerr "") then
          (if in_dom t then VOracle ("cut refused: " ++ gerr) else VCorr ("implementation refuses: " ++ gerr))
        else
        let want := cut_groups maxlen t in
        if negb (list_eqb String.eqb (ssort (concat bags)) (ssort (tip_names t)))
        then VOracle ("the groups do not partition the tips of the tree (Tree.Tips(), a root with a single neighbour included): "
                      ++ show_groups bags)
        else if in_dom t && (match used_audit o with Some _ => true | None => false end)
        then VOracle "structural audit of the tree the cut was called on"
        else if in_dom t && negb (groups_eqb bags want)
        then VOracle ("the bags are not the groups of tips joined by branches shorter than the threshold; expected "
                      ++ show_groups want)
        else if in_dom t && negb (bags_are_classes maxlen t bags)
        then VOracle "two tips are in the same bag without being joined by a path of short branches, or conversely"
        else
          let mb := cut maxlen t in
          if negb (list_eqb (list_eqb String.eqb) mb bags) then VCorr ("model bags: " ++ show_groups mb)
          else VOk (Nat.ltb 1 (length bags) && Nat.ltb (length bags) (length (tip_names t)))
                   ("cut" ++ (if Nat.eqb (length bags) 1 then ":one"
                              else if Nat.eqb (length bags) (length (tip_names t)) then ":singletons" else ":some")
                    ++ (if in_dom t then "" else ":outside"))
      | _, _ => VBad "undecodable observation"
      end
    end
  | _, _ => VBad "undecodable case"
  end.

Definition judge (c o : sexp) : verdict :=
  match get_string "op" c with
  | Some op =>
    if String.eqb op "matrix" then judge_matrix c o
    else if String.eqb op "avg" then judge_avg c o
    else if String.eqb op "cut" then judge_cut c o
    else VBad "unknown op"
  | None => VBad "no op"
  end.
