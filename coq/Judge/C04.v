(** Judge for C04: branch split indexes and hashes always describe the actual tree.

    cases (field [kind]):
      index     ((kind index) (tree T))
                obs ((err msg) (tips ((name id) ...)) (edges ((bits nr nl depth hc hl hr tip) ...)))
      samebip   ((kind samebip) (t1 T) (t2 T))
                obs ((err msg) (same12 bits) (heq12 bits) (same11 bits) (heq11 bits) (find12 (T|F|E ...)))
      edgeindex ((kind edgeindex) (t1 T) (t2 T) (cap n) (lf q) (min a) (max b)
                 (ops ((put ti ei count len) | (add ti ei) | (val ti ei) ...)))
                obs ((err msg) (res ((ok) | (v T count len) | (v F) ...)) (edges ((ti ei count len) ...)) (all (...)))
      hashmap   ((kind hashmap) (cap n) (lf q) (keys ((hash class) ...)) (ops ((put ki v) | (val ki) ...)))
                obs ((res ((ok) | (v T x) | (v F) ...)) (kvs ((ki x) ...)))
      qmap      ((kind qmap) (cap n) (lf q) (keys ((a b c d) ...)) (ops ...))      same obs as hashmap
      quartet   ((kind quartet) (qs1 ((a b c d) ...)) (qs2 (...)))
                obs ((rows ((h1 h2 cmp eq12 eq21) ...)))           all pairs, row-major
    A Go run-time panic is reported as ((panic msg)).
    "bits" is an atom of 0/1 characters.  No proofs in this file. *)
From Coq Require Import String Ascii NArith ZArith QArith Bool Arith List.
From GT Require Import Base.Sexp Base.UTree Base.Codec Spec.Obs Spec.SplitMap Model.Reroot Model.Index Model.HashMap
     Model.EdgeIndex Model.Quartet Judge.Common.
Import ListNotations.
Local Close Scope Q_scope.
Local Open Scope string_scope.

(** * decoding *)
Fixpoint bits_of_string (s : string) : option (list bool) :=
  match s with
  | EmptyString => Some []
  | String c r =>
    match bits_of_string r with
    | None => None
    | Some l => if Ascii.eqb c "0" then Some (false :: l) else if Ascii.eqb c "1" then Some (true :: l) else None
    end
  end.
Definition dec_bits (s : sexp) : option (list bool) := a <- atom_of s ;; bits_of_string a.
Definition get_bits (k : string) (o : sexp) : option (list bool) := x <- get k o ;; dec_bits x.
Definition get_N (k : string) (s : sexp) : option N := x <- get k s ;; dec_N x.
Definition get_Z (k : string) (s : sexp) : option Z := x <- get k s ;; dec_Z x.

Definition string_of_N (n : N) : string := string_of_Z (Z.of_N n).
Fixpoint string_of_bits (b : list bool) : string :=
  match b with [] => "" | x :: r => String (if x then "1" else "0") (string_of_bits r) end.

(** an observed row of the Go tables *)
Record grow : Type := mkG { g_bits : list bool; g_nr : nat; g_nl : nat; g_depth : Z;
                            g_hc : N; g_hl : N; g_hr : N; g_tip : bool }.
Definition dec_grow (s : sexp) : option grow :=
  match s with
  | SList [b; nr; nl; d; hc; hl; hr; tp] =>
    b' <- dec_bits b ;; nr' <- dec_nat nr ;; nl' <- dec_nat nl ;; d' <- dec_Z d ;;
    hc' <- dec_N hc ;; hl' <- dec_N hl ;; hr' <- dec_N hr ;; tp' <- dec_bool tp ;;
    Some (mkG b' nr' nl' d' hc' hl' hr' tp')
  | _ => None
  end.

Definition bits_eqb (a b : list bool) : bool := Nat.eqb (length a) (length b) && list_eqb Bool.eqb a b.

Definition depth_Z (r : erow) : Z := match topo_depth r with Some d => Z.of_nat d | None => (-1)%Z end.

(** correspondence of one row *)
Definition row_diff (m : erow) (g : grow) : option string :=
  if negb (bits_eqb (r_bits m) (g_bits g)) then Some ("bitset: model " ++ string_of_bits (r_bits m) ++ " go " ++ string_of_bits (g_bits g))
  else if negb (Nat.eqb (r_nright m) (g_nr g)) then Some "ntaxright"
  else if negb (Nat.eqb (r_nleft m) (g_nl g)) then Some "ntaxleft"
  else if negb (Z.eqb (depth_Z m) (g_depth g)) then Some "topodepth"
  else if negb (N.eqb (r_hright m) (g_hr g)) then Some ("hashcoderight: model " ++ string_of_N (r_hright m) ++ " go " ++ string_of_N (g_hr g))
  else if negb (N.eqb (r_hleft m) (g_hl g)) then Some ("hashcodeleft: model " ++ string_of_N (r_hleft m) ++ " go " ++ string_of_N (g_hl g))
  else if negb (N.eqb (hash_code m) (g_hc g)) then Some "HashCode"
  else if negb (Bool.eqb (r_tip m) (g_tip g)) then Some "Right().Tip()"
  else None.

Fixpoint list_eqb2 {A B} (f : A -> B -> bool) (l1 : list A) (l2 : list B) : bool :=
  match l1, l2 with
  | [], [] => true
  | a :: r1, b :: r2 => f a b && list_eqb2 f r1 r2
  | _, _ => false
  end.

Fixpoint first_diff {A B} (f : A -> B -> option string) (k : nat) (a : list A) (b : list B) : option string :=
  match a, b with
  | [], [] => None
  | x :: ra, y :: rb =>
    match f x y with
    | Some m => Some ("#" ++ string_of_nat k ++ " " ++ m)
    | None => first_diff f (S k) ra rb
    end
  | _, _ => Some "different number of entries"
  end.

(** * oracle for the tables: the split obtained by cutting the branch in the actual tree *)
Definition oracle_row (all : list string) (ec : einfo * utree) (g : grow) : option string :=
  let below := leaves (snd ec) in
  let nr := length below in
  let nl := length all - nr in
  if negb (bits_eqb (map (fun x => smem x below) all) (g_bits g)) then Some "bitset is not the characteristic vector of the tips below the branch"
  else if negb (Nat.eqb nr (g_nr g)) then Some "NumTipsRight is not the number of tips below the branch"
  else if negb (Nat.eqb nl (g_nl g)) then Some "NumTipsLeft is not the number of tips above the branch"
  else if negb (Z.eqb (g_depth g) (Z.of_nat (Nat.min nl nr))) then Some "TopoDepth is not the size of the light side"
  else None.

Definition oracle_tip (all : list string) (p : string * nat) : option string :=
  match nth_error all (snd p) with
  | Some x => if String.eqb x (fst p) then None else Some ("tip id of " ++ fst p ++ " is not its rank")
  | None => Some ("tip id of " ++ fst p ++ " out of range")
  end.

Definition distinct_sorted (l : list string) : bool := negb (has_dup_sorted l).

(** tables observed on the Go tree (after ReinitIndexes, or as left by an editing operation)
    against the model and the oracle for the tree [t] *)
Definition judge_tables (tag : string) (t : utree) (gerr : string) (o : sexp) : verdict :=
  match index_tables t with
  | Err m => if String.eqb gerr "" then VCorr ("model refuses (" ++ m ++ "), implementation succeeds")
             else VOk false (tag ++ ":err")
  | Ok tb =>
    if negb (String.eqb gerr "") then VCorr ("implementation refuses: " ++ gerr) else
    match (x <- get "tips" o ;; dec_list (dec_pair dec_string dec_nat) x),
          (x <- get "edges" o ;; dec_list dec_grow x) with
    | Some gt, Some ge =>
      let all := ssort (leaves t) in
      (* a root with a single neighbour is a tip for the Go tip index but not a leaf of the
         rooted structure: outside the property (root degree >= 2), correspondence only *)
      let orc := if Nat.ltb (degree t) 2 then None else first_some [
        (if Nat.eqb (length ge) (length (edges t)) then None else Some "number of branches");
        first_diff (oracle_row all) 0 (edges t) ge;
        first_some (map (oracle_tip all) gt) ] in
      match orc with
      | Some m => VOracle m
      | None =>
        match first_some [
           first_diff (fun a b => if Nat.eqb a (snd b) then None else Some "tip id") 0 (tb_tipids tb) gt;
           first_diff row_diff 0 (tb_rows tb) ge ] with
        | Some m => VCorr m
        | None => if Nat.ltb (degree t) 2 then VOk false (tag ++ ":roottip") else VOk true tag
        end
      end
    | _, _ => VBad "undecodable tables"
    end
  end.

Definition judge_index (c o : sexp) : verdict :=
  match get_tree "tree" c, get_string "panic" o with
  | None, _ => VBad "no tree"
  | Some t, Some p =>
    VCorr ("implementation panics: " ++ p)
  | Some t, None =>
    match get_string "err" o with
    | None => VBad "no err"
    | Some gerr => judge_tables "index" t gerr o
    end
  end.

(** * samebip *)
(** [split_sides], the canonical key of every branch: Spec/SplitMap.v *)

Definition pair_oracle (what : string) (a b : list string * erow) (same heq : bool) : option string :=
  let s := sset_eqb (fst a) (fst b) in
  if s && negb heq then Some (what ++ ": equal splits have different HashCode")
  else if s && negb same then Some (what ++ ": equal splits do not compare equal (SameBipartition)")
  else if negb s && same then Some (what ++ ": different splits compare equal (SameBipartition)")
  else None.

(** matrices are checked cell by cell; [same] and [heq] are zipped *)
Fixpoint zip_bits (a b : list bool) : list (bool * bool) :=
  match a, b with x :: ra, y :: rb => (x, y) :: zip_bits ra rb | _, _ => [] end.

Fixpoint check_matrix2 {A} (f : A -> A -> bool * bool -> option string) (la lb : list A) (bits : list (bool * bool))
  : option string :=
  match la with
  | [] => match bits with [] => None | _ => Some "matrix too long" end
  | a :: ra =>
    (fix row (l : list A) (bs : list (bool * bool)) : option string :=
       match l with
       | [] => check_matrix2 f ra lb bs
       | b :: rb => match bs with
                    | [] => Some "matrix too short"
                    | x :: bs' => match f a b x with Some m => Some m | None => row rb bs' end
                    end
       end) lb bits
  end.

(** * edit: the tables left by an editing operation (its own Reinit* call, or an explicit
    ReinitIndexes) are judged against the split structure of the tree dumped AFTER the edit:
    bitsets, counts and depth of every branch; SameBipartition / HashCode of every pair (branch of
    the result, branch of an independently built and indexed copy of the dumped tree).
    case ((kind edit) (tree T) (op name) ...)
    obs ((operr msg) (tree T') (audit (...)) (err msg) (tips ...) (edges ...)
         (copyerr msg) (samecopy bits) (heqcopy bits)).
    Failures of the operation itself (error, panic) and purely structural audit problems belong
    to other properties; wrong tables are reported here whatever the audit says. *)
Definition judge_edit_gen (etag : string) (c o : sexp) : verdict :=
  match get_string "panic" o with
  | Some _ => VOk false (etag ++ ":panic")
  | None =>
    match get_string "operr" o, get_tree "tree" o with
    | Some operr, Some g =>
      if negb (String.eqb operr "") then VOk false (etag ++ ":operr") else
      if negb (wf g && Nat.leb 2 (degree g) && distinct_sorted (ssort (leaves g))) then VOk false (etag ++ ":degenerate")
      else match get_string "err" o with
           | None => VBad "no tables in edit observation"
           | Some gerr =>
             match judge_tables etag g gerr o with
             | VOk nt tag =>
               match get_string "copyerr" o, get_bits "samecopy" o, get_bits "heqcopy" o with
               | Some ce, Some sc, Some hc =>
                 if negb (String.eqb ce "") then VCorr ("independent copy of the result: " ++ ce) else
                 let k := combine (split_sides g) (rows g) in
                 if negb (Nat.eqb (length sc) (length k * length k) && Nat.eqb (length hc) (length k * length k))
                 then VOracle "result/copy matrix: number of branches" else
                 match check_matrix2 (fun a b x => pair_oracle "result/copy" a b (fst x) (snd x)) k k (zip_bits sc hc) with
                 | Some m => VOracle m
                 | None =>
                   match check_matrix2 (fun a b x =>
                            if negb (Bool.eqb (same_bipartition (snd a) (snd b)) (fst x)) then Some "SameBipartition result/copy"
                            else if negb (Bool.eqb (N.eqb (hash_code (snd a)) (hash_code (snd b))) (snd x)) then Some "HashCode equality result/copy"
                            else None) k k (zip_bits sc hc) with
                   | Some m => VCorr m
                   | None => match audit_ok o with Some _ => VOk false (etag ++ ":audit") | None => VOk nt tag end
                   end
                 end
               | Some ce, _, _ => VCorr ("independent copy of the result: " ++ ce)
               | _, _, _ => VBad "no copy comparison in edit observation"
               end
             | v => v
             end
           end
    | _, _ => VBad "undecodable edit observation"
    end
  end.

Definition judge_edit (c o : sexp) : verdict := judge_edit_gen "edit" c o.
(** handbuilt: a tree assembled with NewNode/ConnectNodes in arbitrary directions, oriented by
    Reroot(root) / SetRoot(n)+Reroot(n) / RerootFirst, then ReinitIndexes: same observation, judged
    against the dumped structure (orientation is not data in the model) *)
Definition judge_handbuilt (c o : sexp) : verdict := judge_edit_gen "handbuilt" c o.

(** * indexseq: the indexing step is any sequence the public API allows
      pre : none | reinit | reroot | hashes | reinit_reroot      (state before)
      seq : reinit | three | three_hashes | tipindex | nothing
    What the unmodified code leaves (clearBitSetsRecur zeroes the two hash codes, not the counts;
    UpdateBitSet fills the bitsets; ComputeEdgeHashes, also reached through Reroot, computes counts
    and hashes from the structure without needing the tip index; only UpdateTipIndex assigns ids):
      bitsets   present iff UpdateBitSet ran with a tip index: seq in {reinit, three, three_hashes} or pre in {reinit, reinit_reroot}
      counts    computed iff ComputeEdgeHashes ever ran: seq in {reinit, three_hashes} or pre <> none
      hashes    computed iff it ran last: seq in {reinit, three_hashes}, or seq in {tipindex, nothing} and pre <> none; else 0
      tip ids   ranks iff UpdateTipIndex ran, else all 0
    obs ((operr m) (tree T') (audit ..) (tips ..) (edges ((bits|nil nr nl depth hc hl hr tip) ...))
         (copyerr_full m) (same_full bits) (heq_full bits) (copyerr_three m) (same_three bits) (heq_three bits)) *)
Record grow2 : Type := mkG2 { g2_bits : option (list bool); g2_nr : Z; g2_nl : Z; g2_depth : Z;
                              g2_hc : N; g2_hl : N; g2_hr : N; g2_tip : bool }.
Definition dec_grow2 (s : sexp) : option grow2 :=
  match s with
  | SList [b; nr; nl; d; hc; hl; hr; tp] =>
    b' <- (a <- atom_of b ;; if String.eqb a "nil" then Some None else match bits_of_string a with Some l => Some (Some l) | None => None end) ;;
    nr' <- dec_Z nr ;; nl' <- dec_Z nl ;; d' <- dec_Z d ;;
    hc' <- dec_N hc ;; hl' <- dec_N hl ;; hr' <- dec_N hr ;; tp' <- dec_bool tp ;;
    Some (mkG2 b' nr' nl' d' hc' hl' hr' tp')
  | _ => None
  end.

Definition str_in (x : string) (l : list string) : bool := existsb (String.eqb x) l.

Definition judge_indexseq (c o : sexp) : verdict :=
  match get_string "panic" o with
  | Some p => VCorr ("implementation panics: " ++ p)
  | None =>
    match get_string "pre" c, get_string "seq" c, get_string "operr" o, get_tree "tree" o with
    | Some pre, Some sq, Some operr, Some g =>
      if negb (String.eqb operr "") then VOk false "indexseq:operr" else
      if negb (wf g && Nat.leb 2 (degree g) && distinct_sorted (ssort (leaves g))) then VOk false "indexseq:degenerate" else
      (* [stale]: the pre-history is a public edit that touches the tip-name index (on a fully indexed
         tree); what it leaves in the tables is not specified, only what the indexing step re-establishes *)
      let stale := str_in pre ["insert_one"; "insert_many"; "graft_tip"; "graft_tree"; "removetips"; "rename"; "setname"; "shuffle"] in
      let has_bits := str_in sq ["reinit"; "three"; "three_hashes"] || (negb stale && str_in pre ["reinit"; "reinit_reroot"]) in
      let has_counts := str_in sq ["reinit"; "three_hashes"] || (negb stale && negb (String.eqb pre "none")) in
      let has_hashes := str_in sq ["reinit"; "three_hashes"]
                        || (negb stale && str_in sq ["tipindex"; "nothing"] && negb (String.eqb pre "none")) in
      let zero_hashes := negb has_hashes && (negb stale || String.eqb sq "three") in
      let has_ids := negb (String.eqb sq "nothing") || (negb stale && str_in pre ["reinit"; "reinit_reroot"]) in
      let known_bits := negb stale || has_bits in
      let known_counts := negb stale || has_counts in
      match (x <- get "tips" o ;; dec_list (dec_pair dec_string dec_nat) x), (x <- get "edges" o ;; dec_list dec_grow2 x) with
      | Some gt, Some ge =>
        let all := ssort (leaves g) in
        let ntot := length all in
        let rws := rows g in
        let orow (ec : einfo * utree) (r : grow2) : option string :=
            let below := leaves (snd ec) in
            let nr := Z.of_nat (length below) in
            let nl := Z.of_nat (ntot - length below) in
            first_some [
              (if has_bits then match g2_bits r with
                                | Some b => if bits_eqb (map (fun x => smem x below) all) b then None
                                            else Some "after UpdateBitSet the bitset is not the characteristic vector of the tips below the branch"
                                | None => Some "after UpdateBitSet a branch has no bitset"
                                end else None);
              (if has_counts then
                 if negb (Z.eqb (g2_nr r) nr) then Some "hashes were (re)computed but NumTipsRight is not the number of tips below the branch"
                 else if negb (Z.eqb (g2_nl r) nl) then Some "hashes were (re)computed but NumTipsLeft is not the number of tips above the branch"
                 else if negb (Z.eqb (g2_depth r) (Z.min nl nr)) then Some "hashes were (re)computed but TopoDepth is not the size of the light side"
                 else None
               else None) ] in
        let k := combine (split_sides g) rws in
        let matrix (how : string) : option string :=
            match get_string ("copyerr_" ++ how) o, get_bits ("same_" ++ how) o, get_bits ("heq_" ++ how) o with
            | Some ce, Some sc, Some hc =>
              if negb (String.eqb ce "") then Some ("independent copy (" ++ how ++ "): " ++ ce)
              else if negb (Nat.eqb (length sc) (length k * length k) && Nat.eqb (length hc) (length k * length k)) then Some "copy matrix: number of branches"
              else check_matrix2 (fun a b x => pair_oracle ("tree/copy indexed by " ++ how) a b (fst x) (snd x)) k k (zip_bits sc hc)
            | Some ce, _, _ => Some ("independent copy (" ++ how ++ "): " ++ ce)
            | _, _, _ => Some ("no comparison with the copy indexed by " ++ how)
            end in
        let orc := first_some [
          (if Nat.eqb (length ge) (length (edges g)) then None else Some "number of branches");
          first_diff orow 0 (edges g) ge;
          (if has_ids then first_some (map (oracle_tip all) gt) else None);
          (* comparisons: a tree whose hashes are computed against a fully indexed copy; a tree indexed
             by the three calls (hash codes 0) against a copy indexed the same way *)
          (if has_bits then if has_hashes then matrix "full" else if zero_hashes then matrix "three" else None else None) ] in
        match orc with
        | Some m => VOracle m
        | None =>
          let crow (m : erow) (r : grow2) : option string :=
              let hl := if has_hashes then r_hleft m else 0%N in
              let hr := if has_hashes then r_hright m else 0%N in
              let nl := if has_counts then r_nleft m else 0 in
              let nr := if has_counts then r_nright m else 0 in
              if known_bits && negb (match g2_bits r with Some b => has_bits && bits_eqb (r_bits m) b | None => negb has_bits end) then Some "bitset presence / content"
              else if known_counts && negb (Z.eqb (g2_nr r) (Z.of_nat nr)) then Some "ntaxright"
              else if known_counts && negb (Z.eqb (g2_nl r) (Z.of_nat nl)) then Some "ntaxleft"
              else if (has_hashes || zero_hashes) && negb (N.eqb (g2_hr r) hr) then Some "hashcoderight"
              else if (has_hashes || zero_hashes) && negb (N.eqb (g2_hl r) hl) then Some "hashcodeleft"
              else if ((has_hashes && known_counts) || zero_hashes)
                      && negb (N.eqb (g2_hc r) (if zero_hashes then 0%N else hash_code_of nl nr hl hr)) then Some "HashCode"
              else if known_counts && negb (Z.eqb (g2_depth r) (if Nat.eqb nl 0 || Nat.eqb nr 0 then (-1)%Z else Z.of_nat (Nat.min nl nr))) then Some "TopoDepth"
              else None in
          match first_some [
                  first_diff crow 0 rws ge;
                  first_diff (fun name (p : string * nat) =>
                                if stale && negb has_ids then None
                                else if Nat.eqb (snd p) (if has_ids then index_of name all else 0) then None else Some "tip id")
                             0 (tip_names g) gt ] with
          | Some m => VCorr m
          | None => VOk (has_bits || has_counts) "indexseq"
          end
        end
      | _, _ => VBad "undecodable indexseq tables"
      end
    | _, _, _, _ => VBad "undecodable indexseq case"
    end
  end.

Definition find_code (r : res bool) : string :=
  match r with Ok true => "T" | Ok false => "F" | Err _ => "E" end.

Definition judge_samebip (c o : sexp) : verdict :=
  match get_tree "t1" c, get_tree "t2" c with
  | Some t1, Some t2 =>
    match get_string "panic" o with
    | Some p => VCorr ("implementation panics: " ++ p)
    | None =>
    match index_tables t1, index_tables t2 with
    | Ok tb1, Ok tb2 =>
      if negb (sset_eqb (tipset t1) (tipset t2)) then VBad "trees on different taxa" else
      match get_string "err" o, get_bits "same12" o, get_bits "heq12" o, get_bits "same11" o, get_bits "heq11" o,
            get_strings "find12" o with
      | Some gerr, Some s12, Some h12, Some s11, Some h11, Some f12 =>
        if negb (String.eqb gerr "") then VCorr ("implementation refuses: " ++ gerr) else
        let k1 := combine (split_sides t1) (tb_rows tb1) in
        let k2 := combine (split_sides t2) (tb_rows tb2) in
        let n12 := length k1 * length k2 in
        let n11 := length k1 * length k1 in
        if negb (Nat.eqb (length s12) n12 && Nat.eqb (length h12) n12 && Nat.eqb (length s11) n11 && Nat.eqb (length h11) n11
                 && Nat.eqb (length f12) (length k1))
        then VBad "matrix sizes" else
        let tips2 := map (fun ec => is_tip (snd ec)) (edges t2) in
        let orc := first_some [
          check_matrix2 (fun a b x => pair_oracle "t1/t2" a b (fst x) (snd x)) k1 k2 (zip_bits s12 h12);
          check_matrix2 (fun a b x => pair_oracle "t1/t1" a b (fst x) (snd x)) k1 k1 (zip_bits s11 h11);
          (* FindEdge: found => some branch of t2 has the same split; a branch of t2 with the same
             split and the same kind (tip / internal) => found *)
          first_diff (fun (a : (list string * erow) * bool) (f : string) =>
                        let any := existsb (fun b => sset_eqb (fst (fst a)) (fst b)) k2 in
                        let kind := existsb (fun b => sset_eqb (fst (fst a)) (fst (fst b)) && Bool.eqb (snd a) (snd b))
                                            (combine k2 tips2) in
                        if String.eqb f "E" then Some "FindEdge reports an error on initialized indexes"
                        else if String.eqb f "T" && negb any then Some "FindEdge finds a split that is not in the other tree"
                        else if String.eqb f "F" && kind then Some "FindEdge misses a split that is in the other tree"
                        else None) 0
                     (combine k1 (map (fun ec => is_tip (snd ec)) (edges t1))) f12 ] in
        match orc with
        | Some m => VOracle m
        | None =>
          let cor := first_some [
            check_matrix2 (fun a b x =>
                             if negb (Bool.eqb (same_bipartition (snd a) (snd b)) (fst x)) then Some "SameBipartition t1/t2"
                             else if negb (Bool.eqb (N.eqb (hash_code (snd a)) (hash_code (snd b))) (snd x)) then Some "HashCode equality t1/t2"
                             else None) k1 k2 (zip_bits s12 h12);
            check_matrix2 (fun a b x =>
                             if negb (Bool.eqb (same_bipartition (snd a) (snd b)) (fst x)) then Some "SameBipartition t1/t1"
                             else if negb (Bool.eqb (N.eqb (hash_code (snd a)) (hash_code (snd b))) (snd x)) then Some "HashCode equality t1/t1"
                             else None) k1 k1 (zip_bits s11 h11);
            first_diff (fun (a : list string * erow) (f : string) =>
                          if String.eqb (find_code (find_edge (snd a) (tb_rows tb2))) f then None else Some "FindEdge")
                       0 k1 f12 ] in
          match cor with
          | Some m => VCorr m
          | None => VOk (existsb (fun x => x) s12) "samebip"
          end
        end
      | _, _, _, _, _, _ => VBad "undecodable samebip observation"
      end
    | _, _ => VBad "samebip: model refuses a tree"
    end
    end
  | _, _ => VBad "no trees"
  end.

(** * generic results of map operations *)
Inductive gres (V : Type) : Type := GOk | GVal (v : option V).
Arguments GOk {V}. Arguments GVal {V}.

(** * hashmap with abstract keys: key = (index, hash, class), value = Z *)
Definition akey : Type := (nat * N * nat)%type.
Definition akey_hash (k : akey) : N := snd (fst k).
Definition akey_eqb (a b : akey) : bool := Nat.eqb (snd a) (snd b).

Definition lf_need (lf : Q) (total : nat) (cap : N) : bool :=
  Qle_bool (inject_Z (Z.of_N cap) * lf)%Q (inject_Z (Z.of_nat total)).

Inductive aop : Type := APut (k : nat) (v : Z) | AVal (k : nat).
Definition dec_aop (s : sexp) : option aop :=
  match s with
  | SList [Atom a; k; v] => if String.eqb a "put" then k' <- dec_nat k ;; v' <- dec_Z v ;; Some (APut k' v') else None
  | SList [Atom a; k] => if String.eqb a "val" then k' <- dec_nat k ;; Some (AVal k') else None
  | _ => None
  end.
Definition dec_gres_Z (s : sexp) : option (gres Z) :=
  match s with
  | SList [Atom a] => if String.eqb a "ok" then Some GOk else None
  | SList [Atom a; f] => if String.eqb a "v" then b <- dec_bool f ;; if b then None else Some (GVal None) else None
  | SList [Atom a; f; x] => if String.eqb a "v" then b <- dec_bool f ;; x' <- dec_Z x ;; if b then Some (GVal (Some x')) else None else None
  | _ => None
  end.

Definition gres_Z_eqb (a b : gres Z) : bool :=
  match a, b with
  | GOk, GOk => true
  | GVal None, GVal None => true
  | GVal (Some x), GVal (Some y) => Z.eqb x y
  | _, _ => false
  end.

Section GenericMap.
  Variable K : Type.
  Variable khash : K -> N.
  Variable keqb : K -> K -> bool.        (* the code's HashEquals *)
  Variable kspec : K -> K -> bool.       (* the specification's key equality *)
  Variable need : nat -> N -> bool.

  (** model run: [None] = panic *)
  Fixpoint grun (m : hmap K Z) (ops : list (K * option Z)) : option (list (gres Z) * hmap K Z) :=
    match ops with
    | [] => Some ([], m)
    | (k, Some v) :: r =>
      match put K Z khash keqb need m k v with
      | None => None
      | Some m' => match grun m' r with Some (rs, mf) => Some (GOk :: rs, mf) | None => None end
      end
    | (k, None) :: r =>
      match value K Z khash keqb m k with
      | None => None
      | Some x => match grun m r with Some (rs, mf) => Some (GVal x :: rs, mf) | None => None end
      end
    end.

  (** specification run on a plain association list with the specification's key equality *)
  Fixpoint srun (a : list (K * Z)) (ops : list (K * option Z)) : list (gres Z) * list (K * Z) :=
    match ops with
    | [] => ([], a)
    | (k, Some v) :: r => let '(rs, af) := srun (assoc_put K Z kspec a k v) r in (GOk :: rs, af)
    | (k, None) :: r => let '(rs, af) := srun a r in (GVal (assoc_value K Z kspec a k) :: rs, af)
    end.

  (** same finite map: same size and every entry of [a] is in [b] with the same value *)
  Definition same_map (a b : list (K * Z)) : bool :=
    Nat.eqb (length a) (length b) &&
    forallb (fun kv => match assoc_value K Z kspec b (fst kv) with Some x => Z.eqb x (snd kv) | None => false end) a.
End GenericMap.

Definition judge_map {K} (tag : string) (khash : K -> N) (keqb kspec : K -> K -> bool) (ktag : K -> nat)
           (keys : list K) (c o : sexp) : verdict :=
  match get_N "cap" c, get_Q "lf" c, (x <- get "ops" c ;; dec_list dec_aop x) with
  | Some cap, Some lf, Some ops =>
    match omap (fun a => match a with
                         | APut k v => k' <- nth_error keys k ;; Some (k', Some v)
                         | AVal k => k' <- nth_error keys k ;; Some (k', None)
                         end) ops with
    | None => VBad "key index out of range"
    | Some kops =>
      let model := grun K khash keqb (lf_need lf) (new_hashmap K Z cap) kops in
      match get_string "panic" o with
      | Some p =>
        match model with
        | None => VOracle ("the map panics: " ++ p)
        | Some _ => VCorr ("implementation panics: " ++ p)
        end
      | None =>
        match model with
        | None => VCorr "model panics, implementation does not"
        | Some (mrs, mf) =>
          match (x <- get "res" o ;; dec_list dec_gres_Z x),
                (x <- get "kvs" o ;; dec_list (dec_pair dec_nat dec_Z) x) with
          | Some grs, Some gkvs =>
            let '(srs, sf) := srun K kspec [] kops in
            match omap (fun p => k <- nth_error keys (fst p) ;; Some (k, snd p)) gkvs with
            | None => VBad "returned key out of range"
            | Some gfinal =>
              if negb (list_eqb gres_Z_eqb srs grs) then VOracle "a result differs from the plain association list"
              else if negb (same_map K kspec sf gfinal) then VOracle "final key/value set differs from the plain association list"
              else if negb (list_eqb gres_Z_eqb mrs grs) then VCorr "a result differs from the bucket model"
              else if negb (list_eqb2 (fun a b => Nat.eqb (ktag (fst a)) (fst b) && Z.eqb (snd a) (snd b))
                                     (key_values K Z mf) gkvs) then VCorr "KeyValues order differs from the bucket model"
              else VOk (Nat.ltb 0 (length sf)) tag
            end
          | _, _ => VBad "undecodable map observation"
          end
        end
      end
    end
  | _, _, _ => VBad "undecodable map case"
  end.

Fixpoint number {A} (k : nat) (l : list A) : list (nat * A) :=
  match l with [] => [] | x :: r => (k, x) :: number (S k) r end.

(** parmap: several goroutines on ONE shared HashMap, every key owned by one goroutine: the
    results of each goroutine and the final content are those of the plain association list run
    on the concatenation of the goroutines' operations, whatever the interleaving.
    case ((kind parmap) (cap n) (lf q) (reps r) (keys ((hash class) ...)) (gops ((op ...) ...)))
    obs  ((reps (((res ...) (kvs ...)) ...)))  -- res: goroutine after goroutine *)
Definition judge_parmap_rep (keys : list akey) (kops : list (akey * option Z)) (o : sexp) : option string :=
  match get_string "panic" o with
  | Some p => Some ("the shared map panics: " ++ p)
  | None =>
    match (x <- get "res" o ;; dec_list dec_gres_Z x), (x <- get "kvs" o ;; dec_list (dec_pair dec_Z dec_Z) x) with
    | Some grs, Some gkvs0 =>
      let '(srs, sf) := srun akey akey_eqb [] kops in
      match omap (fun p => if (fst p <? 0)%Z then None else k <- nth_error keys (Z.to_nat (fst p)) ;; Some (k, snd p)) gkvs0 with
      | None => Some "KeyValues() holds an empty or unknown entry"
      | Some gfinal =>
        if negb (list_eqb gres_Z_eqb srs grs) then Some "concurrent writers: a lookup of a key put by the same goroutine differs from the plain map"
        else if negb (same_map akey akey_eqb sf gfinal) then
          Some ("concurrent writers: the final content is not one entry per key with its last value ("
                ++ string_of_nat (length gfinal) ++ " entries for " ++ string_of_nat (length sf) ++ " keys)")
        else None
      end
    | _, _ => Some "undecodable repetition"
    end
  end.

Definition judge_parmap (c o : sexp) : verdict :=
  match (x <- get "keys" c ;; dec_list (dec_pair dec_N dec_nat) x),
        (x <- get "gops" c ;; dec_list (dec_list dec_aop) x), get_string "panic" o with
  | _, _, Some p => VOracle ("the shared map panics: " ++ p)
  | Some ks, Some gops, None =>
    let keys : list akey := map (fun p => (fst p, fst (snd p), snd (snd p))) (number 0 ks) in
    match omap (fun a => match a with
                         | APut k v => k' <- nth_error keys k ;; Some (k', Some v)
                         | AVal k => k' <- nth_error keys k ;; Some (k', None)
                         end) (concat gops) with
    | None => VBad "key index out of range"
    | Some kops =>
      match (x <- get "reps" o ;; list_of x) with
      | None => VBad "no repetitions"
      | Some reps =>
        match first_some (map (judge_parmap_rep keys kops) reps) with
        | Some m => VOracle m
        | None => VOk true "parmap"
        end
      end
    end
  | _, _, _ => VBad "undecodable parmap case"
  end.

Definition judge_hashmap (c o : sexp) : verdict :=
  match (x <- get "keys" c ;; dec_list (dec_pair dec_N dec_nat) x) with
  | None => VBad "keys"
  | Some ks =>
    let keys : list akey := map (fun p => (fst p, fst (snd p), snd (snd p))) (number 0 ks) in
    judge_map "hashmap" akey_hash akey_eqb akey_eqb (fun k => fst (fst k)) keys c o
  end.

(** * quartets *)
Definition dec_quartet (s : sexp) : option quartet :=
  match s with
  | SList [a; b; c; d] => a' <- dec_N a ;; b' <- dec_N b ;; c' <- dec_N c ;; d' <- dec_N d ;; Some (mkQ a' b' c' d')
  | _ => None
  end.

Definition q_distinct (q : quartet) : bool :=
  negb (N.eqb (qt1 q) (qt2 q)) && negb (N.eqb (qt1 q) (qt3 q)) && negb (N.eqb (qt1 q) (qt4 q)) &&
  negb (N.eqb (qt2 q) (qt3 q)) && negb (N.eqb (qt2 q) (qt4 q)) && negb (N.eqb (qt3 q) (qt4 q)).
Definition q_taxa (q : quartet) : list N := [qt1 q; qt2 q; qt3 q; qt4 q].
Definition nmem (x : N) (l : list N) : bool := existsb (N.eqb x) l.
Definition q_same_taxa (a b : quartet) : bool :=
  forallb (fun x => nmem x (q_taxa b)) (q_taxa a) && forallb (fun x => nmem x (q_taxa a)) (q_taxa b).
(** specification of the comparison of two quartets with four distinct taxa each *)
Definition q_spec (a b : quartet) : qcmp :=
  if negb (q_same_taxa a b) then QDiff
  else if (nmem (qt1 a) [qt1 b; qt2 b] && nmem (qt2 a) [qt1 b; qt2 b]) ||
          (nmem (qt1 a) [qt3 b; qt4 b] && nmem (qt2 a) [qt3 b; qt4 b]) then QEquals
  else QConflict.

Record gq : Type := mkGQ { gq_h1 : N; gq_h2 : N; gq_cmp : nat; gq_e12 : bool; gq_e21 : bool }.
Definition dec_gq (s : sexp) : option gq :=
  match s with
  | SList [a; b; c; d; e] =>
    a' <- dec_N a ;; b' <- dec_N b ;; c' <- dec_nat c ;; d' <- dec_bool d ;; e' <- dec_bool e ;; Some (mkGQ a' b' c' d' e')
  | _ => None
  end.

Definition show_q (q : quartet) : string :=
  "(" ++ string_of_N (qt1 q) ++ "," ++ string_of_N (qt2 q) ++ "|" ++ string_of_N (qt3 q) ++ "," ++ string_of_N (qt4 q) ++ ")".

Definition quartet_oracle (p : quartet * quartet) (g : gq) : option string :=
  let '(a, b) := p in
  let pre := show_q a ++ " " ++ show_q b ++ ": " in
  if q_distinct a && q_distinct b then
    if negb (Nat.eqb (gq_cmp g) (qcmp_code (q_spec a b))) then Some (pre ++ "Compare is not the comparison of the two quartets")
    else if negb (Bool.eqb (gq_e12 g) (negb (Nat.eqb (qcmp_code (q_spec a b)) 2))) then Some (pre ++ "HashEquals is not 'same four taxa'")
    else if negb (Bool.eqb (gq_e12 g) (gq_e21 g)) then Some (pre ++ "HashEquals is not symmetric")
    else if gq_e12 g && negb (N.eqb (gq_h1 g) (gq_h2 g)) then
      Some (pre ++ "HashEquals quartets have different HashCode " ++ string_of_N (gq_h1 g) ++ " / " ++ string_of_N (gq_h2 g))
    else None
  else None.

Definition quartet_corr (p : quartet * quartet) (g : gq) : option string :=
  let '(a, b) := p in
  if negb (N.eqb (q_hash_code a) (gq_h1 g)) then Some "HashCode of the first quartet"
  else if negb (N.eqb (q_hash_code b) (gq_h2 g)) then Some "HashCode of the second quartet"
  else if negb (Nat.eqb (qcmp_code (q_compare a b)) (gq_cmp g)) then Some "Compare"
  else if negb (Bool.eqb (q_hash_equals a b) (gq_e12 g)) then Some "HashEquals"
  else if negb (Bool.eqb (q_hash_equals b a) (gq_e21 g)) then Some "HashEquals (reverse)"
  else None.

Definition judge_quartet (c o : sexp) : verdict :=
  match (x <- get "qs1" c ;; dec_list dec_quartet x), (x <- get "qs2" c ;; dec_list dec_quartet x),
        (x <- get "rows" o ;; dec_list dec_gq x) with
  | Some q1, Some q2, Some rows =>
    let pairs := flat_map (fun a => map (fun b => (a, b)) q2) q1 in
    if negb (Nat.eqb (length pairs) (length rows)) then VBad "number of quartet rows" else
    match first_diff quartet_oracle 0 pairs rows with
    | Some m => VOracle m
    | None =>
      match first_diff quartet_corr 0 pairs rows with
      | Some m => VCorr m
      | None => VOk (existsb (fun g => gq_e12 g) rows) "quartet"
      end
    end
  | _, _, _ => match get_string "panic" o with Some p => VCorr ("implementation panics: " ++ p) | None => VBad "undecodable quartet case" end
  end.

(** quartets as keys of a HashMap: the specification's key equality is "same four taxa" *)
Definition judge_qmap (c o : sexp) : verdict :=
  match (x <- get "keys" c ;; dec_list dec_quartet x) with
  | None => VBad "keys"
  | Some qs =>
    if negb (forallb q_distinct qs) then VBad "degenerate quartet key" else
    let keys : list (nat * quartet) := number 0 qs in
    judge_map "qmap" (fun k => q_hash_code (snd k)) (fun a b => q_hash_equals (snd a) (snd b))
              (fun a b => q_same_taxa (snd a) (snd b)) (fun k => fst k) keys c o
  end.

(** * edge index *)
Inductive eop : Type := EPut (ti ei : nat) (count : Z) (len : Q) | EAdd (ti ei : nat) | EVal (ti ei : nat).
Definition dec_eop (s : sexp) : option eop :=
  match s with
  | SList [Atom a; ti; ei; cn; ln] =>
    if String.eqb a "put" then ti' <- dec_nat ti ;; ei' <- dec_nat ei ;; c' <- dec_Z cn ;; l' <- dec_Q ln ;; Some (EPut ti' ei' c' l')
    else None
  | SList [Atom a; ti; ei] =>
    ti' <- dec_nat ti ;; ei' <- dec_nat ei ;;
    if String.eqb a "add" then Some (EAdd ti' ei') else if String.eqb a "val" then Some (EVal ti' ei') else None
  | _ => None
  end.

Definition eres : Type := gres (Z * Q).
Definition dec_eres (s : sexp) : option eres :=
  match s with
  | SList [Atom a] => if String.eqb a "ok" then Some GOk else None
  | SList [Atom a; f] => if String.eqb a "v" then b <- dec_bool f ;; if b then None else Some (GVal None) else None
  | SList [Atom a; f; x; y] =>
    if String.eqb a "v" then b <- dec_bool f ;; x' <- dec_Z x ;; y' <- dec_Q y ;; if b then Some (GVal (Some (x', y'))) else None else None
  | _ => None
  end.
Definition info_eqb (a b : Z * Q) : bool := Z.eqb (fst a) (fst b) && qeqb (snd a) (snd b).
Definition eres_eqb (a b : eres) : bool :=
  match a, b with
  | GOk, GOk => true
  | GVal None, GVal None => true
  | GVal (Some x), GVal (Some y) => info_eqb x y
  | _, _ => false
  end.

(** model run: Model.EdgeIndex.ei_run *)
Definition to_eiop (x : ekey * option (option (Z * Q))) : eiop :=
  match x with
  | (k, Some (Some (cn, ln))) => EIPut k cn ln
  | (k, Some None) => EIAdd k
  | (k, None) => EIValue k
  end.
Definition of_eires (r : eires) : gres (Z * Q) := match r with EIOk => GOk | EIVal x => GVal x end.
Definition erun (need : nat -> N -> bool) (m : eindex) (ops : list (ekey * option (option (Z * Q)))) : option (list eres * eindex) :=
  match ei_run need m (map to_eiop ops) with
  | Some (rs, mf) => Some (map of_eires rs, mf)
  | None => None
  end.

(** specification: association list keyed by the canonical side of the split *)
(** [skey], [sp_get], [sp_set], [sp_run]: Spec/SplitMap.v (the same objects the theorem
    Proofs/SplitMap.edgeindex_is_split_map is about) *)
Definition to_sop (x : (skey * Q) * option (option (Z * Q))) : sop :=
  match x with
  | ((k, _), Some (Some v)) => SPut k v
  | ((k, l), Some None) => SAdd k l
  | ((k, _), None) => SValue k
  end.
Definition of_sres (r : sres) : eres := match r with SOk => GOk | SVal x => GVal x end.
Definition sp_same (a b : list (skey * (Z * Q))) : bool :=
  Nat.eqb (length a) (length b) &&
  forallb (fun kv => match sp_get b (fst kv) with Some v => info_eqb v (snd kv) | None => false end) a.

Definition dec_entry (s : sexp) : option ((nat * nat) * (Z * Q)) :=
  match s with
  | SList [ti; ei; cn; ln] => ti' <- dec_nat ti ;; ei' <- dec_nat ei ;; c' <- dec_Z cn ;; l' <- dec_Q ln ;; Some ((ti', ei'), (c', l'))
  | _ => None
  end.

Definition judge_edgeindex (c o : sexp) : verdict :=
  match get_tree "t1" c, get_tree "t2" c, get_N "cap" c, get_Q "lf" c, get_Z "min" c, get_Z "max" c,
        (x <- get "ops" c ;; dec_list dec_eop x) with
  | Some t1, Some t2, Some cap, Some lf, Some minc, Some maxc, Some ops =>
    match index_tables t1, index_tables t2 with
    | Ok tb1, Ok tb2 =>
      if negb (sset_eqb (tipset t1) (tipset t2)) then VBad "trees on different taxa" else
      let mk (ti : nat) (t : utree) (tb : tables) :=
          map (fun x => let '(k, ((ec, r), sd)) := x in (mkEK (ti, k) r (elen (fst ec)), sd))
              (number 0 (combine (combine (edges t) (tb_rows tb)) (split_sides t))) in
      let keys1 := mk 0 t1 tb1 in
      let keys2 := mk 1 t2 tb2 in
      let key_of (ti ei : nat) := nth_error (if Nat.eqb ti 0 then keys1 else keys2) ei in
      match omap (fun a => match a with
                           | EPut ti ei cn ln => k <- key_of ti ei ;; Some (k, Some (Some (cn, ln)))
                           | EAdd ti ei => k <- key_of ti ei ;; Some (k, Some None)
                           | EVal ti ei => k <- key_of ti ei ;; Some (k, None)
                           end) ops with
      | None => VBad "edge index out of range"
      | Some kops =>
        let need := lf_need lf in
        let model := erun need (new_edge_index cap) (map (fun x => (fst (fst x), snd x)) kops) in
        match get_string "panic" o with
        | Some p =>
          match model with
          | None => VOracle ("the index panics: " ++ p)
          | Some _ => VCorr ("implementation panics: " ++ p)
          end
        | None =>
          match model with
          | None => VCorr "model panics, implementation does not"
          | Some (mrs, mf) =>
            match get_string "err" o, (x <- get "res" o ;; dec_list dec_eres x),
                  (x <- get "edges" o ;; dec_list dec_entry x), (x <- get "all" o ;; dec_list dec_entry x) with
            | Some gerr, Some grs, Some gedges, Some gall =>
              if negb (String.eqb gerr "") then VCorr ("implementation refuses: " ++ gerr) else
              let '(srs0, sf) := sp_run [] (map (fun x => to_sop ((snd (fst x), ek_len (fst (fst x))), snd x)) kops) in
              let srs := map of_sres srs0 in
              let side_of (tg : nat * nat) := option_map snd (key_of (fst tg) (snd tg)) in
              match omap (fun e => sd <- side_of (fst e) ;; Some (sd, snd e)) gall,
                    omap (fun e => sd <- side_of (fst e) ;; Some (sd, snd e)) gedges with
              | Some sall, Some sedges =>
                let sfilt := filter (fun kv => let cn := fst (snd kv) in ((minc <? cn)%Z && (cn <=? maxc)%Z) || (cn =? maxc)%Z) sf in
                if negb (list_eqb eres_eqb srs grs) then VOracle "a result differs from the plain map keyed by splits"
                else if negb (sp_same sf sall) then VOracle "final content differs from the plain map keyed by splits"
                else if negb (sp_same sfilt sedges) then VOracle "Edges(min,max) differs from the filtered plain map"
                else if negb (list_eqb eres_eqb mrs grs) then VCorr "a result differs from the bucket model"
                else
                  let same_entries (m : list (ekey * einfo_v)) (g : list ((nat * nat) * (Z * Q))) :=
                      list_eqb2 (fun a b => Nat.eqb (fst (ek_tag (fst a))) (fst (fst b)) && Nat.eqb (snd (ek_tag (fst a))) (snd (fst b))
                                           && info_eqb (snd a) (snd b)) m g in
                  if negb (same_entries (key_values ekey einfo_v mf) gall) then VCorr "KeyValues order or retained key objects differ from the bucket model"
                  else if negb (same_entries (ei_edges mf minc maxc) gedges) then VCorr "Edges(min,max) differs from the bucket model"
                  else VOk (Nat.ltb 0 (length sf)) "edgeindex"
              | _, _ => VBad "returned key out of range"
              end
            | _, _, _, _ => VBad "undecodable edgeindex observation"
            end
          end
        end
      end
    | _, _ => VBad "edgeindex: model refuses a tree"
    end
  | _, _, _, _, _, _, _ => VBad "undecodable edgeindex case"
  end.

Definition judge (c o : sexp) : verdict :=
  match get_string "kind" c with
  | Some k =>
    if String.eqb k "index" then judge_index c o
    else if String.eqb k "edit" then judge_edit c o
    else if String.eqb k "handbuilt" then judge_handbuilt c o
    else if String.eqb k "indexseq" then judge_indexseq c o
    else if String.eqb k "parmap" then judge_parmap c o
    else if String.eqb k "samebip" then judge_samebip c o
    else if String.eqb k "edgeindex" then judge_edgeindex c o
    else if String.eqb k "hashmap" then judge_hashmap c o
    else if String.eqb k "qmap" then judge_qmap c o
    else if String.eqb k "quartet" then judge_quartet c o
    else VBad "unknown kind"
  | None => VBad "no kind"
  end.
