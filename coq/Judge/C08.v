(** Judge for C08: tree comparison counts are exact set differences of splits.
    case: ((op compare|weighted) (t1 T) (t2s (T ...)) (tips T|F) (ident T|F))   stream of compared trees, one call
          ((op common) (t1 T) (t2 T) (tips T|F) (ident F))
    obs : ((err m) (stats (((id i) (tree1 n) (tree2 n) (common n) (same b) (serr m)) ...)))
          ((err m) (wstats (((id i) (tree1 (q ..)) (tree2 (q ..)) (common (q ..)) (same b) (serr m)) ...)))
          ((err m) (tree1 n) (common n))
          ((hang T)) | ((panic m))
    Correspondence: the Go record equals the record of the model over the hash index
    ([compare_hm]); whenever the trees are on the same taxa the association-list model
    ([compare], the one the theorems are about) must give the same record too.
    Oracle (inside the domain of the property): counts / identity / weighted terms / rejection
    computed from [usplits]. *)
From Coq Require Import String ZArith QArith Bool Arith List.
From GT Require Import Base.Sexp Base.UTree Base.Codec Spec.Obs Spec.CompareSpec Model.Reroot Model.Compare Judge.Common.
Import ListNotations.
Local Close Scope Q_scope.
Local Open Scope string_scope.

Definition get_Z (k : string) (s : sexp) : option Z := x <- get k s ;; dec_Z x.
Definition get_Qs (k : string) (s : sexp) : option (list Q) := x <- get k s ;; dec_list dec_Q x.

(** multiset comparison of rational lists *)
Fixpoint qinsert (x : Q) (l : list Q) : list Q :=
  match l with
  | [] => [x]
  | y :: r => if Qle_bool x y then x :: l else y :: qinsert x r
  end.
Definition qsort (l : list Q) : list Q := fold_right qinsert [] l.
Definition qlist_eqb (a b : list Q) : bool := list_eqb qeqb a b.
Definition qmset_eqb (a b : list Q) : bool := list_eqb qeqb (qsort a) (qsort b).

Definition show_Z (z : Z) : string := string_of_Z z.
Definition show_Qs (l : list Q) : string := "(" ++ concat_with " " (map string_of_Q l) ++ ")".

Definition show_bstats (s : bstats) : string :=
  "tree1=" ++ show_Z (bs_tree1 s) ++ " tree2=" ++ show_Z (bs_tree2 s) ++ " common=" ++ show_Z (bs_common s)
  ++ " same=" ++ string_of_bool (bs_same s) ++ " err=" ++ bs_err s.
Definition show_wstats (s : wstats) : string :=
  "tree1=" ++ show_Qs (ws_tree1 s) ++ " tree2=" ++ show_Qs (ws_tree2 s) ++ " common=" ++ show_Qs (ws_common s)
  ++ " same=" ++ string_of_bool (ws_same s) ++ " err=" ++ ws_err s.

Definition bstats_eqb (a b : bstats) : bool :=
  Z.eqb (bs_tree1 a) (bs_tree1 b) && Z.eqb (bs_tree2 a) (bs_tree2 b) && Z.eqb (bs_common a) (bs_common b)
  && Bool.eqb (bs_same a) (bs_same b) && String.eqb (bs_err a) (bs_err b).
Definition wstats_eqb (a b : wstats) : bool :=
  qlist_eqb (ws_tree1 a) (ws_tree1 b) && qlist_eqb (ws_tree2 a) (ws_tree2 b) && qlist_eqb (ws_common a) (ws_common b)
  && Bool.eqb (ws_same a) (ws_same b) && String.eqb (ws_err a) (ws_err b).

Definition dec_bstats (s : sexp) : option bstats :=
  a <- get_Z "tree1" s ;; b <- get_Z "tree2" s ;; c <- get_Z "common" s ;;
  d <- get_bool "same" s ;; e <- get_string "serr" s ;; Some (mkBS a b c d e).
Definition dec_wstats (s : sexp) : option wstats :=
  a <- get_Qs "tree1" s ;; b <- get_Qs "tree2" s ;; c <- get_Qs "common" s ;;
  d <- get_bool "same" s ;; e <- get_string "serr" s ;; Some (mkWS a b c d e).

(** in the domain of the property the structural notion "tip branch" and the set notion "trivial
    split" coincide; checked on every case as a guard on the oracle itself *)
Definition tip_flags_ok (t : utree) : bool :=
  let n := length (tipset t) in
  forallb (fun s => Bool.eqb (stip s) (negb (nontrivial_split n s))) (usplits t).

Definition in_domain (t1 t2 : utree) : bool := unrooted_ok t1 && unrooted_ok t2 && same_taxa t1 t2.

(** the trees are well-formed inputs whose taxon MULTISETS differ: another name, a missing or an
    extra one, or a name carried by two tips (whatever the counts) *)
Definition differing_taxa (t1 t2 : utree) : bool :=
  wf t1 && wf t2 &&
  (negb (nodup_sorted (ssort (leaves t1)) && nodup_sorted (ssort (leaves t2))) || negb (same_taxa t1 t2)).

Definition zn (n : nat) : Z := Z.of_nat n.

(** ** oracle for the counts record *)
Definition oracle_counts (tips ident : bool) (t1 t2 : utree) (g : bstats) : option string :=
  if differing_taxa t1 t2 then
    (if String.eqb (bs_err g) "" then Some "trees on different taxa are not rejected (no error in the record)" else None)
  else if negb (in_domain t1 t2) then None
  else if negb (tip_flags_ok t1 && tip_flags_ok t2) then Some "oracle guard: tip flag differs from trivial split"
  else if negb (String.eqb (bs_err g) "") then Some ("trees on the same taxa rejected: " ++ bs_err g)
  else
    let c := spec_counts tips t1 t2 in
    let ident_spec := spec_identical tips t1 t2 in
    if negb (Bool.eqb (bs_same g) ident_spec) then
      Some ("sametree=" ++ string_of_bool (bs_same g) ++ " but splits only in reference=" ++ string_of_nat (c_only1 c)
            ++ ", only in compared=" ++ string_of_nat (c_only2 c)
            ++ (if Nat.eqb (c_only2 c) 0 then " (compared tree is a contraction of the reference)" else ""))
    else if ident then None       (* identical-only shortcut: the counts are not meant to be exact *)
    else if negb (Z.eqb (bs_tree1 g) (zn (c_only1 c)) && Z.eqb (bs_common g) (zn (c_both c)) && Z.eqb (bs_tree2 g) (zn (c_only2 c)))
    then Some ("counts: set algebra gives reference-only=" ++ string_of_nat (c_only1 c) ++ " common=" ++ string_of_nat (c_both c)
               ++ " compared-only=" ++ string_of_nat (c_only2 c))
    else None.

(** ** oracle for the weighted record *)
Definition all_zero (l : list Q) : bool := forallb (fun x => qeqb x 0%Q) l.

Definition oracle_weighted (tips ident : bool) (t1 t2 : utree) (g : wstats) : option string :=
  if differing_taxa t1 t2 then
    (if String.eqb (ws_err g) "" then Some "trees on different taxa are not rejected (no error in the record)" else None)
  else if negb (in_domain t1 t2) then None
  else if negb (String.eqb (ws_err g) "") then Some ("trees on the same taxa rejected: " ++ ws_err g)
  else
    let o1 := spec_w_only1 tips t1 t2 in
    let o2 := spec_w_only2 tips t1 t2 in
    let cm := spec_w_common tips t1 t2 in
    let ident_spec := Nat.eqb (length o1) 0 && Nat.eqb (length o2) 0 && all_zero cm in
    if negb (Bool.eqb (ws_same g) ident_spec) then
      Some ("weighted sametree=" ++ string_of_bool (ws_same g) ++ " but reference-only=" ++ show_Qs o1
            ++ " compared-only=" ++ show_Qs o2 ++ " differences=" ++ show_Qs cm)
    else if ident then None
    else if negb (qmset_eqb (ws_tree1 g) o1) then Some ("lengths of reference-only splits should be " ++ show_Qs o1)
    else if negb (qmset_eqb (ws_tree2 g) o2) then Some ("lengths of compared-only splits should be " ++ show_Qs o2)
    else if negb (qmset_eqb (ws_common g) cm) then Some ("length differences of shared splits should be " ++ show_Qs cm)
    else None.

Definition nontrivial_case (t1 t2 : utree) : bool :=
  let c := spec_counts false t1 t2 in negb (Nat.eqb (c_only1 c + c_only2 c) 0).

Definition tagof (op : string) (tips ident : bool) (t1 t2 : utree) : string :=
  op ++ (if tips then ":tips" else "") ++ (if ident then ":ident" else "")
  ++ (if differing_taxa t1 t2 then ":difftaxa" else if in_domain t1 t2 then "" else ":outside").

Definition judge_compare (tips ident : bool) (t1 t2 : utree) (o : sexp) : verdict :=
  match compare_hm tips ident t1 t2, get_string "err" o with
  | None, _ => match get_string "panic" o with
               | Some _ => VOk false "compare:panic"
               | None => VCorr "model panics, implementation does not"
               end
  | _, None => match get_string "panic" o with
               | Some m => VCorr ("implementation panics: " ++ m)
               | None => VBad "no err in observation"
               end
  | Some (Err m), Some gerr =>
    if String.eqb gerr "" then VCorr ("model: Compare returns the error " ++ m)
    else VOk false "compare:err"
  | Some (Ok ms), Some gerr =>
    if negb (String.eqb gerr "") then VCorr ("implementation: Compare returns the error " ++ gerr)
    else match x <- get "stats" o ;; dec_bstats x with
         | None => VBad "no stats in observation"
         | Some g =>
           (* the oracle judges the implementation's record on its own, first: a record the property
              rejects is a violation whatever the model says *)
           match oracle_counts tips ident t1 t2 g with
           | Some m => VOracle (m ++ (if bstats_eqb ms g then "" else " [model: " ++ show_bstats ms ++ "]"))
           | None =>
             if negb (bstats_eqb ms g) then VCorr ("model: " ++ show_bstats ms)
             else
               let assoc_ok :=
                   if String.eqb (bs_err ms) "" then
                     match compare tips ident t1 t2 with
                     | Some (Ok ma) => bstats_eqb ma ms
                     | _ => false
                     end
                   else true in
               if negb assoc_ok then VCorr "association-list model and hash-index model differ"
               else VOk (nontrivial_case t1 t2) (tagof "compare" tips ident t1 t2)
           end
         end
  end.

Definition judge_weighted (tips ident : bool) (t1 t2 : utree) (o : sexp) : verdict :=
  match compare_weighted_hm tips ident t1 t2, get_string "err" o with
  | None, _ => match get_string "panic" o with
               | Some _ => VOk false "weighted:panic"
               | None => VCorr "model panics, implementation does not"
               end
  | _, None => match get_string "panic" o with
               | Some m => VCorr ("implementation panics: " ++ m)
               | None => VBad "no err in observation"
               end
  | Some (Err m), Some gerr =>
    if String.eqb gerr "" then VCorr ("model: CompareWeighted returns the error " ++ m)
    else VOk false "weighted:err"
  | Some (Ok ms), Some gerr =>
    if negb (String.eqb gerr "") then VCorr ("implementation: CompareWeighted returns the error " ++ gerr)
    else match x <- get "wstats" o ;; dec_wstats x with
         | None => VBad "no wstats in observation"
         | Some g =>
           match oracle_weighted tips ident t1 t2 g with
           | Some m => VOracle (m ++ (if wstats_eqb ms g then "" else " [model: " ++ show_wstats ms ++ "]"))
           | None =>
             if negb (wstats_eqb ms g) then VCorr ("model: " ++ show_wstats ms)
             else
               let assoc_ok :=
                   if String.eqb (ws_err ms) "" then
                     match compare_weighted tips ident t1 t2 with
                     | Some (Ok ma) => wstats_eqb ma ms
                     | _ => false
                     end
                   else true in
               if negb assoc_ok then VCorr "association-list model and hash-index model differ"
               else VOk (nontrivial_case t1 t2) (tagof "weighted" tips ident t1 t2)
           end
         end
  end.

(** Tree.CommonEdges by linear search *)
Definition judge_common (tips : bool) (t1 t2 : utree) (o : sexp) : verdict :=
  match get_string "err" o with
  | None => VBad "no err in observation"
  | Some gerr =>
    match common_edges tips t1 t2 with
    | Err m => if String.eqb gerr "" then VCorr ("model refuses: " ++ m)
               else if differing_taxa t1 t2 || negb (in_domain t1 t2) then VOk false "common:err"
               else VOracle ("trees on the same taxa rejected: " ++ gerr)
    | Ok (m1, mc) =>
      if negb (String.eqb gerr "") then
        (* the worker indexes both trees before CommonEdges, as its contract demands: a tree with a
           duplicated tip name is refused there (ReinitIndexes), which the model of CommonEdges does not cover *)
        (if differing_taxa t1 t2 then VOk false "common:err" else VCorr ("implementation refuses: " ++ gerr))
      else match get_Z "tree1" o, get_Z "common" o with
           | Some g1, Some gc =>
             (* the oracle first *)
             let corr_ok := Z.eqb g1 m1 && Z.eqb gc mc in
             let mtxt := if corr_ok then "" else " [model: tree1=" ++ show_Z m1 ++ " common=" ++ show_Z mc ++ "]" in
             if differing_taxa t1 t2 then VOracle ("trees on different taxa are not rejected" ++ mtxt)
             else if negb (in_domain t1 t2) then
               (if corr_ok then VOk false "common:outside" else VCorr ("model: tree1=" ++ show_Z m1 ++ " common=" ++ show_Z mc))
             else let c := spec_counts tips t1 t2 in
                  if Z.eqb g1 (zn (c_only1 c)) && Z.eqb gc (zn (c_both c))
                  then (if corr_ok then VOk (nontrivial_case t1 t2) ("common" ++ (if tips then ":tips" else ""))
                        else VCorr ("model: tree1=" ++ show_Z m1 ++ " common=" ++ show_Z mc))
                  else VOracle ("counts: tree1=" ++ show_Z g1 ++ " common=" ++ show_Z gc ++ ", the set algebra gives reference-only="
                                ++ string_of_nat (c_only1 c) ++ " common=" ++ string_of_nat (c_both c) ++ mtxt)
           | _, _ => VBad "no counts in observation"
           end
    end
  end.

(** ** a stream of compared trees through one call (cpus = 1): one record per tree, found by its
    id; every tree is judged on its own against the per-tree model (the reference index is built
    once and only read), i.e. nothing of an earlier compared tree may leak into a later record *)
Definition record_with_id (i : nat) (recs : list sexp) : option sexp :=
  find (fun r => match get_nat "id" r with Some j => Nat.eqb i j | None => false end) recs.

Definition one_obs (key : string) (rec : sexp) : sexp :=
  SList [SList [Atom "err"; Atom ""]; SList [Atom key; rec]].

Fixpoint judge_stream (one : utree -> sexp -> verdict) (i : nat) (t2s : list utree) (recs : list sexp)
         (nontriv : bool) (tag : string) : verdict :=
  match t2s with
  | [] => VOk nontriv tag
  | t2 :: r =>
    match record_with_id i recs with
    | None => VCorr ("no record for the compared tree number " ++ string_of_nat i)
    | Some rec =>
      match one t2 rec with
      | VOk nt tg => judge_stream one (S i) r recs (nontriv || nt) (if Nat.eqb i 0 then tg else tag)
      | VCorr m => VCorr ("compared tree " ++ string_of_nat i ++ ": " ++ m)
      | VOracle m => VOracle ("compared tree " ++ string_of_nat i ++ " of the stream: " ++ m)
      | VBad m => VBad m
      end
    end
  end.

(** structural equality of s-expressions *)
Fixpoint sexp_eqb (a b : sexp) : bool :=
  match a, b with
  | Atom x, Atom y => String.eqb x y
  | SList l1, SList l2 =>
    (fix go (l1 l2 : list sexp) : bool :=
       match l1, l2 with
       | [], [] => true
       | x :: r1, y :: r2 => sexp_eqb x y && go r1 r2
       | _, _ => false
       end) l1 l2
  | _, _ => false
  end.

(** a record without its id (the worker writes the id first) *)
Definition rec_body (r : sexp) : sexp := match r with SList (_ :: b) => SList b | _ => r end.

Definition judge_many (rep_c : sexp) (weighted tips ident : bool) (t1 : utree) (t2s : list utree) (o : sexp) : verdict :=
  let key := if weighted then "wstats" else "stats" in
  match get_string "err" o with
  | None => match get_string "panic" o with
            | Some m => (match t2s with
                         | t2 :: _ => if weighted then judge_weighted tips ident t1 t2 o else judge_compare tips ident t1 t2 o
                         | [] => VBad ("panic: " ++ m)
                         end)
            | None => VBad "no err in observation"
            end
  | Some gerr =>
    if negb (String.eqb gerr "") then
      (* the call itself returned an error: the model must refuse the reference tree *)
      match t2s with
      | t2 :: _ => if weighted then judge_weighted tips ident t1 t2 o else judge_compare tips ident t1 t2 o
      | [] => VOk false "stream:empty:err"
      end
    else match x <- get key o ;; list_of x with
         | None => VBad "no records in observation"
         | Some recs =>
           match get_nat "rep" rep_c, t2s with
           | Some k, [t2] =>
             (* (rep k): the same compared tree sent k times: the record of copy 0 is judged, every other record
                must be that record *)
             if negb (Nat.eqb (length recs) k)
             then VOracle (string_of_nat (length recs) ++ " records for " ++ string_of_nat k ++ " copies of the compared tree")
             else match record_with_id 0 recs with
                  | None => VCorr "no record for copy 0"
                  | Some r0 =>
                    let v0 := if weighted then judge_weighted tips ident t1 t2 (one_obs key r0)
                              else judge_compare tips ident t1 t2 (one_obs key r0) in
                    match v0 with
                    | VOk nt tg =>
                      match find (fun r => negb (sexp_eqb (rec_body r) (rec_body r0))) recs with
                      | Some r => VOracle ("the copies of one compared tree get different records: copy 0 " ++ show_sexp (rec_body r0)
                                           ++ ", another copy " ++ show_sexp r)
                      | None => VOk nt (tg ++ ":repeat")
                      end
                    | v => v
                    end
                  end
           | _, _ =>
           if negb (Nat.eqb (length recs) (length t2s))
           then VCorr (string_of_nat (length recs) ++ " records for " ++ string_of_nat (length t2s) ++ " compared trees")
           else
             let one := fun t2 rec => if weighted then judge_weighted tips ident t1 t2 (one_obs key rec)
                                      else judge_compare tips ident t1 t2 (one_obs key rec) in
             match judge_stream one 0 t2s recs false "stream:empty" with
             | VOk nt tg => VOk nt (if Nat.ltb 1 (length t2s) then tg ++ ":stream" else tg)
             | v => v
             end
           end
         end
  end.

(** pre-used trees: the case asks the worker to index the trees, then to edit them through the
    public API without re-indexing (see harness/worker/c08.go preUse); the observation carries the
    trees as they are at comparison time ([t1after], [t2after], read through Neigh()/Edges() with
    the structural audit).  The model and the oracle work on those trees: whatever stale index a
    tree carries must not influence the record. *)
Definition tree_after (c o : sexp) : option utree :=
  match get "t1after" o with
  | Some x => dec_utree x
  | None => get_tree "t1" c
  end.
Definition trees_after (key : string) (c o : sexp) : option (list utree) :=
  match get "t2after" o with
  | Some x => dec_list dec_utree x
  | None => x <- get key c ;; dec_list dec_utree x
  end.
Definition pre_tag (c : sexp) (v : verdict) : verdict :=
  match v, get "pre1" c, get "pres" c with
  | VOk nt tg, None, None => v
  | VOk nt tg, _, _ => VOk nt (tg ++ ":preused")
  | _, _, _ => v
  end.

Definition judge (c o : sexp) : verdict :=
  match get_string "hang" o with
  | Some _ => VOracle "the comparison did not deliver its records within 8 s"
  | None =>
    match (match get "t1after" o with Some _ => audit_ok o | None => None end) with
    | Some m => VBad ("pre-use edit: " ++ m)
    | None =>
    match get_string "op" c, tree_after c o, get_bool "tips" c, get_bool "ident" c with
    | Some op, Some t1, Some tips, Some ident =>
      pre_tag c
      (if String.eqb op "common" then
        match (match get "t2after" o with
               | Some x => (l <- dec_list dec_utree x ;; match l with [t] => Some t | _ => None end)
               | None => get_tree "t2" c
               end) with
        | Some t2 => judge_common tips t1 t2 o
        | None => VBad "undecodable case"
        end
      else match trees_after "t2s" c o with
           | None => VBad "undecodable case"
           | Some t2s =>
             if String.eqb op "compare" then judge_many c false tips ident t1 t2s o
             else if String.eqb op "weighted" then judge_many c true tips ident t1 t2s o
             else VBad "unknown op"
           end)
    | _, _, _, _ => (match get_string "panic" o with
                     | Some m => VBad ("worker: " ++ m)
                     | None => VBad "undecodable case"
                     end)
    end
    end
  end.
