(** Judge for C15: local edits leave the rest of the tree intact; copies are independent.
    cases:
      ((op clone)    (tree T) (edit E))
      ((op subtree)  (tree T) (i n) (edit E))
      ((op merge)    (t1 T) (t2 T) (idx T|F))
      ((op graft)    (tree T) (graft T) (tip "x") (idx T|F))
      ((op insert)   (tree T) (groups (("a" ...) ...)) (idx T|F))
      ((op rmsingle) (tree T))
    observations:
      clone/subtree: ((tree C) (audit (...)) (nw_orig s) (nw_copy s)
                      (orig_after T) (audit_orig (...)) (nw_orig_after s)      -- after editing the copy
                      (copy_after C) (audit_copy (...)) (nw_copy_after s)      -- after editing the original (fresh pair)
                      (edit_changed T|F))
      others: ((err msg) (tree T') (audit (...)))
    Correspondence: exact structural equality with Model/LocalEdit.v (same refusals, same
    messages).  Oracle, from the text of the property: path lengths between pre-existing tips
    unchanged, exactly the requested tips added, identical tips at distance zero from their
    model, no single-child node left, a clone has the same text and the same names, comments
    and branch data, and the twin of an edited tree keeps its dump and its text. *)
From Coq Require Import String ZArith QArith Bool Arith List.
From GT Require Import Base.Sexp Base.UTree Base.Codec Spec.Obs Model.Reroot Model.LocalEdit Judge.Common.
Import ListNotations.
Local Close Scope Q_scope.
Local Open Scope string_scope.

Fixpoint nodup_sorted (l : list string) : bool :=
  match l with
  | a :: ((b :: _) as r) => negb (String.eqb a b) && nodup_sorted r
  | _ => true
  end.

(** trees the property speaks about: well formed, at least two neighbours at the root (tips
    are then the leaves), distinct tip names *)
Definition in_dom (t : utree) : bool :=
  wf t && Nat.leb 2 (degree t) && nodup_sorted (ssort (leaves t)).

(** path lengths between the given tips (absent lengths count 0) *)
Definition dists_on (t : utree) (names : list string) : list (option Q) :=
  flat_map (fun a => map (fun b => dist_opt len0 t a b) names) names.
Definition all_some (l : list (option Q)) : bool :=
  forallb (fun x => match x with Some _ => true | None => false end) l.
Definition same_dists (t g : utree) (names : list string) : bool :=
  let a := dists_on t names in
  all_some a && list_eqb oq_eqb a (dists_on g names).

Definition audit_key (k : string) (o : sexp) : option string :=
  match get_strings k o with
  | Some [] => None
  | Some (p :: _) => Some ("structural audit (" ++ k ++ "): " ++ p)
  | None => Some ("no " ++ k ++ " in observation")
  end.

(** the same tree with the parent slot of every node moved to the front (the order of the
    children and all data kept): what two dumps must share to be "the same tree" *)
Fixpoint up_first (t : utree) : utree :=
  match t with
  | UNode n c sl =>
    UNode n c ((if Nat.eqb (n_up sl) 0 then [] else [None]) ++
               flat_map (fun s => match s with
                                  | None => []
                                  | Some (e, ch) => [Some (e, up_first ch)]
                                  end) sl)%list
  end.

(** as [up_first], forgetting branch comments *)
Fixpoint strip_ecom (t : utree) : utree :=
  match t with
  | UNode n c sl =>
    UNode n c (map (fun s => match s with
                             | None => None
                             | Some (e, ch) => Some (mkE (elen e) (esup e) (epv e) [], strip_ecom ch)
                             end) sl)
  end.

Definition agree (corr : option string) : string :=
  match corr with
  | None => " [the model agrees with the implementation]"
  | Some m => " [the model differs too: " ++ m ++ "]"
  end.

(** verdict from the oracle message, the correspondence message *)
Definition conclude (dom : bool) (oracle corr : option string) (nontrivial : bool) (tag : string) : verdict :=
  match (if dom then oracle else None) with
  | Some m => VOracle (m ++ agree corr)
  | None => match corr with
            | Some m => VCorr m
            | None => VOk nontrivial (tag ++ (if dom then "" else ":outside"))
            end
  end.

(** the index state (per branch: bitset, tip counts, hash code; per tip: its id) of the twin of
    an edited tree, as read by the worker right after the copy and again after the edit; and
    whether it is the index of the twin's own tree (every branch SameBipartition as the branch
    of an independently built and indexed copy of its dump): "T", "F" or "NA" (no index) *)
Definition index_oracle (indexed : bool) (o : sexp) : option string :=
  match get_string "ix_orig" o, get_string "ix_orig_after" o, get_string "ix_orig_ok" o,
        get_string "ix_copy2" o, get_string "ix_copy_after" o, get_string "ix_copy_ok" o,
        get_string "ix_copy0_ok" o with
  | Some io, Some ioa, Some ook, Some ic, Some ica, Some cok, Some c0ok =>
    first_some
      [(if String.eqb io ioa then None
        else Some ("editing the copy changed the original's index (bitsets, tip counts, hash codes or tip ids): " ++ ioa ++ " / before: " ++ io));
       (if String.eqb ook "F" then Some "after editing the copy the original's index is not the index of its tree" else None);
       (if indexed && negb (String.eqb ook "T") then Some "the indexed original has no complete index after editing the copy" else None);
       (if String.eqb c0ok "F" then Some "the copy's index is not the index of its tree" else None);
       (if String.eqb ic ica then None
        else Some ("editing the original changed the copy's index (bitsets, tip counts, hash codes or tip ids): " ++ ica ++ " / before: " ++ ic));
       (if String.eqb cok "F" then Some "after editing the original the copy's index is not the index of its tree" else None)]
  | _, _, _, _, _, _, _ => Some "no index state in the observation"
  end.

(** ** clone / subtree *)
Definition judge_copy (is_clone : bool) (c o : sexp) : verdict :=
  match get_tree "tree" c with
  | None => VBad "undecodable case"
  | Some t =>
    let src : option utree := if is_clone then Some t
                              else i <- get_nat "i" c ;; nth_error (nodes t) i in
    let model : option utree := if is_clone then Some (clone t)
                                else i <- get_nat "i" c ;; subtree t i in
    (* copies are judged on every well-formed tree with distinct tip names, a root with a single
       neighbour (a tip for the code) included *)
    let dom := wf t && nodup_sorted (ssort (tip_names t)) && nodup_sorted (ssort (leaves t)) in
    match get_string "panic" o with
    | Some p => if dom then VOracle ("crash: " ++ p) else VCorr ("crash: " ++ p)
    | None =>
      match src, model, get_tree "tree" o, get_tree "orig_after" o, get_tree "copy_after" o with
      | Some s, Some m, Some g, Some oa, Some ca =>
        match get_string "nw_orig" o, get_string "nw_copy" o, get_string "nw_orig_after" o,
              get_string "nw_copy_after" o, get_bool "edit_changed" o with
        | Some nwo, Some nwc, Some nwoa, Some nwca, Some changed =>
          let corr := if utree_eqb m g then None else Some ("model: " ++ show_utree m) in
          let sroot := match s with UNode n cm sl => UNode n cm (map Some (kids_of sl)) end in
          let oracle :=
              first_some
                [audit_ok o; audit_key "audit_orig" o; audit_key "audit_copy" o;
                 (if wf g then None else Some "the copy is not a well-formed rooted structure");
                 (if sset_eqb (ssort (leaves g)) (ssort (leaves sroot)) then None
                  else Some "the copy does not have the tips of its source");
                 (if sset_eqb (ssort (tip_names g)) (ssort (tip_names sroot)) then None
                  else Some "the copy does not have the tips (Tree.Tips()) of its source, taken as a root");
                 (if Nat.eqb (length (nodes g)) (length (nodes sroot)) then None
                  else Some "the copy does not have as many nodes as its source");
                 (if same_dists sroot g (ssort (leaves sroot)) then None
                  else Some "a path length between two tips differs in the copy");
                 (if is_clone then
                    first_some
                      [(if String.eqb nwo nwc then None
                        else Some ("the clone's text differs: " ++ nwc ++ " / original: " ++ nwo));
                       (if utree_eqb (strip_ecom (up_first t)) (strip_ecom (up_first g)) then None
                        else Some "the clone differs from the original (names, node comments, branch numbers or shape)");
                       (if utree_eqb (up_first t) (up_first g) then None
                        else Some "the clone's branch comments differ from the original's")]
                  else None);
                 (if utree_eqb t oa then None
                  else Some ("editing the copy changed the original: " ++ show_utree oa));
                 (if String.eqb nwo nwoa then None
                  else Some ("editing the copy changed the original's text: " ++ nwoa));
                 (if utree_eqb g ca then None
                  else Some ("editing the original changed the copy: " ++ show_utree ca));
                 (if String.eqb nwc nwca then None
                  else Some ("editing the original changed the copy's text: " ++ nwca));
                 index_oracle (match get_bool "reinit" c with Some b => b | None => false end) o] in
          conclude dom oracle corr changed (if is_clone then "clone" else "subtree")
        | _, _, _, _, _ => VBad "undecodable observation (texts)"
        end
      | _, _, _, _, _ => VBad "undecodable observation"
      end
    end
  end.

(** ** operations returning (err, tree) *)
Definition judge_edit (dom : bool) (model : res utree) (oracle : utree -> option string)
           (orig : utree) (tag : string) (o : sexp) : verdict :=
  match get_string "panic" o with
  | Some p => if dom then VOracle ("crash: " ++ p) else VCorr ("crash: " ++ p)
  | None =>
    match get_string "err" o with
    | None => VBad "no err in observation"
    | Some gerr =>
      match model with
      | Err m =>
        if String.eqb gerr "" then VCorr ("model refuses (" ++ m ++ "), implementation succeeds")
        else if negb (String.eqb gerr m) then VCorr ("model error: " ++ m ++ " / implementation error: " ++ gerr)
        else if dom then VOracle ("refused on an input of the property's domain: " ++ gerr)
        else VOk true (tag ++ ":err")
      | Ok t' =>
        if negb (String.eqb gerr "") then
          (if dom then VOracle ("refused on an input of the property's domain: " ++ gerr ++ " [the model accepts]")
           else VCorr ("implementation refuses: " ++ gerr ++ " / model: " ++ show_utree t'))
        else match get_tree "tree" o with
             | None => VBad "no tree in observation"
             | Some g =>
               let corr := if utree_eqb t' g then None else Some ("model: " ++ show_utree t') in
               conclude dom (first_some [audit_ok o;
                                         (if wf g then None else Some "result is not a well-formed rooted structure");
                                         oracle g]) corr
                        (negb (utree_eqb orig g)) tag
             end
      end
    end
  end.

Definition idx_of (has : bool) (t : utree) : list string := if has then tip_names t else [].

Definition judge_merge (c o : sexp) : verdict :=
  match get_tree "t1" c, get_tree "t2" c, get_bool "idx" c with
  | Some t1, Some t2, Some has =>
    let l1 := ssort (leaves t1) in
    let l2 := ssort (leaves t2) in
    (* the quantifier: rooted trees with disjoint tips; refusals are judged by the correspondence *)
    let dom := in_dom t1 && in_dom t2 && rooted t1 && rooted t2 && has &&
               negb (existsb (fun a => smem a l2) l1) in
    judge_edit dom (merge t1 t2 (idx_of has t1) (idx_of has t2))
               (fun g => first_some
                  [(if sset_eqb (ssort (leaves g)) (ssort (l1 ++ l2)) then None
                    else Some "the tips are not those of the two trees");
                   (if same_dists t1 g l1 then None else Some "a path length inside the first tree changed");
                   (if same_dists t2 g l2 then None else Some "a path length inside the second tree changed")])
               t1 "merge" o
  | _, _, _ => VBad "undecodable case"
  end.

Definition judge_graft (c o : sexp) : verdict :=
  match get_tree "tree" c, get_tree "graft" c, get_string "tip" c, get_bool "idx" c with
  | Some t, Some gr, Some tip, Some has =>
    let l1 := ssort (leaves t) in
    let l2 := ssort (leaves gr) in
    let keep := filter (fun a => negb (String.eqb a tip)) l1 in
    let dom := in_dom t && in_dom gr && has && smem tip l1 &&
               negb (existsb (fun a => smem a l2) keep) in
    judge_edit dom (graft t (idx_of has t) tip gr)
               (fun g => first_some
                  [(if sset_eqb (ssort (leaves g)) (ssort (keep ++ l2)) then None
                    else Some "the tips are not: the old ones but the grafted-on tip, plus those of the graft");
                   (if same_dists t g keep then None else Some "a path length between two remaining tips changed");
                   (if same_dists gr g l2 then None else Some "a path length inside the grafted tree changed")])
               t "graft" o
  | _, _, _, _ => VBad "undecodable case"
  end.

(** the request as the property reads it: the names known so far are the tips of the tree and
    the names added by earlier groups (a group may be anchored on a tip that an earlier group
    added); every group must have exactly one known member, its other names are new, distinct
    and not empty.  Result: the names to add and, for each of them, its model. *)
Fixpoint groups_scan (known : list string) (groups : list (list string))
  : option (list string * list (string * string)) :=
  match groups with
  | [] => Some ([], [])
  | g :: r =>
    let ex := filter (fun a => smem a known) g in
    let nw := filter (fun a => negb (smem a known)) g in
    match ex with
    | [anchor] =>
      if nodup_sorted (ssort nw) && forallb (fun a => negb (String.eqb a "")) g
      then match groups_scan (known ++ nw) r with
           | Some (a, ps) => Some (nw ++ a, map (fun x => (anchor, x)) nw ++ ps)%list
           | None => None
           end
      else None
    | _ => None
    end
  end.

Definition judge_insert (c o : sexp) : verdict :=
  match get_tree "tree" c, (x <- get "groups" c ;; dec_list dec_strings x), get_bool "idx" c with
  | Some t, Some groups, Some has =>
    let old := ssort (leaves t) in
    let scan := groups_scan (leaves t) groups in
    let news := match scan with Some (a, _) => a | None => [] end in
    let pairs := match scan with Some (_, ps) => ps | None => [] end in
    let dom := in_dom t && has && (match scan with Some _ => true | None => false end) &&
               forallb (fun a => negb (String.eqb a "")) old &&
               nodup_sorted (ssort (filter (fun a => negb (String.eqb a "")) (map uname (nodes t)) ++ news)) in
    judge_edit dom (insert_identical t (idx_of has t) groups)
               (fun g => first_some
                  [(if sset_eqb (ssort (leaves g)) (ssort (old ++ news)) then None
                    else Some "the tips are not the old ones plus the requested ones");
                   (if same_dists t g old then None else Some "a path length between two pre-existing tips changed");
                   (if forallb (fun p => oq_eqb (dist_opt len0 g (fst p) (snd p)) (Some 0%Q)) pairs then None
                    else Some "an identical tip is not at distance zero from its model")])
               t "insert" o
  | _, _, _ => VBad "undecodable case"
  end.

Definition judge_rmsingle (c o : sexp) : verdict :=
  match get_tree "tree" c with
  | Some t =>
    let names := ssort (leaves t) in
    judge_edit (in_dom t) (Ok (remove_single t))
               (fun g => first_some
                  [(if sset_eqb (ssort (leaves g)) names then None else Some "the tips changed");
                   (if no_single g then None else Some "a single-child node is left");
                   (if same_dists t g names then None
                    else Some "remove single nodes: a tip-to-tip path length changed")])
               t "rmsingle" o
  | None => VBad "undecodable case"
  end.

Definition judge (c o : sexp) : verdict :=
  match get_string "op" c with
  | Some op =>
    if String.eqb op "clone" then judge_copy true c o
    else if String.eqb op "subtree" then judge_copy false c o
    else if String.eqb op "merge" then judge_merge c o
    else if String.eqb op "graft" then judge_graft c o
    else if String.eqb op "insert" then judge_insert c o
    else if String.eqb op "rmsingle" then judge_rmsingle c o
    else VBad "unknown op"
  | None => VBad "no op"
  end.
