(** Judge for C16: tree generators return valid trees of the requested size and shape.
    case: ((gen uniform|yule|caterpillar|balanced|star|starnames|topologies) (n N) (rooted T|F)
           (seed S) (nraw K) (names ("a" ...)))
    obs : ((raw (x ...)) (exptab (q ...)) (ftab (q ...)) (consumed k) (panic "msg"|"")
           (err "msg"|"") (hastree T|F) (tree T) (audit (...)) (tipindex ("name" ...))
           (tipidx (("name" i) ...)) (bits ((T|F (i ...)) ...)))
          topologies: (trees (T ...)) (audits ("problem" ...)) instead of tree/audit/indexes.

    Correspondence: the model (Model/TreeGen.v) is driven by the recorded raw stream: the plan
    of the generator cuts it into rand.Intn results and rand.Float64 draws; the value of
    gostats.Exp for the raw value at stream position p is read from [exptab] (computed by the
    worker with gostats.Exp itself on the same stream), so WHICH draw ends up on WHICH branch
    is compared exactly; the number of raw values consumed is compared too.
    Oracle: the property text on Go's output alone (Spec/GenShape.v). *)
From Coq Require Import String ZArith NArith QArith Qabs Bool Arith List.
From GT Require Import Base.Sexp Base.UTree Base.Codec Spec.Obs Spec.GenShape
     Model.Reroot Model.Rand Model.Rand2 Model.TreeGen Model.Index Model.C16Extra8 Judge.Common.
Import ListNotations.
Local Close Scope Q_scope.
Local Open Scope string_scope.

Definition get_Ns (k : string) (s : sexp) : option (list N) := x <- get k s ;; dec_list dec_N x.
Definition get_Qs (k : string) (s : sexp) : option (list Q) := x <- get k s ;; dec_list dec_Q x.

(** ** structure-and-lengths comparison with a tolerance on lengths (UnRoot adds two floats) *)
Definition q_close (a b : Q) : bool :=
  qeqb a b ||
  (let d := Qabs (a - b)%Q in
   Qle_bool (d * 1000000000000%Q)%Q (Qabs a)).       (* relative 1e-12 *)

Fixpoint utree_close (a b : utree) : bool :=
  match a, b with
  | UNode n1 c1 s1, UNode n2 c2 s2 =>
    String.eqb n1 n2 && list_eqb String.eqb c1 c2 &&
    (fix go (l1 l2 : list slot) : bool :=
       match l1, l2 with
       | [], [] => true
       | None :: r1, None :: r2 => go r1 r2
       | Some (e1, t1) :: r1, Some (e2, t2) :: r2 =>
         q_close (elen e1) (elen e2) && qeqb (esup e1) (esup e2) && qeqb (epv e1) (epv e2) &&
         list_eqb String.eqb (ecom e1) (ecom e2) && utree_close t1 t2 && go r1 r2
       | _, _ => false
       end) s1 s2
  end.

(** ** merge sort on strings (for the distinctness check of many topologies) *)
Fixpoint smerge (fuel : nat) (a b : list string) : list string :=
  match fuel with
  | O => (a ++ b)%list
  | S f => match a, b with
           | [], _ => b
           | _, [] => a
           | x :: a', y :: b' => if String.leb x y then x :: smerge f a' b else y :: smerge f a b'
           end
  end.
Fixpoint split_alt (l : list string) : list string * list string :=
  match l with
  | x :: y :: r => let '(a, b) := split_alt r in (x :: a, y :: b)
  | _ => (l, [])
  end.
Fixpoint smsort (fuel : nat) (l : list string) : list string :=
  match fuel with
  | O => l
  | S f => match l with
           | [] => []
           | [x] => [x]
           | _ => let '(a, b) := split_alt l in
                  let a' := smsort f a in
                  let b' := smsort f b in
                  smerge (length a' + length b') a' b'
           end
  end.
Fixpoint adjacent_dup (l : list string) : bool :=
  match l with
  | x :: ((y :: _) as r) => String.eqb x y || adjacent_dup r
  | _ => false
  end.
Definition key_string (k : list (list string)) : string :=
  concat_with ";" (map (concat_with ",") k).

(** ** index readiness, judged on Go's own dump *)
Fixpoint index_of (x : string) (l : list string) : option nat :=
  match l with
  | [] => None
  | y :: r => if String.eqb x y then Some 0 else match index_of x r with Some i => Some (S i) | None => None end
  end.

Definition nat_set_eqb (a b : list nat) : bool :=
  Nat.eqb (length a) (length b) &&
  forallb (fun x => existsb (Nat.eqb x) b) a && forallb (fun x => existsb (Nat.eqb x) a) b.

Definition dec_bits (s : sexp) : option (bool * list nat) := dec_pair dec_bool (dec_list dec_nat) s.
Definition dec_tipidx (s : sexp) : option (string * Z) := dec_pair dec_string dec_Z s.

(** the tips of Go's result: the specification's leaves, or Tips() when the root itself is a
    tip (the single-branch tree with 2 tips) *)
Definition names_of (g : utree) : list string := if is_tip g then tip_names g else leaves g.

(** Node.Depth(): number of branches to the closest tip (through any neighbour); root depth: number
    of branches from the root (set by ComputeDepths for rooted trees only).  Computed on the dump:
    [down] = closest tip below, then the closest tip through the parent is pushed down. *)
Definition big : nat := 4000.
Fixpoint down (t : utree) : nat :=
  match t with
  | UNode _ _ sl =>
    if Nat.eqb (length sl) 1 then 0
    else S (fold_right (fun s acc => match s with Some (_, c) => Nat.min (down c) acc | None => acc end) big sl)
  end.
(** depths in Nodes() order; [up] = distance to the closest tip not below this node *)
Fixpoint depths_from (up : nat) (lvl : nat) (t : utree) : list (nat * nat) :=
  match t with
  | UNode _ _ sl =>
    let here := if Nat.eqb (length sl) 1 then 0 else Nat.min (down t) up in
    let kd := map (fun s => match s with Some (_, c) => down c | None => big end) sl in
    (here, lvl) ::
    (fix go (i : nat) (l : list slot) : list (nat * nat) :=
       match l with
       | [] => []
       | None :: r => go (S i) r
       | Some (_, c) :: r =>
         let others := fold_right Nat.min big (map (fun p => if Nat.eqb (fst p) i then big else S (snd p))
                                                   (combine (seq 0 (length kd)) kd)) in
         let upc := if Nat.eqb (length sl) 1 then 1 else S (Nat.min up others) in
         (depths_from upc (S lvl) c ++ go (S i) r)%list
       end) 0 sl
  end.

Definition depths_ready (g : utree) (o : sexp) : option string :=
  match (x <- get "depths" o ;; dec_list (dec_pair dec_Z dec_Z) x) with
  | None => Some "node depths missing"
  | Some ds =>
    (* ComputeDepths on a rooted tree looks below the node only; on an unrooted tree in every direction *)
    let exp := if UTree.rooted g then map (fun p => (down (fst p), snd (snd p))) (combine (nodes g) (depths_from big 0 g))
               else depths_from big 0 g in
    if negb (Nat.eqb (length ds) (length exp)) then Some "number of node depths differs from the number of nodes"
    else if negb (forallb (fun p => Z.eqb (fst (fst p)) (Z.of_nat (fst (snd p)))) (combine ds exp))
    then Some "Node.Depth() of a node is not its distance to the closest tip (below it when rooted): stale depth"
    else if UTree.rooted g && negb (forallb (fun p => Z.eqb (snd (fst p)) (Z.of_nat (snd (snd p)))) (combine ds exp))
    then Some "the root depth of a node is not its distance to the root"
    else if negb (UTree.rooted g) && negb (forallb (fun p => Z.eqb (snd p) (-1)%Z) ds)
    then Some "a node of an unrooted tree carries a root depth (ComputeDepths leaves NIL_DEPTH = -1 on unrooted trees): stale root depth"
    else None
  end.

Definition indexes_ready (g : utree) (o : sexp) : option string :=
  let sorted := ssort (names_of g) in
  match get_strings "tipindex" o, (x <- get "tipidx" o ;; dec_list dec_tipidx x),
        (x <- get "bits" o ;; dec_list dec_bits x) with
  | Some ti, Some tidx, Some bits =>
    if negb (sset_eqb ti sorted) then Some "tip name index does not hold exactly the tip names"
    else if negb (forallb (fun p => match index_of (fst p) sorted with
                                    | Some i => Z.eqb (snd p) (Z.of_nat i)
                                    | None => false end) tidx)
              || negb (Nat.eqb (length tidx) (length sorted))
    then Some "TipIndex(name) is not the rank of the name among the sorted tip names"
    else
      let expected := map (fun p => map (fun nm => match index_of nm sorted with Some i => i | None => 0 end)
                                        (leaves (snd p))) (edges g) in
      if negb (Nat.eqb (length bits) (length expected)) then Some "number of bitsets differs from the number of branches"
      else if negb (forallb (fun p => fst (fst p) && nat_set_eqb (snd (fst p)) (snd p)) (combine bits expected))
      then Some "a branch bitset is missing or is not the set of tips below the branch"
      else match (x <- get "ntips" o ;; dec_list (dec_pair dec_nat dec_nat) x) with
           | None => Some "tip counts of the branches missing"
           | Some nts =>
             let total := length sorted in
             if Nat.eqb (length nts) (length expected) &&
                forallb (fun p => Nat.eqb (fst (fst p)) (length (snd p)) &&
                                  Nat.eqb (snd (fst p)) (total - length (snd p))) (combine nts expected)
             then None
             else Some "NumTipsRight/NumTipsLeft of a branch are not the numbers of tips on its two sides (stale index)"
           end
  | _, _, _ => Some "index observation missing"
  end.

(** ** correspondence of the indexes: Go's tip index, tip ids and bitsets against the model of
    ReinitIndexes (Model/Index.v [index_tables]) run on the MODEL tree *)
Fixpoint true_positions (i : nat) (b : list bool) : list nat :=
  match b with
  | [] => []
  | x :: r => (if x then [i] else []) ++ true_positions (S i) r
  end.

Definition index_corr (t : utree) (o : sexp) : option string :=
  match index_tables t with
  | Err m => Some ("model of ReinitIndexes refuses the tree: " ++ m)
  | Ok tb =>
    match get_strings "tipindex" o, (x <- get "tipidx" o ;; dec_list dec_tipidx x),
          (x <- get "bits" o ;; dec_list dec_bits x), get_nats "bitlens" o with
    | Some ti, Some tidx, Some bits, Some lens =>
      if negb (list_eqb String.eqb ti (tb_names tb)) then Some "tip index names differ from the model's sorted tip names"
      else if negb (list_eqb Z.eqb (map snd tidx) (map Z.of_nat (tb_tipids tb))) then Some "tip ids differ from the model's"
      else if negb (list_eqb Nat.eqb lens (map (fun r => length (r_bits r)) (tb_rows tb))) then Some "bitset lengths differ from the model's"
      else if negb (forallb fst bits &&
                    list_eqb (list_eqb Nat.eqb) (map snd bits) (map (fun r => true_positions 0 (r_bits r)) (tb_rows tb)))
      then Some "a bitset differs from the model's"
      else None
    | _, _, _, _ => Some "index observation missing"
    end
  end.

(** ** the oracle *)
Definition expected_names (gen : string) (n : nat) (names : list string) : list string :=
  if String.eqb gen "starnames" || String.eqb gen "starfromtree" then names
  else if String.eqb gen "balanced" then map tip_name (seq 0 (2 ^ n))
  else map tip_name (seq 0 n).

(** documented minimum (error messages / doc comments of treegen.go) *)
Definition valid_size (gen : string) (n : nat) (rooted : bool) : bool :=
  if String.eqb gen "balanced" then (if rooted then Nat.leb 1 n else Nat.leb 2 n)
  else if String.eqb gen "star" || String.eqb gen "starnames" || String.eqb gen "starfromtree" then Nat.leb 2 n
  else if String.eqb gen "topologies" then (if rooted then Nat.leb 2 n else Nat.leb 3 n)
  else Nat.leb 3 n.

Definition oracle_tree (gen : string) (n : nat) (rooted : bool) (names : list string) (g : utree) (o : sexp)
  : option string :=
  let exp := expected_names gen n names in
  let isstar := String.eqb gen "star" || String.eqb gen "starnames" || String.eqb gen "starfromtree" in
  first_some
    [ audit_ok o;
      (if wf g then None else Some "result is not a well-formed structure");
      (if sset_eqb (ssort (names_of g)) (ssort exp) then None
       else Some "the tips are not exactly the requested, uniquely named tips");
      (if Nat.eqb (length (sset (names_of g))) (length exp) then None else Some "tip names are not unique");
      (if isstar then (if star g && Nat.eqb (degree g) (length exp) then None else Some "not a star: more than one inner node")
       else if Nat.eqb (length exp) 2 && negb rooted
            then (match g with UNode _ _ [Some (_, c)] => if is_tip c then None else Some "2-tip tree is not a single branch"
                             | _ => Some "2-tip tree is not a single branch" end)
            else if binary rooted g then None
                 else Some "not binary with the requested rootedness (root degree / inner node degree)");
      (if isstar || Bool.eqb (UTree.rooted g) rooted then None else Some "rootedness differs from the request");
      (if lens_nonneg g then None else Some "negative or absent branch length");
      (if String.eqb gen "caterpillar" && Nat.leb 3 (length exp) && negb (caterpillar g) then Some "not a caterpillar" else None);
      (if String.eqb gen "balanced" && Nat.leb 2 n && negb (balanced rooted n g) then Some "not balanced" else None);
      (if String.eqb gen "balanced" && Nat.eqb n 1 && rooted && negb (balanced rooted n g) then Some "not balanced" else None);
      indexes_ready g o;
      depths_ready g o;
      (match get_string "sametext" o with
       | Some m => if String.eqb m "0" then None
                   else Some ("hash codes / bitsets differ from those of the same tree read from its Newick text: " ++ m)
       | None => Some "comparison with the tree read from text missing" end) ].

Definition oracle_topologies (n : nat) (rooted : bool) (names : list string) (gs : list utree) (o : sexp)
  : option string :=
  let exp := ssort (match names with [] => map (fun k => tip_name (S k)) (seq 0 n) | _ => names end) in
  let keys := map (fun g => key_string (topo_key rooted g)) gs in
  first_some
    [ (match get_strings "audits" o with
       | Some [] => None
       | Some (p :: _) => Some ("structural audit: " ++ p)
       | None => Some "no audit" end);
      (if Nat.eqb (length gs) (if rooted then n_rooted n else n_unrooted n) then None
       else Some "number of topologies is not the double factorial");
      (if forallb (fun g => wf g && sset_eqb (ssort (leaves g)) exp &&
                            (if rooted then binary true g || planted g else binary false g)) gs
       then None else Some "a returned tree is not a binary tree on the requested tips");
      (if adjacent_dup (smsort (S (length keys)) keys) then Some "a labelled topology is returned twice" else None) ].

(** ** the model, driven by the recorded stream *)
Definition plan_of (gen : string) (n : nat) (rooted : bool) : list draw :=
  if String.eqb gen "uniform" then uniform_plan n rooted
  else if String.eqb gen "yule" then yule_plan n rooted
  else if String.eqb gen "caterpillar" then caterpillar_plan n rooted
  else if String.eqb gen "balanced" then balanced_plan n rooted
  else [].

Definition run_model (src : option utree) (gen : string) (n : nat) (rooted : bool) (names : list string) (cs : list nat) (ls : list Q)
  : option gres :=
  if String.eqb gen "starfromtree" then match src with Some t => Some (star_tree_from_tree t) | None => None end else
  if String.eqb gen "uniform" then Some (uniform_tree n rooted cs ls)
  else if String.eqb gen "yule" then Some (yule_tree n rooted cs ls)
  else if String.eqb gen "caterpillar" then Some (caterpillar_tree n rooted ls)
  else if String.eqb gen "balanced" then Some (balanced_tree n rooted ls)
  else if String.eqb gen "star" then Some (star_tree n)
  else if String.eqb gen "starnames" then Some (star_tree_from_name names)
  else None.

Definition judge_gen (src : option utree) (gen : string) (n : nat) (rooted : bool) (names : list string) (o : sexp) : verdict :=
  match get_Ns "raw" o, get_Qs "exptab" o, get_Qs "ftab" o, get_string "err" o, get_string "panic" o with
  | Some raw, Some exptab, Some ftab, Some gerr, Some gpanic =>
    match run_plan (plan_of gen n rooted) 0 raw with
    | None => VBad "recorded stream too short"
    | Some (cs, fs, rest) =>
      if negb (forallb (fun f => qeqb (fval f) (nth (fpos f) ftab nilv)) fs)
      then VCorr "rand.Float64 transcription (Model/Rand2.v) disagrees with math/rand"
      else
      let ls := map (fun f => nth (fpos f) exptab nilv) fs in
      (* the oracle first: whatever the model says, a returned tree that violates the property is
         reported as such, with this case as the failing input *)
      let early : option string :=
          if String.eqb gpanic "" && String.eqb gerr "" && valid_size gen n rooted then
            match get_tree "tree" o with
            | Some g => oracle_tree gen n rooted names g o
            | None => None
            end
          else None in
      match early with Some msg => VOracle msg | None =>
      match run_model src gen n rooted names cs ls with
      | None => VBad "unknown generator"
      | Some m =>
        let consumed_ok :=
            match get "consumed" o with
            | Some x => match dec_Z x with
                        | Some z => Z.eqb z (Z.of_nat (length raw - length rest))
                        | None => false end
            | None => false end in
        match m with
        | GPanic =>
          if String.eqb gpanic "" then VCorr "model: crash (ReinitIndexes on a tip root); implementation returns"
          else VOracle ("crash instead of a tree or an error: " ++ gpanic)
        | GErr msg =>
          if negb (String.eqb gpanic "") then VCorr ("model: error; implementation crashes: " ++ gpanic)
          else if negb (String.eqb gerr msg) then VCorr ("model error: " ++ msg ++ " / implementation: " ++ gerr)
          else if valid_size gen n rooted then VOracle ("a valid size is rejected: " ++ gerr)
          else VOk false (gen ++ ":rejected")
        | GOk t =>
          if negb (String.eqb gpanic "") then VCorr ("model: a tree; implementation crashes: " ++ gpanic)
          else if negb (String.eqb gerr "") then VCorr ("model: a tree; implementation refuses: " ++ gerr)
          else match get_tree "tree" o with
               | None => VBad "no tree in observation"
               | Some g =>
                 if negb (utree_close t g) then VCorr ("model: " ++ show_utree t)
                 else if negb (utree_eqb t g) && negb (String.eqb gen "balanced" && negb rooted)
                      then VCorr ("model (lengths differ): " ++ show_utree t)
                 else if negb consumed_ok then VCorr "number of raw values consumed differs from the plan"
                 else match index_corr t o with
                      | Some msg => VCorr msg
                      | None =>
                        if negb (valid_size gen n rooted) then VOracle "a size below the documented minimum is accepted"
                        else match oracle_tree gen n rooted names g o with
                             | Some msg => VOracle msg
                             | None => VOk true (gen ++ (if rooted then ":rooted" else ":unrooted"))
                             end
                      end
               end
        end
      end end
    end
  | _, _, _, _, _ => VBad "undecodable observation"
  end.

Definition judge_topologies (n : nat) (rooted : bool) (names : list string) (o : sexp) : verdict :=
  match get_string "err" o, get_string "panic" o with
  | Some gerr, Some gpanic =>
    if negb (String.eqb gpanic "") then VOracle ("crash instead of a result or an error: " ++ gpanic)
    else
    let early : option string :=
        if String.eqb gerr "" && valid_size "topologies" n rooted && (Nat.eqb (length names) 0 || Nat.eqb (length names) n) then
          match (x <- get "trees" o ;; dec_list dec_utree x) with
          | Some gs => oracle_topologies n rooted names gs o
          | None => None
          end
        else None in
    let mismatch := negb (Nat.eqb (length names) 0) && negb (Nat.eqb (length names) n) in
    if mismatch && String.eqb gerr "" then
      VOracle "trees are returned although the number of names differs from the requested number of tips"
    else
    match early with Some msg => VOracle msg | None =>
    match all_topologies n rooted names with
    | Err msg =>
      if negb (String.eqb gerr msg) then VCorr ("model error: " ++ msg ++ " / implementation: " ++ gerr)
      else if valid_size "topologies" n rooted && (Nat.eqb (length names) 0 || Nat.eqb (length names) n)
           then VOracle ("a valid size is rejected: " ++ gerr)
      else VOk false "topologies:rejected"
    | Ok ts =>
      if negb (String.eqb gerr "") then VCorr ("model: trees; implementation refuses: " ++ gerr)
      else match (x <- get "trees" o ;; dec_list dec_utree x) with
           | None => VBad "no trees in observation"
           | Some gs =>
             if negb (list_eqb utree_eqb ts gs) then VCorr "the list of trees differs from the model's"
             else if negb (valid_size "topologies" n rooted) then VOracle "a size below the documented minimum is accepted"
             else match oracle_topologies n rooted names gs o with
                  | Some msg => VOracle msg
                  | None => VOk true (if rooted then "topologies:rooted" else "topologies:unrooted")
                  end
           end
    end end
  | _, _ => VBad "undecodable observation"
  end.

(** math/rand's own Intn / Float64 on a crafted stream (fake Source) against Model/Rand.v and
    Model/Rand2.v: the rejection loop of Int31n and the retry of Float64 *)
Definition judge_randlib (c o : sexp) : verdict :=
  match (x <- get "rawin" c ;; dec_list dec_N x), get_nats "plan" c,
        get_nats "ints" o, get_Qs "floats" o, get_nat "consumed" o with
  | Some raw, Some plan, Some ints, Some floats, Some consumed =>
    let pl := map (fun b => match b with O => DFloat | _ => DInt b end) plan in
    match run_plan pl 0 raw with
    | None => VBad "crafted stream too short for the model"
    | Some (cs, fs, rest) =>
      if negb (list_eqb Nat.eqb cs ints) then VCorr "rand.Intn results differ from Model/Rand.v"
      else if negb (list_eqb qeqb (map fval fs) floats) then VCorr "rand.Float64 results differ from Model/Rand2.v"
      else if negb (Nat.eqb consumed (length raw - length rest)) then VCorr "number of raw values consumed differs"
      else VOk (negb (Nat.eqb consumed (length plan))) "randlib"
    end
  | _, _, _, _, _ => VBad "undecodable randlib case"
  end.

(** k goroutines generating at once: every returned tree must still be a valid tree *)
Definition judge_concurrent (c o : sexp) : verdict :=
  match get_string "which" c, get_nat "n" c, get_bool "rooted" c,
        (x <- get "trees" o ;; dec_list dec_utree x), get_strings "audits" o, get_strings "panics" o, get_strings "errs" o with
  | Some which, Some n, Some rooted, Some gs, Some audits, Some panics, Some errs =>
    let exp := ssort (if String.eqb which "topologies" then map (fun k => tip_name (S k)) (seq 0 n)
                      else expected_names which n []) in
    let okshape g := if String.eqb which "star" then star g
                     else if String.eqb which "topologies" then (if rooted then planted g else binary false g)
                     else binary rooted g in
    match panics, errs, audits with
    | p :: _, _, _ => VOracle ("crash while several goroutines generate trees: " ++ p)
    | _, e :: _, _ => VOracle ("error while several goroutines generate trees: " ++ e)
    | _, _, a :: _ => VOracle ("structural audit of a tree generated concurrently: " ++ a)
    | [], [], [] =>
      if forallb (fun g => wf g && sset_eqb (ssort (leaves g)) exp && okshape g) gs
      then VOk true ("concurrent:" ++ which)
      else VOracle "a tree generated while other goroutines generate trees is not a valid tree on the requested tips"
    end
  | _, _, _, _, _, _, _ => VBad "undecodable concurrent case"
  end.

(** out-of-domain sizes: a negative size must be answered by an error, never by a panic *)
Definition judge_negative (gen : string) (o : sexp) : verdict :=
  match get_string "err" o, get_string "panic" o with
  | Some gerr, Some gpanic =>
    if negb (String.eqb gpanic "") then VOracle ("panic on an invalid (negative) size instead of an error: " ++ gpanic)
    else if String.eqb gerr "" then VOracle "a negative size is accepted"
    else VOk false (gen ++ ":rejected-negative")
  | _, _ => VBad "undecodable observation"
  end.

(** StarTreeFromName with a name given twice: no panic; an error, or the star on the given names *)
Definition has_dup (l : list string) : bool := negb (Nat.eqb (length (sset l)) (length l)).
Definition judge_dupnames (names : list string) (o : sexp) : verdict :=
  match get_string "err" o, get_string "panic" o with
  | Some gerr, Some gpanic =>
    if negb (String.eqb gpanic "") then VOracle ("panic on duplicated names instead of an error: " ++ gpanic)
    else if negb (String.eqb gerr "") then VOk false "starnames:duplicates-rejected"
    else match get_tree "tree" o, star_tree_from_name names with
         | Some g, GOk t =>
           if negb (wf g && star g && sset_eqb (ssort (leaves g)) (ssort names)) then VOracle "not the star tree on the given names"
           else if utree_eqb t g then VOk true "starnames:duplicates" else VCorr ("model: " ++ show_utree t)
         | _, _ => VBad "no tree in observation"
         end
  | _, _ => VBad "undecodable observation"
  end.

(** ** BipartitionTree / EdgeTree (round 8; model in Model/C16Extra8.v).
    case: ((gen bipartition) (n N) (rooted F) (seed 1) (nraw 0) (lefts (..)) (rights (..)))
          ((gen edgetree) ... (tree T) (k K))   -- EdgeTree(T, T.Edges()[K], nil)
    Oracle, on Go's tree alone: well formed, the tips are exactly the given names, exactly one
    internal branch and it separates the two name sets, every length 1, indexes ready. *)
Definition oracle_two_star (lefts rights : list string) (g : utree) (o : sexp) : option string :=
  if negb (wf g) then Some "the tree returned is not well formed"
  else if negb (list_eqb String.eqb (ssort (leaves g)) (ssort (lefts ++ rights)))
  then Some "the tips are not exactly the given names"
  else match internal_edges g with
       | [(e, c)] =>
         if negb (list_eqb String.eqb (ssort (leaves c)) (ssort rights)) &&
            negb (list_eqb String.eqb (ssort (leaves c)) (ssort lefts))
         then Some "the internal branch does not separate the left names from the right names"
         else if negb (forallb (fun p => qeqb (elen (fst p)) 1%Q) (edges g))
         then Some "a branch length is not 1.0"
         else indexes_ready g o
       | _ => Some "not exactly one internal branch"
       end.

Definition judge_two_star (tag : string) (m : gres) (valid : bool) (lefts rights : list string) (o : sexp) : verdict :=
  match get_string "err" o, get_string "panic" o with
  | Some gerr, Some gpanic =>
    if negb (String.eqb gpanic "") then VOracle ("crash instead of a tree or an error: " ++ gpanic)
    else match m with
    | GPanic => VCorr "model: crash; implementation returns"
    | GErr msg =>
      if negb (String.eqb gerr msg) then VCorr ("model error: " ++ msg ++ " / implementation: " ++ gerr)
      else if valid then VOracle ("valid name sets are rejected: " ++ gerr)
      else VOk false (tag ++ ":rejected")
    | GOk t =>
      if negb (String.eqb gerr "") then VCorr ("model: a tree; implementation refuses: " ++ gerr)
      else match get_tree "tree" o with
           | None => VBad "no tree in observation"
           | Some g =>
             if negb (utree_eqb t g) then VCorr ("model: " ++ show_utree t)
             else match index_corr t o with
                  | Some msg => VCorr msg
                  | None =>
                    if negb valid then VOracle "name sets outside the documented domain are accepted"
                    else match oracle_two_star lefts rights g o with
                         | Some msg => VOracle msg
                         | None => VOk true (tag ++ ":ok")
                         end
                  end
           end
    end
  | _, _ => VBad "undecodable observation"
  end.

Definition judge_bipartition (c o : sexp) : verdict :=
  match get_strings "lefts" c, get_strings "rights" c with
  | Some lefts, Some rights =>
    let valid := Nat.leb 2 (length lefts) && Nat.leb 2 (length rights) && negb (has_dup (lefts ++ rights)) in
    judge_two_star "bipartition" (bipartition_tree lefts rights) valid lefts rights o
  | _, _ => VBad "undecodable case"
  end.

Definition judge_edgetree (c o : sexp) : verdict :=
  match get_tree "tree" c, get_nat "k" c with
  | Some src, Some k =>
    match nth_error (edges src) k with
    | Some (_, sub) =>
      let isright := fun nm => mem_str nm (leaves sub) in
      let all := all_tip_names src in
      judge_two_star "edgetree" (GOk (edge_tree_of all isright)) true
                     (filter (fun nm => negb (isright nm)) all) (filter isright all) o
    | None => VBad "no such branch"
    end
  | _, _ => VBad "undecodable case"
  end.

Definition judge (c o : sexp) : verdict :=
  match get_string "gen" c, (x <- get "n" c ;; dec_Z x) with
  | Some gen, Some nz =>
    if String.eqb gen "bipartition" then judge_bipartition c o else
    if String.eqb gen "edgetree" then judge_edgetree c o else
    if (nz <? 0)%Z then judge_negative gen o else
    let names0 := match get_strings "names" c with Some l => l | None => [] end in
    if String.eqb gen "starnames" && has_dup names0 then judge_dupnames names0 o else
  match get_string "gen" c, get_nat "n" c, get_bool "rooted" c with
  | Some gen, Some n, Some rooted =>
    let names := match get_strings "names" c with Some l => l | None => [] end in
    if String.eqb gen "randlib" then judge_randlib c o
    else if String.eqb gen "concurrent" then judge_concurrent c o
    else if String.eqb gen "topologies" then judge_topologies n rooted names o
    else if String.eqb gen "starfromtree" then
      match get_tree "tree" c with
      | Some t => let nm := map (fun p => uname (snd p)) (tip_edges t) in judge_gen (Some t) gen (length nm) false nm o
      | None => VBad "no source tree"
      end
    else judge_gen None gen n rooted names o
  | _, _, _ => VBad "undecodable case"
  end
  | _, _ => VBad "undecodable case"
  end.
