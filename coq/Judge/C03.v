(** Judge for C03: every successful edit leaves a well-formed tree -- the HISTORY check.

    case:  ((tree T) (ops (OP ...)))      1..12 operations applied in turn to ONE tree object
      OP = ((op NAME) (reinit T|F) ARG ...)       reinit T: t.ReinitIndexes() is called first
        reroot         (sel inner|node) (i n)     n-th inner node / n-th node of Nodes() (modulo their number;
                                                  one past the end: a node of no tree)
        unroot | midpoint | sort | rmsingle | clone
        outgroup       (names (SEL ...)) (remove b) (strict b)
        rotate|resolve (seed n)                   the worker records the rand stream as (raw ...)
        prune          (names (SEL ...)) (revert b)
        collapse_len   (l q) (rr b) (rt b)        collapse_sup (s q) (rr b)
        collapse_depth (min z) (max z) (rr b) (rt b)
        graft          (tip SEL) (graft T)        insert (groups ((SEL ...) ...))      merge (t2 T)
        nni            (k n) (undo b)             k-th proposal (modulo their number), Apply (then Undo)
        nni_hold       (k n)                      Apply of the k-th proposal, the rearrangement object is KEPT
        nni_collect    (k n)                      the k-th proposal is kept WITHOUT being applied
        nni_apply_held                            Apply of the kept rearrangement (nothing when none / already applied)
        nni_release                               Undo of the kept rearrangement (nothing when none is alive);
                                                  the object stays alive across sort / rotate / reroot steps only
        rename         (tip SEL) (to "new")       Tree.Rename({old: new})
        subtree        (sel inner|node) (i n)
      SEL = (tip k)    the k-th tip of Tips() (modulo)     | (lit "name")
          | (clade j)  the tips below the j-th node of Nodes() (modulo)
      Arguments are resolved against the CURRENT tree, by the worker on the Go tree and by this
      judge on the model state, independently.

    obs:   ((steps (STEP ...)) (originals (STATE ...)))
      STEP  = ((err "") (raw (n ...))? (tree T) (audit (...)) (nw "text")
               (orig STATE)?      clone/subtree: the tree the copy was taken from, observed after the copy
               (mid STATE)?)      nni with undo: the tree between Apply and Undo
            | ((err msg) (stage reinit|op))       refusal: the history stops here
            | ((panic msg))
      STATE = ((tree T) (audit (...)) (nw "text"))
      originals: the trees that were cloned / sub-treed, observed again at the END of the history.

    After EVERY step:
      correspondence  same accept/refuse decision as [run_step] (Model/History.v), the dump equals
                      the model state ([utree_eqb]: neighbour order, parent-slot positions, names,
                      comments, branch data), Go's Newick text equals the writer model's;
      oracle          (uses no model of any edit) the worker's pointer-level audit is empty
                      (connected, acyclic, symmetric adjacency with shared branch objects, every
                      branch pointing away from the root, public enumerations agree), the dump is
                      [wf], branches = nodes - 1, internal + external branches = branches,
                      external branches = tips, and the reference reader applied to Go's text
                      gives back exactly the dumped tree (shape, order, names, lengths, supports,
                      p-values, comments) whenever what the writer can carry of the tree is inside
                      the quantifier of C01 ([carried]: by design the writer prints a support only
                      for an unnamed node and a p-value only with a support).
    A refusal is never an oracle failure (the property speaks of successful edits).  Pruning a
    tree that has a single-child inner node is outside the property: that step is judged for
    correspondence only. *)
From Coq Require Import String ZArith QArith Bool Arith List.
From GT Require Import Base.Sexp Base.UTree Base.Codec Spec.NewickSpec Model.Reroot Model.Rand
     Model.Newick Model.NewickNum Model.History Model.HistoryHold Judge.Common.
From GT Require Model.Collapse Model.NNI.
Import ListNotations.
Local Close Scope Q_scope.
Local Open Scope string_scope.

Definition writeC : utree -> string := write_go.
Definition parseC : string -> pres := parse_go.
Definition wfNC : utree -> bool := wfN numericC is_b64.

(** * resolution of symbolic arguments against the current tree *)
Definition pick_tip (t : utree) (k : nat) : string :=
  let l := tip_names t in nth (Nat.modulo k (length l)) l "".

Definition clade_names (t : utree) (j : nat) : list string :=
  let l := nodes t in
  match nth_error l (Nat.modulo j (length l)) with
  | Some s => tip_names s
  | None => []
  end.

Definition inner_indexes (t : utree) : list nat :=
  map fst (filter (fun p => Nat.leb 2 (degree (snd p))) (combine (seq 0 (length (nodes t))) (nodes t))).

Definition pick_index (inner : bool) (t : utree) (k : nat) : nat :=
  if inner then
    match inner_indexes t with
    | [] => length (nodes t)
    | l => nth (Nat.modulo k (length l)) l 0
    end
  else Nat.modulo k (S (length (nodes t))).

Definition dec_sel (t : utree) (s : sexp) : option (list string) :=
  match s with
  | SList [Atom k; v] =>
    if String.eqb k "tip" then n <- dec_nat v ;; Some [pick_tip t n]
    else if String.eqb k "lit" then x <- dec_string v ;; Some [x]
    else if String.eqb k "clade" then n <- dec_nat v ;; Some (clade_names t n)
    else None
  | _ => None
  end.
Definition dec_sels (t : utree) (s : sexp) : option (list string) :=
  l <- list_of s ;; ll <- omap (dec_sel t) l ;; Some (concat ll).
Definition dec_sel1 (t : utree) (s : sexp) : option string :=
  l <- dec_sel t s ;; Some (hd "" l).

Definition get_Z (k : string) (s : sexp) : option Z := x <- get k s ;; dec_Z x.
Definition get_raw (o : sexp) : option (list N) := x <- get "raw" o ;; dec_list dec_N x.
Definition get_index (t : utree) (c : sexp) : option nat :=
  sel <- get_string "sel" c ;; i <- get_nat "i" c ;; Some (pick_index (String.eqb sel "inner") t i).

(** operations whose model consults the tip-name index: only meaningful right after ReinitIndexes *)
Definition needs_index (name : string) : bool :=
  String.eqb name "graft" || String.eqb name "insert" || String.eqb name "merge" ||
  String.eqb name "collapse_depth" || String.eqb name "prune".

Definition dec_op (name : string) (t : utree) (c so : sexp) : option op :=
  if String.eqb name "reroot" then i <- get_index t c ;; Some (OReroot i)
  else if String.eqb name "unroot" then Some OUnroot
  else if String.eqb name "outgroup" then
    names <- (x <- get "names" c ;; dec_sels t x) ;;
    remove <- get_bool "remove" c ;; strict <- get_bool "strict" c ;;
    Some (OOutgroup remove strict names)
  else if String.eqb name "midpoint" then Some OMidpoint
  else if String.eqb name "rotate" then
    raw <- get_raw so ;; d <- draws (rotate_bounds t) raw ;; Some (ORotate (fst d))
  else if String.eqb name "sort" then Some OSort
  else if String.eqb name "prune" then
    names <- (x <- get "names" c ;; dec_sels t x) ;; revert <- get_bool "revert" c ;;
    Some (OPrune revert names)
  else if String.eqb name "collapse_len" then
    l <- get_Q "l" c ;; rr <- get_bool "rr" c ;; rt <- get_bool "rt" c ;; Some (OCollapseLen l rr rt)
  else if String.eqb name "collapse_sup" then
    s <- get_Q "s" c ;; rr <- get_bool "rr" c ;; Some (OCollapseSup s rr)
  else if String.eqb name "collapse_depth" then
    mn <- get_Z "min" c ;; mx <- get_Z "max" c ;; rr <- get_bool "rr" c ;; rt <- get_bool "rt" c ;;
    Some (OCollapseDepth mn mx rr rt)
  else if String.eqb name "resolve" then
    raw <- get_raw so ;; d <- draws (Collapse.resolve_bounds t) raw ;; Some (OResolve (fst d))
  else if String.eqb name "rmsingle" then Some ORmSingle
  else if String.eqb name "graft" then
    tip <- (x <- get "tip" c ;; dec_sel1 t x) ;; g <- get_tree "graft" c ;; Some (OGraft tip g)
  else if String.eqb name "insert" then
    groups <- (x <- get "groups" c ;; l <- list_of x ;; omap (dec_sels t) l) ;; Some (OInsert groups)
  else if String.eqb name "merge" then t2 <- get_tree "t2" c ;; Some (OMerge t2)
  else if String.eqb name "nni" then k <- get_nat "k" c ;; u <- get_bool "undo" c ;; Some (ONni k u)
  else if String.eqb name "rename" then
    old <- (x <- get "tip" c ;; dec_sel1 t x) ;; new <- get_string "to" c ;; Some (ORename old new)
  else if String.eqb name "clone" then Some OClone
  else if String.eqb name "subtree" then i <- get_index t c ;; Some (OSubtree i)
  else None.

(** * what is checked on one observed state of a Go tree *)

(** what the writer can carry, by design: a support only on a branch to an unnamed node, a
    p-value only next to a printed support *)
Fixpoint carried (t : utree) : utree :=
  match t with
  | UNode n c sl =>
    UNode n c (map (fun s => match s with
                             | None => None
                             | Some (e, ch) =>
                               let named := negb (String.eqb (uname ch) "") in
                               Some (mkE (elen e)
                                         (if named then nilv else esup e)
                                         (if named || negb (present (esup e)) then nilv else epv e)
                                         (ecom e), carried ch)
                             end) sl)
  end.

(** oracle on the dump alone *)
Definition structure_ok (so : sexp) (g : utree) : option string :=
  first_some
    [audit_ok so;
     (if wf g then None else Some "the result is not a well-formed rooted structure");
     (if Nat.eqb (length (edges g) + 1) (length (nodes g)) then None else Some "branches <> nodes - 1");
     (if Nat.eqb (length (internal_edges g) + length (tip_edges g)) (length (edges g)) then None
      else Some "internal + external branches <> all branches");
     (if Nat.eqb (length (tip_edges g) + (if is_tip g then 1 else 0)) (length (tips g)) then None
      else Some "external branches <> tips")].

(** oracle on the text: the reference reader gives back the dumped tree; [inl true]: checked *)
Definition text_ok (g : utree) (nw : string) : bool + string :=
  let gc := carried g in
  if negb (wfNC gc) then inl false
  else match parseC nw with
       | POk tm => if rose_eqb (rose_of tm) (rose_of gc) then inl true
                   else inr ("the Newick text " ++ nw ++ " describes another tree than the structure " ++ show_utree g)
       | PErr m => if String.eqb m nonfinite_msg then inl false
                   else inr ("the reference reader rejects the Newick text " ++ nw ++ " : " ++ m)
       | POutOfFuel => inr "model parser ran out of fuel"
       end.

(** [m]: the model state; [lenient]: correspondence only.  Result: failure, or "the text
    oracle applied" *)
Definition check_state (pre : string) (lenient : bool) (m : utree) (so : sexp) : verdict + bool :=
  match get_tree "tree" so, get_string "nw" so with
  | Some g, Some nw =>
    match (if lenient then None else structure_ok so g) with
    | Some msg => inl (VOracle (pre ++ msg))
    | None =>
      if negb (utree_eqb m g) then inl (VCorr (pre ++ "model: " ++ show_utree m ++ " implementation: " ++ show_utree g))
      else match (if lenient then inl false else text_ok g nw) with
           | inr msg => inl (VOracle (pre ++ msg))
           | inl checked =>
             if String.eqb (writeC m) nw then inr checked
             else inl (VCorr (pre ++ "text, model: " ++ writeC m ++ " implementation: " ++ nw))
           end
    end
  | _, _ => inl (VBad (pre ++ "undecodable state"))
  end.

(** oracle only (no model of the step): the dump, and the writer model on the dump *)
Definition check_state_unmodelled (pre : string) (so : sexp) : verdict + (utree * bool) :=
  match get_tree "tree" so, get_string "nw" so with
  | Some g, Some nw =>
    match structure_ok so g with
    | Some msg => inl (VOracle (pre ++ msg))
    | None =>
      match text_ok g nw with
      | inr msg => inl (VOracle (pre ++ msg))
      | inl checked =>
        if String.eqb (writeC g) nw then inr (g, checked)
        else inl (VCorr (pre ++ "text, model: " ++ writeC g ++ " implementation: " ++ nw))
      end
    end
  | _, _ => inl (VBad (pre ++ "undecodable state"))
  end.

(** Model/Outgroup.v covers the trees whose root has at least two neighbours and which UnRoot
    does not root at a tip (a rooted tree must have an inner node next to its root): on the
    others RerootOutGroup / RerootMidPoint (and CollapseTopoDepth on a tree whose root has a
    single neighbour) are judged by the oracle alone and the history goes
    on from the dumped tree *)
Definition unmodelled (name : string) (t : utree) : bool :=
  (String.eqb name "outgroup" && Nat.leb 3 (length (tips t)) && Nat.ltb (degree t) 2) ||
  (String.eqb name "midpoint" &&
   (Nat.ltb (degree t) 2 || (rooted t && negb (existsb (fun p => negb (is_tip (snd p))) (kids t))))) ||
  (* Model/Collapse.v: subtree sizes of a tree whose root is itself a tip *)
  (String.eqb name "collapse_depth" && Nat.ltb (degree t) 2).

(** oracle: a successful edit does not leave a tip as the root (Tree.Newick() then writes no
    parenthesis and the text cannot be read back).  Not demanded of: a tree that was rooted at a
    tip already; SubTree (the copy of a single-child node's subtree has a single-child root by
    definition); UnRoot of the two-tip tree (there is no unrooted two-tip tree). *)
Definition two_tip (t : utree) : bool := rooted t && forallb (fun p => is_tip (snd p)) (kids t).
Definition new_tip_root (name : string) (t g : utree) : option string :=
  if is_tip g && negb (Nat.eqb (degree t) 1) && negb (String.eqb name "subtree") &&
     negb (String.eqb name "unroot" && two_tip t)
  then Some "the edit left a tip as the root of the tree (its Newick text has no parenthesis and cannot be read back)"
  else None.

(** the oracle alone on a state the model does not predict *)
Definition oracle_only (name : string) (t : utree) (so : sexp) : option string :=
  match get_tree "tree" so, get_string "nw" so with
  | Some g, Some nw =>
    first_some [structure_ok so g; new_tip_root name t g;
                match text_ok g nw with inr m => Some m | inl _ => None end]
  | _, _ => None
  end.

(** * the fold over the steps *)
Definition nw_tag (nin nstates : nat) : string :=
  if Nat.eqb nin nstates then ":nw-all" else if Nat.eqb nin 0 then ":nw-none" else ":nw-part".

(** the cloned / sub-treed originals, observed again at the end *)
Fixpoint check_originals (i : nat) (origs : list utree) (obs : list sexp) : option verdict :=
  match origs, obs with
  | [], [] => None
  | m :: mr, so :: sr =>
    match check_state ("original " ++ string_of_nat i ++ " at the end of the history: ") false m so with
    | inl (VCorr msg) => Some (VOracle ("a later edit of the copy changed it; " ++ msg))
    | inl v => Some v
    | inr _ => check_originals (S i) mr sr
    end
  | _, _ => Some (VBad "originals: wrong number of observations")
  end.

Definition finish (o : sexp) (origs : list utree) (nok nin nstates : nat) (tag : string) : verdict :=
  match (x <- get "originals" o ;; list_of x) with
  | None => VBad "no originals in observation"
  | Some l =>
    match check_originals 0 origs l with
    | Some v => v
    | None => VOk (Nat.ltb 0 nok) (tag ++ nw_tag nin nstates)
    end
  end.

Definition b2n (b : bool) : nat := if b then 1 else 0.

Definition keeps_handle (name : string) : bool :=
  String.eqb name "sort" || String.eqb name "rotate" || String.eqb name "reroot" ||
  String.eqb name "nni_apply_held" || String.eqb name "nni_release".

(** [hs]: 0 = no rearrangement object is alive; 1 = one is kept, not applied; 2 = kept and applied;
    when alive [t] carries the markers of Model/HistoryHold.v *)
Fixpoint walk (o : sexp) (i : nat) (t : utree) (hs : nat) (origs : list utree) (nin nstates : nat)
         (ops steps : list sexp) {struct ops} : verdict :=
  match ops with
  | [] => match steps with
          | [] => finish o origs i nin nstates "full"
          | _ => VBad "more steps observed than operations"
          end
  | c :: ops' =>
    match steps with
    | [] => VBad "fewer steps observed than operations, without a refusal"
    | so :: steps' =>
      match get_string "op" c, get_bool "reinit" c with
      | Some name, Some re =>
        let pre := "step " ++ string_of_nat i ++ " (" ++ name ++ "): " in
        let t := if negb (Nat.eqb hs 0) && negb (keeps_handle name) then strip_marks t else t in
        let hs := if keeps_handle name then hs else 0 in
        let lenient := String.eqb name "prune" && negb (no_single t) in
        (* Model/Prune.v addresses the tips of the list taken before the first removal BY NAME.  On
           a tree without single-child inner nodes no other node can become a one-neighbour node
           during the loop; with single-child nodes the new root can (Case 1b leaves a single-child
           node as root), and if it bears the name of a tip still to be visited -- typically the
           empty name of an old root that a re-rooting turned into a tip -- the name designates the
           wrong node.  Such a step is outside the property (lenient) and outside the model. *)
        let ambiguous_prune :=
            lenient && existsb (fun x => negb (is_tip x) && existsb (String.eqb (uname x)) (tip_names t)) (nodes t) in
        let stopped (tag : string) : verdict :=
            match steps' with
            | [] => finish o origs i nin nstates tag
            | _ => VBad (pre ++ "steps observed after a refusal")
            end in
        match get_string "panic" so with
        | Some p =>
          if lenient then stopped ("crash@prune:outside")
          else VOracle (pre ++ "crash: " ++ p)
        | None =>
          match get_string "err" so with
          | None => VBad (pre ++ "no err in the step")
          | Some gerr =>
            let gstage := match get_string "stage" so with Some s => s | None => "" end in
            let refused := negb (String.eqb gerr "") in
            if negb re && needs_index name then VBad (pre ++ "this operation is only modelled right after ReinitIndexes")
            else if ambiguous_prune && negb (refused && String.eqb gstage "reinit") then
              (* outside the property AND outside the name addressing of Model/Prune.v: nothing is
                 predicted; the history goes on from the dumped tree *)
              if refused then stopped ("stop@prune:outside:unmodelled")
              else match get_tree "tree" so with
                   | Some g => walk o (S i) g 0 origs nin (nstates + 1) ops' steps'
                   | None => VBad (pre ++ "undecodable state")
                   end
            else if unmodelled name t && negb (refused && String.eqb gstage "reinit") then
              if refused then stopped ("stop@" ++ name ++ ":unmodelled")
              else match check_state_unmodelled (pre ++ "(outside the model of this operation) ") so with
                   | inl v => v
                   | inr (g, b) => walk o (S i) g 0 origs (nin + b2n b) (nstates + 1) ops' steps'
                   end
            else
            match (if re then reinit t else Ok tt) with
            | Err m =>
              if refused && String.eqb gstage "reinit" then stopped ("stop@reinit")
              else VCorr (pre ++ "the model refuses ReinitIndexes (" ++ m ++ "), the implementation does not")
            | Ok _ =>
              if refused && String.eqb gstage "reinit"
              then VCorr (pre ++ "the implementation refuses ReinitIndexes: " ++ gerr)
              else
              let model : option (res utree * nat * option (res utree)) :=
                  if String.eqb name "nni_hold" then
                    k <- get_nat "k" c ;;
                    Some (match hold_apply k t with
                          | Ok (Some tm) => (Ok tm, 2, None)
                          | Ok None => (Ok t, 0, None)
                          | Err m => (Err m, 0, None)
                          end)
                  else if String.eqb name "nni_collect" then
                    k <- get_nat "k" c ;;
                    Some (match hold_collect k t with
                          | Ok (Some tm) => (Ok tm, 1, None)
                          | Ok None => (Ok t, 0, None)
                          | Err m => (Err m, 0, None)
                          end)
                  else if String.eqb name "nni_apply_held" then
                    (* Apply of an applied rearrangement does nothing *)
                    Some (if Nat.eqb hs 1 then (held_apply t, 2, None) else (Ok t, hs, None))
                  else if String.eqb name "nni_release" then
                    (* Undo of a rearrangement that was not applied does nothing *)
                    Some (if Nat.eqb hs 2 then
                            match hold_undo t with
                            | Ok (Some t') => (Ok t', 0, None)
                            | Ok None => (Ok t, 0, Some (Err "unmodelled"))
                            | Err m => (Err m, 0, None)
                            end
                          else (Ok (strip_marks t), 0, None))
                  else
                    op <- dec_op name t c so ;;
                    Some (run_op op t, hs,
                          match op with ONni k true => Some (nni_applied k t) | _ => None end) in
              match model with
              | None => VBad (pre ++ "undecodable operation")
              | Some (mres, held', midm) =>
                match mres with
                | Err m =>
                  if refused then stopped ("stop@" ++ name)
                  else match (if lenient then None else oracle_only name t so) with
                       | Some msg => VOracle (pre ++ msg ++ " [the model refuses: " ++ m ++ "]")
                       | None => VCorr (pre ++ "the model refuses (" ++ m ++ "), the implementation succeeds")
                       end
                | Ok tm' =>
                  if String.eqb name "nni_release" && match midm with Some (Err _) => true | _ => false end then
                    (* the root sits in the clade that Apply moved: outside the model, the oracle applies *)
                    if refused then stopped ("stop@nni_release:unmodelled")
                    else match check_state_unmodelled (pre ++ "(Undo after a re-rooting into the moved clade) ") so with
                         | inl v => v
                         | inr (g, b) => walk o (S i) g 0 origs (nin + b2n b) (nstates + 1) ops' steps'
                         end
                  else
                  let t' := if Nat.eqb held' 0 then tm' else strip_marks tm' in
                  if refused then VCorr (pre ++ "the implementation refuses: " ++ gerr ++ " / model: " ++ show_utree t')
                  else
                  (* the tree the copy was taken from *)
                  let is_copy := String.eqb name "clone" || String.eqb name "subtree" in
                  let chk_orig : verdict + (nat * nat) :=
                      if is_copy then
                        match get "orig" so with
                        | None => inl (VBad (pre ++ "no orig in the step"))
                        | Some oo =>
                          match check_state (pre ++ "the original after the copy was taken: ") false t oo with
                          | inl (VCorr msg) => inl (VOracle ("taking the copy changed the original; " ++ msg))
                          | inl v => inl v
                          | inr b => inr (b2n b, 1)
                          end
                        end
                      else inr (0, 0) in
                  (* the tree between Apply and Undo *)
                  let chk_mid : verdict + (nat * nat) :=
                      match midm with
                      | Some mm =>
                        match get "mid" so, mm with
                        | Some mo, Ok t1 =>
                          match check_state (pre ++ "between Apply and Undo: ") false t1 mo with
                          | inl v => inl v
                          | inr b => inr (b2n b, 1)
                          end
                        | None, _ => inl (VBad (pre ++ "no mid in the step"))
                        | _, Err m => inl (VBad (pre ++ m))
                        end
                      | None => inr (0, 0)
                      end in
                  match chk_orig, chk_mid with
                  | inl v, _ => v
                  | _, inl v => v
                  | inr (a1, b1), inr (a2, b2) =>
                    match (if lenient then None
                           else match get_tree "tree" so with Some g => new_tip_root name t g | None => None end),
                          check_state pre lenient t' so with
                    | _, inl (VOracle m) => VOracle m
                    | Some msg, _ => VOracle (pre ++ msg)
                    | None, inl v => v
                    | None, inr b =>
                      walk o (S i) tm' held' (if is_copy then origs ++ [t] else origs)
                           (nin + a1 + a2 + b2n b) (nstates + b1 + b2 + 1) ops' steps'
                    end
                  end
                end
              end
            end
          end
        end
      | _, _ => VBad "undecodable operation header"
      end
    end
  end.

Definition judge (c o : sexp) : verdict :=
  match get_string "panic" o with
  | Some p => VBad ("harness: " ++ p)
  | None =>
    match get_tree "tree" c, (x <- get "ops" c ;; list_of x), (x <- get "steps" o ;; list_of x) with
    | Some t, Some ops, Some steps =>
      match get "start" o with
      | None => VBad "no start in observation"
      | Some s0 =>
        (* the empty history: the tree built by the harness is the tree of the case, and the
           oracle holds of it (enumerations, text) *)
        match check_state "start: " false t s0 with
        | inl v => v
        | inr b => walk o 0 t 0 [] (b2n b) 1 ops steps
        end
      end
    | _, _, _ => VBad "undecodable case or observation"
    end
  end.
