(** Judge for C09: the consensus contains exactly the sufficiently frequent splits.
    case: ((trees (T ...)) (cutoff q))       q = the decimal threshold, an exact rational
    obs : ((cutoff64 q) (err m) (tree T) (audit (..))) | ((cutoff64 q) (panic m)) | ((hang T))
    Correspondence: [round53 cutoff] is the float64 the Go function received; the Go tree equals
    the tree of [consensus_hm] (model over the hash index: same neighbour order), numbers within
    2^-50 relative (the model divides exactly); errors carry the same message; the
    association-list model ([consensus], the one the theorems are about) counts the same splits
    with the same sums, and builds a tree with the same splits, lengths and supports.
    Oracle (inside the domain of the property): splits of the result = splits with frequency
    (per TREE) > threshold or in every tree; support = frequency; length = mean; rejections. *)
From Coq Require Import String ZArith QArith Qabs Bool Arith List.
From GT Require Import Base.Sexp Base.UTree Base.Codec Spec.Obs Spec.ConsensusSpec Model.Reroot
     Model.Index Model.HashMap Model.EdgeIndex Model.Compare Model.Consensus Model.ConsensusTree Judge.Common.
Import ListNotations.
Local Close Scope Q_scope.
Local Open Scope string_scope.

(** |a - b| <= 2^-50 * max(|a|,|b|) *)
Definition qapprox (a b : Q) : bool :=
  let d := Qabs (a - b)%Q in
  let m := if Qle_bool (Qabs a) (Qabs b) then Qabs b else Qabs a in
  Qle_bool (d * inject_Z (2 ^ 50))%Q m.

Definition einfo_approx (a b : einfo) : bool :=
  qapprox (elen a) (elen b) && qapprox (esup a) (esup b) && qapprox (epv a) (epv b)
  && list_eqb String.eqb (ecom a) (ecom b).

Fixpoint utree_approx (a b : utree) : bool :=
  match a, b with
  | UNode n1 c1 s1, UNode n2 c2 s2 =>
    String.eqb n1 n2 && list_eqb String.eqb c1 c2 &&
    (fix go (l1 l2 : list slot) : bool :=
       match l1, l2 with
       | [], [] => true
       | None :: r1, None :: r2 => go r1 r2
       | Some (e1, t1) :: r1, Some (e2, t2) :: r2 => einfo_approx e1 e2 && utree_approx t1 t2 && go r1 r2
       | _, _ => false
       end) s1 s2
  end.

Definition approx_len_sup (a b : split) : bool := qapprox (slen a) (slen b) && qapprox (ssup a) (ssup b).

Definition show_key (k : list string) : string := "{" ++ concat_with "," k ++ "}".
Definition show_frac (c n : nat) : string := string_of_nat c ++ "/" ++ string_of_nat n.

(** ** the two index instances count alike *)
Definition counts_agree (ts : list utree) : bool :=
  match cons_counts_hm ts, cons_counts_assoc ts with
  | Some (Ok (h, n1)), Some (Ok (a, n2)) =>
    Z.eqb n1 n2 && Nat.eqb (length h) (length a) &&
    forallb (fun kv => match find (fun kv' => ekey_eqb (fst kv) (fst kv')) a with
                       | Some kv' => Z.eqb (fst (snd kv)) (fst (snd kv')) && qeqb (snd (snd kv)) (snd (snd kv'))
                       | None => false
                       end) h
  | Some (Err _), Some (Err _) => true
  | None, None => true
  | _, _ => false
  end.

(** ** oracle *)
(** number of BRANCHES of the collection carrying the split (what the code counts) *)
Definition branch_count (ts : list utree) (k : key) : nat :=
  length (filter (fun s => key_eqb (sside s) k) (flat_map (fun t => branch_splits (tipset t) t) ts)).

Definition is_rooted_input (ts : list utree) : bool := existsb (fun t => Nat.eqb (degree t) 2) ts.

Definition twice_tag (ts : list utree) (k : key) : string :=
  if negb (Nat.eqb (branch_count ts k) (freq_count ts k))
  then " [root split of a rooted input: counted twice]" else "".

Definition in_domain (ts : list utree) : bool :=
  negb (Nat.eqb (length ts) 0) && forallb tree_ok ts && same_taxa_all ts.

(** well-formed trees whose taxon MULTISETS are not all the same: another name, a missing or an extra
    one, or a name carried by two tips of one tree (whatever the counts) *)
Definition differing_taxa (ts : list utree) : bool :=
  forallb (fun t => wf t && Nat.leb 2 (degree t)) ts &&
  (negb (forallb (fun t => nodup_sorted (ssort (leaves t))) ts) || negb (same_taxa_all ts)).

Definition check_split (cutoff : Q) (ts : list utree) (g : list split) (k : key) : option string :=
  let n := length ts in
  let c := freq_count ts k in
  match find_split k g with
  | None => Some ("missing split " ++ show_key k ++ " of frequency " ++ show_frac c n ++ twice_tag ts k)
  | Some s =>
    let ml := mean (lens_of ts k) in
    if negb (qapprox (slen s) ml)
    then Some ("length of " ++ show_key k ++ " is " ++ string_of_Q (slen s) ++ ", the mean over the trees containing it is "
               ++ string_of_Q (Qred ml) ++ twice_tag ts k)
    else if stip s then None
    else let f := (inject_Z (Z.of_nat c) / inject_Z (Z.of_nat n))%Q in
         if negb (qapprox (ssup s) f)
         then Some ("support of " ++ show_key k ++ " is " ++ string_of_Q (ssup s) ++ ", its frequency is " ++ show_frac c n
                    ++ twice_tag ts k)
         else None
  end.

Definition check_extra (cutoff : Q) (ts : list utree) (exp : list key) (s : split) : option string :=
  if existsb (key_eqb (sside s)) exp then None else
  let n := length ts in
  let c := freq_count ts (sside s) in
  let f := (inject_Z (Z.of_nat c) / inject_Z (Z.of_nat n))%Q in
  Some ("split " ++ show_key (sside s) ++ " kept although its frequency " ++ show_frac c n ++
        (if qeqb f cutoff then " equals the threshold (not strictly greater)" else " is below the threshold")
        ++ twice_tag ts (sside s)).

Definition oracle_tree (cutoff : Q) (ts : list utree) (g : utree) : option string :=
  match ts with
  | [] => None
  | t0 :: _ =>
    if negb (wf g) then Some "result is not a well-formed rooted structure"
    else if negb (sset_eqb (ssort (leaves t0)) (ssort (leaves g))) then Some "tips of the result differ from the tips of the inputs"
    else
      let gs := usplits g in
      let exp := expected_keys cutoff ts in
      match first_some (map (check_split cutoff ts gs) exp) with
      | Some m => Some m
      | None =>
        match first_some (map (check_extra cutoff ts exp) gs) with
        | Some m => Some m
        | None =>
          if negb (Nat.eqb (length (branch_splits (tipset g) g)) (length gs))
          then Some "two branches of the result define the same split"
          else None
        end
      end
  end.

Definition nontrivial_case (ts : list utree) : bool :=
  existsb (fun k => let c := freq_count ts k in negb (Nat.eqb c (length ts))) (all_keys ts).

Definition judge_main (ts : list utree) (cutoff : Q) (o : sexp) : verdict :=
  match get_Q "cutoff64" o with
  | None => VBad "no cutoff64 in observation"
  | Some c64 =>
    if negb (qeqb c64 (round53 cutoff)) then VCorr ("round53 gives " ++ string_of_Q (round53 cutoff) ++ " for the threshold")
    else
    let rooted_tag := if is_rooted_input ts then " [collection has rooted inputs]" else "" in
    match consensus_hm ts cutoff, get_string "err" o with
    | None, _ => match get_string "panic" o with
                 | Some _ => VOk false "panic"
                 | None => VCorr "model panics, implementation does not"
                 end
    | _, None => match get_string "panic" o with
                 | Some m => VCorr ("implementation panics: " ++ m)
                 | None => VBad "no err in observation"
                 end
    | Some (Err m), Some gerr =>
      (* the oracle first: an accepted collection that the property rejects is a violation whatever the model says *)
      if String.eqb gerr "" && negb (cutoff_ok cutoff) then VOracle ("threshold outside [0.5,1] accepted [model: error " ++ m ++ "]")
      else if String.eqb gerr "" && differing_taxa ts
      then VOracle ("collection whose trees do not have the same taxa accepted [model: error " ++ m ++ "]")
      else if negb (String.eqb gerr m) then VCorr ("model: error " ++ m ++ "; implementation: " ++ (if String.eqb gerr "" then "no error" else gerr))
      else if negb (counts_agree ts) then VCorr "association-list model and hash-index model count differently"
      else if in_domain ts && cutoff_ok cutoff then VOracle ("valid collection rejected: " ++ gerr ++ rooted_tag)
      else VOk (negb (cutoff_ok cutoff) || differing_taxa ts) (if cutoff_ok cutoff then "err:taxa" else "err:cutoff")
    | Some (Ok mt), Some gerr =>
      if negb (String.eqb gerr "") then VCorr ("implementation refuses: " ++ gerr ++ "; model: " ++ show_utree mt)
      else match get_tree "tree" o with
           | None => VBad "no tree in observation"
           | Some g =>
             match audit_ok o with
             | Some m => VOracle m
             | None =>
               (* the oracle judges the implementation's tree on its own, first *)
               let corr_msg : option string :=
                   if negb (utree_approx mt g) then Some ("model: " ++ show_utree mt)
                   else if negb (counts_agree ts) then Some "association-list model and hash-index model count differently"
                   else match consensus ts cutoff with
                        | Some (Ok ma) =>
                          if negb (splits_eq approx_len_sup (usplits ma) (usplits g))
                          then Some ("association-list model builds other splits: " ++ show_utree ma)
                          else if in_domain ts && cutoff_ok cutoff &&
                                  negb (splits_eq approx_len_sup (usplits (consensus_utree ts (round53 cutoff))) (usplits g))
                          then Some ("the utree-level construction (Model/ConsensusTree.v) has other splits: "
                                     ++ show_utree (consensus_utree ts (round53 cutoff)))
                          else None
                        | _ => Some "association-list model fails where the hash-index model succeeds"
                        end in
               let agree := match corr_msg with None => " [the model agrees with the implementation]" | Some _ => "" end in
               if negb (cutoff_ok cutoff) then VOracle "threshold outside [0.5,1] accepted"
               else if differing_taxa ts then VOracle "collection with differing taxa accepted"
               else match (if in_domain ts then oracle_tree cutoff ts g else None) with
                    | Some m => VOracle (m ++ agree)
                    | None =>
                      match corr_msg with
                      | Some m => VCorr m
                      | None => if negb (in_domain ts) then VOk false "outside"
                                else VOk (nontrivial_case ts) (if is_rooted_input ts then "ok:rooted" else "ok")
                      end
                    end
             end
           end
    end
  end.

Definition judge (c o : sexp) : verdict :=
  match get_string "hang" o with
  | Some _ => VOracle "Consensus did not return within 8 s"
  | None =>
    (* pre-used inputs: the worker indexed the trees, edited them without re-indexing and dumped
       them ([treesafter]); model and oracle work on the trees as Consensus received them *)
    match (match get "treesafter" o with
           | Some x => dec_list dec_utree x
           | None => x <- get "trees" c ;; dec_list dec_utree x
           end), get_Q "cutoff" c with
    | Some ts, None =>
      (* a non-finite threshold (nan, inf, -inf as symbols): outside [0.5,1], must be refused *)
      match get_string "cutoff" c with
      | Some cs =>
        if String.eqb cs "nan" || String.eqb cs "inf" || String.eqb cs "-inf" then
          match get_string "err" o with
          | Some gerr =>
            if String.eqb gerr "" then VOracle ("non-finite threshold " ++ cs ++ " accepted")
            else if String.eqb gerr "min frequency for bipartition must be >=0.5 and <=1" then VOk true "err:cutoff:nonfinite"
            else VCorr ("model: error min frequency for bipartition must be >=0.5 and <=1; implementation: " ++ gerr)
          | None => match get_string "panic" o with
                    | Some m => VOracle ("non-finite threshold " ++ cs ++ ": panic " ++ m)
                    | None => VBad "no err in observation"
                    end
          end
        else VBad "undecodable threshold"
      | None => VBad "undecodable case"
      end
    | Some ts, Some cutoff =>
      match judge_main ts cutoff o, get "pres" c with
      | VOk nt tg, Some _ => VOk nt (tg ++ ":preused")
      | v, _ => v
      end
    | _, _ => VBad "undecodable case"
    end
  end.
