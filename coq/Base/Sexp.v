(** S-expressions: the wire format between the Python driver, the Go worker and the
    extracted judge.  Text <-> [sexp] is done by unverified OCaml glue; everything from
    [sexp] on (decoding cases and observations, running the model, judging) is Gallina. *)
From Coq Require Import String Ascii ZArith QArith Bool List.
Import ListNotations.
Local Close Scope Q_scope.
Local Open Scope string_scope.

Inductive sexp : Type :=
| Atom (s : string)
| SList (l : list sexp).

(** Result of a judge. *)
Inductive verdict : Type :=
| VOk (nontrivial : bool) (tag : string)   (* correspondence and oracle both accept *)
| VCorr (msg : string)                     (* model and implementation differ on a projected observable *)
| VOracle (msg : string)                   (* the specification rejects the implementation's output *)
| VBad (msg : string).                     (* case or observation could not be decoded *)

(** * Decoding helpers *)

Definition atom_of (s : sexp) : option string :=
  match s with Atom a => Some a | SList _ => None end.

Definition list_of (s : sexp) : option (list sexp) :=
  match s with Atom _ => None | SList l => Some l end.

Definition obind {A B} (o : option A) (f : A -> option B) : option B :=
  match o with Some a => f a | None => None end.
Notation "x <- e ;; k" := (obind e (fun x => k)) (at level 61, e at next level, right associativity).

Fixpoint omap {A B} (f : A -> option B) (l : list A) : option (list B) :=
  match l with
  | [] => Some []
  | a :: r => b <- f a ;; br <- omap f r ;; Some (b :: br)
  end.

(** decimal integers *)
Definition digit_of (c : ascii) : option Z :=
  let n := Z.of_nat (nat_of_ascii c) in
  if (48 <=? n)%Z && (n <=? 57)%Z then Some (n - 48)%Z else None.

Fixpoint nat_digits (s : string) (acc : Z) : option Z :=
  match s with
  | EmptyString => Some acc
  | String c r => d <- digit_of c ;; nat_digits r (acc * 10 + d)%Z
  end.

Definition Z_of_string (s : string) : option Z :=
  match s with
  | EmptyString => None
  | String "-" r => match r with EmptyString => None | _ => z <- nat_digits r 0%Z ;; Some (- z)%Z end
  | _ => nat_digits s 0%Z
  end.

(** split at the first occurrence of [c] *)
Fixpoint split_at (c : ascii) (s : string) : string * option string :=
  match s with
  | EmptyString => (EmptyString, None)
  | String a r => if Ascii.eqb a c then (EmptyString, Some r)
                  else let '(x, y) := split_at c r in (String a x, y)
  end.

(** rationals are written  num/den  or  num *)
Definition Q_of_string (s : string) : option Q :=
  let '(a, b) := split_at "/" s in
  n <- Z_of_string a ;;
  match b with
  | None => Some (inject_Z n)
  | Some ds => d <- Z_of_string ds ;;
               match d with Zpos p => Some (Qmake n p) | _ => None end
  end.

Definition dec_Z (s : sexp) : option Z := a <- atom_of s ;; Z_of_string a.
Definition dec_nat (s : sexp) : option nat := z <- dec_Z s ;; if (z <? 0)%Z then None else Some (Z.to_nat z).
Definition dec_N (s : sexp) : option N := z <- dec_Z s ;; if (z <? 0)%Z then None else Some (Z.to_N z).
Definition dec_Q (s : sexp) : option Q := a <- atom_of s ;; Q_of_string a.
Definition dec_bool (s : sexp) : option bool :=
  a <- atom_of s ;;
  if String.eqb a "T" then Some true else if String.eqb a "F" then Some false else None.
Definition dec_string (s : sexp) : option string := atom_of s.
Definition dec_list {A} (f : sexp -> option A) (s : sexp) : option (list A) :=
  l <- list_of s ;; omap f l.
Definition dec_pair {A B} (f : sexp -> option A) (g : sexp -> option B) (s : sexp) : option (A * B) :=
  match s with SList [a; b] => x <- f a ;; y <- g b ;; Some (x, y) | _ => None end.
Definition dec_option {A} (f : sexp -> option A) (s : sexp) : option (option A) :=
  match s with
  | SList [] => Some None
  | SList [a] => x <- f a ;; Some (Some x)
  | _ => None
  end.

(** association lookup in  ((key v) (key v) ...)  *)
Fixpoint field (k : string) (l : list sexp) : option sexp :=
  match l with
  | [] => None
  | SList [Atom k'; v] :: r => if String.eqb k k' then Some v else field k r
  | _ :: r => field k r
  end.
Definition get (k : string) (s : sexp) : option sexp := l <- list_of s ;; field k l.

(** * Printing helpers (for messages) *)
Fixpoint pos_digits (fuel : nat) (z : Z) (acc : string) : string :=
  match fuel with
  | O => acc
  | S f => let d := (z mod 10)%Z in
           let acc' := String (ascii_of_nat (Z.to_nat (48 + d))) acc in
           if (z / 10 =? 0)%Z then acc' else pos_digits f (z / 10)%Z acc'
  end.
Definition string_of_Z (z : Z) : string :=
  if (z <? 0)%Z then String "-" (pos_digits (S (Z.to_nat (Z.log2 (- z)))) (- z) "")
  else pos_digits (S (Z.to_nat (Z.log2 z))) z "".
Definition string_of_nat (n : nat) : string := string_of_Z (Z.of_nat n).
Definition string_of_Q (q : Q) : string :=
  string_of_Z (Qnum q) ++ "/" ++ string_of_Z (Zpos (Qden q)).
Definition string_of_bool (b : bool) : string := if b then "T" else "F".

Fixpoint concat_with (sep : string) (l : list string) : string :=
  match l with
  | [] => ""
  | [x] => x
  | x :: r => x ++ sep ++ concat_with sep r
  end.
