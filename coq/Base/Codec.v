(** sexp <-> utree.
    tree  ::= (N name (comment ...) (slot ...))
    slot  ::= U | (D len sup pv (comment ...) tree)            numbers: num/den, -1 = absent *)
From Coq Require Import String ZArith QArith Bool List.
From GT Require Import Base.Sexp Base.UTree.
Import ListNotations.
Local Close Scope Q_scope.
Local Open Scope string_scope.

Definition dec_strings (s : sexp) : option (list string) := dec_list dec_string s.

Definition is_atom (a : string) (s : sexp) : bool :=
  match s with Atom x => String.eqb x a | SList _ => false end.

Fixpoint dec_utree (s : sexp) : option utree :=
  match s with
  | SList (tag :: Atom name :: coms :: SList sl :: nil) =>
    if negb (is_atom "N" tag) then None else
    match dec_strings coms with
    | None => None
    | Some cs =>
      match (fix go (l : list sexp) : option (list slot) :=
               match l with
               | [] => Some []
               | x :: r =>
                 match x with
                 | Atom a => if String.eqb a "U"
                             then match go r with Some r' => Some (None :: r') | None => None end
                             else None
                 | SList (d :: l' :: su :: pv :: ec :: child :: nil) =>
                   if negb (is_atom "D" d) then None else
                   match dec_Q l', dec_Q su, dec_Q pv, dec_strings ec, dec_utree child, go r with
                   | Some l'', Some su', Some pv', Some ec', Some c, Some r' =>
                     Some (Some (mkE l'' su' pv' ec', c) :: r')
                   | _, _, _, _, _, _ => None
                   end
                 | SList _ => None
                 end
               end) sl with
      | Some slots => Some (UNode name cs slots)
      | None => None
      end
    end
  | _ => None
  end.

Definition enc_strings (l : list string) : sexp := SList (map Atom l).
Definition enc_Q (q : Q) : sexp := Atom (string_of_Q (Qred q)).

Fixpoint enc_utree (t : utree) : sexp :=
  match t with
  | UNode n c sl =>
    SList [Atom "N"; Atom n; enc_strings c;
           SList (map (fun s => match s with
                                | None => Atom "U"
                                | Some (e, ch) =>
                                  SList [Atom "D"; enc_Q (elen e); enc_Q (esup e); enc_Q (epv e);
                                         enc_strings (ecom e); enc_utree ch]
                                end) sl)]
  end.

(** compact text of a sexp, for messages *)
Fixpoint show_sexp (s : sexp) : string :=
  match s with
  | Atom a => a
  | SList l => "(" ++ concat_with " " (map show_sexp l) ++ ")"
  end.
Definition show_utree (t : utree) : string := show_sexp (enc_utree t).
