(** The tree model: what the Go algorithms can observe from [Tree.root] through
    [Node.neigh] / [Node.br], in the same order.

    Go:  Node{name, comment, neigh[], br[]},  Edge{left,right,length,support,pvalue,comment}.
    A node is [UNode name comments slots]; slot i mirrors [neigh[i]]/[br[i]]:
      [None]          -- this neighbour is the parent (the edge is stored in the parent's slot)
      [Some (e, c)]   -- this neighbour is the child c, reached by edge e.
    Lengths, supports and p-values keep Go's representation: a rational, with -1 the
    "absent" sentinel (NIL_LENGTH / NIL_SUPPORT / NIL_PVALUE). *)
From Coq Require Import String ZArith QArith Bool Arith Lia List.
Import ListNotations.
Local Close Scope Q_scope.

Definition nilv : Q := (-1)%Q.

Record einfo : Type := mkE { elen : Q; esup : Q; epv : Q; ecom : list string }.

Definition e0 : einfo := mkE nilv nilv nilv [].

Inductive utree : Type :=
| UNode (name : string) (ncom : list string) (slots : list (option (einfo * utree))).

Notation slot := (option (einfo * utree)).
Notation Up := (@None (einfo * utree)).

Definition uname (t : utree) : string := match t with UNode n _ _ => n end.
Definition ucom (t : utree) : list string := match t with UNode _ c _ => c end.
Definition uslots (t : utree) : list slot := match t with UNode _ _ s => s end.

(** children in slot order, parent slot dropped *)
Definition kids_of (sl : list slot) : list (einfo * utree) :=
  flat_map (fun s => match s with Some p => [p] | None => [] end) sl.
Definition kids (t : utree) : list (einfo * utree) := kids_of (uslots t).

(** number of neighbours = len(n.neigh) *)
Definition degree (t : utree) : nat := length (uslots t).
(** Node.Tip(): exactly one neighbour *)
Definition is_tip (t : utree) : bool := Nat.eqb (degree t) 1.
Definition n_up (sl : list slot) : nat :=
  length (filter (fun s => match s with None => true | _ => false end) sl).

(** * Induction principle for the nested type *)
Section Ind.
  Variable P : utree -> Prop.
  Hypothesis H : forall n c sl,
      Forall (fun s => match s with Some (_, t) => P t | None => True end) sl ->
      P (UNode n c sl).
  Fixpoint utree_ind' (t : utree) : P t :=
    match t with
    | UNode n c sl =>
      H n c sl
        ((fix go (l : list slot) : Forall (fun s => match s with Some (_, t) => P t | None => True end) l :=
            match l with
            | [] => Forall_nil _
            | None :: r => Forall_cons None I (go r)
            | Some (e, t') :: r => Forall_cons (Some (e, t')) (utree_ind' t') (go r)
            end) sl)
    end.
End Ind.

(** * Size (for fuel and measures) *)
Fixpoint usize (t : utree) : nat :=
  match t with
  | UNode _ _ sl =>
    S (fold_right (fun s acc => match s with Some (_, c) => usize c + acc | None => acc end) 0 sl)
  end.

(** * Traversals mirroring tree.go *)

(** Tree.Nodes(): pre-order over neigh, skipping the previous node *)
Fixpoint nodes (t : utree) : list utree :=
  match t with
  | UNode _ _ sl =>
    t :: flat_map (fun s => match s with Some (_, c) => nodes c | None => [] end) sl
  end.

(** Tree.Tips(): nodes with exactly one neighbour, pre-order *)
Fixpoint tips (t : utree) : list utree :=
  match t with
  | UNode _ _ sl =>
    (if is_tip t then [t] else []) ++
    flat_map (fun s => match s with Some (_, c) => tips c | None => [] end) sl
  end.

Definition tip_names (t : utree) : list string := map uname (tips t).

(** Tree.AllTipNames(): a tip's name, else recursion (does not descend below a tip) *)
Fixpoint all_tip_names (t : utree) : list string :=
  match t with
  | UNode n _ sl =>
    if Nat.eqb (length sl) 1 then [n]
    else flat_map (fun s => match s with Some (_, c) => all_tip_names c | None => [] end) sl
  end.

(** Tree.Edges(): for every root branch, the branch then (if its right node has more than
    one neighbour) recursively the branches whose left end is that node. *)
Fixpoint edges_below (t : utree) : list (einfo * utree) :=
  match t with
  | UNode _ _ sl =>
    flat_map (fun s => match s with
                       | Some (e, c) => (e, c) :: (if Nat.ltb 1 (degree c) then edges_below c else [])
                       | None => [] end) sl
  end.
Definition edges (t : utree) : list (einfo * utree) := edges_below t.

(** Tree.TipEdges() *)
Fixpoint tip_edges (t : utree) : list (einfo * utree) :=
  match t with
  | UNode _ _ sl =>
    flat_map (fun s => match s with
                       | Some (e, c) => (if is_tip c then [(e, c)] else []) ++
                                        (if Nat.ltb 1 (degree c) then tip_edges c else [])
                       | None => [] end) sl
  end.

(** Tree.InternalEdges() after the fix (recursion into internalEdgesRecur). *)
Fixpoint internal_edges (t : utree) : list (einfo * utree) :=
  match t with
  | UNode _ _ sl =>
    flat_map (fun s => match s with
                       | Some (e, c) => if is_tip c then []
                                        else (e, c) :: (if Nat.ltb 1 (degree c) then internal_edges c else [])
                       | None => [] end) sl
  end.

(** * Well-formedness of the representation *)
(** root: no parent slot; every other node: exactly one. *)
Fixpoint wf_sub (t : utree) : bool :=
  match t with
  | UNode _ _ sl =>
    Nat.eqb (n_up sl) 1 &&
    forallb (fun s => match s with Some (_, c) => wf_sub c | None => true end) sl
  end.
Definition wf (t : utree) : bool :=
  match t with
  | UNode _ _ sl =>
    Nat.eqb (n_up sl) 0 &&
    forallb (fun s => match s with Some (_, c) => wf_sub c | None => true end) sl
  end.

(** no inner node with a single child (non-root nodes of degree 2) *)
Fixpoint no_single_sub (t : utree) : bool :=
  match t with
  | UNode _ _ sl =>
    negb (Nat.eqb (length sl) 2) &&
    forallb (fun s => match s with Some (_, c) => no_single_sub c | None => true end) sl
  end.
Definition no_single (t : utree) : bool :=
  forallb (fun p => no_single_sub (snd p)) (kids t).

Definition rooted (t : utree) : bool := Nat.eqb (degree t) 2.

(** * Equality up to Qeq on numbers *)
Definition qeqb (a b : Q) : bool := Qeq_bool a b.
Fixpoint list_eqb {A} (f : A -> A -> bool) (l1 l2 : list A) : bool :=
  match l1, l2 with
  | [], [] => true
  | a :: r1, b :: r2 => f a b && list_eqb f r1 r2
  | _, _ => false
  end.
Definition einfo_eqb (a b : einfo) : bool :=
  qeqb (elen a) (elen b) && qeqb (esup a) (esup b) && qeqb (epv a) (epv b) &&
  list_eqb String.eqb (ecom a) (ecom b).

Fixpoint utree_eqb (a b : utree) : bool :=
  match a, b with
  | UNode n1 c1 s1, UNode n2 c2 s2 =>
    String.eqb n1 n2 && list_eqb String.eqb c1 c2 &&
    (fix go (l1 l2 : list slot) : bool :=
       match l1, l2 with
       | [], [] => true
       | None :: r1, None :: r2 => go r1 r2
       | Some (e1, t1) :: r1, Some (e2, t2) :: r2 => einfo_eqb e1 e2 && utree_eqb t1 t2 && go r1 r2
       | _, _ => false
       end) s1 s2
  end.
