(** The executable strconv instance of Model/NewickNum.v satisfies the hypotheses
    [strconv_ok] of the round-trip theorem, for the numbers [numokC] on which its own
    FormatFloat/ParseFloat pair round-trips (a decidable check). *)
From Coq Require Import String Ascii ZArith QArith Bool Arith Lia List.
From GT Require Import Base.UTree Model.Newick Model.NewickNum Spec.NewickSpec
     Proofs.NewickLex Proofs.NewickCanon.
Import ListNotations.
Local Close Scope Q_scope.
Local Open Scope string_scope.

Definition is_slash (c : ascii) : bool := Ascii.eqb c "/".

Lemma no_slash_cons : forall c r, no_slash (String c r) = negb (is_slash c) && no_slash r.
Proof. reflexivity. Qed.

Lemma lower_slash : forall c, is_slash (lower c) = is_slash c.
Proof.
  intros c. unfold lower, is_slash.
  destruct (Nat.leb 65 (nat_of_ascii c) && Nat.leb (nat_of_ascii c) 90) eqn:E; [|reflexivity].
  apply andb_true_iff in E. destruct E as [E1 E2]. apply Nat.leb_le in E1. apply Nat.leb_le in E2.
  destruct (Ascii.eqb c "/") eqn:Ec.
  - apply Ascii.eqb_eq in Ec. subst c. change (nat_of_ascii "/") with 47 in E1. lia.
  - destruct (Ascii.eqb (ascii_of_nat (nat_of_ascii c + 32)) "/") eqn:E3; [|reflexivity].
    apply Ascii.eqb_eq in E3. apply (f_equal nat_of_ascii) in E3.
    rewrite nat_ascii_embedding in E3 by lia. change (nat_of_ascii "/") with 47 in E3. lia.
Qed.

Lemma lower_s_slash : forall s, no_slash (lower_s s) = no_slash s.
Proof.
  induction s; [reflexivity|]. simpl lower_s. rewrite !no_slash_cons, IHs.
  f_equal. f_equal. apply lower_slash.
Qed.

Lemma eqb_no_slash : forall s t, String.eqb s t = true -> no_slash t = true -> no_slash s = true.
Proof. intros s t H. apply String.eqb_eq in H. subst. auto. Qed.

Lemma special_no_slash : forall s, is_special s = true -> no_slash s = true.
Proof.
  intros s H. unfold is_special in H. rewrite <- lower_s_slash.
  destruct (lower_s s) as [|c r] eqn:E.
  - reflexivity.
  - apply orb_true_iff in H. destruct H as [H|H].
    + apply orb_true_iff in H.
      destruct (Ascii.eqb c "+" || Ascii.eqb c "-") eqn:Es.
      * rewrite no_slash_cons.
        assert (is_slash c = false).
        { unfold is_slash. apply orb_true_iff in Es. destruct Es as [Es|Es]; apply Ascii.eqb_eq in Es; subst; reflexivity. }
        rewrite H0. simpl. destruct H as [H|H]; eapply eqb_no_slash; try exact H; reflexivity.
      * destruct H as [H|H]; eapply eqb_no_slash; try exact H; reflexivity.
    + eapply eqb_no_slash; [exact H|reflexivity].
Qed.

Lemma dec_digit_not_slash : forall c d, dec_digit c = Some d -> is_slash c = false.
Proof.
  intros c d H. unfold dec_digit in H. unfold is_slash.
  destruct (Ascii.eqb c "/") eqn:E; [|reflexivity]. apply Ascii.eqb_eq in E. subst. discriminate.
Qed.

Lemma hex_digit_not_slash : forall c d, hex_digit c = Some d -> is_slash c = false.
Proof.
  intros c d H. unfold is_slash.
  destruct (Ascii.eqb c "/") eqn:E; [|reflexivity]. apply Ascii.eqb_eq in E. subst. discriminate.
Qed.

Definition rest6 {A B C D E} (x : A * B * C * D * E * string) : string := snd x.

Lemma mant_loop_slash : forall hex s m nd fd sawdot sawdig under,
    no_slash s = false -> no_slash (rest6 (mant_loop hex s m nd fd sawdot sawdig under)) = false.
Proof.
  induction s as [|c r IH]; intros m nd fd sawdot sawdig under H; [discriminate|].
  rewrite no_slash_cons in H. cbn [mant_loop].
  destruct (Ascii.eqb c "_") eqn:E1.
  { apply Ascii.eqb_eq in E1. subst c. simpl in H. apply IH. exact H. }
  destruct (Ascii.eqb c ".") eqn:E2.
  { apply Ascii.eqb_eq in E2. subst c. simpl in H.
    destruct sawdot; [unfold rest6; simpl; exact H|apply IH; exact H]. }
  destruct (if hex then hex_digit c else dec_digit c) as [d|] eqn:E3.
  - assert (is_slash c = false).
    { destruct hex; [eapply hex_digit_not_slash|eapply dec_digit_not_slash]; eassumption. }
    rewrite H0 in H. simpl in H. apply IH. exact H.
  - unfold rest6. simpl. rewrite no_slash_cons. exact H.
Qed.

Lemma exp_loop_slash : forall s e under,
    no_slash s = false -> no_slash (snd (exp_loop s e under)) = false.
Proof.
  induction s as [|c r IH]; intros e under H; [discriminate|].
  rewrite no_slash_cons in H. cbn [exp_loop].
  destruct (Ascii.eqb c "_") eqn:E1.
  { apply Ascii.eqb_eq in E1. subst c. simpl in H. apply IH. exact H. }
  destruct (dec_digit c) as [d|] eqn:E3.
  - rewrite (dec_digit_not_slash _ _ E3) in H. simpl in H. apply IH. exact H.
  - simpl. rewrite no_slash_cons. exact H.
Qed.

Lemma classify_slash : forall s, no_slash s = false -> classify s = NotNum.
Proof.
  intros s H. unfold classify.
  destruct (is_special s) eqn:Esp.
  { apply special_no_slash in Esp. congruence. }
  (* sign *)
  destruct (match s with
            | String c r => if Ascii.eqb c "+" then (false, r) else if Ascii.eqb c "-" then (true, r) else (false, s)
            | EmptyString => (false, s)
            end) as [neg s1] eqn:Esign.
  assert (H1 : no_slash s1 = false).
  { destruct s as [|c r]; [discriminate|].
    destruct (Ascii.eqb c "+") eqn:Ep.
    - inversion Esign; subst. apply Ascii.eqb_eq in Ep. subst c. rewrite no_slash_cons in H. exact H.
    - destruct (Ascii.eqb c "-") eqn:Em.
      + inversion Esign; subst. apply Ascii.eqb_eq in Em. subst c. rewrite no_slash_cons in H. exact H.
      + inversion Esign; subst. exact H. }
  (* hex prefix *)
  destruct (match s1 with
            | String z (String x (String c r)) =>
              if Ascii.eqb z "0" && Ascii.eqb (lower x) "x" then (true, String c r) else (false, s1)
            | _ => (false, s1)
            end) as [hex s2] eqn:Ehex.
  assert (H2 : no_slash s2 = false).
  { destruct s1 as [|z [|x [|c r]]]; try (inversion Ehex; subst; exact H1).
    destruct (Ascii.eqb z "0" && Ascii.eqb (lower x) "x") eqn:E0.
    - inversion Ehex; subst. apply andb_true_iff in E0. destruct E0 as [Ez Ex].
      apply Ascii.eqb_eq in Ez. subst z.
      rewrite !no_slash_cons in H1. simpl in H1.
      assert (is_slash x = false).
      { rewrite <- lower_slash. apply Ascii.eqb_eq in Ex. rewrite Ex. reflexivity. }
      rewrite H0 in H1. simpl in H1. rewrite no_slash_cons. exact H1.
    - inversion Ehex; subst. exact H1. }
  pose proof (mant_loop_slash hex s2 0%Z 0%Z 0%Z false false false H2) as H3.
  destruct (mant_loop hex s2 0 0 0 false false false) as [[[[[m nd] fd] sawdig] under1] s3] eqn:Em.
  unfold rest6 in H3. simpl in H3.
  destruct (negb sawdig); [reflexivity|].
  destruct s3 as [|c r]; [discriminate|].
  destruct (Ascii.eqb (lower c) (if hex then "p"%char else "e"%char)) eqn:Ee; [|reflexivity].
  assert (Hr : no_slash r = false).
  { rewrite no_slash_cons in H3.
    assert (is_slash c = false).
    { rewrite <- lower_slash. apply Ascii.eqb_eq in Ee. rewrite Ee. destruct hex; reflexivity. }
    rewrite H0 in H3. exact H3. }
  destruct (match r with
            | String sg r' => if Ascii.eqb sg "+" then (1%Z, r') else if Ascii.eqb sg "-" then ((-1)%Z, r') else (1%Z, r)
            | EmptyString => (1%Z, r)
            end) as [esign r1] eqn:Es.
  assert (Hr1 : no_slash r1 = false).
  { destruct r as [|sg r']; [discriminate|].
    destruct (Ascii.eqb sg "+") eqn:Ep.
    - inversion Es; subst. apply Ascii.eqb_eq in Ep. subst sg. rewrite no_slash_cons in Hr. exact Hr.
    - destruct (Ascii.eqb sg "-") eqn:Emn.
      + inversion Es; subst. apply Ascii.eqb_eq in Emn. subst sg. rewrite no_slash_cons in Hr. exact Hr.
      + inversion Es; subst. exact Hr. }
  destruct r1 as [|d0 r1']; [reflexivity|].
  destruct (dec_digit d0); [|reflexivity].
  pose proof (exp_loop_slash (String d0 r1') 0%Z under1 Hr1) as H4.
  destruct (exp_loop (String d0 r1') 0 under1) as [[e under2] r2].
  simpl in H4. destruct r2; [discriminate|reflexivity].
Qed.

Lemma fmt_go_eq : forall x y, Qeq x y -> fmt_go x = fmt_go y.
Proof.
  intros x y H. unfold fmt_go. rewrite (Qred_complete x y H). reflexivity.
Qed.

Theorem strconv_ok_C : strconv_ok fmt_go numericC parse_numC numokC.
Proof.
  constructor.
  - intros x H. unfold numokC in H. repeat (apply andb_true_iff in H; destruct H as [H ?]).
    apply negb_true_iff in H. intro E. rewrite E in H. discriminate.
  - intros x H. unfold numokC in H. repeat (apply andb_true_iff in H; destruct H as [H ?]). assumption.
  - intros x H. unfold numokC in H. repeat (apply andb_true_iff in H; destruct H as [H ?]). assumption.
  - intros x H. unfold numokC in H. repeat (apply andb_true_iff in H; destruct H as [H ?]).
    destruct (parse_numC (fmt_go x)) as [y|]; [|discriminate].
    exists y. split; [reflexivity|]. apply Qeq_bool_iff. assumption.
  - exact fmt_go_eq.
  - intros s H. unfold numericC. rewrite (classify_slash s H). reflexivity.
Qed.
