(** The executable strconv instance of Model/NewickNum.v satisfies the hypotheses
    [strconv_ok] of the round-trip theorem, for the numbers [numokC] on which its own
    FormatFloat/ParseFloat pair round-trips (a decidable check). *)
From Coq Require Import String Ascii ZArith QArith Bool Arith Lia List.
From GT Require Import Base.UTree Model.Newick Model.NewickNum Spec.NewickSpec
     Proofs.NewickLex Proofs.NewickCanon.
Import ListNotations.
Local Close Scope Q_scope.
Local Open Scope string_scope.

Definition is_slash (c : ascii) : bool := Ascii.eqb c "/".

Lemma no_slash_cons : forall c r, no_slash (String c r) = negb (is_slash c) && no_slash r.
Proof. reflexivity. Qed.

Lemma lower_slash : forall c, is_slash (lower c) = is_slash c.
Proof.
  intros c. unfold lower, is_slash.
  destruct (Nat.leb 65 (nat_of_ascii c) && Nat.leb (nat_of_ascii c) 90) eqn:E; [|reflexivity].
  apply andb_true_iff in E. destruct E as [E1 E2]. apply Nat.leb_le in E1. apply Nat.leb_le in E2.
  destruct (Ascii.eqb c "/") eqn:Ec.
  - apply Ascii.eqb_eq in Ec. subst c. change (nat_of_ascii "/") with 47 in E1. lia.
  - destruct (Ascii.eqb (ascii_of_nat (nat_of_ascii c + 32)) "/") eqn:E3; [|reflexivity].
    apply Ascii.eqb_eq in E3. apply (f_equal nat_of_ascii) in E3.
    rewrite nat_ascii_embedding in E3 by lia. change (nat_of_ascii "/") with 47 in E3. lia.
Qed.

Lemma lower_s_slash : forall s, no_slash (lower_s s) = no_slash s.
Proof.
  induction s; [reflexivity|]. simpl lower_s. rewrite !no_slash_cons, IHs.
  f_equal. f_equal. apply lower_slash.
Qed.

Lemma eqb_no_slash : forall s t, String.eqb s t = true -> no_slash t = true -> no_slash s = true.
Proof. intros s t H. apply String.eqb_eq in H. subst. auto. Qed.

Lemma special_no_slash : forall s, is_special s = true -> no_slash s = true.
Proof.
  intros s H. unfold is_special in H. rewrite <- lower_s_slash.
  destruct (lower_s s) as [|c r] eqn:E.
  - reflexivity.
  - apply orb_true_iff in H. destruct H as [H|H].
    + apply orb_true_iff in H.
      destruct (Ascii.eqb c "+" || Ascii.eqb c "-") eqn:Es.
      * rewrite no_slash_cons.
        assert (is_slash c = false).
        { unfold is_slash. apply orb_true_iff in Es. destruct Es as [Es|Es]; apply Ascii.eqb_eq in Es; subst; reflexivity. }
        rewrite H0. simpl. destruct H as [H|H]; eapply eqb_no_slash; try exact H; reflexivity.
      * destruct H as [H|H]; eapply eqb_no_slash; try exact H; reflexivity.
    + eapply eqb_no_slash; [exact H|reflexivity].
Qed.

Lemma dec_digit_not_slash : forall c d, dec_digit c = Some d -> is_slash c = false.
Proof.
  intros c d H. unfold dec_digit in H. unfold is_slash.
  destruct (Ascii.eqb c "/") eqn:E; [|reflexivity]. apply Ascii.eqb_eq in E. subst. discriminate.
Qed.

Lemma hex_digit_not_slash : forall c d, hex_digit c = Some d -> is_slash c = false.
Proof.
  intros c d H. unfold is_slash.
  destruct (Ascii.eqb c "/") eqn:E; [|reflexivity]. apply Ascii.eqb_eq in E. subst. discriminate.
Qed.

Definition rest6 {A B C D E} (x : A * B * C * D * E * string) : string := snd x.

Lemma mant_loop_slash : forall hex s m nd fd sawdot sawdig under,
    no_slash s = false -> no_slash (rest6 (mant_loop hex s m nd fd sawdot sawdig under)) = false.
Proof.
  induction s as [|c r IH]; intros m nd fd sawdot sawdig under H; [discriminate|].
  rewrite no_slash_cons in H. cbn [mant_loop].
  destruct (Ascii.eqb c "_") eqn:E1.
  { apply Ascii.eqb_eq in E1. subst c. simpl in H. apply IH. exact H. }
  destruct (Ascii.eqb c ".") eqn:E2.
  { apply Ascii.eqb_eq in E2. subst c. simpl in H.
    destruct sawdot; [unfold rest6; simpl; exact H|apply IH; exact H]. }
  destruct (if hex then hex_digit c else dec_digit c) as [d|] eqn:E3.
  - assert (is_slash c = false).
    { destruct hex; [eapply hex_digit_not_slash|eapply dec_digit_not_slash]; eassumption. }
    rewrite H0 in H. simpl in H. apply IH. exact H.
  - unfold rest6. simpl. rewrite no_slash_cons. exact H.
Qed.

Lemma exp_loop_slash : forall s e under,
    no_slash s = false -> no_slash (snd (exp_loop s e under)) = false.
Proof.
  induction s as [|c r IH]; intros e under H; [discriminate|].
  rewrite no_slash_cons in H. cbn [exp_loop].
  destruct (Ascii.eqb c "_") eqn:E1.
  { apply Ascii.eqb_eq in E1. subst c. simpl in H. apply IH. exact H. }
  destruct (dec_digit c) as [d|] eqn:E3.
  - rewrite (dec_digit_not_slash _ _ E3) in H. simpl in H. apply IH. exact H.
  - simpl. rewrite no_slash_cons. exact H.
Qed.

Lemma classify_slash : forall s, no_slash s = false -> classify s = NotNum.
Proof.
  intros s H. unfold classify.
  destruct (is_special s) eqn:Esp.
  { apply special_no_slash in Esp. congruence. }
  (* sign *)
  destruct (match s with
            | String c r => if Ascii.eqb c "+" then (false, r) else if Ascii.eqb c "-" then (true, r) else (false, s)
            | EmptyString => (false, s)
            end) as [neg s1] eqn:Esign.
  assert (H1 : no_slash s1 = false).
  { destruct s as [|c r]; [discriminate|].
    destruct (Ascii.eqb c "+") eqn:Ep.
    - inversion Esign; subst. apply Ascii.eqb_eq in Ep. subst c. rewrite no_slash_cons in H. exact H.
    - destruct (Ascii.eqb c "-") eqn:Em.
      + inversion Esign; subst. apply Ascii.eqb_eq in Em. subst c. rewrite no_slash_cons in H. exact H.
      + inversion Esign; subst. exact H. }
  (* hex prefix *)
  destruct (match s1 with
            | String z (String x (String c r)) =>
              if Ascii.eqb z "0" && Ascii.eqb (lower x) "x" then (true, String c r) else (false, s1)
            | _ => (false, s1)
            end) as [hex s2] eqn:Ehex.
  assert (H2 : no_slash s2 = false).
  { destruct s1 as [|z [|x [|c r]]]; try (inversion Ehex; subst; exact H1).
    destruct (Ascii.eqb z "0" && Ascii.eqb (lower x) "x") eqn:E0.
    - inversion Ehex; subst. apply andb_true_iff in E0. destruct E0 as [Ez Ex].
      apply Ascii.eqb_eq in Ez. subst z.
      rewrite !no_slash_cons in H1. simpl in H1.
      assert (is_slash x = false).
      { rewrite <- lower_slash. apply Ascii.eqb_eq in Ex. rewrite Ex. reflexivity. }
      rewrite H0 in H1. simpl in H1. rewrite no_slash_cons. exact H1.
    - inversion Ehex; subst. exact H1. }
  pose proof (mant_loop_slash hex s2 0%Z 0%Z 0%Z false false false H2) as H3.
  destruct (mant_loop hex s2 0 0 0 false false false) as [[[[[m nd] fd] sawdig] under1] s3] eqn:Em.
  unfold rest6 in H3. simpl in H3.
  destruct (negb sawdig); [reflexivity|].
  destruct s3 as [|c r]; [discriminate|].
  destruct (Ascii.eqb (lower c) (if hex then "p"%char else "e"%char)) eqn:Ee; [|reflexivity].
  assert (Hr : no_slash r = false).
  { rewrite no_slash_cons in H3.
    assert (is_slash c = false).
    { rewrite <- lower_slash. apply Ascii.eqb_eq in Ee. rewrite Ee. destruct hex; reflexivity. }
    rewrite H0 in H3. exact H3. }
  destruct (match r with
            | String sg r' => if Ascii.eqb sg "+" then (1%Z, r') else if Ascii.eqb sg "-" then ((-1)%Z, r') else (1%Z, r)
            | EmptyString => (1%Z, r)
            end) as [esign r1] eqn:Es.
  assert (Hr1 : no_slash r1 = false).
  { destruct r as [|sg r']; [discriminate|].
    destruct (Ascii.eqb sg "+") eqn:Ep.
    - inversion Es; subst. apply Ascii.eqb_eq in Ep. subst sg. rewrite no_slash_cons in Hr. exact Hr.
    - destruct (Ascii.eqb sg "-") eqn:Emn.
      + inversion Es; subst. apply Ascii.eqb_eq in Emn. subst sg. rewrite no_slash_cons in Hr. exact Hr.
      + inversion Es; subst. exact Hr. }
  destruct r1 as [|d0 r1']; [reflexivity|].
  destruct (dec_digit d0); [|reflexivity].
  pose proof (exp_loop_slash (String d0 r1') 0%Z under1 Hr1) as H4.
  destruct (exp_loop (String d0 r1') 0 under1) as [[e under2] r2].
  simpl in H4. destruct r2; [discriminate|reflexivity].
Qed.

Lemma fmt_go_eq : forall x y, Qeq x y -> fmt_go x = fmt_go y.
Proof.
  intros x y H. unfold fmt_go. rewrite (Qred_complete x y H). reflexivity.
Qed.

Theorem strconv_ok_C : strconv_ok fmt_go numericC parse_numC numokC.
Proof.
  constructor.
  - intros x H. unfold numokC in H. repeat (apply andb_true_iff in H; destruct H as [H ?]).
    apply negb_true_iff in H. intro E. rewrite E in H. discriminate.
  - intros x H. unfold numokC in H. repeat (apply andb_true_iff in H; destruct H as [H ?]). assumption.
  - intros x H. unfold numokC in H. repeat (apply andb_true_iff in H; destruct H as [H ?]). assumption.
  - intros x H. unfold numokC in H. repeat (apply andb_true_iff in H; destruct H as [H ?]).
    destruct (parse_numC (fmt_go x)) as [y|]; [|discriminate].
    exists y. split; [reflexivity|]. apply Qeq_bool_iff. assumption.
  - exact fmt_go_eq.
  - intros s H. unfold numericC. rewrite (classify_slash s H). reflexivity.
Qed.

(** * Every finite binary64 value is a number of the executable strconv model: its text
    (shortest candidate that reads back, by construction of the search; else the exact
    expansion, which [round64_pos] returns unchanged) is a clean token that reads back. *)
From GT Require Import Proofs.NewickFmt Proofs.NewickRound64.
Local Open Scope Z_scope.

Definition sgn_str (n : Z) : string := if n <? 0 then "-"%string else ""%string.

Lemma shortest_reads : forall fuel p k n d l j,
    shortest_from fuel p k n d = Some (l, j) -> 0 < l /\ reads l j n d = true.
Proof.
  induction fuel; intros p k n d l j H; [discriminate|].
  cbn [shortest_from] in H.
  destruct (strip10 20 (if 0 <=? k - p + 1 then n / (d * 10 ^ (k - p + 1)) else n * 10 ^ (- (k - p + 1)) / d) (k - p + 1)) as [l1 j1].
  destruct (strip10 20 ((if 0 <=? k - p + 1 then n / (d * 10 ^ (k - p + 1)) else n * 10 ^ (- (k - p + 1)) / d) + 1) (k - p + 1)) as [l2 j2].
  destruct ((0 <? l1) && reads l1 j1 n d)%bool eqn:E1;
    destruct ((0 <? l2) && reads l2 j2 n d)%bool eqn:E2; cbn [andb] in H.
  - apply andb_true_iff in E1. destruct E1 as [E1a E1b]. apply Z.ltb_lt in E1a.
    apply andb_true_iff in E2. destruct E2 as [E2a E2b]. apply Z.ltb_lt in E2a.
    repeat break_match_hyp; inversion H; subst; auto.
  - apply andb_true_iff in E1. destruct E1 as [E1a E1b]. apply Z.ltb_lt in E1a.
    inversion H; subst; auto.
  - apply andb_true_iff in E2. destruct E2 as [E2a E2b]. apply Z.ltb_lt in E2a.
    inversion H; subst; auto.
  - eapply IHfuel; eassumption.
Qed.

Lemma numch_num_char : forall s, forall_chars numch s = true -> forall_chars num_char s = true.
Proof.
  intros s H. eapply forall_chars_impl; [|exact H]. intros c Hc. apply numch_plain in Hc. tauto.
Qed.

(** a pair that reads back gives a number of the model *)
Lemma numokC_pair : forall x l j,
    Qnum (Qred x) <> 0 -> 0 < l ->
    reads l j (Z.abs (Qnum (Qred x))) (Zpos (Qden (Qred x))) = true ->
    fmt_go x = (sgn_str (Qnum (Qred x)) ++ fmt_digits l j)%string ->
    numokC x = true.
Proof.
  intros x l j Hn Hl Hr Hf. unfold numokC. pose proof (fmt_go_chars x) as Hch. rewrite Hf in *.
  unfold sgn_str in *.
  unfold reads in Hr. destruct (dec_round l j) as [r|] eqn:Er; [|discriminate].
  apply Qeq_bool_iff in Hr.
  assert (Hne : String.eqb (append (if (Qnum (Qred x) <? 0)%Z then "-"%string else ""%string) (fmt_digits l j)) ""%string = false).
  { destruct (fmt_digits_head l j Hl) as [c [r0 [Hb _]]]. rewrite Hb.
    destruct (Qnum (Qred x) <? 0); reflexivity. }
  rewrite Hne. rewrite (numch_num_char _ Hch).
  rewrite (numericC_fmt _ l j r Hl Er). rewrite parse_numC_fmt by assumption. rewrite Er.
  cbn [negb andb]. apply Qeq_bool_iff.
  apply Qeq_trans with (Qred x); [|apply Qred_correct]. destruct (Qred x) as [n d]. cbn [Qnum Qden] in *.
  rewrite Pos2Z.id in Hr. unfold neg_q.
  destruct (n <? 0) eqn:En.
  - apply Z.ltb_lt in En. rewrite Hr. unfold Qeq, Qopp. simpl. lia.
  - apply Z.ltb_ge in En. rewrite Hr. unfold Qeq. simpl. lia.
Qed.

Lemma pow2_divisor : forall m b, (0 <= m)%Z -> 0 < b -> (b | 2 ^ m) -> b = 2 ^ Z.log2 b.
Proof.
  intros m b Hm. revert b. pattern m. apply natlike_ind; [| |exact Hm].
  - intros b Hb Hdiv. change (2 ^ 0) with 1 in Hdiv.
    apply Z.divide_1_r_nonneg in Hdiv; [subst; reflexivity|lia].
  - intros m' Hm' IH b Hb Hdiv. rewrite Z.pow_succ_r in Hdiv by assumption.
    destruct (Z.even b) eqn:Ev.
    + apply Z.even_spec in Ev. destruct Ev as [c Hc]. subst b.
      apply Z.mul_divide_cancel_l in Hdiv; [|lia].
      assert (Hc : 0 < c) by lia.
      rewrite (Z.log2_double c Hc). rewrite Z.pow_succ_r by apply Z.log2_nonneg.
      rewrite <- (IH c Hc Hdiv). reflexivity.
    + apply IH; [exact Hb|].
      apply Znumtheory.Gauss with 2; [exact Hdiv|].
      apply Znumtheory.rel_prime_sym. apply Znumtheory.prime_rel_prime; [exact Znumtheory.prime_2|].
      intros [c Hc]. subst b. rewrite Z.even_mul in Ev. simpl in Ev. rewrite orb_true_r in Ev. discriminate.
Qed.

(** the exact expansion of a representable dyadic reads back *)
Lemma exact_reads : forall n d k s t,
    0 < n -> 0 < d -> 0 < k < 2 ^ 53 -> 0 <= s -> 0 <= t ->
    n * 2 ^ s = k * d * 2 ^ t -> -1074 <= t - s <= 971 ->
    d = 2 ^ Z.log2 d ->
    let '(l, j) := exact_pair n d in 0 < l /\ reads l j n d = true.
Proof.
  intros n d k s t Hn Hd Hk Hs Ht Hrep HE Hpow. unfold exact_pair.
  replace (d =? 2 ^ Z.log2 d) with true by (symmetry; apply Z.eqb_eq; exact Hpow).
  set (u := Z.log2 d) in *. assert (Hu : 0 <= u) by apply Z.log2_nonneg.
  assert (H5 : 0 < 5 ^ u) by (apply Z.pow_pos_nonneg; lia).
  assert (H10 : 10 ^ u = 2 ^ u * 5 ^ u) by (change 10 with (2 * 5); apply Z.pow_mul_l).
  split; [apply Z.mul_pos_pos; assumption|].
  unfold reads, dec_round.
  destruct (0 <=? - u) eqn:Eu.
  - apply Z.leb_le in Eu. assert (u = 0) by lia.
    assert (Hd1 : d = 1) by (rewrite Hpow, H; reflexivity).
    assert (Hl : (n * 5 ^ u * 10 ^ - u)%Z = n) by (rewrite H; simpl; lia). rewrite Hl.
    assert (Hrep1 : n * 2 ^ s = k * 1 * 2 ^ t) by (rewrite Hrep, Hd1; ring).
    destruct (round64_exact n 1 k s t Hn ltac:(lia) Hk Hs Ht Hrep1 HE) as [r [Hr Hq]].
    rewrite Hr. apply Qeq_bool_iff. rewrite Hq. rewrite Hd1. reflexivity.
  - apply Z.leb_gt in Eu.
    replace (- - u) with u by lia.
    assert (Hp10 : 0 < 10 ^ u) by (apply Z.pow_pos_nonneg; lia).
    assert (Hrep1 : n * 5 ^ u * 2 ^ s = k * 10 ^ u * 2 ^ t).
    { rewrite H10. rewrite Hpow in Hrep. replace (n * 5 ^ u * 2 ^ s) with (n * 2 ^ s * 5 ^ u) by ring.
      rewrite Hrep. ring. }
    destruct (round64_exact (n * 5 ^ u) (10 ^ u) k s t ltac:(lia) Hp10 Hk Hs Ht Hrep1 HE) as [r [Hr Hq]].
    rewrite Hr. apply Qeq_bool_iff. rewrite Hq. unfold Qeq. simpl.
    rewrite !Z2Pos.id by lia. rewrite H10. rewrite Hpow. ring.
Qed.

Lemma Qred_den_divides : forall a (b : positive), (Zpos (Qden (Qred (a # b))) | Zpos b).
Proof.
  intros a b. unfold Qred.
  pose proof (Z.ggcd_correct_divisors a (Zpos b)) as H.
  pose proof (Z.ggcd_gcd a (Zpos b)) as Hg.
  destruct (Z.ggcd a (Zpos b)) as [g [aa bb]]. simpl in *. destruct H as [_ Hb].
  assert (0 <= g) by (subst g; apply Z.gcd_nonneg).
  assert (0 < bb) by nia.
  rewrite Z2Pos.id by assumption. exists g. lia.
Qed.

Theorem numokC_repr : forall x k s t m,
    0 <= k < 2 ^ 53 -> 0 <= s -> 0 <= t ->
    Z.abs (Qnum x) * 2 ^ s = k * Zpos (Qden x) * 2 ^ t ->
    -1074 <= t - s <= 971 -> 0 <= m -> Zpos (Qden x) = 2 ^ m ->
    numokC x = true.
Proof.
  intros x k s t m Hk Hs Ht Hrep HE Hm Hden.
  pose proof (Qred_correct x) as Hq.
  destruct x as [a b]. cbn [Qnum Qden] in *.
  pose proof (Qred_den_divides a b) as Hdiv.
  remember (Qred (a # b)) as q' eqn:Eq'. destruct q' as [n d].
  unfold Qeq in Hq. cbn [Qnum Qden] in *.
  destruct (Z.eq_dec n 0) as [Hn0|Hn0].
  - (* zero *)
    unfold numokC, fmt_go. rewrite <- Eq'. cbn [Qnum]. subst n. cbn.
    apply Qeq_bool_iff. unfold Qeq. simpl. lia.
  - assert (Hd2 : Zpos d = 2 ^ Z.log2 (Zpos d)).
    { apply (pow2_divisor m); [exact Hm|lia|]. rewrite <- Hden. exact Hdiv. }
    assert (Hrep' : Z.abs n * 2 ^ s = k * Zpos d * 2 ^ t).
    { assert (Habs : Z.abs n * Zpos b = Z.abs a * Zpos d) by (pose proof (f_equal Z.abs Hq) as HH; rewrite !Z.abs_mul in HH; simpl in HH; exact HH).
      apply (Z.mul_reg_r _ _ (Zpos b)); [lia|].
      replace (Z.abs n * 2 ^ s * Zpos b) with (Z.abs n * Zpos b * 2 ^ s) by ring.
      rewrite Habs. replace (Z.abs a * Zpos d * 2 ^ s) with (Z.abs a * 2 ^ s * Zpos d) by ring.
      rewrite Hrep. ring. }
    assert (Hk0 : 0 < k).
    { destruct (Z.eq_dec k 0); [|lia]. subst k. pose proof (Z.pow_pos_nonneg 2 s ltac:(lia) Hs). nia. }
    pose proof (exact_reads (Z.abs n) (Zpos d) k s t ltac:(lia) ltac:(lia) ltac:(lia) Hs Ht Hrep' HE Hd2) as Hex.
    assert (Hpair : exists l j, 0 < l /\ reads l j (Z.abs n) (Zpos d) = true /\
                                fmt_go (a # b) = (sgn_str n ++ fmt_digits l j)%string).
    { unfold fmt_go. rewrite <- Eq'. cbn [Qnum Qden].
      replace (n =? 0) with false by (symmetry; apply Z.eqb_neq; exact Hn0).
      destruct (shortest_from 17 1 (log10_floor (Z.abs n) (Zpos d)) (Z.abs n) (Zpos d)) as [[l j]|] eqn:Es.
      - destruct (shortest_reads _ _ _ _ _ _ _ Es) as [Hl Hr]. exists l, j. auto.
      - destruct (exact_pair (Z.abs n) (Zpos d)) as [l j]. destruct Hex as [Hl Hr]. exists l, j. auto. }
    destruct Hpair as [l [j [Hl [Hr Hf]]]].
    apply (numokC_pair (a # b) l j); try rewrite <- Eq'; cbn [Qnum Qden]; assumption.
Qed.

(** the value  k * 2^E *)
Definition b64 (k E : Z) : Q :=
  if 0 <=? E then inject_Z (k * 2 ^ E) else Qmake k (Z.to_pos (2 ^ (- E))).

Theorem numokC_b64 : forall k E, Z.abs k < 2 ^ 53 -> -1074 <= E <= 971 -> numokC (b64 k E) = true.
Proof.
  intros k E Hk HE. unfold b64. destruct (0 <=? E) eqn:EE.
  - apply Z.leb_le in EE.
    apply (numokC_repr _ (Z.abs k) 0 E 0); try lia.
    + cbn [Qnum Qden inject_Z]. rewrite Z.abs_mul. rewrite (Z.abs_eq (2 ^ E)) by (apply Z.pow_nonneg; lia). ring.
    + reflexivity.
  - apply Z.leb_gt in EE.
    assert (0 < 2 ^ (- E)) by (apply Z.pow_pos_nonneg; lia).
    apply (numokC_repr _ (Z.abs k) (- E) 0 (- E)); try lia.
    + cbn [Qnum Qden]. rewrite Z2Pos.id by assumption. ring.
    + cbn [Qden]. rewrite Z2Pos.id by assumption. reflexivity.
Qed.

Corollary numokC_dyadic : forall k m, Z.abs k < 2 ^ 53 -> 0 <= m <= 1074 ->
    numokC (Qmake k (Z.to_pos (2 ^ m))) = true.
Proof.
  intros k m Hk Hm.
  assert (0 < 2 ^ m) by (apply Z.pow_pos_nonneg; lia).
  apply (numokC_repr _ (Z.abs k) m 0 m); try lia.
  - cbn [Qnum Qden]. rewrite Z2Pos.id by assumption. ring.
  - cbn [Qden]. rewrite Z2Pos.id by assumption. reflexivity.
Qed.
