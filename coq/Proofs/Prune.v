(** C06: Tree.RemoveTips ([remove_tips]): the loop over the tip list. *)
From Coq Require Import String ZArith QArith Bool Arith Lia List Permutation Setoid Morphisms.
From GT Require Import Base.UTree Spec.Obs Model.Reroot Spec.Unrooted Proofs.RerootBase Proofs.PruneBase
     Model.Prune Proofs.PruneStep Proofs.PruneSub Proofs.PruneRoot.
Import ListNotations.
Local Close Scope Q_scope.
Local Arguments n_up : simpl never.
Local Arguments depths : simpl never.
Local Arguments pairdists : simpl never.
Local Arguments leaves : simpl never.

(** the tips that must remain *)
Definition kept (revert : bool) (names : list string) (x : string) : bool := negb (selected revert names x).

Lemma Permutation_filter {A} (f : A -> bool) l l' : Permutation l l' -> Permutation (filter f l) (filter f l').
Proof.
  induction 1; simpl; auto.
  - destruct (f x); auto.
  - destruct (f x), (f y); auto. apply perm_swap.
  - etransitivity; eauto.
Qed.

Lemma NoDup_filter' {A} (f : A -> bool) l : NoDup l -> NoDup (filter f l).
Proof.
  induction 1; simpl; [constructor|]. destruct (f x); auto. constructor; auto.
  intros Hin. apply filter_In in Hin. tauto.
Qed.

Lemma NoDup_perm {A} (l l' : list A) : Permutation l l' -> NoDup l -> NoDup l'.
Proof. intros H. apply Permutation_NoDup. exact H. Qed.

Lemma filter_filter {A} (f g : A -> bool) l : filter f (filter g l) = filter (fun x => f x && g x) l.
Proof.
  induction l as [|x l IH]; simpl; auto. destruct (g x); simpl; rewrite ?andb_true_r, ?andb_false_r.
  - destruct (f x); now rewrite IH.
  - exact IH.
Qed.

Lemma fP_ext_in k1 k2 l :
  (forall a b d, In (a, b, d) l -> k1 a = k2 a /\ k1 b = k2 b) -> fP k1 l = fP k2 l.
Proof.
  unfold fP. induction l as [|[[a b] d] l IH]; simpl; intros H; auto.
  destruct (H a b d (or_introl eq_refl)) as [-> ->]. rewrite IH; auto.
  intros; eapply H; eauto.
Qed.

Lemma fP_true l : fP (fun _ => true) l = l.
Proof. apply fP_id. auto. Qed.
Lemma filter_true {A} (l : list A) : filter (fun _ => true) l = l.
Proof. induction l; simpl; congruence. Qed.

(** ** Tips() and the leaves *)
Lemma tips_sub c : wf_sub c = true -> map uname (tips c) = leaves c.
Proof.
  induction c as [n cm sl IH] using utree_ind'. intros Hwf.
  rewrite wf_sub_unfold in Hwf. apply andb_true_iff in Hwf. destruct Hwf as [Hup Hwk].
  apply Nat.eqb_eq in Hup. rewrite leaves_unfold.
  assert (E : map uname (flat_map (fun s : slot => match s with Some (_, c) => tips c | None => [] end) sl) =
              kleaves (kids_of sl)).
  { clear Hup. induction sl as [|[[e ch]|] r IHr]; simpl in *; auto.
    - apply andb_true_iff in Hwk. destruct Hwk as [H1 H2]. inversion IH; subst.
      rewrite map_app, H3, IHr; auto.
    - inversion IH; subst. auto. }
  simpl tips. rewrite map_app, E. unfold is_tip, degree. simpl uslots.
  generalize (length_slots sl). rewrite Hup. intros El.
  destruct (kids_of sl) eqn:Ek.
  - simpl in El. rewrite El. simpl. reflexivity.
  - simpl in El. rewrite El. simpl. reflexivity.
Qed.

Lemma tip_names_leaves t : wf t = true -> 2 <= degree t -> tip_names t = leaves t.
Proof.
  destruct t as [n cm sl]. intros Hwf Hdeg. unfold degree in Hdeg. simpl in Hdeg.
  rewrite wf_unfold in Hwf. apply andb_true_iff in Hwf. destruct Hwf as [Hup Hwk].
  apply Nat.eqb_eq in Hup. unfold tip_names. rewrite leaves_unfold.
  assert (E : map uname (flat_map (fun s : slot => match s with Some (_, c) => tips c | None => [] end) sl) =
              kleaves (kids_of sl)).
  { clear Hup Hdeg. induction sl as [|[[e ch]|] r IHr]; simpl in *; auto.
    apply andb_true_iff in Hwk. destruct Hwk as [H1 H2].
    rewrite map_app, tips_sub, IHr; auto. }
  simpl tips. rewrite map_app, E. unfold is_tip, degree. simpl uslots.
  destruct (Nat.eqb (length sl) 1) eqn:E1; [apply Nat.eqb_eq in E1; lia|].
  generalize (length_slots sl). rewrite Hup. intros El.
  destruct (kids_of sl); [simpl in El; lia|reflexivity].
Qed.

(** ** the loop *)
Section Loop.
  Variable revert : bool.
  Variable names : list string.
  Notation w := len0.

  Definition pending (todo : list string) (x : string) : bool :=
    negb (name_in x todo && selected revert names x).

  Lemma pending_cons_sel nm r x :
    selected revert names nm = true -> pending (nm :: r) x = pending r x && knm nm x.
  Proof.
    intros Hs. unfold pending, name_in, knm. simpl.
    destruct (String.eqb x nm) eqn:E.
    - apply String.eqb_eq in E. subst. rewrite Hs. simpl. now rewrite andb_false_r.
    - simpl. now rewrite andb_true_r.
  Qed.

  Lemma pending_cons_unsel nm r x :
    selected revert names nm = false -> pending (nm :: r) x = pending r x.
  Proof.
    intros Hs. unfold pending, name_in. simpl.
    destruct (String.eqb x nm) eqn:E; auto.
    apply String.eqb_eq in E. subst. rewrite Hs. now rewrite !andb_false_r.
  Qed.

  Lemma remove_loop_ok : forall todo t t',
      wf t = true -> no_single t = true -> degree t <> 1 -> NoDup (leaves t) ->
      remove_loop revert names todo t = Ok t' ->
      wf t' = true /\ no_single t' = true /\ degree t' <> 1 /\
      Permutation (leaves t') (filter (pending todo) (leaves t)) /\
      dists_equiv (pairdists w t') (fP (pending todo) (pairdists w t)).
  Proof.
    induction todo as [|nm r IH]; intros t t' Hwf Hns Hdeg Hnd Hl.
    - simpl in Hl. injection Hl as Heq. subst t'. repeat split; auto.
      + unfold pending. simpl. now rewrite filter_true.
      + unfold pending. simpl. now rewrite fP_true.
    - simpl in Hl. destruct (negb (has_tip nm t)); [discriminate|].
      destruct (selected revert names nm) eqn:Hs.
      + destruct (remove_tip nm t) as [t1|m] eqn:Hrm; [|discriminate].
        destruct (remove_tip_ok nm t t1 Hwf Hns Hdeg Hnd Hrm) as [Hwf1 [Hns1 [Hdeg1 [Hin [Hlv Hpd]]]]].
        assert (Hnd1 : NoDup (leaves t1)).
        { eapply NoDup_perm; [symmetry; exact Hlv|]. now apply NoDup_filter'. }
        destruct (IH t1 t' Hwf1 Hns1 Hdeg1 Hnd1 Hl) as [Hwf' [Hns' [Hdeg' [Hlv' Hpd']]]].
        repeat split; auto.
        * rewrite Hlv'. rewrite (Permutation_filter _ _ _ Hlv), filter_filter.
          erewrite filter_ext; [reflexivity|]. intros x. symmetry. now apply pending_cons_sel.
        * etransitivity; [exact Hpd'|].
          etransitivity; [apply fP_dists_equiv, Hpd|].
          rewrite fP_fP. erewrite fP_ext; [reflexivity|]. intros x. symmetry. now apply pending_cons_sel.
      + destruct (IH t t' Hwf Hns Hdeg Hnd Hl) as [Hwf' [Hns' [Hdeg' [Hlv' Hpd']]]].
        repeat split; auto.
        * rewrite Hlv'. erewrite filter_ext; [reflexivity|]. intros x. symmetry. now apply pending_cons_unsel.
        * etransitivity; [exact Hpd'|]. erewrite fP_ext; [reflexivity|].
          intros x. symmetry. now apply pending_cons_unsel.
  Qed.

  Lemma name_in_In x l : In x l -> name_in x l = true.
  Proof.
    unfold name_in. intros H. apply existsb_exists. exists x. split; auto. apply String.eqb_refl.
  Qed.

  (** Tree.RemoveTips *)
  Theorem remove_tips_ok t t' :
    wf t = true -> no_single t = true -> 2 <= degree t -> NoDup (leaves t) ->
    remove_tips revert names t = Ok t' ->
    wf t' = true /\ no_single t' = true /\
    Permutation (leaves t') (filter (kept revert names) (leaves t)) /\
    dists_equiv (pairdists w t') (fP (kept revert names) (pairdists w t)).
  Proof.
    intros Hwf Hns Hdeg Hnd Hr. unfold remove_tips in Hr.
    destruct (remove_loop revert names (tip_names t) t) as [t1|m] eqn:Hl; [|discriminate].
    destruct (update_tip_index t1); [|discriminate]. injection Hr as Heq. subst t'.
    rewrite tip_names_leaves in Hl by auto.
    destruct (remove_loop_ok _ _ _ Hwf Hns ltac:(lia) Hnd Hl) as [Hwf' [Hns' [_ [Hlv Hpd]]]].
    repeat split; auto.
    - rewrite Hlv. erewrite filter_ext_in; [reflexivity|]. intros x Hx.
      unfold pending, kept. now rewrite name_in_In.
    - etransitivity; [exact Hpd|]. erewrite fP_ext_in; [reflexivity|].
      intros x1 x2 d Hin. apply pairdists_names in Hin. destruct Hin as [Ha Hb].
      unfold pending, kept. now rewrite !name_in_In.
  Qed.

  (** the name table after a successful RemoveTips lists exactly the remaining tips
      (whenever at least two remain) *)
  Theorem remove_tips_index t t' :
    wf t = true -> no_single t = true -> 2 <= degree t -> NoDup (leaves t) ->
    remove_tips revert names t = Ok t' -> 2 <= length (leaves t') ->
    Permutation (tip_index_after (tip_names t) t') (filter (kept revert names) (leaves t)) /\
    NoDup (tip_index_after (tip_names t) t').
  Proof.
    intros Hwf Hns Hdeg Hnd Hr H2.
    destruct (remove_tips_ok t t' Hwf Hns Hdeg Hnd Hr) as [Hwf' [Hns' [Hlv _]]].
    assert (Hdeg' : 2 <= degree t').
    { unfold remove_tips in Hr.
      destruct (remove_loop revert names (tip_names t) t) as [t1|m] eqn:Hl; [|discriminate].
      destruct (update_tip_index t1); [|discriminate]. injection Hr as Heq. subst t'.
      rewrite tip_names_leaves in Hl by auto.
      destruct (remove_loop_ok _ _ _ Hwf Hns ltac:(lia) Hnd Hl) as [_ [_ [Hd1 _]]].
      destruct t1 as [n1 c1 sl1]. unfold degree in *. simpl in *.
      destruct sl1 as [|s1 [|s2 r]]; simpl in *; try lia.
      all: try (rewrite leaves_unfold in H2; simpl in H2; lia). }
    unfold tip_index_after. rewrite tip_names_leaves by auto. split; auto.
    eapply NoDup_perm; [symmetry; exact Hlv|]. now apply NoDup_filter'.
  Qed.
End Loop.
