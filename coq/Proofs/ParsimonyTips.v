(** Tip states are never altered (randomResolve = false). *)
From Coq Require Import String ZArith QArith Bool Arith Lia List.
From GT Require Import Base.UTree Spec.Obs Spec.Parsimony Model.Reroot Model.Parsimony
     Proofs.ParsimonyVec Proofs.ParsimonyHartigan Proofs.ParsimonyReroot Proofs.ParsimonyCtx
     Proofs.ParsimonyDown Proofs.ParsimonyFinal.
Import ListNotations.
Local Close Scope Q_scope.

(** same shape, same vectors at the tips *)
Fixpoint vsame (a b : vtree) : Prop :=
  match a, b with
  | VNode v1 k1, VNode v2 k2 =>
    (k1 = [] -> v1 = v2) /\
    (fix go (l1 l2 : list vtree) : Prop :=
       match l1, l2 with
       | [], [] => True
       | x :: r1, y :: r2 => vsame x y /\ go r1 r2
       | _, _ => False
       end) k1 k2
  end.

Definition vsame_list : list vtree -> list vtree -> Prop :=
  fix go (l1 l2 : list vtree) : Prop :=
    match l1, l2 with
    | [], [] => True
    | x :: r1, y :: r2 => vsame x y /\ go r1 r2
    | _, _ => False
    end.

Lemma vsame_unfold : forall v1 k1 v2 k2,
  vsame (VNode v1 k1) (VNode v2 k2) <-> ((k1 = [] -> v1 = v2) /\ vsame_list k1 k2).
Proof. intros. simpl. tauto. Qed.

Lemma vsame_list_map : forall (f : vtree -> vtree) l,
  Forall (fun c => vsame c (f c)) l -> vsame_list l (map f l).
Proof. induction 1; simpl; auto. Qed.

Lemma vsame_refl : forall a, vsame a a.
Proof.
  induction a using vtree_ind'. apply vsame_unfold. split; [auto|].
  induction H; simpl; auto.
Qed.

Lemma vsame_list_trans : forall l1 l2 l3,
  Forall (fun a => forall b c, vsame a b -> vsame b c -> vsame a c) l1 ->
  vsame_list l1 l2 -> vsame_list l2 l3 -> vsame_list l1 l3.
Proof.
  induction l1 as [|a l1 IH]; intros [|b l2] [|c l3] Hf H12 H23; simpl in *; try tauto.
  inversion Hf; subst. destruct H12, H23. split; eauto.
Qed.

Lemma vsame_trans : forall a b c, vsame a b -> vsame b c -> vsame a c.
Proof.
  induction a using vtree_ind'. intros [v2 k2] [v3 k3] H12 H23.
  apply vsame_unfold in H12. apply vsame_unfold in H23. apply vsame_unfold.
  destruct H12 as [E12 L12]. destruct H23 as [E23 L23]. split.
  - intros Hk. subst ks. destruct k2; [|simpl in L12; tauto].
    rewrite E12, E23; auto.
  - eapply vsame_list_trans; eauto.
Qed.

Lemma vsame_list_nth : forall l1 l2 j a, vsame_list l1 l2 -> nth_error l1 j = Some a ->
  exists b, nth_error l2 j = Some b /\ vsame a b.
Proof.
  induction l1 as [|x l1 IH]; intros [|y l2] j a H Hn; simpl in H; try tauto.
  - destruct j; discriminate.
  - destruct H as [Hxy Hr]. destruct j; simpl in *.
    + inversion Hn; subst. eauto.
    + eauto.
Qed.

(** the passes *)
Lemma downpass_vsame : forall k vt isroot up, vsame vt (downpass isroot up k vt).
Proof.
  induction vt using vtree_ind'. intros isroot up.
  destruct ks as [|c0 ks]; [apply vsame_refl|].
  rewrite downpass_node. cbv zeta. apply vsame_unfold. split; [discriminate|].
  generalize 0. generalize (map vroot (c0 :: ks)). generalize (if isroot then [] else [up]).
  induction H as [|c l Hc Hl IH]; intros basem roots s; simpl; auto.
Qed.

Lemma deltran_cons : forall par v c0 ks,
  deltran par (VNode v (c0 :: ks)) =
  VNode (match par with Some p => refine p v | None => v end)
        (map (deltran (Some (match par with Some p => refine p v | None => v end))) (c0 :: ks)).
Proof. reflexivity. Qed.

Lemma deltran_vsame : forall vt par, vsame vt (deltran par vt).
Proof.
  induction vt using vtree_ind'. intros par.
  destruct ks as [|c0 ks]; [apply vsame_refl|].
  rewrite deltran_cons. apply vsame_unfold. split; [discriminate|].
  apply (vsame_list_map (deltran _)). eapply Forall_impl; [|exact H]. intros a Ha. apply Ha.
Qed.

(** the vectors held by the tips of a vtree *)
Fixpoint vtips (vt : vtree) : list vec :=
  match vt with
  | VNode v ks => match ks with [] => [v] | _ => flat_map vtips ks end
  end.

(** ACCTRAN: the vector given to a tip child is its own when tips are skipped, or when the
    tip vector cannot be narrowed *)
Lemma acctran_vsame : forall k skip vt v',
  (skip = true \/ forall v, In v (vtips vt) -> forall p, good k p -> refine p v = v) ->
  good k v' -> vall (good k) vt ->
  (vkids vt = [] -> v' = vroot vt) ->
  vsame vt (acctran skip v' vt).
Proof.
  induction vt using vtree_ind'. intros v' Hst Gv' Hg Hroot.
  simpl acctran. apply vsame_unfold. split; [intros E; subst ks; symmetry; apply Hroot; reflexivity|].
  apply vall_node in Hg. destruct Hg as [Gv Gk].
  apply (vsame_list_map (fun c => acctran skip _ c)).
  rewrite Forall_forall in *. intros c Hc.
  assert (Hsub : forall w, In w (vtips c) -> In w (vtips (VNode v ks))).
  { intros w Hw. simpl. destruct ks as [|k0 ks']; [destruct Hc|]. apply in_flat_map. eauto. }
  assert (Gc : good k (vroot c)).
  { specialize (Gk c Hc). apply Gk. destruct c; simpl; auto. }
  apply (H c Hc).
  - destruct Hst as [Hs|Hs]; [left; exact Hs | right].
    intros w Hw. apply Hs. apply Hsub. exact Hw.
  - destruct (skip && is_vtip c); [exact Gc | apply refine_good; assumption].
  - apply Gk. exact Hc.
  - intros Ek. destruct c as [vc kc]. simpl in Ek. subst kc. simpl.
    destruct Hst as [Hs|Hs].
    + subst skip. reflexivity.
    + destruct skip; simpl; [reflexivity|].
      apply Hs; [|exact Gv']. apply Hsub. simpl. left. reflexivity.
Qed.

(** * reading a vtree along a path *)
Fixpoint vsub (t : utree) (vt : vtree) (p : list nat) : option vtree :=
  match p with
  | [] => Some vt
  | i :: q => match nth_error (uslots t) i with
              | Some (Some (_, c)) =>
                match nth_error (vkids vt) (kidx (uslots t) i) with
                | Some vc => vsub c vc q
                | None => None
                end
              | _ => None
              end
  end.

Lemma vec_at_vsub : forall p t vt, vec_at t vt p = match vsub t vt p with Some s => Some (vroot s) | None => None end.
Proof.
  induction p as [|i p IH]; intros t vt; simpl; [reflexivity|].
  destruct (nth_error (uslots t) i) as [[[e c]|]|]; auto.
  destruct (nth_error (vkids vt) (kidx (uslots t) i)); auto.
Qed.

Lemma vsame_vsub : forall p t a b v, vsame a b -> vsub t a p = Some (VNode v []) ->
  vsub t b p = Some (VNode v []).
Proof.
  induction p as [|i p IH]; intros t a b v Hs Ha; simpl in *.
  - inversion Ha; subst a. destruct b as [v2 k2]. apply vsame_unfold in Hs.
    destruct Hs as [E L]. destruct k2; [|simpl in L; tauto]. rewrite E; auto.
  - destruct (nth_error (uslots t) i) as [[[e c]|]|]; try discriminate.
    destruct a as [v1 k1]. destruct b as [v2 k2]. apply vsame_unfold in Hs. destruct Hs as [_ L].
    simpl in *.
    destruct (nth_error k1 (kidx (uslots t) i)) as [ac|] eqn:E1; [|discriminate].
    destruct (vsame_list_nth k1 k2 _ ac L E1) as [bc [E2 Hsc]]. rewrite E2. eauto.
Qed.

Section Tips.
Variable tv : string -> vec.
Variable k : nat.

(** the up-pass gives a tip the vector of its name and no children *)
Lemma uppass_tip : forall q t x,
  (wf_sub t = true \/ (wf t = true /\ 2 <= degree t)) ->
  node_at t q = Some x -> is_leaf x = true ->
  vsub t (fst (uppass tv k t)) q = Some (VNode (tv (uname x)) []).
Proof.
  induction q as [|i q IH]; intros t x Hw Hq Hx.
  - simpl in Hq. inversion Hq; subst x. simpl. destruct t as [n cm sl].
    destruct Hw as [Hw|[Hw Hd]].
    + rewrite uppass_unfold, (wf_sub_tip_leaf n cm sl Hw), Hx. reflexivity.
    + exfalso. unfold degree in Hd. simpl in Hd, Hw. apply andb_prop in Hw. destruct Hw as [Hu _].
      apply Nat.eqb_eq in Hu. pose proof (length_up_kids sl).
      unfold is_leaf, kids in Hx. simpl in Hx. destruct (kids_of sl); [simpl in *; lia | discriminate].
  - destruct t as [n cm sl]. simpl in Hq.
    destruct (nth_error sl i) as [[[e d]|]|] eqn:Ei; try discriminate.
    assert (Hnt : Nat.eqb (length sl) 1 = false /\ wf_sub d = true).
    { destruct Hw as [Hw|[Hw Hd]].
      - split.
        + rewrite (wf_sub_tip_leaf n cm sl Hw). unfold is_leaf, kids. simpl.
          pose proof (kids_of_nth sl i _ Ei). destruct (kids_of sl); simpl in *; [lia | reflexivity].
        + pose proof (wf_sub_slots n cm sl Hw) as Hs. rewrite Forall_forall in Hs.
          apply (Hs _ (nth_error_In _ _ Ei)).
      - split.
        + unfold degree in Hd. simpl in Hd. apply Nat.eqb_neq. lia.
        + pose proof (wf_slots n cm sl Hw) as Hs. rewrite Forall_forall in Hs.
          apply (Hs _ (nth_error_In _ _ Ei)). }
    destruct Hnt as [Hnt Hwd].
    rewrite uppass_unfold, Hnt. cbv zeta. simpl fst. simpl vsub. rewrite Ei.
    rewrite nth_error_map, (kid_results_nth tv k sl i e d Ei). simpl.
    apply IH; auto.
Qed.

(** the tip vectors of the up-pass are those of the leaves *)
Lemma uppass_vtips : forall t v,
  (wf_sub t = true \/ (wf t = true /\ 2 <= degree t)) ->
  In v (vtips (fst (uppass tv k t))) -> exists n, In n (leaves t) /\ v = tv n.
Proof.
  induction t using utree_ind'. intros v Hw Hv.
  rewrite uppass_unfold in Hv.
  destruct (Nat.eqb (length sl) 1) eqn:E.
  - simpl in Hv. destruct Hv as [Hv|[]]. subst v. exists n. split; [|reflexivity].
    destruct Hw as [Hw|[Hw Hd]].
    + rewrite (wf_sub_tip_leaf n c sl Hw) in E. simpl. unfold is_leaf, kids in E. simpl in E.
      destruct (kids_of sl); [left; reflexivity | discriminate].
    + apply Nat.eqb_eq in E. unfold degree in Hd. simpl in Hd. lia.
  - cbv zeta in Hv. simpl fst in Hv. simpl vtips in Hv.
    assert (Hsl : Forall (fun s => match s with Some (_, d) => wf_sub d = true | None => True end) sl).
    { destruct Hw as [Hw|[Hw _]]; [eapply wf_sub_slots | eapply wf_slots]; eauto. }
    destruct (map fst (kid_results tv k sl)) as [|k0 ks'] eqn:Ek.
    + (* no child: the node itself counts as a tip of the vtree; it is a leaf *)
      simpl in Hv. destruct Hv as [Hv|[]].
      assert (kid_results tv k sl = []) by (destruct (kid_results tv k sl); [reflexivity | discriminate]).
      assert (kids_of sl = []).
      { destruct (kids_of sl) eqn:Q; [reflexivity|]. exfalso.
        apply (kid_results_nonempty tv k sl); [rewrite Q; discriminate | assumption]. }
      (* then sl consists of parent slots only; with length <> 1 this contradicts well-formedness *)
      exfalso. pose proof (length_up_kids sl) as L. rewrite H1 in L. simpl in L.
      destruct Hw as [Hw|[Hw Hd]].
      * simpl in Hw. apply andb_prop in Hw. destruct Hw as [Hu _]. apply Nat.eqb_eq in Hu.
        apply Nat.eqb_neq in E. lia.
      * simpl in Hw. apply andb_prop in Hw. destruct Hw as [Hu _]. apply Nat.eqb_eq in Hu.
        unfold degree in Hd. simpl in Hd. lia.
    + rewrite <- Ek in Hv. apply in_flat_map in Hv. destruct Hv as [vc [Hvc Hv]].
      apply in_map_iff in Hvc. destruct Hvc as [r [Er Hr]]. subst vc.
      unfold kid_results in Hr. apply in_flat_map in Hr. destruct Hr as [[[e d]|] [Hin Hr]]; [|destruct Hr].
      destruct Hr as [Hr|[]]. subst r.
      rewrite Forall_forall in H, Hsl.
      destruct (H _ Hin v (or_introl (Hsl _ Hin)) Hv) as [m [Hm Em]].
      exists m. split; [|exact Em]. eapply leaves_child; eauto.
Qed.

(** C12: without random resolution, the state (set) of a tip is never altered.
    DOWNPASS, DELTRAN, no second pass: always.  ACCTRAN: when tips are skipped (sequence
    variant), or when no tip vector can be narrowed (single states: character variant). *)
Theorem tips_unaltered : forall ts skip a T q x v,
  wf T = true -> 2 <= degree T ->
  (forall n, In n (leaves T) -> tip_ok tv ts k n) ->
  (a = Acctran -> skip = true \/
                  forall n, In n (leaves T) -> forall p, good k p -> refine p (tv n) = tv n) ->
  node_at T q = Some x -> is_leaf x = true ->
  vec_at T (fst (parsimony skip tv k a T)) q = Some v -> v = tv (uname x).
Proof.
  intros ts skip a T q x v Hwf Hd Htips Hacc Hq Hx Hv.
  destruct (root_facts tv ts k T Hwf Hd Htips) as [Htip _].
  pose proof (uppass_tip q T x (or_intror (conj Hwf Hd)) Hq Hx) as Hu.
  pose proof (uppass_good_root tv ts k T Hwf Hd Htips) as Gu.
  unfold parsimony in Hv. rewrite Htip in Hv.
  destruct (uppass tv k T) as [u s] eqn:Eu. simpl in Hv, Hu, Gu.
  assert (Hs : vsame u (passes skip a k u)).
  { destruct a; simpl.
    - eapply vsame_trans; [apply downpass_vsame | apply deltran_vsame].
    - apply (acctran_vsame k); auto.
      + destruct (Hacc eq_refl) as [Hs|Hs]; [left; exact Hs | right].
        intros w Hw p Gp.
        replace u with (fst (uppass tv k T)) in Hw by (rewrite Eu; reflexivity).
        destruct (uppass_vtips T w (or_intror (conj Hwf Hd)) Hw) as [m [Hm Em]]. subst w. apply Hs; auto.
      + apply Gu. destruct u; simpl; auto.
    - apply downpass_vsame.
    - apply vsame_refl. }
  rewrite vec_at_vsub in Hv. rewrite (vsame_vsub q T u _ _ Hs Hu) in Hv. inversion Hv. reflexivity.
Qed.

End Tips.
