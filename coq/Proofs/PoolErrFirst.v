(** FBP's mutex hand-over (Model/PoolErr.v), the other half: when wg.Wait() returns and some tree
    was erroneous, the shared variable err is set, to the error of an erroneous tree, and it is
    the FIRST one written (once set it never changes). *)
From Coq Require Import Bool Arith Lia List.
From GT Require Import Model.Pool Model.PoolErr Proofs.Pool Proofs.PoolErr.
Import ListNotations.

Local Arguments epending {job err} _.
Local Arguments eclosed {job err} _.
Local Arguments equeue {job err} _.
Local Arguments ews {job err} _.
Local Arguments emutex {job err} _.
Local Arguments efirst {job err} _.
Local Arguments echan {job err} _.
Local Arguments mkE {job err}.
Local Arguments eproducer_step {job err}.
Local Arguments eworker_step {job err}.
Local Arguments estep {job err}.
Local Arguments erun {job err}.
Local Arguments einit {job err}.
Local Arguments efinished {job err} _.
Local Arguments e_exited {job} _.
Local Arguments eworker_step_spec {job err}.
Local Arguments ncrit {job} _.
Local Arguments in_crit {job} _.
Local Arguments ncrit_mid {job}.

Section First.
  Variables (job err : Type).
  Variable fails : job -> bool.
  Variable e_of : job -> err.

  Local Notation state := (est job err).
  Local Notation wst := (estate job).
  Local Notation stepf := (estep fails e_of ByMutex).
  Local Notation runf := (erun fails e_of ByMutex).

  Definition bz (w : wst) : list job := match w with EBusy j => [j] | _ => [] end.
  Definition busyE (l : list wst) : list job := flat_map bz l.
  Definition nf (l : list job) : nat := length (filter fails l).

  Lemma nf_app l1 l2 : nf (l1 ++ l2) = nf l1 + nf l2.
  Proof. unfold nf. now rewrite filter_app, app_length. Qed.
  Lemma nf_cons j l : nf (j :: l) = (if fails j then 1 else 0) + nf l.
  Proof. unfold nf. simpl. destruct (fails j); reflexivity. Qed.
  Lemma busyE_mid l1 w l2 : busyE (l1 ++ w :: l2) = busyE l1 ++ bz w ++ busyE l2.
  Proof. unfold busyE. rewrite flat_map_app. reflexivity. Qed.
  Lemma nf_pos j l : In j l -> fails j = true -> 0 < nf l.
  Proof.
    intros Hi Hf. unfold nf. assert (In j (filter fails l)) as H by (apply filter_In; auto).
    destruct (filter fails l); [destruct H|simpl; lia].
  Qed.

  Variable jobs : list job.
  Variable n : nat.

  Record einv (s : state) : Prop := mkEI {
    ei_closed : eclosed s = true -> epending s = [];
    ei_len : length (ews s) = n;
    ei_quiet : efirst s = None -> ncrit (ews s) = 0 ->
               (In EExited (ews s) -> eclosed s = true /\ equeue s = [])
               /\ nf jobs = nf (busyE (ews s)) + nf (equeue s) + nf (epending s);
    ei_leave : In ELeave (ews s) -> efirst s <> None;
    ei_first : forall x, efirst s = Some x -> exists j, In j jobs /\ fails j = true /\ x = e_of j;
    ei_crit : forall j, In (ECrit j) (ews s) -> In j jobs /\ fails j = true;
    ei_mem : forall j, In j (epending s ++ equeue s ++ busyE (ews s)) -> In j jobs
  }.

  Lemma einv_init : einv (einit jobs n).
  Proof.
    assert (B : busyE (repeat EIdle n) = []) by (induction n; simpl; auto).
    assert (C : ncrit (repeat (@EIdle job) n) = 0) by (unfold ncrit; induction n; simpl; auto).
    split; simpl; try rewrite B; simpl.
    - discriminate.
    - apply repeat_length.
    - intros _ _. split.
      + intros H. apply repeat_spec in H. discriminate.
      + unfold nf. simpl. lia.
    - intros H. apply repeat_spec in H. discriminate.
    - discriminate.
    - intros j H. apply repeat_spec in H. discriminate.
    - intros j H. rewrite app_nil_r in H. exact H.
  Qed.

  Ltac inapp := repeat rewrite in_app_iff in *; simpl in *; tauto.

  Lemma einv_step s a : einv s -> einv (stepf s a).
  Proof.
    intros Hs. pose proof Hs as [Hc Hl Hq Hlv Hf Hcr Hm].
    destruct a as [|i]; simpl.
    - unfold eproducer_step. destruct (epending s) as [|j p] eqn:P.
      + split; simpl; auto. intros E N. destruct (Hq E N) as [X Y]. split; auto.
        intros H. destruct (X H). auto.
      + split; simpl; auto.
        * intros C. specialize (Hc C). discriminate.
        * intros E N. destruct (Hq E N) as [X Y]. split.
          -- intros H. destruct (X H) as [C _]. specialize (Hc C). discriminate.
          -- rewrite nf_app, nf_cons in *. unfold nf at 4. simpl. lia.
        * intros j' H. apply Hm. inapp.
    - destruct (eworker_step_spec fails e_of ByMutex s i) as
        [ | l1 l2 j q Hw Hi Q | l1 l2 Hw Hi Q C | l1 l2 j Hw Hi F | l1 l2 j Hw Hi F Mo Mx
          | l1 l2 j Hw Hi F Mo L | l1 l2 j Hw Hi | l1 l2 Hw Hi ]; [exact Hs| | | | | | | ];
        rewrite Hw in *; try rewrite ?busyE_mid, ?ncrit_mid in *; simpl in *.
      + (* take *)
        split; simpl; auto.
        * rewrite <- Hl. rewrite !app_length. reflexivity.
        * rewrite ncrit_mid. simpl. intros E N. destruct (Hq E N) as [X Y]. split.
          -- intros H. destruct X as [_ X]; [|rewrite Q in X; discriminate].
             eapply in_mid_swap; eauto. discriminate.
          -- rewrite busyE_mid. simpl. rewrite Q in Y. rewrite !nf_app, !nf_cons in *.
             unfold nf at 3. simpl. unfold nf at 3 in Y. simpl in Y. lia.
        * intros H. apply Hlv. eapply in_mid_swap; eauto. discriminate.
        * intros j' H. apply Hcr. eapply in_mid_swap; eauto. discriminate.
        * intros j' H. apply Hm. rewrite busyE_mid in H. rewrite Q. inapp.
      + (* exit *)
        split; simpl; auto.
        * rewrite <- Hl. rewrite !app_length. reflexivity.
        * rewrite ncrit_mid. simpl. intros E N. destruct (Hq E N) as [X Y]. split; auto.
          rewrite busyE_mid. simpl. rewrite Q in Y. exact Y.
        * intros H. apply Hlv. eapply in_mid_swap; eauto. discriminate.
        * intros j' H. apply Hcr. eapply in_mid_swap; eauto. discriminate.
        * intros j' H. apply Hm. rewrite busyE_mid in H. rewrite Q. inapp.
      + (* a good tree *)
        split; simpl; auto.
        * rewrite <- Hl. rewrite !app_length. reflexivity.
        * rewrite ncrit_mid. simpl. intros E N. destruct (Hq E N) as [X Y]. split.
          -- intros H. apply X. eapply in_mid_swap; eauto. discriminate.
          -- rewrite busyE_mid. simpl. rewrite !nf_app, !nf_cons, F in *. exact Y.
        * intros H. apply Hlv. eapply in_mid_swap; eauto. discriminate.
        * intros j' H. apply Hcr. eapply in_mid_swap; eauto. discriminate.
        * intros j' H. apply Hm. rewrite busyE_mid in H. inapp.
      + (* Lock *)
        split; simpl; auto.
        * rewrite <- Hl. rewrite !app_length. reflexivity.
        * rewrite ncrit_mid. simpl. intros _ N. lia.
        * intros H. apply Hlv. eapply in_mid_swap; eauto. discriminate.
        * intros j' H. apply in_app_or in H. destruct H as [H|[H|H]].
          -- apply Hcr. apply in_or_app. auto.
          -- injection H as <-. split; auto. apply Hm. inapp.
          -- apply Hcr. apply in_or_app. right. right. exact H.
        * intros j' H. apply Hm. rewrite busyE_mid in H. inapp.
      + discriminate.
      + (* err = e *)
        split; simpl; auto.
        * rewrite <- Hl. rewrite !app_length. reflexivity.
        * rewrite ncrit_mid. simpl. intros _ N. lia.
        * intros _. destruct (efirst s); discriminate.
        * intros x. destruct (efirst s) as [y|] eqn:E.
          -- apply Hf.
          -- intros X. injection X as <-. exists j.
             destruct (Hcr j) as [A B]; [apply in_or_app; right; left; reflexivity|]. auto.
        * intros j' H. apply Hcr. apply in_app_or in H. apply in_or_app.
          destruct H as [H|[H|H]]; auto; [discriminate|right; right; auto].
        * intros j' H. apply Hm. rewrite busyE_mid in H. inapp.
      + (* Unlock, Done *)
        assert (Hne : efirst s <> None) by (apply Hlv; apply in_or_app; right; left; reflexivity).
        split; simpl; auto.
        * rewrite <- Hl. rewrite !app_length. reflexivity.
        * intros E. congruence.
        * intros j' H. apply Hcr. eapply in_mid_swap; eauto. discriminate.
        * intros j' H. apply Hm. rewrite busyE_mid in H. inapp.
  Qed.

  Lemma einv_reach sched : einv (runf sched (einit jobs n)).
  Proof.
    assert (G : forall sched s, einv s -> einv (runf sched s)).
    { induction sched0 as [|a sc IH]; intros s H; simpl; auto. apply IH, einv_step, H. }
    apply G, einv_init.
  Qed.

  Lemma all_exited_quiet (l : list wst) :
    forallb e_exited l = true -> ncrit l = 0 /\ busyE l = [].
  Proof.
    unfold ncrit, busyE. induction l as [|w l IH]; simpl; auto.
    intros H. apply andb_prop in H. destruct H as [Hw H]. destruct (IH H) as [A B].
    destruct w; simpl in *; try discriminate. auto.
  Qed.

  (** when wg.Wait() returns and some tree was erroneous, err holds the error of an erroneous tree *)
  Lemma first_error_set sched :
    1 <= n ->
    let s := runf sched (einit jobs n) in
    efinished s = true -> (exists j, In j jobs /\ fails j = true) ->
    exists j, In j jobs /\ fails j = true /\ efirst s = Some (e_of j).
  Proof.
    intros Hn s F (j0 & Hj0 & Fj0).
    destruct (einv_reach sched) as [Hc Hl Hq Hlv Hf Hcr Hm]. fold s in Hc, Hl, Hq, Hlv, Hf.
    destruct (efirst s) as [x|] eqn:E.
    - destruct (Hf x eq_refl) as (j & A & B & ->). eauto.
    - exfalso. unfold efinished in F. destruct (all_exited_quiet _ F) as [N B].
      destruct (Hq eq_refl N) as [X Y].
      assert (In EExited (ews s)) as Hex.
      { destruct (ews s) as [|w l]; simpl in Hl; [lia|]. simpl in F.
        apply andb_prop in F. destruct F as [Fw _]. destruct w; try discriminate. left; auto. }
      destruct (X Hex) as [C Q]. rewrite B, Q, (Hc C) in Y. unfold nf at 2 3 4 in Y. simpl in Y.
      pose proof (nf_pos j0 jobs Hj0 Fj0). lia.
  Qed.

End First.

(** once written, err is never overwritten: the first error is kept (both hand-over modes) *)
Lemma first_error_kept {job err} (fails : job -> bool) (e_of : job -> err) mode
      (s : est job err) x cont :
  efirst s = Some x -> efirst (erun fails e_of mode cont s) = Some x.
Proof.
  revert s. induction cont as [|a cont IH]; intros s H; simpl; auto.
  apply IH. destruct a as [|i]; simpl.
  - unfold eproducer_step. destruct (epending s); simpl; auto.
  - destruct (eworker_step_spec fails e_of mode s i); simpl; auto. rewrite H. reflexivity.
Qed.
