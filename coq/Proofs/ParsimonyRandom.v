(** Random resolution (Model/ParsimonyRand.v), for every source of choices:
    the output has exactly one state at every inner node; the step count is the up-pass one;
    DOWNPASS / DELTRAN keep every node inside the non-random DOWNPASS set (so every reported
    state occurs in a most-parsimonious labelling); ACCTRAN's labelling is most parsimonious.
    DOWNPASS and DELTRAN choose independently of what was chosen above and can produce a
    labelling that is NOT most parsimonious: refuted with witnesses. *)
From Coq Require Import String ZArith QArith Bool Arith Lia List.
From GT Require Import Base.UTree Spec.Obs Spec.Parsimony Model.Reroot Model.Parsimony Model.ParsimonyRand
     Proofs.ParsimonyVec Proofs.ParsimonyHartigan Proofs.ParsimonyReroot Proofs.ParsimonyCtx
     Proofs.ParsimonyDown Proofs.ParsimonyFinal Proofs.ParsimonyAcctran Proofs.ParsimonyTips
     Proofs.ParsimonyUnamb Proofs.ParsimonyDeltran Proofs.ParsimonyEmbed Proofs.ParsimonyMain Proofs.ParsimonyInst.
Import ListNotations.
Local Close Scope Q_scope.

(** * keeping one state *)
Lemma keep_nth_length : forall v cur r, length (keep_nth v cur r) = length v.
Proof. induction v as [|[|c] v IH]; intros; simpl; [reflexivity| |]; rewrite IH; reflexivity. Qed.

Lemma keep_nth_01 : forall v cur r y, nth y (keep_nth v cur r) 0 <= 1.
Proof.
  induction v as [|[|c] v IH]; intros cur r y; simpl; [destruct y; lia| |]; destruct y; simpl; try apply IH; try lia.
  destruct (Nat.eqb cur r); lia.
Qed.

Lemma keep_nth_sub : forall v cur r y, nth y (keep_nth v cur r) 0 = 1 -> 1 <= nth y v 0.
Proof.
  induction v as [|[|c] v IH]; intros cur r y H; simpl in *; [destruct y; discriminate| |];
    destruct y; simpl in *; try discriminate; try lia; eapply IH; eauto.
Qed.

Lemma keep_nth_none : forall v cur r, r < cur -> forall y, nth y (keep_nth v cur r) 0 = 0.
Proof.
  induction v as [|[|c] v IH]; intros cur r Hlt y; simpl; [destruct y; reflexivity| |];
    destruct y; simpl; try (apply IH; lia); try reflexivity.
  destruct (Nat.eqb cur r) eqn:E; [apply Nat.eqb_eq in E; lia | reflexivity].
Qed.

Lemma keep_nth_unique : forall v cur r y z,
  nth y (keep_nth v cur r) 0 = 1 -> nth z (keep_nth v cur r) 0 = 1 -> y = z.
Proof.
  induction v as [|[|c] v IH]; intros cur r y z Hy Hz; simpl in *; [destruct y; discriminate| |].
  - destruct y; destruct z; simpl in *; try discriminate. f_equal. eapply IH; eauto.
  - destruct (Nat.eqb cur r) eqn:E.
    + apply Nat.eqb_eq in E. subst cur.
      destruct y; destruct z; simpl in *; try reflexivity;
        try (rewrite keep_nth_none in Hy by lia; discriminate);
        try (rewrite keep_nth_none in Hz by lia; discriminate).
    + destruct y; destruct z; simpl in *; try discriminate. f_equal. eapply IH; eauto.
Qed.

Lemma count_pos_cons : forall c v, count_pos (c :: v) = (if Nat.leb 1 c then 1 else 0) + count_pos v.
Proof. intros. unfold count_pos. destruct c; reflexivity. Qed.

Lemma keep_nth_exists : forall v cur r, cur <= r -> r < cur + count_pos v ->
  exists y, nth y (keep_nth v cur r) 0 = 1.
Proof.
  induction v as [|c v IH]; intros cur r H1 H2; [unfold count_pos in H2; simpl in H2; lia|].
  rewrite count_pos_cons in H2. destruct c as [|c]; simpl in *.
  - destruct (IH cur r H1 H2) as [y Hy]. exists (S y). exact Hy.
  - destruct (Nat.eqb cur r) eqn:E.
    + exists 0. reflexivity.
    + apply Nat.eqb_neq in E. destruct (IH (S cur) r) as [y Hy]; [lia | lia|]. exists (S y). exact Hy.
Qed.

Lemma count_pos_zero : forall v, count_pos v = 0 -> forall w, nth w v 0 = 0.
Proof.
  induction v as [|c v IH]; intros H w; [destruct w; reflexivity|].
  rewrite count_pos_cons in H. destruct c as [|c]; simpl in H; [|lia].
  destruct w; simpl; [reflexivity | apply IH; exact H].
Qed.

Lemma count_pos_le1_unique : forall v y z, count_pos v <= 1 -> 1 <= nth y v 0 -> 1 <= nth z v 0 -> y = z.
Proof.
  induction v as [|c v IH]; intros y z Hc Hy Hz; [destruct y; simpl in Hy; lia|].
  rewrite count_pos_cons in Hc. destruct c as [|c]; simpl in Hc.
  - destruct y; destruct z; simpl in *; try lia. f_equal. eapply IH; eauto.
  - assert (Hz0 : count_pos v = 0) by lia.
    pose proof (count_pos_zero v Hz0) as Hn.
    destruct y; destruct z; simpl in *; try reflexivity; rewrite Hn in *; lia.
Qed.

Lemma count_pos_pos : forall v y, 1 <= nth y v 0 -> 1 <= count_pos v.
Proof.
  intros v y H. unfold count_pos.
  assert (In (nth y v 0) (filter (fun c => Nat.leb 1 c) v)).
  { apply filter_In. split.
    - apply nth_In. destruct (Nat.lt_ge_cases y (length v)); [assumption|]. rewrite nth_overflow in H by assumption. lia.
    - apply Nat.leb_le. exact H. }
  destruct (filter _ v); [destruct H0 | simpl; lia].
Qed.

(** * stateful maps *)
Lemma mapS_length : forall S A B (f : A -> S -> B * S) l s, length (fst (mapS f l s)) = length l.
Proof.
  induction l as [|a l IH]; intros s; simpl; [reflexivity|].
  destruct (f a s) as [b s1]. specialize (IH s1). destruct (mapS f l s1) as [bs s2]. simpl in *. lia.
Qed.

Lemma mapS_nth : forall S A B (f : A -> S -> B * S) l s j b,
  nth_error (fst (mapS f l s)) j = Some b -> exists a s', nth_error l j = Some a /\ b = fst (f a s').
Proof.
  induction l as [|a l IH]; intros s j b H; simpl in *; [destruct j; discriminate|].
  destruct (f a s) as [b0 s1] eqn:E. specialize (IH s1). destruct (mapS f l s1) as [bs s2]. simpl in *.
  destruct j; simpl in *.
  - inversion H; subst. exists a, s. rewrite E. auto.
  - destruct (IH j b H) as [a' [s' [Ha Hb]]]. eauto.
Qed.

(** the vectors of the inner nodes of a vtree *)
Fixpoint vinners (vt : vtree) : list vec :=
  match vt with
  | VNode v ks => match ks with [] => [] | _ => v :: flat_map vinners ks end
  end.

(** R below N: same shape, every vector of R inside the one of N *)
Fixpoint vle (a b : vtree) : Prop :=
  match a, b with
  | VNode v1 k1, VNode v2 k2 =>
    (forall y, nth y v1 0 = 1 -> nth y v2 0 = 1) /\
    (fix go (l1 l2 : list vtree) : Prop :=
       match l1, l2 with
       | [], [] => True
       | x :: r1, y :: r2 => vle x y /\ go r1 r2
       | _, _ => False
       end) k1 k2
  end.
Definition vle_list : list vtree -> list vtree -> Prop :=
  fix go (l1 l2 : list vtree) : Prop :=
    match l1, l2 with
    | [], [] => True
    | x :: r1, y :: r2 => vle x y /\ go r1 r2
    | _, _ => False
    end.
Lemma vle_unfold : forall v1 k1 v2 k2,
  vle (VNode v1 k1) (VNode v2 k2) <-> ((forall y, nth y v1 0 = 1 -> nth y v2 0 = 1) /\ vle_list k1 k2).
Proof. intros. simpl. tauto. Qed.

Lemma vle_refl : forall a, vle a a.
Proof. induction a using vtree_ind'. apply vle_unfold. split; [auto|]. induction H; simpl; auto. Qed.

Lemma vle_list_nth : forall l1 l2 j a, vle_list l1 l2 -> nth_error l1 j = Some a ->
  exists b, nth_error l2 j = Some b /\ vle a b.
Proof.
  induction l1 as [|x l1 IH]; intros [|y l2] j a H Hn; simpl in H; try tauto.
  - destruct j; discriminate.
  - destruct H as [Hxy Hr]. destruct j; simpl in *; [inversion Hn; subst; eauto | eauto].
Qed.

Lemma vle_vec_at : forall q t a b v, vle a b -> vec_at t a q = Some v ->
  exists v0, vec_at t b q = Some v0 /\ forall y, nth y v 0 = 1 -> nth y v0 0 = 1.
Proof.
  induction q as [|i q IH]; intros t a b v Hs Ha; simpl in *.
  - inversion Ha; subst. destruct a as [v1 k1]. destruct b as [v2 k2]. apply vle_unfold in Hs.
    exists v2. split; [reflexivity | apply Hs].
  - destruct (nth_error (uslots t) i) as [[[e c]|]|]; try discriminate.
    destruct a as [v1 k1]. destruct b as [v2 k2]. apply vle_unfold in Hs. destruct Hs as [_ L]. simpl in *.
    destruct (nth_error k1 (kidx (uslots t) i)) as [ac|] eqn:E1; [|discriminate].
    destruct (vle_list_nth k1 k2 _ ac L E1) as [bc [E2 Hsc]]. rewrite E2. eauto.
Qed.

Section Rand.
Variable S : Type.
Variable draw : nat -> S -> nat * S.
Hypothesis draw_lt : forall b s, 0 < b -> fst (draw b s) < b.
Variable k : nat.

Notation resolve := (resolve S draw).

(** resolving a non-empty 0/1 vector leaves exactly one of its states *)
Lemma resolve_spec : forall v s, good k v -> (exists y, nth y v 0 = 1) ->
  good k (fst (resolve v s)) /\ single (fst (resolve v s)) /\
  (forall y, nth y (fst (resolve v s)) 0 = 1 -> nth y v 0 = 1).
Proof.
  intros v s [L B] [y0 Hy0]. unfold ParsimonyRand.resolve.
  destruct (Nat.ltb 1 (count_pos v)) eqn:E.
  - apply Nat.ltb_lt in E.
    pose proof (draw_lt (count_pos v) s ltac:(lia)) as Hr.
    destruct (draw (count_pos v) s) as [r s']. simpl in *.
    split; [|split].
    + split; [rewrite keep_nth_length; exact L | apply keep_nth_01].
    + destruct (keep_nth_exists v 0 r ltac:(lia) ltac:(lia)) as [y Hy].
      exists y. split; [exact Hy|]. intros z Hz. eapply keep_nth_unique; eauto.
    + intros y Hy. apply keep_nth_sub in Hy. pose proof (B y). lia.
  - apply Nat.ltb_ge in E. simpl. split; [split; assumption|]. split; [|auto].
    exists y0. split; [exact Hy0|]. intros z Hz.
    apply (count_pos_le1_unique v z y0 E); lia.
Qed.

Lemma vec_ok_good : forall v, vec_ok k v -> good k v /\ exists y, nth y v 0 = 1.
Proof. intros v [L [B N]]. split; [split; assumption | exact N]. Qed.

(** * DOWNPASS with random resolution *)
Definition down_kids_r (basem roots : list vec) : nat -> list vtree -> S -> list vtree * S :=
  fix go (i : nat) (l : list vtree) (s : S) : list vtree * S :=
    match l with
    | [] => ([], s)
    | c :: r =>
      let '(c', sa) := downpass_r S draw false (compute_parsimony (vsum k (basem ++ remove_nth i roots))) k c s in
      let '(r', sb) := go (Datatypes.S i) r sa in
      (c' :: r', sb)
    end.

Lemma downpass_r_node : forall isroot up v c0 ks s,
  downpass_r S draw isroot up k (VNode v (c0 :: ks)) s =
  let roots := map vroot (c0 :: ks) in
  let basem := if isroot then [] else [up] in
  let v' := if isroot then v else compute_parsimony (vsum k (basem ++ roots)) in
  let '(v'', s1) := resolve v' s in
  let '(ks', s2) := down_kids_r basem roots 0 (c0 :: ks) s1 in
  (VNode v'' ks', s2).
Proof. reflexivity. Qed.

(** what the random down-pass guarantees against the plain one: inner nodes single, inside *)
Definition rprop (R N : vtree) : Prop :=
  vle R N /\ (forall v, In v (vinners R) -> single v) /\ (vkids N = [] -> R = N).

Lemma down_kids_r_prop : forall basem roots l i s,
  Forall (fun vt => forall isroot up s, vall (vec_ok k) vt -> (isroot = false -> vec_ok k up) ->
                    (isroot = true -> vkids vt = [] \/ 2 <= length (vkids vt)) ->
                    rprop (fst (downpass_r S draw isroot up k vt s)) (downpass isroot up k vt)) l ->
  Forall (vall (vec_ok k)) l ->
  (forall j, vec_ok k (compute_parsimony (vsum k (basem ++ remove_nth j roots)))) ->
  vle_list (fst (down_kids_r basem roots i l s)) (down_kids basem roots k i l) /\
  (forall v, In v (flat_map vinners (fst (down_kids_r basem roots i l s))) -> single v).
Proof.
  induction l as [|c l IH]; intros i s Hf Hg Hup; simpl; [split; [exact I | intros v []]|].
  inversion Hf; inversion Hg; subst.
  destruct (downpass_r S draw false _ k c s) as [c' sa] eqn:Ec.
  pose proof (H1 false (compute_parsimony (vsum k (basem ++ remove_nth i roots))) s H5 (fun _ => Hup i) ltac:(discriminate)) as P.
  rewrite Ec in P. simpl in P. destruct P as [P1 [P2 _]].
  specialize (IH (Datatypes.S i) sa H2 H6 Hup).
  destruct (down_kids_r basem roots (Datatypes.S i) l sa) as [r' sb]. simpl in *.
  destruct IH as [I1 I2]. split; [split; assumption|].
  intros v Hv. apply in_app_or in Hv. destruct Hv; auto.
Qed.

Theorem downpass_r_prop : forall vt isroot up s,
  vall (vec_ok k) vt -> (isroot = false -> vec_ok k up) ->
  (isroot = true -> vkids vt = [] \/ 2 <= length (vkids vt)) ->
  rprop (fst (downpass_r S draw isroot up k vt s)) (downpass isroot up k vt).
Proof.
  induction vt using vtree_ind'. intros isroot up s Hg Hup Hroot.
  destruct ks as [|c0 ks].
  { simpl. split; [apply vle_refl|]. split; [intros w []|auto]. }
  apply vall_node in Hg. destruct Hg as [Hv Hk].
  rewrite downpass_r_node, downpass_node. cbv zeta.
  set (roots := map vroot (c0 :: ks)). set (basem := if isroot then [] else [up]).
  set (v' := if isroot then v else compute_parsimony (vsum k (basem ++ roots))).
  assert (Hrok : Forall (vec_ok k) roots).
  { unfold roots. apply Forall_forall. intros w Hw. apply in_map_iff in Hw. destruct Hw as [t [Et Ht]]. subst w.
    apply vall_root. rewrite Forall_forall in Hk. apply Hk. exact Ht. }
  assert (Hbok : Forall (vec_ok k) basem).
  { unfold basem. destruct isroot; [constructor|]. constructor; [apply Hup; reflexivity | constructor]. }
  assert (Hv' : vec_ok k v').
  { unfold v'. destruct isroot; [exact Hv|]. apply cp_vec_ok_list; [discriminate|].
    apply Forall_app. split; assumption. }
  assert (Hupj : forall j, vec_ok k (compute_parsimony (vsum k (basem ++ remove_nth j roots)))).
  { intros j. apply cp_vec_ok_list.
    - unfold basem. destruct isroot; [|discriminate]. simpl.
      destruct (Hroot eq_refl) as [Q|Q]; simpl in Q; [discriminate|].
      apply remove_nth_nonempty. unfold roots. rewrite map_length. exact Q.
    - apply Forall_app. split; [exact Hbok|].
      apply Forall_forall. intros w Hw. rewrite Forall_forall in Hrok. apply Hrok.
      clear -Hw. revert j Hw. induction roots as [|a r IHr]; intros j Hw; [destruct j; destruct Hw|].
      destruct j; simpl in Hw; [right; exact Hw|]. destruct Hw as [Q|Q]; [left; exact Q | right; eapply IHr; eauto]. }
  destruct (vec_ok_good v' Hv') as [Gv' Nv'].
  destruct (resolve_spec v' s Gv' Nv') as [_ [Sv Subv]].
  destruct (resolve v' s) as [v'' s1]. simpl in Sv, Subv.
  pose proof (down_kids_r_prop basem roots (c0 :: ks) 0 s1 H Hk Hupj) as K.
  destruct (down_kids_r basem roots 0 (c0 :: ks) s1) as [ks' s2] eqn:Ek. simpl in K. destruct K as [K1 K2].
  simpl fst. split; [|split].
  - apply vle_unfold. split; [exact Subv | exact K1].
  - intros w Hw. simpl in Hw.
    assert (Hne : ks' <> []).
    { intro Q. subst ks'. simpl in K1. destruct K1. }
    destruct ks' as [|k0 ks'']; [congruence|]. destruct Hw as [Hw|Hw]; [subst w; exact Sv | apply K2; exact Hw].
  - simpl. discriminate.
Qed.

(** * DELTRAN with random resolution, on a down-pass result *)
Lemma refine_nonempty : forall p c, good k p -> good k c -> (exists y, nth y c 0 = 1) ->
  exists y, nth y (refine p c) 0 = 1.
Proof.
  intros p c Gp Gc [y Hy].
  destruct (refine_cases k p c Gp Gc) as [[[z [Hz1 Hz2]] [Hi _]]|[_ He]].
  - exists z. apply Hi. split; assumption.
  - exists y. rewrite He. exact Hy.
Qed.

Lemma deltran_r_node : forall par v c0 ks s,
  deltran_r S draw par (VNode v (c0 :: ks)) s =
  let v' := match par with Some p => refine p v | None => v end in
  let '(v'', s1) := resolve v' s in
  let '(ks', s2) := mapS (deltran_r S draw (Some v'')) (c0 :: ks) s1 in
  (VNode v'' ks', s2).
Proof. reflexivity. Qed.

Theorem deltran_r_prop : forall vt par s,
  vall (vec_ok k) vt -> (forall p, par = Some p -> good k p) ->
  rprop (fst (deltran_r S draw par vt s)) vt.
Proof.
  induction vt using vtree_ind'. intros par s Hg Hp.
  destruct ks as [|c0 ks].
  { simpl. split; [apply vle_refl|]. split; [intros w []|auto]. }
  apply vall_node in Hg. destruct Hg as [Hv Hk].
  destruct (vec_ok_good v Hv) as [Gv Nv].
  rewrite deltran_r_node. cbv zeta.
  set (v' := match par with Some p => refine p v | None => v end).
  assert (Gv' : good k v').
  { unfold v'. destruct par as [p|]; [apply refine_good; auto | exact Gv]. }
  assert (Nv' : exists y, nth y v' 0 = 1).
  { unfold v'. destruct par as [p|]; [apply refine_nonempty; auto | exact Nv]. }
  assert (Sub' : forall y, nth y v' 0 = 1 -> nth y v 0 = 1).
  { unfold v'. destruct par as [p|]; [|auto]. intros y Hy. eapply (refine_sub k p v); eauto. }
  destruct (resolve_spec v' s Gv' Nv') as [Gv'' [Sv Subv]].
  destruct (resolve v' s) as [v'' s1]. simpl fst in Gv'', Sv, Subv.
  assert (K : forall l s0, Forall (fun vt => forall par s, vall (vec_ok k) vt -> (forall p, par = Some p -> good k p) ->
                                              rprop (fst (deltran_r S draw par vt s)) vt) l ->
                           Forall (vall (vec_ok k)) l ->
                           vle_list (fst (mapS (deltran_r S draw (Some v'')) l s0)) l /\
                           (forall w, In w (flat_map vinners (fst (mapS (deltran_r S draw (Some v'')) l s0))) -> single w)).
  { induction l as [|c l IHl]; intros s0 Hf Hgl; simpl; [split; [exact I | intros w []]|].
    inversion Hf; inversion Hgl; subst.
    pose proof (H2 (Some v'') s0 H6 ltac:(intros p Ep; inversion Ep; subst; exact Gv'')) as P.
    destruct (deltran_r S draw (Some v'') c s0) as [c' sa]. simpl in P. destruct P as [P1 [P2 _]].
    specialize (IHl sa H3 H7). destruct (mapS (deltran_r S draw (Some v'')) l sa) as [r' sb]. simpl in *.
    destruct IHl as [I1 I2]. split; [split; assumption|].
    intros w Hw. apply in_app_or in Hw. destruct Hw; auto. }
  specialize (K (c0 :: ks) s1 H Hk).
  destruct (mapS (deltran_r S draw (Some v'')) (c0 :: ks) s1) as [ks' s2]. simpl in K. destruct K as [K1 K2].
  simpl fst. split; [|split].
  - apply vle_unfold. split; [intros y Hy; apply Sub'; apply Subv; exact Hy | exact K1].
  - intros w Hw. simpl in Hw.
    destruct ks' as [|k0 ks'']; [simpl in K1; destruct K1|].
    destruct Hw as [Hw|Hw]; [subst w; exact Sv | apply K2; exact Hw].
  - simpl. discriminate.
Qed.

Lemma vle_trans_inner : forall a b c, vle a b -> vle b c -> vle a c.
Proof.
  induction a using vtree_ind'. intros [v2 k2] [v3 k3] H12 H23.
  apply vle_unfold in H12. apply vle_unfold in H23. apply vle_unfold.
  destruct H12 as [E12 L12]. destruct H23 as [E23 L23]. split; [auto|].
  clear E12 E23. revert k2 k3 L12 L23.
  induction H as [|x l Hx Hl IH]; intros [|y k2] [|z k3] L12 L23; simpl in *; try tauto.
  destruct L12, L23. split; eauto.
Qed.

(** * ACCTRAN with random resolution: the labelling is most parsimonious *)
Variable tv : string -> vec.
Variable ts : string -> list nat.

Lemma acctran_r_node : forall skip v' v c0 ks s,
  acctran_r S draw skip v' (VNode v (c0 :: ks)) s =
  let '(v'', s1) := resolve v' s in
  let '(ks', s2) :=
      mapS (fun c => acctran_r S draw skip (if skip && is_vtip c then vroot c else refine v'' (vroot c)) c)
           (c0 :: ks) s1 in
  (VNode v'' ks', s2).
Proof. reflexivity. Qed.

Lemma in_kid_results : forall sl a0, In a0 (map fst (kid_results tv k sl)) ->
  exists e d, In (Some (e, d)) sl /\ a0 = fst (uppass tv k d).
Proof.
  intros sl a0 H. apply in_map_iff in H. destruct H as [r [Er Hr]]. subst a0.
  unfold kid_results in Hr. apply in_flat_map in Hr. destruct Hr as [[[e d]|] [Hin Hr]]; [|destruct Hr].
  destruct Hr as [Hr|[]]. subst r. eauto.
Qed.

Theorem acc_r_sub : forall skip c v' s,
  inner c ->
  Forall (fun sl => match sl with Some (_, d) => wf_sub d = true | None => True end) (uslots c) ->
  (forall m, In m (leaves c) -> tip_ok tv ts k m) ->
  good k v' -> (exists y, nth y v' 0 = 1) ->
  (forall y, nth y v' 0 = 1 -> nth y (U tv k c) 0 = 1) ->
  let R := fst (acctran_r S draw skip v' (fst (uppass tv k c)) s) in
  cost ts c (lab_of c R) = C tv k c /\
  (forall w, In w (vinners R) -> single w) /\
  nth (first_max (vroot R)) v' 0 = 1.
Proof.
  induction c using utree_ind'.
  intros v' s [Hleaf Hnt] Hwf Htips Gv' Nv' HsubU.
  rename c into cm. simpl in Hnt, Hwf.
  assert (Hf : Forall (edge_slot tv ts k) sl).
  { apply Forall_forall. intros [[e d]|] Hin; simpl; auto.
    rewrite Forall_forall in Hwf. apply edge_ok_all; [apply (Hwf _ Hin)|].
    intros m Hm. apply Htips. eapply leaves_child; eauto. }
  assert (Hk : kids_of sl <> []).
  { unfold is_leaf, kids in Hleaf. simpl in Hleaf. destruct (kids_of sl); congruence. }
  destruct (C_formula tv ts k n cm sl Hnt Hk Hf) as [HC [HU [Hrs Hne]]].
  rewrite uppass_unfold, Hnt. cbv zeta. cbn [fst].
  set (rs := kid_results tv k sl) in *.
  assert (Hm : exists c0 ks0, map fst rs = c0 :: ks0).
  { destruct rs as [|r0 rs']; [congruence|]. simpl. eauto. }
  destruct Hm as [c0 [ks0 Em]]. rewrite Em, acctran_r_node. rewrite <- Em.
  destruct (resolve_spec v' s Gv' Nv') as [Gv'' [[a [Ha Hua]] Subv]].
  destruct (resolve v' s) as [v'' s1]. simpl fst in Gv'', Ha, Hua, Subv.
  set (g := fun c => acctran_r S draw skip (if skip && is_vtip c then vroot c else refine v'' (vroot c)) c).
  pose proof (mapS_length S _ _ g (map fst rs) s1) as Hlen.
  assert (Hnth : forall j b, nth_error (fst (mapS g (map fst rs) s1)) j = Some b ->
                        exists a0 s', nth_error (map fst rs) j = Some a0 /\ b = fst (g a0 s'))
    by (intros; eapply mapS_nth; eauto).
  destruct (mapS g (map fst rs) s1) as [ks' s2]. simpl fst in *.
  assert (Efm : first_max v'' = a) by (eapply single_first_max; eauto).
  assert (HaU : nth a (U tv k (UNode n cm sl)) 0 = 1) by (apply HsubU; apply Subv; exact Ha).
  (* every child, whatever the state of the source *)
  assert (Hkid : forall e d s', In (Some (e, d)) sl ->
            let Rd := fst (g (fst (uppass tv k d)) s') in
            branch_cost ts (cost ts) a d (lab_of d Rd) = C tv k d + miss a (U tv k d) /\
            (forall w, In w (vinners Rd) -> single w)).
  { intros e d s' Hin. rewrite Forall_forall in H, Hwf.
    pose proof (Hwf _ Hin) as Hwd. simpl in Hwd.
    assert (Hdt : forall m, In m (leaves d) -> tip_ok tv ts k m).
    { intros m Hm'. apply Htips. eapply leaves_child; eauto. }
    destruct (is_leaf d) eqn:Edl.
    - split.
      + apply leaf_branch; auto. apply Hdt. destruct d as [nd cd sld]. simpl.
        unfold is_leaf, kids in Edl. simpl in Edl. destruct (kids_of sld); [left; reflexivity | discriminate].
      + destruct d as [nd cd sld]. unfold g. rewrite uppass_unfold, (wf_sub_tip_leaf nd cd sld Hwd), Edl.
        simpl. intros w [].
    - assert (Hdin : inner d) by (apply wf_sub_inner; assumption).
      assert (Hdk : kids_of (uslots d) <> []).
      { unfold is_leaf, kids in Edl. destruct (kids_of (uslots d)); congruence. }
      unfold g. rewrite (vtip_inner tv k d Hdin Hdk), andb_false_r.
      fold (U tv k d).
      destruct (node_ok_sub tv ts k d Hwd Edl Hdt) as [[LU [BU [yU HyU]]] _].
      assert (GU : good k (U tv k d)) by (split; assumption).
      set (vd := refine v'' (U tv k d)).
      assert (Gvd : good k vd) by (apply refine_good; assumption).
      assert (Nvd : exists y, nth y vd 0 = 1) by (apply refine_nonempty; eauto).
      assert (Svd : forall y, nth y vd 0 = 1 -> nth y (U tv k d) 0 = 1) by (intros y Hy; eapply (refine_sub k v''); eauto).
      destruct d as [nd cd sld].
      destruct (H _ Hin vd s' Hdin (wf_sub_slots nd cd sld Hwd) Hdt Gvd Nvd Svd) as [Ic [Iv Ir]].
      split; [|exact Iv].
      unfold branch_cost. rewrite Edl, Ic, lroot_lab_of. unfold miss.
      set (z := first_max (vroot (fst (acctran_r S draw skip vd (fst (uppass tv k (UNode nd cd sld))) s')))) in *.
      destruct (refine_cases k v'' _ Gv'' GU) as [[_ [Hi _]]|[Hno He]].
      + fold vd in Hi. apply Hi in Ir. destruct Ir as [Hzv HzU].
        rewrite (Hua z Hzv), Nat.eqb_refl. rewrite (Hua z Hzv) in HzU. rewrite HzU. lia.
      + assert (Hna : nth a (U tv k (UNode nd cd sld)) 0 = 0).
        { pose proof (BU a). destruct (Nat.eq_dec (nth a (U tv k (UNode nd cd sld)) 0) 1) as [Q|Q]; [|lia].
          exfalso. apply (Hno a). split; assumption. }
        fold vd in He. rewrite He in Ir.
        destruct (Nat.eqb a z) eqn:Eaz; [apply Nat.eqb_eq in Eaz; rewrite <- Eaz in Ir; congruence|].
        rewrite Hna. lia. }
  simpl vroot. rewrite Efm. split; [|split].
  - rewrite lab_of_unfold, cost_unfold. simpl vroot. simpl vkids. rewrite Efm.
    rewrite (slots_cost_eq_gen tv ts k a sl ks').
    + destruct (contrib_formula k rs Hrs Hne) as [Hc _]. specialize (Hc a).
      rewrite HU in HaU. apply (cp_max_iff k rs a Hrs Hne) in HaU. fold rs. lia.
    + rewrite Hlen, map_length. reflexivity.
    + intros i e d vc Hi Hvc.
      destruct (Hnth _ _ Hvc) as [a0 [s' [Ha0 Evc]]].
      unfold rs in Ha0. rewrite nth_error_map, (kid_results_nth tv k sl i e d Hi) in Ha0. simpl in Ha0. inversion Ha0; subst a0.
      subst vc. apply (Hkid e d s'). eapply nth_error_In; eauto.
  - intros w Hw. simpl in Hw.
    destruct ks' as [|k0 ks'']; [simpl in Hlen; rewrite Em in Hlen; discriminate|].
    destruct Hw as [Hw|Hw]; [subst w; exists a; split; assumption|].
    apply in_flat_map in Hw. destruct Hw as [vc [Hvc Hw]].
    destruct (In_nth_error _ _ Hvc) as [j Hj].
    destruct (Hnth _ _ Hj) as [a0 [s' [Ha0 Evc]]].
    destruct (in_kid_results sl a0 (nth_error_In _ _ Ha0)) as [e [d [Hin Ea0]]]. subst a0 vc.
    apply (Hkid e d s' Hin). exact Hw.
  - apply Subv. exact Ha.
Qed.

End Rand.

(** * every vector of the up-pass and of the down-pass has a state *)
Section VecOk.
Variable tv : string -> vec.
Variable ts : string -> list nat.
Variable k : nat.

Lemma uppass_node_vec_ok : forall n cm sl,
  Nat.eqb (length sl) 1 = false -> kids_of sl <> [] ->
  Forall (fun s => match s with Some (_, d) => vall (vec_ok k) (fst (uppass tv k d)) | None => True end) sl ->
  vall (vec_ok k) (fst (uppass tv k (UNode n cm sl))).
Proof.
  intros n cm sl Hnt Hk Hf. rewrite uppass_unfold, Hnt. cbv zeta. cbn [fst].
  assert (Hall : Forall (vall (vec_ok k)) (map fst (kid_results tv k sl))).
  { clear Hnt Hk. induction Hf as [|[[e d]|] sl Hs Hf IH]; simpl; auto. }
  apply vall_node. split; [|exact Hall].
  apply cp_vec_ok_list.
  - pose proof (kid_results_nonempty tv k sl Hk). unfold kvecs. destruct (kid_results tv k sl); [congruence | discriminate].
  - unfold kvecs. rewrite <- map_map. apply Forall_forall. intros v Hv.
    apply in_map_iff in Hv. destruct Hv as [t [Et Ht]]. subst v.
    rewrite Forall_forall in Hall. apply vall_root. apply Hall. exact Ht.
Qed.

Lemma uppass_vec_ok : forall c, wf_sub c = true -> (forall n, In n (leaves c) -> tip_ok tv ts k n) ->
  vall (vec_ok k) (fst (uppass tv k c)).
Proof.
  induction c using utree_ind'. intros Hw Ht.
  pose proof (wf_sub_tip_leaf n c sl Hw) as Htl.
  destruct (is_leaf (UNode n c sl)) eqn:El.
  - rewrite uppass_unfold, Htl. simpl. apply vall_node. split; [|constructor].
    assert (In n (leaves (UNode n c sl))).
    { simpl. unfold is_leaf, kids in El. simpl in El. destruct (kids_of sl); [left; reflexivity | discriminate]. }
    destruct (Ht n H0) as [L [B [x Hx]]]. split; [exact L|]. split.
    + intros y. rewrite B. destruct (mem y (ts n)); lia.
    + exists x. rewrite B, Hx. reflexivity.
  - apply uppass_node_vec_ok; auto.
    + unfold is_leaf, kids in El. simpl in El. destruct (kids_of sl); congruence.
    + pose proof (wf_sub_slots n c sl Hw) as Hws.
      apply Forall_forall. intros [[e d]|] Hin; auto.
      rewrite Forall_forall in H, Hws. apply (H _ Hin); [apply (Hws _ Hin)|].
      intros m Hm. apply Ht. eapply leaves_child; eauto.
Qed.

Lemma down_kids_vec_ok : forall basem roots l i,
  Forall (fun vt => forall isroot up, vall (vec_ok k) vt -> (isroot = false -> vec_ok k up) ->
                    (isroot = true -> vkids vt = [] \/ 2 <= length (vkids vt)) ->
                    vall (vec_ok k) (downpass isroot up k vt)) l ->
  Forall (vall (vec_ok k)) l ->
  (forall j, vec_ok k (compute_parsimony (vsum k (basem ++ remove_nth j roots)))) ->
  Forall (vall (vec_ok k)) (down_kids basem roots k i l).
Proof.
  induction l as [|c l IH]; intros i Hf Hg Hup; simpl; [constructor|].
  inversion Hf; inversion Hg; subst. constructor; [|apply IH; assumption].
  apply H1; [assumption | intros _; apply Hup | discriminate].
Qed.

Theorem downpass_vec_ok : forall vt isroot up,
  vall (vec_ok k) vt -> (isroot = false -> vec_ok k up) ->
  (isroot = true -> vkids vt = [] \/ 2 <= length (vkids vt)) ->
  vall (vec_ok k) (downpass isroot up k vt).
Proof.
  induction vt using vtree_ind'. intros isroot up Hg Hup Hroot.
  destruct ks as [|c0 ks]; [exact Hg|].
  apply vall_node in Hg. destruct Hg as [Hv Hk].
  rewrite downpass_node. cbv zeta.
  set (roots := map vroot (c0 :: ks)). set (basem := if isroot then [] else [up]).
  assert (Hrok : Forall (vec_ok k) roots).
  { unfold roots. apply Forall_forall. intros w Hw. apply in_map_iff in Hw. destruct Hw as [t [Et Ht]]. subst w.
    apply vall_root. rewrite Forall_forall in Hk. apply Hk. exact Ht. }
  assert (Hbok : Forall (vec_ok k) basem).
  { unfold basem. destruct isroot; [constructor|]. constructor; [apply Hup; reflexivity | constructor]. }
  apply vall_node. split.
  - destruct isroot; [exact Hv|]. apply cp_vec_ok_list; [discriminate|]. apply Forall_app. split; assumption.
  - apply down_kids_vec_ok; auto.
    intros j. apply cp_vec_ok_list.
    + unfold basem. destruct isroot; [|discriminate]. simpl.
      destruct (Hroot eq_refl) as [Q|Q]; simpl in Q; [discriminate|].
      apply remove_nth_nonempty. unfold roots. rewrite map_length. exact Q.
    + apply Forall_app. split; [exact Hbok|].
      apply Forall_forall. intros w Hw. rewrite Forall_forall in Hrok. apply Hrok.
      clear -Hw. revert j Hw. induction roots as [|a r IHr]; intros j Hw; [destruct j; destruct Hw|].
      destruct j; simpl in Hw; [right; exact Hw|]. destruct Hw as [Q|Q]; [left; exact Q | right; eapply IHr; eauto].
Qed.

End VecOk.

(** * the whole reconstruction with random resolution *)
Section RandTop.
Variable S : Type.
Variable draw : nat -> S -> nat * S.
Hypothesis draw_lt : forall b s, 0 < b -> fst (draw b s) < b.
Variable tv : string -> vec.
Variable ts : string -> list nat.
Variable k : nat.
Variable T : utree.
Hypothesis Hwf : wf T = true.
Hypothesis Hdeg : 2 <= degree T.
Hypothesis tips : forall n, In n (leaves T) -> tip_ok tv ts k n.

Definition rr_vt (skip : bool) (a : algo) (s : S) : vtree := fst (fst (parsimony_r S draw skip tv k a T s)).

(** the number of steps is the one of the reconstruction without random resolution *)
Theorem rr_steps : forall skip a s,
  snd (fst (parsimony_r S draw skip tv k a T s)) = snd (parsimony skip tv k a T).
Proof.
  intros skip a s. unfold parsimony_r, parsimony.
  destruct (is_tip T); [reflexivity|].
  destruct (uppass tv k T) as [u st]. destruct (passes_r S draw skip a k u s). reflexivity.
Qed.

Lemma root_up_facts :
  is_tip T = false /\ vall (vec_ok k) (fst (uppass tv k T)) /\ 2 <= length (vkids (fst (uppass tv k T))).
Proof.
  destruct (root_facts tv ts k T Hwf Hdeg tips) as [Htip [[Hleaf Hnt] [Hk Hw]]].
  split; [exact Htip|].
  destruct T as [n cm sl]. simpl in Hnt, Hw, Hk. split.
  - apply (uppass_node_vec_ok tv k n cm sl Hnt).
    + destruct (kids_of sl); simpl in *; [lia | discriminate].
    + apply Forall_forall. intros [[e d]|] Hin; auto. rewrite Forall_forall in Hw.
      apply (uppass_vec_ok tv ts k); [apply (Hw _ Hin)|]. intros m Hm. apply tips. eapply leaves_child; eauto.
  - rewrite uppass_unfold, Hnt. cbv zeta. simpl. rewrite map_length, kid_results_length. exact Hk.
Qed.

(** what the random DOWNPASS / DELTRAN output is, against the plain DOWNPASS output *)
Lemma rr_down_rprop : forall skip a s, a = Downpass \/ a = Deltran ->
  rprop (rr_vt skip a s) (fst (parsimony skip tv k Downpass T)).
Proof.
  intros skip a s Ha.
  destruct root_up_facts as [Htip [Hall Hku]].
  unfold rr_vt, parsimony_r, parsimony. rewrite Htip.
  destruct (uppass tv k T) as [u st]. simpl in Hall, Hku.
  destruct Ha; subst a; simpl passes_r; simpl passes.
  - pose proof (downpass_r_prop S draw draw_lt k u true [] s Hall ltac:(discriminate) (fun _ => or_intror Hku)) as P.
    destruct (downpass_r S draw true [] k u s). exact P.
  - assert (Hd : vall (vec_ok k) (downpass true [] k u)).
    { apply downpass_vec_ok; [exact Hall | discriminate | intros _; right; exact Hku]. }
    pose proof (deltran_r_prop S draw draw_lt k (downpass true [] k u) None s Hd ltac:(discriminate)) as P.
    destruct (deltran_r S draw None (downpass true [] k u) s). exact P.
Qed.

(** exactly one state at every inner node, for the three algorithms and every source of choices *)
Theorem rr_inner_single : forall skip a s, a <> NoPass ->
  forall w, In w (vinners (rr_vt skip a s)) -> single w.
Proof.
  intros skip a s Ha.
  destruct a; try congruence.
  - apply (rr_down_rprop skip Deltran s (or_intror eq_refl)).
  - destruct root_up_facts as [Htip [Hall Hku]].
    destruct (root_facts tv ts k T Hwf Hdeg tips) as [_ [Hin [Hk Hw]]].
    unfold rr_vt, parsimony_r. rewrite Htip.
    destruct (uppass tv k T) as [u st] eqn:Eu. simpl passes_r.
    assert (Eu' : u = fst (uppass tv k T)) by (rewrite Eu; reflexivity).
    destruct (vec_ok_good k (vroot u) (vall_root _ _ Hall)) as [Gu Nu].
    pose proof (acc_r_sub S draw draw_lt k tv ts skip T (vroot u) s Hin Hw tips Gu Nu) as P.
    rewrite <- Eu' in P. specialize (P ltac:(unfold U; rewrite <- Eu'; auto)).
    destruct (acctran_r S draw skip (vroot u) u s). apply P.
  - apply (rr_down_rprop skip Downpass s (or_introl eq_refl)).
Qed.

(** DOWNPASS / DELTRAN with random resolution: every reported state occurs at that node in a
    most-parsimonious labelling (it belongs to the plain DOWNPASS set) *)
Theorem rr_down_sound : forall skip a s q x v, a = Downpass \/ a = Deltran ->
  node_at T q = Some x -> is_leaf x = false ->
  vec_at T (rr_vt skip a s) q = Some v ->
  forall y, nth y v 0 = 1 -> opt_state_at ts T q y.
Proof.
  intros skip a s q x v Ha Hq Hx Hv y Hy.
  destruct (rr_down_rprop skip a s Ha) as [Hle _].
  destruct (vle_vec_at q T _ _ v Hle Hv) as [v0 [Hv0 Hsub]].
  apply (downpass_exact tv ts k T Hwf Hdeg tips skip q x v0 Hq Hx Hv0 y). apply Hsub. exact Hy.
Qed.

(** ACCTRAN with random resolution: for every source of choices the labelling read off the
    output is most parsimonious *)
Theorem rr_acctran_optimal : forall skip s, optimal ts T (lab_of T (rr_vt skip Acctran s)).
Proof.
  intros skip s.
  destruct root_up_facts as [Htip [Hall Hku]].
  destruct (root_facts tv ts k T Hwf Hdeg tips) as [_ [Hin [Hk Hw]]].
  unfold rr_vt, parsimony_r. rewrite Htip.
  destruct (uppass tv k T) as [u st] eqn:Eu. simpl passes_r.
  assert (Eu' : u = fst (uppass tv k T)) by (rewrite Eu; reflexivity).
  assert (Est : st = up_steps tv k T) by (unfold up_steps; rewrite Eu; reflexivity).
  destruct (vec_ok_good k (vroot u) (vall_root _ _ Hall)) as [Gu Nu].
  pose proof (acc_r_sub S draw draw_lt k tv ts skip T (vroot u) s Hin Hw tips Gu Nu) as P.
  rewrite <- Eu' in P. specialize (P ltac:(unfold U; rewrite <- Eu'; auto)).
  destruct (acctran_r S draw skip (vroot u) u s) as [R s']. simpl fst in *.
  destruct P as [Pc _].
  apply (mincost_optimal tv ts k T Hwf Hdeg tips); [apply shape_lab_of|].
  rewrite Pc. unfold C, up_steps. reflexivity.
Qed.

End RandTop.

(** the list of choices as a source: every draw is below its bound *)
Lemma draw_list_lt : forall b cs, 0 < b -> fst (draw_list b cs) < b.
Proof. intros b [|c cs] H; simpl; [exact H | apply Nat.mod_upper_bound; lia]. Qed.

(** * DOWNPASS and DELTRAN with random resolution can give a labelling that is not most
      parsimonious: each node is resolved independently of the state chosen above it *)
Local Open Scope string_scope.
Definition rtip (n : string) : utree := UNode n [] [None].
(** (a,b,(c,d)) with a = c = state 0, b = d = state 1: 2 changes are enough; choices 0,1 give 3 *)
Definition rw_tree1 : utree :=
  UNode "" [] [Some (e0, rtip "a"); Some (e0, rtip "b");
               Some (e0, UNode "" [] [None; Some (e0, rtip "c"); Some (e0, rtip "d")])].
Definition rw_ts1 (n : string) : list nat := if String.eqb n "a" || String.eqb n "c" then [0] else [1].
Definition rw_tv1 (n : string) : vec := if String.eqb n "a" || String.eqb n "c" then [1; 0] else [0; 1].

Example downpass_random_resolve_optimal_refuted :
  exists cs, let R := fst (fst (parsimony_r (list nat) draw_list false rw_tv1 2 Downpass rw_tree1 cs)) in
    is_mincost rw_ts1 rw_tree1 (up_steps rw_tv1 2 rw_tree1) /\
    up_steps rw_tv1 2 rw_tree1 < cost rw_ts1 rw_tree1 (lab_of rw_tree1 R).
Proof.
  exists [0; 1]. split.
  - apply up_steps_mincost; [reflexivity | vm_compute; lia|].
    intros n Hn. simpl in Hn.
    repeat (destruct Hn as [Hn|Hn]; [subst n; (split; [reflexivity|]; split; [intros [|[|[|x]]]; reflexivity | first [exists 0; reflexivity | exists 1; reflexivity]])|]).
    destruct Hn.
  - vm_compute. lia.
Qed.

(** (a,b,(c,d,e)) with a = 0, b = 1, c = 0, d = e = 2: 3 changes are enough; the root takes 1,
    which is not in the final set {0,2} of the inner node, which then picks 0: 4 changes *)
Definition rw_tree2 : utree :=
  UNode "" [] [Some (e0, rtip "a"); Some (e0, rtip "b");
               Some (e0, UNode "" [] [None; Some (e0, rtip "c"); Some (e0, rtip "d"); Some (e0, rtip "e")])].
Definition rw_ts2 (n : string) : list nat :=
  if String.eqb n "a" || String.eqb n "c" then [0] else if String.eqb n "b" then [1] else [2].
Definition rw_tv2 (n : string) : vec :=
  if String.eqb n "a" || String.eqb n "c" then [1; 0; 0] else if String.eqb n "b" then [0; 1; 0] else [0; 0; 1].

Example deltran_random_resolve_optimal_refuted :
  exists cs, let R := fst (fst (parsimony_r (list nat) draw_list false rw_tv2 3 Deltran rw_tree2 cs)) in
    is_mincost rw_ts2 rw_tree2 (up_steps rw_tv2 3 rw_tree2) /\
    up_steps rw_tv2 3 rw_tree2 < cost rw_ts2 rw_tree2 (lab_of rw_tree2 R).
Proof.
  exists [1; 0]. split.
  - apply up_steps_mincost; [reflexivity | vm_compute; lia|].
    intros n Hn. simpl in Hn.
    repeat (destruct Hn as [Hn|Hn]; [subst n; (split; [reflexivity|]; split; [intros [|[|[|[|x]]]]; reflexivity | first [exists 0; reflexivity | exists 1; reflexivity | exists 2; reflexivity]])|]).
    destruct Hn.
  - vm_compute. lia.
Qed.

(** * ParsimonyAcr with randomResolve = true, for every list of choices *)
Theorem parsimony_acr_r_ok : forall m t a cs,
  wf t = true -> 2 <= degree t ->
  (forall n, In n (leaves t) -> exists s, lookup n m = Some s) ->
  exists r cs', parsimony_acr_r (list nat) draw_list t m a cs = Ok (r, cs') /\
    acr_vecs r = vflat (rr_vt (list nat) draw_list (acr_tv m) (acr_k m) t false a cs) /\
    acr_steps r = up_steps (acr_tv m) (acr_k m) t.
Proof.
  intros m t a cs Hwf Hd Hmap. unfold parsimony_acr_r.
  destruct (find _ (all_tip_names t)) eqn:F.
  - apply find_some in F. destruct F as [Hin Q].
    rewrite all_tip_names_leaves in Hin by assumption.
    destruct (Hmap _ Hin) as [s' Hs']. rewrite Hs' in Q. discriminate.
  - unfold rr_vt, acr_tv, acr_k.
    assert (Ht : is_tip t = false) by (unfold is_tip; apply Nat.eqb_neq; lia).
    unfold up_steps, parsimony_r. rewrite Ht.
    destruct (uppass _ _ t) as [u st].
    destruct (passes_r (list nat) draw_list false a (length (acr_alphabet m)) u cs) as [R cs'].
    simpl. eexists. eexists. split; [reflexivity|]. split; reflexivity.
Qed.
