(** C05 (i) for RerootOutGroup(removeoutgroup = true): statement on the whole function. *)
From Coq Require Import String ZArith QArith Bool Arith Lia List Permutation Setoid Morphisms.
From GT Require Import Base.UTree Spec.Obs Model.Reroot Model.Outgroup Spec.Unrooted
     Proofs.RerootBase Proofs.Reroot Proofs.Reorder Proofs.Unroot Proofs.Splits Proofs.C05Main
     Proofs.OutgroupBase Proofs.OutgroupCut Proofs.OutgroupKeep Proofs.OutgroupLCA Proofs.OutgroupClade
     Proofs.OutgroupMain Proofs.OutgroupSide Proofs.OutgroupRemove.
Import ListNotations.
Local Close Scope Q_scope.
Local Arguments n_up : simpl never.

Theorem reroot_outgroup_remove strict t names t' :
  wf t = true -> 2 <= degree t -> (rooted t = true -> root_has_inner_child t = true) ->
  NoDup (leaves t) ->
  reroot_outgroup true strict t names = Ok t' ->
  let G := group (unroot t) names in
  wf t' = true /\ 2 <= degree t' /\
  exists Rm,
    Permutation (leaves t) (leaves t' ++ Rm) /\ incl G Rm /\
    (strict = true \/ side_of t G -> Permutation Rm G) /\
    exists Em, dists_equiv (pairdists len0 t) (pairdists len0 t' ++ Em) /\ Forall (ends_in Rm) Em.
Proof.
  intros Hwf Hd Hi HND H G.
  destruct (reroot_outgroup_remove_inv _ _ _ _ H)
    as (q&lf&v&p&es&diff&pp&ks&lower&P&Hne&Hf&Hv&HL&Hs&HR&HP&Hcase).
  apply find_some in Hf as [Hq Hout]. simpl in Hout.
  destruct (setting_facts t names Hwf Hd Hi HND q lf v Hq Hv) as (W1&D1&L1&W2&D2&L2&ND2&NG&IG&SE).
  destruct (unroot_stage t Hwf Hd Hi) as [_ [_ [_ P1]]].
  pose proof Hq as Hq'. apply tip_paths_In in Hq' as [Hnq _].
  destruct (view_from_spec _ _ _ _ W1 D1 Hnq Hv) as [_ [_ [_ P2]]].
  assert (Hk : 0 < length (group (unroot t) names))
    by (destruct (group (unroot t) names); [congruence | simpl; lia]).
  destruct (root_edge_inside _ (tv_tree v) Hk W2 D2 ND2 NG IG p es diff pp ks lower HL HR)
    as (P'&e&ch&HP'&HK&Ht&Hfl).
  assert (P' = P) by congruence. subst P'.
  (* with a monophyletic group the removed leaves are exactly the group *)
  assert (Exact : strict = true \/ side_of t G ->
                  (lower = true -> Permutation (leaves ch) G) /\
                  (lower = false -> Permutation (slot_leaves (remove_nth ks (uslots P))) G)).
  { intros Hx.
    assert (diff = 0).
    { destruct Hx as [->|Hx]; [destruct Hs; [auto|discriminate]|].
      eapply (side_diff0 t names); eauto. }
    subst diff.
    destruct (root_edge_clade _ (tv_tree v) Hk W2 D2 ND2 NG IG p es pp ks lower HL HR)
      as (P''&e''&ch''&HP''&HK''&Ht''&Hfl'').
    assert (P'' = P) by congruence. subst P''.
    assert (ch'' = ch) by congruence. subst ch''.
    split; [exact Ht''|]. intros El. now destruct (Hfl'' El). }
  (* transport from the view back to the input tree *)
  assert (Back : forall Rm,
             (Permutation (leaves (tv_tree v)) (leaves t' ++ Rm) /\
              exists Em, dists_equiv (pairdists len0 (tv_tree v)) (pairdists len0 t' ++ Em) /\ Forall (ends_in Rm) Em) ->
             Permutation (leaves t) (leaves t' ++ Rm) /\
             exists Em, dists_equiv (pairdists len0 t) (pairdists len0 t' ++ Em) /\ Forall (ends_in Rm) Em).
  { intros Rm HRm.
    apply (restr_perm_l len0 Rm t (unroot t) t'); [now symmetry | now symmetry|].
    apply (restr_perm_l len0 Rm (unroot t) (tv_tree v) t'); [now symmetry | symmetry; apply P2 | exact HRm]. }
  destruct Hcase as [[El [Hdeg [t3 [HU HRr]]]]|[El [e' [nc [cc [slc [HK' [Hdeg Et']]]]]]]].
  - (* the subtree below the chosen branch is removed *)
    subst lower.
    destruct P as [nP cP slP]. simpl uslots in *. unfold degree in Hdeg. simpl in Hdeg.
    destruct (kids_of_remove_nth slP ks (e, ch) HK) as [A [B [K1 [K2 [K3 K4]]]]].
    assert (NEk : kids_of (remove_nth ks slP) <> []).
    { pose proof (length_slots (remove_nth ks slP)) as HLs. intros K. rewrite K in HLs. simpl in HLs.
      assert (n_up slP <= 1).
      { destruct pp as [|k0 r0].
        - simpl in HP. inversion HP as [HPe]. pose proof W2 as W2'. rewrite HPe in W2'.
          rewrite wf_unfold in W2'. apply andb_true_iff in W2' as [W _].
          apply Nat.eqb_eq in W. lia.
        - assert (W : wf_sub (UNode nP cP slP) = true)
            by (apply (node_at_wf_sub (k0 :: r0) (tv_tree v)); [left; auto | discriminate | exact HP]).
          rewrite wf_sub_unfold in W. apply andb_true_iff in W as [W _]. apply Nat.eqb_eq in W. lia. }
      lia. }
    pose proof (restr_remove_child len0 nP cP slP ks e ch HK NEk) as RB.
    set (f := fun P0 : utree => Some (UNode (uname P0) (ucom P0) (remove_nth ks (uslots P0)))) in *.
    destruct (update_at_restr len0 (leaves ch) pp (tv_tree v) (UNode nP cP slP) f (UNode nP cP (remove_nth ks slP)) HP eq_refl RB)
      as [t3' [U1 [U2 [U3 [U4 [U5 U6]]]]]].
    { rewrite !wf_sub_unfold, K1, K2, K3. intros Hw. apply andb_true_iff in Hw as [H1 H2]. rewrite H1. simpl.
      rewrite !forallb_app in *. apply andb_true_iff in H2 as [Ha Hb]. simpl in Hb.
      apply andb_true_iff in Hb as [_ Hb]. now rewrite Ha, Hb. }
    { rewrite !wf_unfold, K1, K2, K3. intros Hw. apply andb_true_iff in Hw as [H1 H2]. rewrite H1. simpl.
      rewrite !forallb_app in *. apply andb_true_iff in H2 as [Ha Hb]. simpl in Hb.
      apply andb_true_iff in Hb as [_ Hb]. now rewrite Ha, Hb. }
    assert (t3' = t3) by congruence. subst t3'.
    assert (W3 : wf t3 = true) by auto.
    assert (DP' : 2 <= degree (UNode nP cP (remove_nth ks slP))) by (unfold degree; simpl; lia).
    assert (D3 : 2 <= degree t3).
    { destruct pp as [|k0 r0].
      - simpl in U3. inversion U3; subst. exact DP'.
      - rewrite U6 by discriminate. exact D2. }
    assert (PO : path_ok t3 pp) by (eapply node_at_path_ok; eauto).
    destruct (reroot_path_preserves _ _ W3 D3 PO) as [t4 [E4 [W4 [D4 [L4 P4]]]]].
    assert (t4 = t') by congruence. subst t4.
    split; [exact W4|]. split; [exact D4|].
    exists (leaves ch).
    destruct (Back (leaves ch) (restr_perm_r len0 (leaves ch) (tv_tree v) t3 t' U2 L4 (P4 len0))) as [BL BE].
    split; [exact BL|]. split; [now apply Ht|]. split; [|exact BE].
    intros Hx. destruct (Exact Hx) as [E1 _]. now apply E1.
  - (* the chosen branch leads to a child of the root: that child alone is kept *)
    subst lower. destruct (Hfl eq_refl) as [Epp Hincl]. subst pp. simpl in HP. inversion HP; subst P.
    destruct (tv_tree v) as [n2 c2 sl2] eqn:E2. simpl uslots in *.
    assert (ch = UNode nc cc slc) by congruence. subst ch.
    assert (e' = e) by congruence. subst e'.
    assert (Wch : wf_sub (UNode nc cc slc) = true).
    { rewrite wf_unfold in W2. apply andb_true_iff in W2 as [_ W2]. rewrite forallb_forall in W2.
      apply (W2 (e, UNode nc cc slc)). apply kids_of_In. eapply nth_error_In; eauto. }
    rewrite wf_sub_unfold in Wch. apply andb_true_iff in Wch as [Wn Wk]. apply Nat.eqb_eq in Wn.
    split; [|split].
    + rewrite Et', wf_unfold, n_up_drop_up, Wn, kids_of_drop_up. simpl. exact Wk.
    + rewrite Et'. unfold degree. simpl. exact Hdeg.
    + exists (slot_leaves (remove_nth ks sl2)).
      assert (Lt : leaves t' = leaves (UNode nc cc slc))
        by (rewrite Et'; apply leaves_kids; [reflexivity | apply kids_of_drop_up]).
      assert (Pt : pairdists len0 t' = pairdists len0 (UNode nc cc slc))
        by (rewrite Et'; apply pairdists_kids; apply kids_of_drop_up).
      destruct (Back _ (keep_child_restr len0 n2 c2 sl2 ks e (UNode nc cc slc) t' HK Lt Pt)) as [BL BE].
      split; [exact BL|]. split; [exact Hincl|]. split; [|exact BE].
      intros Hx. destruct (Exact Hx) as [_ E1]. now apply E1.
Qed.
