(** Heap model: the by-pointer loop of Tree.RemoveTips keeps the heap good (the square against
    the by-name loop of Model/Prune.v is not proved here). *)
From Coq Require Import String ZArith QArith Bool Arith Lia List.
From GT Require Import Base.UTree Model.Reroot Model.Heap Model.HeapEdit2 Proofs.HeapBase Proofs.HeapRep Proofs.HeapGood Proofs.HeapPrune.
Import ListNotations.
Local Close Scope Q_scope.

Theorem remove_tips_loop_heap_good revert names : forall tips h h', Good h ->
  remove_tips_loop_heap revert names tips h = HOk h' -> Good h'.
Proof.
  induction tips as [|x r IH]; intros h h' G E; cbn [remove_tips_loop_heap] in E; [injection E as <-; exact G|].
  destruct (get_node h x) as [hx| |]; cbn [hbind] in E; try discriminate.
  destruct (negb (Nat.eqb (length (hneigh hx)) 1)); [discriminate|].
  destruct (Prune.selected revert names (hname hx)); [|exact (IH h h' G E)].
  destruct (remove_tip_heap (hname hx) x h) as [h1| |] eqn:E1; cbn [hbind] in E; try discriminate.
  exact (IH h1 h' (remove_tip_heap_good h (hname hx) x h1 G E1) E).
Qed.

Theorem remove_tips_by_pointer_heap_good revert names h h' : Good h ->
  remove_tips_by_pointer_heap revert names h = HOk h' -> Good h'.
Proof.
  intros G E. unfold remove_tips_by_pointer_heap in E. destruct (tips_heap h) as [ts| |]; cbn [hbind] in E; try discriminate.
  exact (remove_tips_loop_heap_good revert names ts h h' G E).
Qed.
