(** C06, totality: on well-formed trees without single-child nodes, root degree >= 2 and
    distinct tip names, RemoveTips succeeds whenever at least three tips remain; the only
    refusals that can happen at all are "The node named X is not a tip" and "The tree after tip
    removal is only made of two tips ...", both with fewer than three tips left. *)
From Coq Require Import String ZArith QArith Bool Arith Lia List Permutation Setoid Morphisms.
From GT Require Import Base.UTree Spec.Obs Model.Reroot Spec.Unrooted Proofs.RerootBase Proofs.PruneBase
     Model.Prune Proofs.PruneStep Proofs.PruneSub Proofs.PruneRoot Proofs.Prune Proofs.CollapseBase.
Import ListNotations.
Local Close Scope Q_scope.
Local Arguments n_up : simpl never.
Local Arguments leaves : simpl never.
Local Arguments depths : simpl never.
Local Arguments pairdists : simpl never.
Local Arguments wf_sub : simpl never.
Local Arguments no_single_sub : simpl never.
Local Arguments merge_edge : simpl never.
Local Arguments reparent : simpl never.

Lemma filter_length_le {A} (f : A -> bool) l : length (filter f l) <= length l.
Proof. induction l as [|x l IH]; simpl; auto. destruct (f x); simpl; lia. Qed.

Lemma tip_leaves c : wf_sub c = true -> degree c = 1 -> length (leaves c) = 1.
Proof.
  destruct c as [n cm sl]. rewrite wf_sub_unfold. unfold degree. simpl. intros H Hd.
  apply andb_true_iff in H. destruct H as [Hu _]. apply Nat.eqb_eq in Hu.
  generalize (length_slots sl). rewrite Hu, Hd. intros E. rewrite leaves_unfold.
  destruct (kids_of sl); [reflexivity|simpl in E; lia].
Qed.

Lemma nss_deg c : no_single_sub c = true -> degree c <> 2.
Proof.
  destruct c as [n cm sl]. rewrite nss_unfold. unfold degree. simpl. intros H.
  apply andb_true_iff in H. destruct H as [H _]. now apply negb_true_iff, Nat.eqb_neq in H.
Qed.

Section Step.
  Variable nm : string.
  Notation k := (knm nm).

  Ltac kidsplit :=
    repeat (rewrite ?kids_of_app, ?kids_of_cons_some, ?kids_of_cons_none, ?forallb_app, ?andb_true_iff,
            ?n_up_app, ?n_up_cons, ?n_up_nil, ?app_length, ?kleaves_app, ?kleaves_cons in *; simpl forallb in *; simpl snd in *;
            simpl length in *).

  Lemma all_hit_ok' sl : Forall (fun s : slot => match s with Some (_, c) => hit_ok nm c | None => True end) sl.
  Proof. apply Forall_forall. intros [[e c]|] _; auto. apply rm_sub_ok. Qed.

  (** one call: success, or one of the two reachable refusals *)
  Lemma remove_tip_cases t :
    wf t = true -> no_single t = true -> degree t <> 1 -> NoDup (leaves t) ->
    (exists t', remove_tip nm t = Ok t') \/
    (remove_tip nm t = Err (err_not_tip nm) /\ (degree t = 0 \/ ~ In nm (leaves t))) \/
    (remove_tip nm t = Err (err_two_tips nm) /\ In nm (leaves t) /\ length (filter k (leaves t)) = 2).
  Proof.
    destruct t as [n c sl]. intros Hwf Hns Hdeg Hnd.
    rewrite wf_unfold in Hwf. rewrite no_single_unfold in Hns.
    apply andb_true_iff in Hwf. destruct Hwf as [Hup Hwk]. apply Nat.eqb_eq in Hup.
    unfold degree in *. simpl uslots in *.
    unfold remove_tip.
    assert (Et : is_tip (UNode n c sl) = false).
    { unfold is_tip, degree. simpl. now apply Nat.eqb_neq. }
    rewrite Et. simpl andb. cbv iota.
    destruct (kids_of sl) as [|k0 kr] eqn:Ek.
    { assert (sl = []) as ->.
      { generalize (length_slots sl). rewrite Ek, Hup. destruct sl; simpl; auto. lia. }
      right. left. simpl. split; auto. }
    assert (Hne : kids_of sl <> []) by (rewrite Ek; discriminate).
    assert (Hndk : NoDup (kleaves (kids_of sl))).
    { rewrite leaves_unfold, Ek in Hnd. now rewrite Ek. }
    assert (Hlv : leaves (UNode n c sl) = kleaves (kids_of sl)).
    { rewrite leaves_unfold, Ek. reflexivity. }
    rewrite <- Ek in *. clear Ek k0 kr.
    generalize (node_hit nm sl (all_hit_ok' sl) Hwk Hns Hndk).
    destruct (first_hit (hit nm (rm_sub nm)) 0 sl) as [[[i e] o]|].
    2:{ intros Hnot. right. left. split; auto. right. now rewrite Hlv. }
    intros [A [ch [B [-> [-> [Ho [Hnf [HA [HB [Hin [Hwch [Hsch Heqo]]]]]]]]]]]].
    assert (Hint : In nm (leaves (UNode n c (A ++ Some (e, ch) :: B)))).
    { rewrite Hlv. kidsplit. rewrite !in_app_iff. auto. }
    destruct o as [|ch'| |ec cc|m]; simpl in Ho.
    - congruence.
    - left. eexists. reflexivity.
    - (* a tip attached to the root *)
      destruct Ho as [Hk0 Hn0].
      rewrite remove_nth_app.
      assert (Dt : depths len0 (UNode n c (A ++ Some (e, ch) :: B)) =
                   aggD (contribs len0 (kids_of A ++ (e, ch) :: kids_of B))).
      { rewrite depths_agg; kidsplit; auto. }
      destruct (agg_gone nm (kids_of A) (kids_of B) HA HB (e, ch) (contrib_gone nm e ch Hk0 Hn0)) as [G1 _].
      rewrite <- Dt in G1. rewrite <- kids_of_app in G1.
      apply deq_names in G1. rewrite contribs_names, fD_names, depths_names in G1.
      kidsplit. destruct Hwk as [HwA [_ HwB]]. destruct Hns as [HsA [_ HsB]].
      assert (HwL : forallb (fun p => wf_sub (snd p)) (kids_of (A ++ B)) = true) by (kidsplit; auto).
      assert (HsL : forallb (fun p => no_single_sub (snd p)) (kids_of (A ++ B)) = true) by (kidsplit; auto).
      assert (HuL : n_up (A ++ B) = 0) by (kidsplit; lia).
      remember (A ++ B) as L.
      destruct L as [|s1 [|s2 [|s3 L]]].
      + left. eexists. reflexivity.
      + destruct s1 as [[e1 [n1 cm1 sl1]]|]; [|unfold n_up in HuL; simpl in HuL; lia].
        left. eexists. reflexivity.
      + destruct s1 as [[e1 c1]|]; [|rewrite n_up_cons in HuL; lia].
        destruct s2 as [[e2 c2]|]; [|rewrite !n_up_cons in HuL; lia].
        simpl in HwL, HsL. rewrite andb_true_r in HwL, HsL.
        apply andb_true_iff in HwL. destruct HwL as [Hw1 Hw2].
        apply andb_true_iff in HsL. destruct HsL as [Hs1 Hs2].
        destruct c1 as [n1 cm1 sl1], c2 as [n2 cm2 sl2].
        unfold after_del_root. cbv zeta.
        destruct (Nat.ltb 1 (degree (UNode n1 cm1 sl1) - 1)) eqn:E1; [left; eexists; reflexivity|].
        destruct (Nat.ltb 1 (degree (UNode n2 cm2 sl2) - 1)) eqn:E2; [left; eexists; reflexivity|].
        apply Nat.ltb_ge in E1, E2.
        assert (D1 : degree (UNode n1 cm1 sl1) = 1).
        { generalize (nss_deg (UNode n1 cm1 sl1) Hs1) (wf_sub_up _ Hw1). unfold degree in *. simpl uslots in *.
          intros Hd Hu. generalize (length_slots sl1). lia. }
        assert (D2 : degree (UNode n2 cm2 sl2) = 1).
        { generalize (nss_deg (UNode n2 cm2 sl2) Hs2) (wf_sub_up _ Hw2). unfold degree in *. simpl uslots in *.
          intros Hd Hu. generalize (length_slots sl2). lia. }
        rewrite D1, D2. simpl.
        right. right. split; auto. split; auto.
        apply Permutation_length in G1. rewrite <- G1.
        assert (EK : kids_of A ++ kids_of B = [(e1, UNode n1 cm1 sl1); (e2, UNode n2 cm2 sl2)]).
        { rewrite <- kids_of_app, <- HeqL. reflexivity. }
        rewrite <- kleaves_app, EK. unfold kleaves. simpl. rewrite !app_length.
        rewrite (tip_leaves _ Hw1 D1), (tip_leaves _ Hw2 D2). reflexivity.
      + left. assert (E3 : after_del_root nm n c (s1 :: s2 :: s3 :: L) = Ok (UNode n c (s1 :: s2 :: s3 :: L))).
        { destruct s1 as [[? [? ? ?]]|], s2 as [[? ?]|]; reflexivity. }
        rewrite E3. eexists. reflexivity.
    - left. eexists. reflexivity.
    - destruct Ho.
  Qed.
End Step.

(** * Tips() lists nodes with one neighbour *)
Lemma tips_in_nodes : forall t x, In x (tips t) -> In x (nodes t) /\ is_tip x = true.
Proof.
  induction t as [n c sl IH] using utree_ind'. intros x Hx.
  simpl tips in Hx. simpl nodes. apply in_app_or in Hx. destruct Hx as [Hx|Hx].
  - destruct (is_tip (UNode n c sl)) eqn:E; [|destruct Hx]. destruct Hx as [<-|[]]. split; auto. now left.
  - rewrite in_flat_map in Hx. destruct Hx as [[[e ch]|] [Hs Hx]]; [|destruct Hx].
    rewrite Forall_forall in IH. destruct (IH _ Hs x Hx) as [H1 H2]. split; auto.
    right. rewrite in_flat_map. exists (Some (e, ch)). auto.
Qed.

Lemma has_tip_leaf t nm : wf t = true -> 2 <= degree t -> In nm (leaves t) -> has_tip nm t = true.
Proof.
  intros Hw Hd Hin. rewrite <- (tip_names_leaves t Hw Hd) in Hin. unfold tip_names in Hin.
  apply in_map_iff in Hin. destruct Hin as [x [<- Hx]]. destruct (tips_in_nodes t x Hx) as [H1 H2].
  unfold has_tip. apply existsb_exists. exists x. split; auto. now rewrite H2, String.eqb_refl.
Qed.

Lemma name_in_false x l : ~ In x l -> name_in x l = false.
Proof.
  intros H. unfold name_in. destruct (existsb (String.eqb x) l) eqn:E; auto.
  apply existsb_exists in E. destruct E as [y [Hy E]]. apply String.eqb_eq in E. subst. tauto.
Qed.

Lemma has_dup_false l : NoDup l -> has_dup l = false.
Proof. induction 1; simpl; auto. now rewrite name_in_false, IHNoDup. Qed.

Lemma degree_of_leaves t : wf t = true -> degree t <> 1 -> 2 <= length (leaves t) -> 2 <= degree t.
Proof.
  destruct t as [n c sl]. unfold degree. simpl. intros _ Hd Hl.
  destruct sl as [|s1 [|s2 r]]; simpl in *; try lia.
  all: try (rewrite leaves_unfold in Hl; simpl in Hl; lia).
Qed.

Lemma tip_names_nodup t : wf t = true -> degree t <> 1 -> NoDup (leaves t) -> has_dup (tip_names t) = false.
Proof.
  intros Hw Hd Hn. destruct (Nat.eq_dec (degree t) 0) as [E|E].
  - destruct t as [n c sl]. unfold degree in E. simpl in E. destruct sl; [|discriminate]. reflexivity.
  - rewrite tip_names_leaves by (auto; lia). now apply has_dup_false.
Qed.

Lemma filter_and_le {A} (p q : A -> bool) l :
  length (filter (fun x => p x && q x) l) <= length (filter q l).
Proof. rewrite <- filter_filter. apply filter_length_le. Qed.

(** * the loop *)
Section LoopTotal.
  Variable revert : bool.
  Variable names : list string.

  Lemma remove_loop_total : forall todo t,
      wf t = true -> no_single t = true -> degree t <> 1 -> NoDup (leaves t) ->
      NoDup todo -> incl todo (leaves t) ->
      3 <= length (filter (pending revert names todo) (leaves t)) ->
      exists t', remove_loop revert names todo t = Ok t'.
  Proof.
    induction todo as [|nm r IH]; intros t Hwf Hns Hdeg Hnd Hnt Hincl H3.
    - eexists. reflexivity.
    - assert (Hd2 : 2 <= degree t).
      { apply degree_of_leaves; auto. generalize (filter_length_le (pending revert names (nm :: r)) (leaves t)). lia. }
      assert (Hin : In nm (leaves t)) by (apply Hincl; now left).
      inversion Hnt as [|? ? Hnr Hntr]; subst.
      simpl. rewrite (has_tip_leaf t nm Hwf Hd2 Hin). simpl negb. cbv iota.
      destruct (selected revert names nm) eqn:Hs.
      + assert (H3' : 3 <= length (filter (knm nm) (leaves t))).
        { erewrite filter_ext in H3; [|intros x; now apply pending_cons_sel].
          generalize (filter_and_le (pending revert names r) (knm nm) (leaves t)). lia. }
        destruct (remove_tip_cases nm t Hwf Hns Hdeg Hnd) as [[t1 Hrm]|[[Hrm [Hx|Hx]]|[Hrm [_ Hx]]]]; try lia; try tauto.
        rewrite Hrm.
        destruct (remove_tip_ok nm t t1 Hwf Hns Hdeg Hnd Hrm) as [Hwf1 [Hns1 [Hdeg1 [_ [Hlv _]]]]].
        apply IH; auto.
        * eapply NoDup_perm; [symmetry; exact Hlv|]. now apply NoDup_filter'.
        * intros x Hx. symmetry in Hlv. apply (Permutation_in _ Hlv). apply filter_In. split.
          -- apply Hincl. now right.
          -- apply knm_true. intros ->. auto.
        * rewrite (Permutation_length (Permutation_filter _ _ _ Hlv)), filter_filter.
          erewrite filter_ext; [exact H3|]. intros x. symmetry. now apply pending_cons_sel.
      + apply IH; auto.
        * intros x Hx. apply Hincl. now right.
        * erewrite filter_ext; [exact H3|]. intros x. symmetry. now apply pending_cons_unsel.
  Qed.

  (** RemoveTips succeeds whenever at least three tips remain *)
  Theorem remove_tips_total t :
    wf t = true -> no_single t = true -> 2 <= degree t -> NoDup (leaves t) ->
    3 <= length (filter (kept revert names) (leaves t)) ->
    exists t', remove_tips revert names t = Ok t'.
  Proof.
    intros Hwf Hns Hdeg Hnd H3. unfold remove_tips.
    assert (E : filter (pending revert names (leaves t)) (leaves t) = filter (kept revert names) (leaves t)).
    { apply filter_ext_in. intros x Hx. unfold pending, kept. now rewrite name_in_In. }
    destruct (remove_loop_total (tip_names t) t Hwf Hns ltac:(lia) Hnd) as [t1 Hl].
    - now rewrite tip_names_leaves.
    - rewrite tip_names_leaves by auto. apply incl_refl.
    - rewrite tip_names_leaves by auto. now rewrite E.
    - rewrite Hl. rewrite tip_names_leaves in Hl by auto.
      destruct (remove_loop_ok revert names _ _ _ Hwf Hns ltac:(lia) Hnd Hl) as [Hwf1 [Hns1 [Hdeg1 [Hlv _]]]].
      unfold update_tip_index. rewrite tip_names_nodup; auto.
      + eexists. reflexivity.
      + eapply NoDup_perm; [symmetry; exact Hlv|]. now apply NoDup_filter'.
  Qed.

  (** ... and when it refuses, fewer than three tips would remain and the message is one of two *)
  Lemma remove_loop_errors : forall todo t m,
      wf t = true -> no_single t = true -> degree t <> 1 -> NoDup (leaves t) ->
      remove_loop revert names todo t = Err m ->
      exists nm, m = err_not_tip nm \/ m = err_two_tips nm.
  Proof.
    induction todo as [|nm r IH]; intros t m Hwf Hns Hdeg Hnd Hl; [discriminate|].
    simpl in Hl. destruct (negb (has_tip nm t)).
    - injection Hl as <-. exists nm. now left.
    - destruct (selected revert names nm); [|eapply IH; eauto].
      destruct (remove_tip_cases nm t Hwf Hns Hdeg Hnd) as [[t1 Hrm]|[[Hrm _]|[Hrm _]]]; rewrite Hrm in Hl.
      + destruct (remove_tip_ok nm t t1 Hwf Hns Hdeg Hnd Hrm) as [Hwf1 [Hns1 [Hdeg1 [_ [Hlv _]]]]].
        eapply IH; eauto. eapply NoDup_perm; [symmetry; exact Hlv|]. now apply NoDup_filter'.
      + injection Hl as <-. exists nm. now left.
      + injection Hl as <-. exists nm. now right.
  Qed.

  Theorem remove_tips_errors t m :
    wf t = true -> no_single t = true -> 2 <= degree t -> NoDup (leaves t) ->
    remove_tips revert names t = Err m ->
    length (filter (kept revert names) (leaves t)) <= 2 /\
    exists nm, m = err_not_tip nm \/ m = err_two_tips nm.
  Proof.
    intros Hwf Hns Hdeg Hnd Hr. split.
    - destruct (le_lt_dec (length (filter (kept revert names) (leaves t))) 2) as [H|H]; auto.
      destruct (remove_tips_total t Hwf Hns Hdeg Hnd H) as [t' Ht']. congruence.
    - unfold remove_tips in Hr.
      destruct (remove_loop revert names (tip_names t) t) as [t1|m1] eqn:Hl.
      + rewrite tip_names_leaves in Hl by auto.
        destruct (remove_loop_ok revert names _ _ _ Hwf Hns ltac:(lia) Hnd Hl) as [Hwf1 [Hns1 [Hdeg1 [Hlv _]]]].
        unfold update_tip_index in Hr. rewrite tip_names_nodup in Hr; auto; [discriminate|].
        eapply NoDup_perm; [symmetry; exact Hlv|]. now apply NoDup_filter'.
      + injection Hr as <-. eapply remove_loop_errors; eauto. lia.
  Qed.

  (** removing every tip is always refused *)
  Theorem remove_tips_all_refused t :
    wf t = true -> no_single t = true -> 2 <= degree t -> NoDup (leaves t) ->
    filter (kept revert names) (leaves t) = [] ->
    exists m, remove_tips revert names t = Err m.
  Proof.
    intros Hwf Hns Hdeg Hnd H0. destruct (remove_tips revert names t) as [t'|m] eqn:E; [|eauto].
    destruct (remove_tips_ok revert names t t' Hwf Hns Hdeg Hnd E) as [_ [_ [Hlv _]]].
    rewrite H0 in Hlv. symmetry in Hlv. apply Permutation_nil in Hlv. exfalso. eapply leaves_nonempty; eauto.
  Qed.
End LoopTotal.
