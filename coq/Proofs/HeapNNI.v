(** Heap model: NNI (tree/rearrange.go nni.Apply / nni.Undo).  Part 1: the heap after the
    exchange described by lookups, evaluation of Apply and Undo, generic list lemmas. *)
From Coq Require Import String ZArith QArith Bool Arith Lia Permutation List.
From GT Require Import Base.UTree Model.Reroot Model.Heap Model.HeapEdit Proofs.Enum Proofs.HeapBase Proofs.HeapRep
     Proofs.HeapGood Proofs.HeapGoodRep Proofs.HeapRerootL Proofs.HeapReorder Proofs.HeapUnrootL Proofs.HeapUnroot
     Proofs.HeapCtx Proofs.HeapGraft Proofs.HeapCollapse.
Import ListNotations.
Local Close Scope Q_scope.

(** the end [old] of an edge replaced by [new] *)
Definition move_end (ed : hedge) (old new : nat) : hedge :=
  if Nat.eqb (hleft ed) old then mkHE new (hright ed) (hinfo ed) else mkHE (hleft ed) new (hinfo ed).

(** x = n1 with its moved neighbour xm (slot ix, branch e1), y = n2 with its moved neighbour
    ym (slot iy, branch e2); jx / jy: where xm / ym list x / y; ec the central branch *)
Record nni_desc (h h' : heap) (x y xm ym ix iy jx jy e1 e2 ec : nat) (fl : bool)
       (hx hy hxm hym : hnode) (ed1 ed2 edc : hedge) : Prop := {
  nd_nodes : forall z, alookup z (hnodes h') =
    if Nat.eqb z x then Some (mkHN (hname hx) (hcom hx) (put_nth ix ym (hneigh hx)) (put_nth ix e2 (hbr hx)))
    else if Nat.eqb z y then Some (mkHN (hname hy) (hcom hy) (put_nth iy xm (hneigh hy)) (put_nth iy e1 (hbr hy)))
    else if Nat.eqb z xm then Some (mkHN (hname hxm) (hcom hxm) (put_nth jx y (hneigh hxm)) (hbr hxm))
    else if Nat.eqb z ym then Some (mkHN (hname hym) (hcom hym) (put_nth jy x (hneigh hym)) (hbr hym))
    else alookup z (hnodes h);
  nd_edges : forall e, alookup e (hedges h') =
    if Nat.eqb e e1 then Some (move_end ed1 x y)
    else if Nat.eqb e e2 then Some (move_end ed2 y x)
    else if Nat.eqb e ec then Some (if fl then flip edc else edc)
    else alookup e (hedges h);
  nd_root : hroot h' = hroot h;
  nd_nextn : hnextn h' = hnextn h;
  nd_nexte : hnexte h' = hnexte h
}.

Lemma nni_apply_eval h q hx hy hxm hym ix iy jx jy ic e1 e2 ec ed1 ed2 edc :
  let x := q_n1 q in let y := q_n2 q in let xm := q_n12 q in
  let ym := if q_cross q then q_n21 q else q_n22 q in
  alookup x (hnodes h) = Some hx -> alookup y (hnodes h) = Some hy ->
  alookup xm (hnodes h) = Some hxm -> alookup ym (hnodes h) = Some hym ->
  x <> y -> x <> xm -> x <> ym -> y <> xm -> y <> ym -> xm <> ym ->
  index_of y (hneigh hx) = Some ic -> index_of xm (hneigh hx) = Some ix -> index_of x (hneigh hxm) = Some jx ->
  index_of ym (hneigh hy) = Some iy -> index_of y (hneigh hym) = Some jy ->
  nth_error (hbr hx) ix = Some e1 -> nth_error (hbr hy) iy = Some e2 -> nth_error (hbr hx) ic = Some ec ->
  ix < length (hneigh hx) -> iy < length (hneigh hy) -> jx < length (hneigh hxm) -> jy < length (hneigh hym) ->
  alookup e1 (hedges h) = Some ed1 -> alookup e2 (hedges h) = Some ed2 -> alookup ec (hedges h) = Some edc ->
  e1 <> e2 -> e1 <> ec -> e2 <> ec ->
  exists h', nni_apply_heap q h = HOk h' /\
    nni_desc h h' x y xm ym ix iy jx jy e1 e2 ec (Nat.eqb (hright ed1) x || Nat.eqb (hright ed2) y) hx hy hxm hym ed1 ed2 edc.
Proof.
  intros x y xm ym Hx Hy Hxm Hym N1 N2 N3 N4 N5 N6 Ic Ix Jx Iy Jy B1 B2 Bc L1 L2 L3 L4 E1 E2 Ec M1 M2 M3.
  assert (L1' : ix < length (hbr hx)) by (apply nth_error_Some; congruence).
  assert (L2' : iy < length (hbr hy)) by (apply nth_error_Some; congruence).
  unfold nni_apply_heap, node_index_msg, br_at, set_br_at, set_neigh_at, set_end, get_node, get_edge, nth_res.
  fold x y xm ym.
  repeat first
    [ progress cbn [hbind hleft hright hinfo hnodes hedges hroot hnextn hnexte set_node set_edge fst snd hname hcom hneigh hbr negb flip]
    | progress look
    | rewrite Hx | rewrite Hy | rewrite Hxm | rewrite Hym | rewrite Ic | rewrite Ix | rewrite Jx | rewrite Iy | rewrite Jy
    | rewrite B1 | rewrite B2 | rewrite Bc | rewrite E1 | rewrite E2 | rewrite Ec
    | rewrite (proj2 (Nat.ltb_lt _ _) L1) | rewrite (proj2 (Nat.ltb_lt _ _) L2) | rewrite (proj2 (Nat.ltb_lt _ _) L3)
    | rewrite (proj2 (Nat.ltb_lt _ _) L4) | rewrite (proj2 (Nat.ltb_lt _ _) L1') | rewrite (proj2 (Nat.ltb_lt _ _) L2') ].
  destruct (Nat.eqb (hright ed1) x || Nat.eqb (hright ed2) y) eqn:Fl.
  all: repeat first
    [ progress cbn [hbind hleft hright hinfo hnodes hedges hroot hnextn hnexte set_node set_edge fst snd hname hcom hneigh hbr negb flip]
    | progress look
    | rewrite Hx | rewrite Hy | rewrite Hxm | rewrite Hym | rewrite Ic | rewrite Ix | rewrite Jx | rewrite Iy | rewrite Jy
    | rewrite B1 | rewrite B2 | rewrite Bc | rewrite E1 | rewrite E2 | rewrite Ec
    | rewrite (proj2 (Nat.ltb_lt _ _) L1) | rewrite (proj2 (Nat.ltb_lt _ _) L2) | rewrite (proj2 (Nat.ltb_lt _ _) L3)
    | rewrite (proj2 (Nat.ltb_lt _ _) L4) | rewrite (proj2 (Nat.ltb_lt _ _) L1') | rewrite (proj2 (Nat.ltb_lt _ _) L2') ].
  all: eexists; (split; [reflexivity|]); constructor; try reflexivity.
  all: try (intros z; cbn [hnodes set_node set_edge]; rewrite !alookup_aupd; cbn [hname hcom hneigh hbr];
            eqb_cases; subst; try congruence; reflexivity).
  all: intros e; cbn [hedges set_node set_edge]; rewrite !alookup_aupd; unfold move_end; cbn [hleft hright hinfo];
       eqb_cases; subst; try congruence; reflexivity.
Qed.

Lemma nni_undo_eval h q hx hy hxm hym ix iy jx jy ic e1 e2 ec ed1 ed2 edc :
  let x := q_n1 q in let y := q_n2 q in let ym := q_n12 q in
  let xm := if q_cross q then q_n21 q else q_n22 q in
  alookup x (hnodes h) = Some hx -> alookup y (hnodes h) = Some hy ->
  alookup xm (hnodes h) = Some hxm -> alookup ym (hnodes h) = Some hym ->
  x <> y -> x <> xm -> x <> ym -> y <> xm -> y <> ym -> xm <> ym ->
  index_of y (hneigh hx) = Some ic -> index_of xm (hneigh hx) = Some ix -> index_of x (hneigh hxm) = Some jx ->
  index_of ym (hneigh hy) = Some iy -> index_of y (hneigh hym) = Some jy ->
  nth_error (hbr hx) ix = Some e1 -> nth_error (hbr hy) iy = Some e2 -> nth_error (hbr hx) ic = Some ec ->
  ix < length (hneigh hx) -> iy < length (hneigh hy) -> jx < length (hneigh hxm) -> jy < length (hneigh hym) ->
  alookup e1 (hedges h) = Some ed1 -> alookup e2 (hedges h) = Some ed2 -> alookup ec (hedges h) = Some edc ->
  e1 <> e2 -> e1 <> ec -> e2 <> ec ->
  exists h', nni_undo_heap q h = HOk h' /\
    nni_desc h h' x y xm ym ix iy jx jy e1 e2 ec (Nat.eqb (hright ed2) y || Nat.eqb (hright ed1) x) hx hy hxm hym ed1 ed2 edc.
Proof.
  intros x y xm ym Hx Hy Hxm Hym N1 N2 N3 N4 N5 N6 Ic Ix Jx Iy Jy B1 B2 Bc L1 L2 L3 L4 E1 E2 Ec M1 M2 M3.
  assert (L1' : ix < length (hbr hx)) by (apply nth_error_Some; congruence).
  assert (L2' : iy < length (hbr hy)) by (apply nth_error_Some; congruence).
  unfold nni_undo_heap, node_index_msg, br_at, set_br_at, set_neigh_at, set_end, get_node, get_edge, nth_res.
  fold x y xm ym.
  repeat first
    [ progress cbn [hbind hleft hright hinfo hnodes hedges hroot hnextn hnexte set_node set_edge fst snd hname hcom hneigh hbr negb flip]
    | progress look
    | rewrite Hx | rewrite Hy | rewrite Hxm | rewrite Hym | rewrite Ic | rewrite Ix | rewrite Jx | rewrite Iy | rewrite Jy
    | rewrite B1 | rewrite B2 | rewrite Bc | rewrite E1 | rewrite E2 | rewrite Ec
    | rewrite (proj2 (Nat.ltb_lt _ _) L1) | rewrite (proj2 (Nat.ltb_lt _ _) L2) | rewrite (proj2 (Nat.ltb_lt _ _) L3)
    | rewrite (proj2 (Nat.ltb_lt _ _) L4) | rewrite (proj2 (Nat.ltb_lt _ _) L1') | rewrite (proj2 (Nat.ltb_lt _ _) L2') ].
  destruct (Nat.eqb (hright ed2) y || Nat.eqb (hright ed1) x) eqn:Fl.
  all: repeat first
    [ progress cbn [hbind hleft hright hinfo hnodes hedges hroot hnextn hnexte set_node set_edge fst snd hname hcom hneigh hbr negb flip]
    | progress look
    | rewrite Hx | rewrite Hy | rewrite Hxm | rewrite Hym | rewrite Ic | rewrite Ix | rewrite Jx | rewrite Iy | rewrite Jy
    | rewrite B1 | rewrite B2 | rewrite Bc | rewrite E1 | rewrite E2 | rewrite Ec
    | rewrite (proj2 (Nat.ltb_lt _ _) L1) | rewrite (proj2 (Nat.ltb_lt _ _) L2) | rewrite (proj2 (Nat.ltb_lt _ _) L3)
    | rewrite (proj2 (Nat.ltb_lt _ _) L4) | rewrite (proj2 (Nat.ltb_lt _ _) L1') | rewrite (proj2 (Nat.ltb_lt _ _) L2') ].
  all: eexists; (split; [reflexivity|]); constructor; try reflexivity.
  all: try (intros z; cbn [hnodes set_node set_edge]; rewrite !alookup_aupd; cbn [hname hcom hneigh hbr];
            eqb_cases; subst; try congruence; reflexivity).
  all: intros e; cbn [hedges set_node set_edge]; rewrite !alookup_aupd; unfold move_end; cbn [hleft hright hinfo];
       eqb_cases; subst; try congruence; reflexivity.
Qed.

Lemma nni_desc_sym h h' x y xm ym ix iy jx jy e1 e2 ec fl hx hy hxm hym ed1 ed2 edc :
  x <> y -> x <> xm -> x <> ym -> y <> xm -> y <> ym -> xm <> ym -> e1 <> e2 ->
  nni_desc h h' x y xm ym ix iy jx jy e1 e2 ec fl hx hy hxm hym ed1 ed2 edc ->
  nni_desc h h' y x ym xm iy ix jy jx e2 e1 ec fl hy hx hym hxm ed2 ed1 edc.
Proof.
  intros N1 N2 N3 N4 N5 N6 M1 D. constructor.
  - intros z. rewrite (nd_nodes _ _ _ _ _ _ _ _ _ _ _ _ _ _ _ _ _ _ _ _ _ D). eqb_cases; subst; try congruence; reflexivity.
  - intros e. rewrite (nd_edges _ _ _ _ _ _ _ _ _ _ _ _ _ _ _ _ _ _ _ _ _ D). eqb_cases; subst; try congruence; reflexivity.
  - exact (nd_root _ _ _ _ _ _ _ _ _ _ _ _ _ _ _ _ _ _ _ _ _ D).
  - exact (nd_nextn _ _ _ _ _ _ _ _ _ _ _ _ _ _ _ _ _ _ _ _ _ D).
  - exact (nd_nexte _ _ _ _ _ _ _ _ _ _ _ _ _ _ _ _ _ _ _ _ _ D).
Qed.

(** * list lemmas *)
Lemma Forall2_set_nth2 {A B} (P Q : A -> B -> Prop) l sl k a x :
  Forall2 P l sl -> Q a x ->
  (forall j a' b', j <> k -> nth_error l j = Some a' -> nth_error sl j = Some b' -> P a' b' -> Q a' b') ->
  Forall2 Q (set_nth k a l) (set_nth k x sl).
Proof.
  intros H. revert k. induction H as [|a0 b0 l sl H0 H IH]; intros k Hq Hj; [rewrite !set_nth_nil; constructor|].
  destruct k as [|k].
  - rewrite !set_nth_0. constructor; [exact Hq|].
    clear - H Hj. assert (forall j a' b', nth_error l j = Some a' -> nth_error sl j = Some b' -> P a' b' -> Q a' b') as Hj'.
    { intros j a' b' X Y Z. apply (Hj (S j)); [lia|exact X|exact Y|exact Z]. }
    clear Hj. induction H as [|a1 b1 l sl H1 _ IH]; constructor.
    + apply (Hj' 0); [reflexivity|reflexivity|exact H1].
    + apply IH. intros j a' b' X Y Z. apply (Hj' (S j)); assumption.
  - rewrite !set_nth_cons. constructor.
    + apply (Hj 0); [lia|reflexivity|reflexivity|exact H0].
    + apply (IH k Hq). intros j a' b' Hne X Y Z. apply (Hj (S j)); [lia|exact X|exact Y|exact Z].
Qed.

Lemma nth_error_set_nth_eq {A} k (x : A) l : k < length l -> nth_error (set_nth k x l) k = Some x.
Proof.
  revert k. induction l as [|a l IH]; intros k H; [cbn in H; lia|]. destruct k; [reflexivity|].
  rewrite set_nth_cons. cbn. apply IH. cbn in H. lia.
Qed.
Lemma nth_error_set_nth_ne {A} k j (x : A) l : j <> k -> nth_error (set_nth k x l) j = nth_error l j.
Proof.
  revert k j. induction l as [|a l IH]; intros k j H; [rewrite set_nth_nil; reflexivity|].
  destruct k as [|k]; [rewrite set_nth_0; destruct j; [lia|reflexivity]|].
  rewrite set_nth_cons. destruct j; [reflexivity|]. cbn. apply IH. lia.
Qed.

(** replacing one slot: the flattened contents change by that slot only *)
Lemma flat_set_nth_swap {B} (f : lslot -> list B) sl k s s' : nth_error sl k = Some s ->
  Permutation (f s ++ flat_map f (set_nth k s' sl)) (f s' ++ flat_map f sl).
Proof.
  revert k. induction sl as [|a sl IH]; intros k H; [destruct k; discriminate|].
  destruct k as [|k]; cbn in H.
  - injection H as ->. rewrite set_nth_0. cbn [flat_map]. apply Permutation_app_swap_app.
  - rewrite set_nth_cons. cbn [flat_map]. rewrite (Permutation_app_swap_app (f s) (f a)), (IH k H).
    apply Permutation_app_swap_app.
Qed.

(** * a subtree whose parent pointer is overwritten in place *)
Lemma reparent_shape h h' pold pnew e a nma cma sla ha idx :
  shape true h (Some (pold, e)) (LNode a nma cma sla) -> lnup sla = 1 ->
  alookup a (hnodes h) = Some ha -> index_of pold (hneigh ha) = Some idx ->
  (forall y, In y (sids sla) -> y <> pold) ->
  alookup a (hnodes h') = Some (mkHN (hname ha) (hcom ha) (put_nth idx pnew (hneigh ha)) (hbr ha)) ->
  (forall y, In y (sids sla) -> alookup y (hnodes h') = alookup y (hnodes h) /\ y <> pnew) ->
  (forall y, In y (seids sla) -> alookup y (hedges h') = alookup y (hedges h)) ->
  shape true h' (Some (pnew, e)) (LNode a nma cma sla).
Proof.
  intros Sh Up Ha Idx Hold Ha' Fn Fe.
  apply shape_unfold in Sh. destruct Sh as [ha0 (C1 & C2 & C3 & C4 & C5)]. rewrite Ha in C1. injection C1 as <-.
  destruct (lnup_split sla) as [t1 [t2 Et]]; [lia|]. subst sla.
  rewrite lnup_app, lnup_cons_none in Up. assert (Zt1 : lnup t1 = 0) by lia. assert (Zt2 : lnup t2 = 0) by lia.
  apply Forall2_app_inv_r in C5. destruct C5 as (q1 & q2' & H1 & H2 & Eq).
  apply Forall2_cons_inv_r in H2. destruct H2 as (qe & q2 & Eq2 & Okn & H2'). rewrite Eq2 in Eq. clear Eq2 q2'.
  cbn [slot_ok] in Okn. injection Okn as <-. pose proof (Forall2_length' _ _ _ H1) as Lq1.
  assert (Hnr : nth_error (hneigh ha) (length t1) = Some pold).
  { rewrite <- (slots_of_fst ha C4). unfold slots_of. rewrite Eq, nth_error_map, <- Lq1, nth_error_app_mid. reflexivity. }
  assert (Hbr : nth_error (hbr ha) (length t1) = Some e).
  { rewrite <- (slots_of_snd ha C4). unfold slots_of. rewrite Eq, nth_error_map, <- Lq1, nth_error_app_mid. reflexivity. }
  assert (Eidx : idx = length t1).
  { destruct (index_of_spec _ _ _ Idx) as [I1 I2]. destruct (Nat.lt_trichotomy idx (length t1)) as [Hlt|[E0|Hgt]]; [|exact E0|].
    - exfalso. (* an earlier occurrence of pold: it would be a child slot *)
      assert (Hs : exists ce, nth_error q1 idx = Some ce /\ fst ce = pold).
      { rewrite <- (slots_of_fst ha C4) in I1. unfold slots_of in I1. rewrite Eq, nth_error_map, nth_error_app1 in I1 by lia.
        destruct (nth_error q1 idx) as [ce|]; [|discriminate]. exists ce. split; [reflexivity|]. cbn in I1. congruence. }
      destruct Hs as [ce [Hce Hf]]. destruct (Forall2_nth _ _ _ _ _ H1 Hce) as [s [Hs Hok]].
      destruct s as [[[e2 ei2] X]|]; [|exact (lnup_zero_notin _ Zt1 (nth_error_In _ _ Hs))].
      cbn [slot_ok] in Hok. destruct Hok as (_ & _ & B3 & _).
      apply (Hold (lid X)); [|congruence]. rewrite sids_app. apply in_or_app. left. eapply in_sids; [eapply nth_error_In; exact Hs|apply lid_in_lids].
    - exfalso. exact (I2 (length t1) Hgt Hnr). }
  subst idx.
  apply shape_unfold. eexists. split; [exact Ha'|]. cbn [hname hcom hneigh hbr].
  split; [exact C2|]. split; [exact C3|]. split; [unfold put_nth; rewrite length_set_nth; exact C4|].
  unfold put_nth. rewrite (combine_set_nth_l _ _ e) by exact Hbr. rewrite Eq, <- Lq1, set_nth_app.
  assert (Tr : forall cs ls, (forall s, In s ls -> In s (t1 ++ None :: t2)) -> lnup ls = 0 ->
             Forall2 (slot_ok true h (Some (pold, e)) a) cs ls -> Forall2 (slot_ok true h' (Some (pnew, e)) a) cs ls).
  { intros cs ls Hls Z F. eapply Forall2_impl_r; [exact F|]. intros ce s Hs Hok.
    destruct s as [[[e2 ei2] X]|]; [|exfalso; exact (lnup_zero_notin _ Z Hs)].
    pose proof (Hls _ Hs) as Hs'. cbn [slot_ok] in *. destruct Hok as (_ & B2 & B3 & B4 & B5). split.
    { intros E0. injection E0 as E0. destruct (Fn (fst ce)) as [_ N]; [eapply in_sids; [exact Hs'|rewrite <- B3; apply lid_in_lids]|]. apply N. rewrite <- E0. reflexivity. }
    split; [exact B2|]. split; [exact B3|]. split.
    - eapply edge_ok_eq; [|exact B4]. rewrite <- B2. apply Fe. eapply in_seids_here. exact Hs'.
    - eapply shape_frame; [| |exact B5].
      + intros y Hy. apply Fn. eapply in_sids; eassumption.
      + intros y Hy. apply Fe. eapply in_seids; eassumption. }
  apply Forall2_app; [|constructor; [reflexivity|]].
  - apply Tr; [intros s Hs; apply in_or_app; left; exact Hs|exact Zt1|exact H1].
  - apply Tr; [intros s Hs; apply in_or_app; right; right; exact Hs|exact Zt2|exact H2'].
Qed.
