(** C06: one call of removeTip seen from the root ([remove_tip]). *)
From Coq Require Import String ZArith QArith Bool Arith Lia List Permutation Setoid Morphisms.
From GT Require Import Base.UTree Spec.Obs Model.Reroot Spec.Unrooted Proofs.RerootBase Proofs.PruneBase
     Model.Prune Proofs.PruneStep Proofs.PruneSub.
Import ListNotations.
Local Close Scope Q_scope.
Local Arguments n_up : simpl never.
Local Arguments depths : simpl never.
Local Arguments pairdists : simpl never.
Local Arguments leaves : simpl never.
Local Arguments wf_sub : simpl never.
Local Arguments no_single_sub : simpl never.
Local Arguments merge_edge : simpl never.
Local Arguments reparent : simpl never.

Notation w := len0.

Lemma no_single_unfold n c sl :
  no_single (UNode n c sl) = forallb (fun p => no_single_sub (snd p)) (kids_of sl).
Proof. reflexivity. Qed.

Lemma contribs_app ks ks' : contribs w (ks ++ ks') = contribs w ks ++ contribs w ks'.
Proof. apply map_app. Qed.

Lemma contribs_names ks : map fst (aggD (contribs w ks)) = kleaves ks.
Proof.
  unfold aggD, contribs, kleaves. induction ks as [|[e c] r IH]; simpl; auto.
  now rewrite map_app, shift_names, depths_names, IH.
Qed.

Lemma aggP_snoc cs x :
  Permutation (aggP (cs ++ [x])) (symcross (fst x) (aggD cs) ++ aggP cs ++ snd x).
Proof.
  unfold aggP, aggD. rewrite !map_app, concat_app. simpl map. simpl concat. rewrite app_nil_r.
  transitivity ((symcross (fst x) (concat (map fst cs)) ++ cross_all (map fst cs)) ++ concat (map snd cs) ++ snd x).
  - apply Permutation_app_tail.
    generalize (cross_all_insert (map fst cs) (fst x) []). rewrite !app_nil_r. auto.
  - perm.
Qed.

Lemma aggP_two x y : aggP [x; y] = symcross (fst x) (fst y) ++ snd x ++ snd y.
Proof. unfold aggP. simpl. unfold symcross. now rewrite !app_nil_r. Qed.

(** Case 2 at the root: the first child becomes the root and receives the second one *)
Lemma root_merge K e1 e2 e' c2 c2' :
  (w e' == w e1 + w e2)%Q -> depths w c2' = depths w c2 -> pairdists w c2' = pairdists w c2 ->
  dists_equiv (aggP (contribs w (K ++ [(e', c2')])))
              (aggP [(shift (w e1) (aggD (contribs w K)), aggP (contribs w K)); contrib_of w (e2, c2)]).
Proof.
  intros He Hd Hp. rewrite contribs_app. unfold contribs at 2. simpl map.
  rewrite aggP_two. etransitivity; [apply dists_equiv_perm, aggP_snoc|].
  unfold contrib_of. simpl fst. simpl snd. rewrite Hd, Hp.
  apply dists_equiv_app; [|reflexivity].
  set (D1 := aggD (contribs w K)). set (D2 := depths w c2).
  transitivity (symcross D1 (shift (w e') D2)); [apply dists_equiv_perm, symcross_comm|].
  symmetry.
  transitivity (symcross D1 (shift (w e1) (shift (w e2) D2))); [apply symcross_shift_move|].
  apply symcross_deq; [reflexivity|].
  transitivity (shift (w e1 + w e2)%Q D2); [apply deq_Forall2, shift_shift|].
  apply shift_deq; [now symmetry | reflexivity].
Qed.

Lemma filter_nodup_perm (nm : string) l :
  NoDup l -> In nm l -> Permutation l (nm :: filter (knm nm) l).
Proof.
  induction l as [|x l IH]; simpl; intros Hn Hi; [tauto|].
  inversion Hn; subst. destruct Hi as [->|Hi].
  - rewrite knm_false. constructor.
    assert (E : filter (knm nm) l = l).
    { clear -H1. induction l as [|y l IH]; simpl; auto.
      rewrite knm_true; [f_equal; apply IH|]; intros ?; subst; apply H1; simpl; auto. }
    now rewrite E.
  - rewrite knm_true by (intros ->; auto). rewrite (IH H2 Hi) at 1. apply perm_swap.
Qed.

Section Root.
  Variable nm : string.
  Notation k := (knm nm).

  Ltac kidsplit :=
    repeat (rewrite ?kids_of_app, ?kids_of_cons_some, ?kids_of_cons_none, ?forallb_app, ?andb_true_iff,
            ?n_up_app, ?n_up_cons, ?n_up_nil, ?app_length, ?kleaves_app, ?kleaves_cons in *; simpl forallb in *; simpl snd in *;
            simpl length in *).

  Definition step_post (t t' : utree) : Prop :=
    wf t' = true /\ no_single t' = true /\ degree t' <> 1 /\ In nm (leaves t) /\
    Permutation (leaves t') (filter k (leaves t)) /\
    dists_equiv (pairdists w t') (fP k (pairdists w t)).

  (** from the depth lists to the leaves *)
  Lemma leaves_from_depths t t' :
    deq (depths w t') (fD k (depths w t)) -> Permutation (leaves t') (filter k (leaves t)).
  Proof.
    intros H. apply deq_names in H. now rewrite fD_names, !depths_names in H.
  Qed.

  Lemma remove_tip_ok t t' :
    wf t = true -> no_single t = true -> degree t <> 1 -> NoDup (leaves t) ->
    remove_tip nm t = Ok t' -> step_post t t'.
  Proof.
    destruct t as [n c sl]. intros Hwf Hns Hdeg Hnd Hrm.
    rewrite wf_unfold in Hwf. rewrite no_single_unfold in Hns.
    apply andb_true_iff in Hwf. destruct Hwf as [Hup Hwk]. apply Nat.eqb_eq in Hup.
    unfold degree in Hdeg. simpl in Hdeg.
    unfold remove_tip in Hrm.
    destruct (is_tip (UNode n c sl) && String.eqb n nm); [discriminate|].
    assert (IH : Forall (fun s : slot => match s with Some (_, c) => hit_ok nm c | None => True end) sl).
    { apply Forall_forall. intros [[e ch]|] _; auto. apply rm_sub_ok. }
    destruct (kids_of sl) as [|k0 kr] eqn:Ek.
    { assert (sl = []) as ->.
      { generalize (length_slots sl). rewrite Ek, Hup. destruct sl; simpl; auto. lia. }
      simpl in Hrm. discriminate. }
    assert (Hne : kids_of sl <> []) by (rewrite Ek; discriminate).
    assert (Hndk : NoDup (kleaves (kids_of sl))).
    { rewrite leaves_unfold, Ek in Hnd. now rewrite Ek. }
    rewrite <- Ek in *. clear Ek k0 kr.
    generalize (node_hit nm sl IH Hwk Hns Hndk).
    destruct (first_hit (hit nm (rm_sub nm)) 0 sl) as [[[i e] o]|]; [|discriminate].
    intros [A [ch [B [-> [-> [Ho [Hnf [HA [HB [Hin [Hwch [Hsch Heqo]]]]]]]]]]]].
    assert (Hint : In nm (leaves (UNode n c (A ++ Some (e, ch) :: B)))).
    { rewrite leaves_unfold. kidsplit.
      destruct (kids_of A ++ (e, ch) :: kids_of B) eqn:E0; [destruct (kids_of A); discriminate|].
      rewrite !in_app_iff. auto. }
    assert (Dt : depths w (UNode n c (A ++ Some (e, ch) :: B)) =
                 aggD (contribs w (kids_of A ++ (e, ch) :: kids_of B))).
    { rewrite depths_agg; kidsplit; auto. }
    assert (Pt : pairdists w (UNode n c (A ++ Some (e, ch) :: B)) =
                 aggP (contribs w (kids_of A ++ (e, ch) :: kids_of B))).
    { rewrite pairdists_agg. now kidsplit. }
    kidsplit. destruct Hwk as [HwA [_ HwB]]. destruct Hns as [HsA [_ HsB]].
    destruct o as [|ch'| |ec cc|m]; simpl in Ho.
    - congruence.
    - (* surgery below the root *)
      destruct Ho as [_ [Hw' [Hs' [Hk' [HD HP]]]]].
      rewrite set_nth_app in Hrm. injection Hrm as <-.
      destruct (agg_keep nm (kids_of A) (kids_of B) HA HB (e, ch) (e, ch') (contrib_keep nm e ch ch' HD HP)) as [G1 G2].
      rewrite <- Dt in G1. rewrite <- Pt in G2.
      assert (Dn : depths w (UNode n c (A ++ Some (e, ch') :: B)) =
                   aggD (contribs w (kids_of A ++ (e, ch') :: kids_of B))).
      { rewrite depths_agg; kidsplit; auto. destruct (kids_of A); discriminate. }
      rewrite <- Dn in G1.
      unfold step_post. repeat split; auto.
      + rewrite wf_unfold. kidsplit. repeat split; auto. apply Nat.eqb_eq; lia.
      + rewrite no_single_unfold. kidsplit. repeat split; auto.
      + unfold degree. simpl. kidsplit. lia.
      + now apply leaves_from_depths.
      + rewrite pairdists_agg. now kidsplit.
    - (* a tip attached to the root *)
      destruct Ho as [Hk0 Hn0].
      rewrite remove_nth_app in Hrm.
      destruct (agg_gone nm (kids_of A) (kids_of B) HA HB (e, ch) (contrib_gone nm e ch Hk0 Hn0)) as [G1 G2].
      rewrite <- Dt in G1. rewrite <- Pt in G2. rewrite <- kids_of_app in G1, G2.
      assert (HwL : forallb (fun p => wf_sub (snd p)) (kids_of (A ++ B)) = true) by (kidsplit; auto).
      assert (HsL : forallb (fun p => no_single_sub (snd p)) (kids_of (A ++ B)) = true) by (kidsplit; auto).
      assert (HuL : n_up (A ++ B) = 0) by (kidsplit; lia).
      assert (HlL : length (A ++ B) <> 0) by (kidsplit; lia).
      remember (A ++ B) as L. clear HeqL.
      set (T := UNode n c (A ++ Some (e, ch) :: B)) in *.
      destruct L as [|s1 [|s2 [|s3 L]]].
      + simpl in HlL. lia.
      + (* Case 1b *)
        destruct s1 as [[e1 [n1 cm1 sl1]]|]; [|unfold n_up in HuL; simpl in HuL; lia].
        simpl in Hrm. injection Hrm as <-.
        simpl in HwL, HsL. rewrite andb_true_r in HwL, HsL.
        rewrite wf_sub_unfold in HwL. rewrite nss_unfold in HsL.
        apply andb_true_iff in HwL. destruct HwL as [Hu1 Hw1]. apply Nat.eqb_eq in Hu1.
        apply andb_true_iff in HsL. destruct HsL as [Hl1 Hs1]. apply negb_true_iff, Nat.eqb_neq in Hl1.
        unfold aggD, aggP, contrib_of in G1, G2. simpl in G1, G2.
        rewrite app_nil_r in G1. rewrite app_nil_r in G2.
        unfold step_post. repeat split; auto.
        * rewrite wf_unfold, n_up_drop_up, kids_of_drop_up, Hu1, Hw1. reflexivity.
        * rewrite no_single_unfold, kids_of_drop_up. exact Hs1.
        * unfold degree. simpl. rewrite length_drop_up by lia. lia.
        * apply deq_names in G1. rewrite shift_names, fD_names, !depths_names in G1.
          rewrite <- G1. erewrite leaves_kids; [reflexivity|reflexivity|apply kids_of_drop_up].
        * erewrite pairdists_kids; [exact G2|apply kids_of_drop_up].
      + (* Case 2, internal node is the root *)
        destruct s1 as [[e1 c1]|]; [|rewrite n_up_cons in HuL; lia].
        destruct s2 as [[e2 c2]|]; [|rewrite !n_up_cons in HuL; lia].
        simpl in HwL, HsL. rewrite andb_true_r in HwL, HsL.
        apply andb_true_iff in HwL. destruct HwL as [Hw1 Hw2].
        apply andb_true_iff in HsL. destruct HsL as [Hs1 Hs2].
        destruct c1 as [n1 cm1 sl1], c2 as [n2 cm2 sl2].
        unfold after_del_root in Hrm. cbv zeta in Hrm.
        set (e' := merge_edge e1 e2 (Nat.ltb 1 (degree (UNode n1 cm1 sl1))) (Nat.ltb 1 (degree (UNode n2 cm2 sl2)))) in *.
        assert (He' : (w e' == w e1 + w e2)%Q) by apply len0_merge.
        (* a lemma for either orientation *)
        assert (Key : forall ea eb ca cb,
                   wf_sub ca = true -> no_single_sub ca = true -> wf_sub cb = true -> no_single_sub cb = true ->
                   (w e' == w ea + w eb)%Q -> Nat.ltb 1 (degree ca - 1) = true ->
                   deq (aggD (contribs w [(ea, ca); (eb, cb)])) (fD k (depths w T)) ->
                   dists_equiv (aggP (contribs w [(ea, ca); (eb, cb)])) (fP k (pairdists w T)) ->
                   step_post T (UNode (uname ca) (ucom ca) (drop_up (uslots ca) ++ [Some (e', reparent cb)]))).
        { clear Hrm. intros ea eb [na cma sla] cb Hwa Hsa Hwb Hsb Hee Hda Ga1 Ga2.
          simpl uname. simpl ucom. simpl uslots.
          rewrite wf_sub_unfold in Hwa. rewrite nss_unfold in Hsa.
          apply andb_true_iff in Hwa. destruct Hwa as [Hua Hwka]. apply Nat.eqb_eq in Hua.
          apply andb_true_iff in Hsa. destruct Hsa as [Hla Hska]. clear Hla.
          unfold degree in Hda. simpl in Hda. apply Nat.ltb_lt in Hda.
          assert (Hka : kids_of sla <> []).
          { intros E0. generalize (length_slots sla). rewrite E0, Hua. simpl. lia. }
          unfold step_post. repeat split; auto.
          - rewrite wf_unfold. kidsplit. rewrite n_up_drop_up, kids_of_drop_up.
            repeat split; auto using reparent_wf_sub. apply Nat.eqb_eq. lia.
          - rewrite no_single_unfold. kidsplit. rewrite kids_of_drop_up.
            repeat split; auto using reparent_nss.
          - unfold degree. simpl. kidsplit. rewrite length_drop_up by lia. lia.
          - apply deq_names in Ga1. rewrite fD_names, depths_names, contribs_names in Ga1.
            rewrite <- Ga1. rewrite leaves_unfold. kidsplit. rewrite kids_of_drop_up.
            destruct (kids_of sla ++ [(e', reparent cb)]) eqn:E0; [destruct (kids_of sla); discriminate|].
            rewrite reparent_leaves, (leaves_unfold na cma sla).
            destruct (kids_of sla); [congruence|]. simpl. now rewrite !app_nil_r.
          - rewrite pairdists_agg. kidsplit. rewrite kids_of_drop_up.
            etransitivity; [|exact Ga2].
            etransitivity; [apply (root_merge (kids_of sla) ea eb e' cb (reparent cb) Hee
                                              (reparent_depths w cb) (reparent_pairdists w cb))|].
            unfold contribs. simpl map. unfold contrib_of. simpl fst. simpl snd.
            rewrite depths_agg, pairdists_agg by auto. reflexivity. }
        destruct (Nat.ltb 1 (degree (UNode n1 cm1 sl1) - 1)) eqn:E1.
        * cbv iota in Hrm. injection Hrm as <-. apply (Key e1 e2 (UNode n1 cm1 sl1) (UNode n2 cm2 sl2)); auto.
        * destruct (Nat.ltb 1 (degree (UNode n2 cm2 sl2) - 1)) eqn:E2.
          -- cbv iota in Hrm. injection Hrm as <-.
             apply (Key e2 e1 (UNode n2 cm2 sl2) (UNode n1 cm1 sl1)); auto.
             ++ rewrite He'. apply Qplus_comm.
             ++ etransitivity; [|exact G1]. apply deq_perm, aggD_perm. unfold contribs. simpl. apply perm_swap.
             ++ etransitivity; [|exact G2]. apply dists_equiv_perm, aggP_perm. unfold contribs. simpl. apply perm_swap.
          -- cbv iota in Hrm. destruct (Nat.eqb (degree (UNode n2 cm2 sl2) - 1) 1 || Nat.eqb (degree (UNode n1 cm1 sl1) - 1) 1); discriminate.
      + (* Case 3 *)
        assert (E3 : after_del_root nm n c (s1 :: s2 :: s3 :: L) = Ok (UNode n c (s1 :: s2 :: s3 :: L))).
        { destruct s1 as [[? [? ? ?]]|], s2 as [[? ?]|]; reflexivity. }
        rewrite E3 in Hrm. injection Hrm as <-. clear E3.
        assert (Hk3 : kids_of (s1 :: s2 :: s3 :: L) <> []).
        { intros E0. generalize (length_slots (s1 :: s2 :: s3 :: L)). rewrite E0, HuL. simpl. lia. }
        rewrite <- (depths_agg w n c) in G1 by auto. rewrite <- (pairdists_agg w n c) in G2.
        unfold step_post. repeat split; auto.
        * rewrite wf_unfold, HuL, HwL. reflexivity.
        * unfold degree. simpl. lia.
        * now apply leaves_from_depths.
    - (* a child of the root was suppressed *)
      destruct Ho as [_ [Hw' [Hs' [HD HP]]]].
      unfold splice in Hrm. rewrite remove_nth_app in Hrm. injection Hrm as <-.
      set (e' := merge_edge e ec (Nat.ltb 1 (length (A ++ Some (e, ch) :: B))) (Nat.ltb 1 (degree cc))).
      destruct (agg_move nm (kids_of A) (kids_of B) HA HB (e, ch) (e', reparent cc)
                         (contrib_splice nm e ch ec cc _ _ HD HP)) as [G1 G2].
      rewrite <- Dt in G1. rewrite <- Pt in G2.
      assert (Dn : depths w (UNode n c ((A ++ B) ++ [Some (e', reparent cc)])) =
                   aggD (contribs w ((kids_of A ++ kids_of B) ++ [(e', reparent cc)]))).
      { rewrite depths_agg; kidsplit; auto. destruct (kids_of A ++ kids_of B); discriminate. }
      rewrite <- Dn in G1.
      unfold step_post. repeat split; auto.
      + rewrite wf_unfold. kidsplit. repeat split; auto using reparent_wf_sub. apply Nat.eqb_eq; lia.
      + rewrite no_single_unfold. kidsplit. repeat split; auto using reparent_nss.
      + unfold degree. simpl. kidsplit. lia.
      + now apply leaves_from_depths.
      + rewrite pairdists_agg. now kidsplit.
    - destruct Ho.
  Qed.
End Root.
