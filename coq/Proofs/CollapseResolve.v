(** C07, resolve: for every choice vector the result is well formed, has the same leaves, no
    node with more than three neighbours, the same tip-to-tip path lengths, every branch of the
    input (length, support, p-value, leaves below) and otherwise only branches of length 0
    without support. *)
From Coq Require Import String ZArith QArith Bool Arith Lia List Permutation Setoid Morphisms.
From GT Require Import Base.UTree Spec.Obs Model.Reroot Model.Rand Spec.Unrooted Proofs.RerootBase Proofs.PruneBase
     Model.Prune Model.Collapse Proofs.PruneStep Proofs.PruneSub Proofs.PruneRoot Proofs.CollapseBase
     Proofs.CollapseDist Proofs.CollapseResolveBase.
Import ListNotations.
Local Close Scope Q_scope.
Local Arguments n_up : simpl never.
Local Arguments leaves : simpl never.
Local Arguments depths : simpl never.
Local Arguments pairdists : simpl never.
Local Arguments wf_sub : simpl never.
Local Arguments reparent : simpl never.

(** * branches seen as (length, support, p-value, leaves below) *)
Definition edata (e : einfo) : Q * Q * Q := (elen e, esup e, epv e).
Definition view2 (p : einfo * utree) : (Q * Q * Q) * list string := (edata (fst p), leaves (snd p)).
Definition vrel2 (x y : (Q * Q * Q) * list string) : Prop := fst x = fst y /\ Permutation (snd x) (snd y).
Global Instance vrel2_Equivalence : Equivalence vrel2.
Proof.
  split.
  - intros x; split; reflexivity.
  - intros x y [H1 H2]; split; now symmetry.
  - intros x y z [H1 H2] [H3 H4]; split; etransitivity; eauto.
Qed.
Definition veq2 (l l' : list ((Q * Q * Q) * list string)) : Prop := PermR vrel2 l l'.
Global Instance veq2_Equivalence : Equivalence veq2.
Proof. unfold veq2. apply PermR_Equivalence. exact vrel2_Equivalence. Qed.
Lemma veq2_perm l l' : Permutation l l' -> veq2 l l'.
Proof. apply PermR_of_perm; exact vrel2_Equivalence. Qed.
Lemma veq2_app a a' b b' : veq2 a a' -> veq2 b b' -> veq2 (a ++ b) (a' ++ b').
Proof. apply PermR_app; exact vrel2_Equivalence. Qed.
Lemma veq2_cons x y l l' : vrel2 x y -> veq2 l l' -> veq2 (x :: l) (y :: l').
Proof. intros; now apply PR_skip. Qed.

(** a branch added by Resolve: length 0, no support, no p-value *)
Definition is_new (v : (Q * Q * Q) * list string) : Prop := fst v = (0%Q, nilv, nilv).

(** the branch of an item and all the branches below it *)
Definition bview (x : einfo * utree) : list ((Q * Q * Q) * list string) :=
  view2 x :: map view2 (branches (snd x)).
Definition bviews (ks : list (einfo * utree)) : list ((Q * Q * Q) * list string) := flat_map bview ks.

Lemma brs_bviews sl : map view2 (brs sl) = bviews (kids_of sl).
Proof.
  induction sl as [|[[e c]|] r IH]; [reflexivity| |].
  - rewrite brs_cons_some. change (bviews (kids_of (Some (e, c) :: r))) with (bview (e, c) ++ bviews (kids_of r)).
    unfold bview. simpl. now rewrite map_app, IH.
  - rewrite brs_cons_none. exact IH.
Qed.

Lemma bviews_app a b : bviews (a ++ b) = bviews a ++ bviews b.
Proof. apply flat_map_app. Qed.
Lemma bviews_perm a b : Permutation a b -> Permutation (bviews a) (bviews b).
Proof. intros H. now apply Permutation_flat_map. Qed.

Lemma kleaves_perm a b : Permutation a b -> Permutation (kleaves a) (kleaves b).
Proof. intros H. now apply Permutation_flat_map. Qed.

(** * nodes and degrees *)
Definition small (t : utree) : Prop := Forall (fun x => degree x <= 3) (nodes t).
Definition knodes (ks : list (einfo * utree)) : list utree := flat_map (fun p => nodes (snd p)) ks.

Lemma nodes_unfold n c sl : nodes (UNode n c sl) = UNode n c sl :: knodes (kids_of sl).
Proof.
  simpl. f_equal. unfold knodes. induction sl as [|[[e ch]|] r IH]; simpl; auto. now rewrite IH.
Qed.
Lemma knodes_app a b : knodes (a ++ b) = knodes a ++ knodes b.
Proof. apply flat_map_app. Qed.
Lemma knodes_perm a b : Permutation a b -> Permutation (knodes a) (knodes b).
Proof. intros H. now apply Permutation_flat_map. Qed.

Lemma small_unfold n c sl :
  small (UNode n c sl) <-> length sl <= 3 /\ Forall (fun x => degree x <= 3) (knodes (kids_of sl)).
Proof.
  unfold small. rewrite nodes_unfold. split.
  - intros H. inversion H; subst. auto.
  - intros [H1 H2]. constructor; auto.
Qed.

Lemma reparent_small c : wf_sub c = true -> small c -> small (reparent c).
Proof.
  intros Hw. generalize (reparent_degree c Hw). destruct c as [n cm sl]. unfold reparent, degree. simpl uslots.
  intros Hd. rewrite !small_unfold. intros [H1 H2]. split; [lia|].
  rewrite kids_of_app, kids_of_drop_up. simpl. now rewrite app_nil_r.
Qed.

Lemma reparent_branches c : branches (reparent c) = branches c.
Proof.
  destruct c as [n cm sl]. unfold reparent. rewrite !branches_unfold, brs_app.
  change (brs [None]) with (@nil (einfo * utree)). rewrite app_nil_r.
  induction sl as [|[[e ch]|] r IH]; [reflexivity| |].
  - change (drop_up (Some (e, ch) :: r)) with (Some (e, ch) :: drop_up r). now rewrite !brs_cons_some, IH.
  - reflexivity.
Qed.

(** * the caterpillar *)
Notation w := len0.

Lemma regroup_contrib (x : einfo * utree) :
  contrib_of w (mkE (elen (fst x)) (esup (fst x)) (epv (fst x)) [], reparent (snd x)) = contrib_of w x.
Proof.
  unfold contrib_of. simpl fst. simpl snd. now rewrite reparent_depths, reparent_pairdists.
Qed.

Lemma regroup_bview (x : einfo * utree) :
  bview (mkE (elen (fst x)) (esup (fst x)) (epv (fst x)) [], reparent (snd x)) = bview x.
Proof.
  unfold bview, view2. simpl fst. simpl snd. now rewrite reparent_leaves, reparent_branches.
Qed.

Definition item_ok (x : einfo * utree) : Prop := wf_sub (snd x) = true /\ small (snd x).

Lemma join2_ok a b : item_ok a -> item_ok b -> item_ok (join2 a b).
Proof.
  intros [Ha1 Ha2] [Hb1 Hb2]. unfold join2, regroup, item_ok. simpl snd. split.
  - rewrite wf_sub_unfold. simpl. rewrite !reparent_wf_sub by auto. reflexivity.
  - rewrite small_unfold. split; [simpl; lia|]. simpl kids_of. unfold knodes. simpl. rewrite app_nil_r.
    apply Forall_app. split; apply reparent_small; auto.
Qed.

Lemma join2_leaves a b : leaves (snd (join2 a b)) = leaves (snd a) ++ leaves (snd b).
Proof.
  unfold join2, regroup. simpl snd. rewrite leaves_unfold. simpl. unfold kleaves. simpl.
  now rewrite !reparent_leaves, app_nil_r.
Qed.

Lemma join2_contrib a b :
  ceq (contrib_of w (join2 a b)) (aggD [contrib_of w a; contrib_of w b], aggP [contrib_of w a; contrib_of w b]).
Proof.
  unfold join2, regroup. unfold contrib_of at 1. simpl fst. simpl snd.
  rewrite depths_agg, pairdists_agg by (simpl; discriminate). simpl kids_of.
  unfold contribs. simpl map. rewrite !regroup_contrib. split; simpl.
  - apply shift_zero. reflexivity.
  - reflexivity.
Qed.

Lemma join2_bview a b :
  bview (join2 a b) = ((0%Q, nilv, nilv), leaves (snd a) ++ leaves (snd b)) :: bview a ++ bview b.
Proof.
  unfold bview at 1. unfold view2 at 1. rewrite join2_leaves.
  change (edata (fst (join2 a b))) with (0%Q, nilv, nilv). f_equal.
  unfold join2, regroup. simpl snd. rewrite branches_unfold, !brs_cons_some.
  change (brs [None]) with (@nil (einfo * utree)). rewrite app_nil_r.
  rewrite <- (regroup_bview a), <- (regroup_bview b). unfold bview. simpl snd.
  rewrite map_cons, map_app, map_cons. reflexivity.
Qed.

Lemma caterpillar rest : forall a,
    item_ok a -> Forall item_ok rest ->
    let N := fold_left join2 rest a in
    item_ok N /\
    leaves (snd N) = leaves (snd a) ++ kleaves rest /\
    aeq [contrib_of w N] (contribs w (a :: rest)) /\
    exists news, Forall is_new news /\ Permutation (bview N) (bviews (a :: rest) ++ news).
Proof.
  induction rest as [|b rest IH]; intros a Ha Hr.
  - simpl. split; [exact Ha|]. split; [|split].
    + unfold kleaves. simpl. now rewrite app_nil_r.
    + reflexivity.
    + exists []. split; [constructor|]. unfold bviews. simpl. now rewrite !app_nil_r.
  - inversion Hr as [|? ? Hb Hr']; subst. simpl fold_left.
    destruct (IH (join2 a b) (join2_ok a b Ha Hb) Hr') as [H1 [H2 [H3 [news [H4 H5]]]]].
    cbv zeta. split; [exact H1|]. split; [|split].
    + rewrite H2, join2_leaves, kleaves_cons, app_assoc. reflexivity.
    + etransitivity; [exact H3|].
      change (contribs w (join2 a b :: rest)) with ([contrib_of w (join2 a b)] ++ contribs w rest).
      change (contribs w (a :: b :: rest)) with ([contrib_of w a; contrib_of w b] ++ contribs w rest).
      apply aeq_app; [|reflexivity].
      etransitivity; [apply aeq_single, join2_contrib|]. apply aeq_group.
    + exists (((0%Q, nilv, nilv), leaves (snd a) ++ leaves (snd b)) :: news). split.
      * constructor; auto. reflexivity.
      * rewrite H5. change (bviews (join2 a b :: rest)) with (bview (join2 a b) ++ bviews rest).
        change (bviews (a :: b :: rest)) with (bview a ++ bview b ++ bviews rest).
        rewrite join2_bview. perm.
Qed.

(** * one node *)
(** [R] relates a child of the input with the child that replaces it *)
Definition sub_inv (t t' : utree) : Prop :=
  wf_sub t' = true /\ small t' /\ Permutation (leaves t') (leaves t) /\
  deq (depths w t') (depths w t) /\ dists_equiv (pairdists w t') (pairdists w t) /\
  exists news, Forall is_new news /\ veq2 (map view2 (branches t')) (map view2 (branches t) ++ news).

Definition kid_inv (p p' : einfo * utree) : Prop := fst p' = fst p /\ sub_inv (snd p) (snd p').

Lemma kids_inv_facts ks ks' :
  Forall2 kid_inv ks ks' ->
  Forall item_ok ks' /\ Permutation (kleaves ks') (kleaves ks) /\
  aeq (contribs w ks') (contribs w ks) /\
  exists news, Forall is_new news /\ veq2 (bviews ks') (bviews ks ++ news).
Proof.
  induction 1 as [|[e c] [e' c'] ks ks' [He [H1 [H2 [H3 [H4 [H5 [nw [H6 H7]]]]]]]] _ [I1 [I2 [I3 [news [I4 I5]]]]]].
  - split; [constructor|]. split; [reflexivity|]. split; [reflexivity|].
    exists []. split; [constructor|]. simpl. reflexivity.
  - simpl in He. subst e'. simpl snd in *. split; [|split; [|split]].
    + constructor; auto. split; auto.
    + rewrite !kleaves_cons. simpl snd. now apply Permutation_app.
    + change (contribs w ((e, c') :: ks')) with ([contrib_of w (e, c')] ++ contribs w ks').
      change (contribs w ((e, c) :: ks)) with ([contrib_of w (e, c)] ++ contribs w ks).
      apply aeq_app; auto. apply aeq_single. split; simpl; auto. apply shift_deq; auto. reflexivity.
    + exists (nw ++ news). split; [apply Forall_app; auto|].
      change (bviews ((e, c') :: ks')) with (bview (e, c') ++ bviews ks').
      change (bviews ((e, c) :: ks)) with (bview (e, c) ++ bviews ks).
      unfold bview. simpl snd.
      transitivity ((view2 (e, c) :: map view2 (branches c) ++ nw) ++ (bviews ks ++ news)).
      * apply veq2_app; auto. apply veq2_cons; auto. split; simpl; auto.
      * apply veq2_perm. simpl. constructor. perm.
  Qed.

(** the array of a node: [sl] in the input, [sl'] in the result *)
Definition node_inv (sl sl' : list slot) : Prop :=
  n_up sl' = n_up sl /\ length sl' <= 3 /\
  (kids_of sl = [] -> kids_of sl' = []) /\
  Forall item_ok (kids_of sl') /\ Permutation (kleaves (kids_of sl')) (kleaves (kids_of sl)) /\
  aeq (contribs w (kids_of sl')) (contribs w (kids_of sl)) /\
  exists news, Forall is_new news /\ veq2 (bviews (kids_of sl')) (bviews (kids_of sl) ++ news).

Lemma resolve_here_inv sl sl1 cs :
  n_up sl <= 1 -> n_up sl1 = n_up sl -> length sl1 = length sl ->
  Forall2 kid_inv (kids_of sl) (kids_of sl1) ->
  node_inv sl (resolve_here sl1 cs).
Proof.
  intros Hu Hu1 Hl1 HF.
  destruct (kids_inv_facts _ _ HF) as [I1 [I2 [I3 [news [I4 I5]]]]].
  destruct (le_lt_dec (length sl1) 3) as [Hs|Hb].
  - rewrite resolve_here_small by auto. unfold node_inv.
    split; [exact Hu1|]. split; [lia|].
    split; [intros E; rewrite E in HF; inversion HF; reflexivity|].
    split; [exact I1|]. split; [exact I2|]. split; [exact I3|]. exists news. auto.
  - destruct (resolve_here_big sl1 cs ltac:(lia) Hb) as [keep [a [rest [E [K1 [K2 [K3 K4]]]]]]].
    rewrite E.
    assert (Hitems : Forall item_ok (kids_of keep ++ a :: rest)).
    { eapply Permutation_Forall; [symmetry; exact K3|exact I1]. }
    apply Forall_app in Hitems. destruct Hitems as [Hk Hit]. inversion Hit as [|? ? Ha Hr]; subst.
    destruct (caterpillar rest a Ha Hr) as [C1 [C2 [C3 [nw [C4 C5]]]]]. cbv zeta in *.
    set (N := fold_left join2 rest a) in *.
    unfold node_inv. rewrite kids_of_app. simpl kids_of. rewrite n_up_app, n_up_cons, n_up_nil, app_length.
    assert (Hlk : length keep = 2).
    { rewrite length_slots, K1, K2, Hu1. lia. }
    split; [lia|]. split; [simpl; lia|]. split; [|split; [|split; [|split]]].
    + intros E0. rewrite E0 in HF. assert (E1 : kids_of sl1 = []) by (inversion HF; auto).
      rewrite E1 in K3. symmetry in K3. apply Permutation_nil in K3. destruct (kids_of keep); discriminate.
    + apply Forall_app. split; auto.
    + rewrite <- I2, <- (kleaves_perm _ _ K3), !kleaves_app, !kleaves_cons. simpl.
      rewrite C2. unfold kleaves at 2. simpl. now rewrite app_nil_r.
    + etransitivity; [|exact I3].
      transitivity (contribs w (kids_of keep ++ a :: rest)); [|apply aeq_perm, Permutation_map, K3].
      rewrite !contribs_app. apply aeq_app; [reflexivity|]. exact C3.
    + exists (nw ++ news). split; [apply Forall_app; auto|].
      rewrite bviews_app. unfold bviews at 2. simpl flat_map. rewrite app_nil_r.
      transitivity ((bviews (kids_of keep) ++ bviews (a :: rest)) ++ nw).
      { apply veq2_perm. rewrite C5. perm. }
      rewrite <- bviews_app.
      transitivity ((bviews (kids_of sl) ++ news) ++ nw).
      { apply veq2_app; [|reflexivity]. etransitivity; [apply veq2_perm, bviews_perm, K3|exact I5]. }
      apply veq2_perm. perm.
Qed.

(** * the tree *)
Fixpoint rgo (l : list slot) (cs : list nat) : list slot :=
  match l with
  | [] => []
  | None :: r => None :: rgo r cs
  | Some (e, ch) :: r =>
    let k := length (resolve_bounds ch) in
    Some (e, resolve ch (firstn k cs)) :: rgo r (skipn k cs)
  end.

Lemma resolve_eq n c sl cs :
  resolve (UNode n c sl) cs =
  UNode n c (resolve_here (rgo sl cs)
                          (skipn (length (flat_map (fun s : slot => match s with Some (_, ch) => resolve_bounds ch | None => [] end) sl)) cs)).
Proof. reflexivity. Qed.

Lemma rgo_shape sl cs : n_up (rgo sl cs) = n_up sl /\ length (rgo sl cs) = length sl.
Proof.
  revert cs. induction sl as [|[[e ch]|] r IH]; intros cs; simpl; auto.
  - destruct (IH (skipn (length (resolve_bounds ch)) cs)) as [H1 H2]. rewrite !n_up_cons. split; lia.
  - destruct (IH cs) as [H1 H2]. rewrite !n_up_cons. split; lia.
Qed.

Lemma rgo_kids sl :
  Forall (fun s : slot => match s with Some (_, c) => forall cs, wf_sub c = true -> sub_inv c (resolve c cs) | None => True end) sl ->
  forallb (fun p => wf_sub (snd p)) (kids_of sl) = true ->
  forall cs, Forall2 kid_inv (kids_of sl) (kids_of (rgo sl cs)).
Proof.
  induction sl as [|[[e ch]|] r IHr]; intros IH Hw cs; simpl; [constructor| |].
  - inversion IH as [|? ? Hc Hr]; subst. simpl in Hw. apply andb_true_iff in Hw. destruct Hw as [Hw1 Hw2].
    constructor; [|apply IHr; auto]. split; simpl; auto.
  - inversion IH; subst. apply IHr; auto.
Qed.

Lemma items_small ks : Forall item_ok ks -> Forall (fun x => degree x <= 3) (knodes ks).
Proof.
  induction 1 as [|x l [_ H] _ IH]; simpl; [constructor|]. unfold knodes. simpl. apply Forall_app. split; auto.
Qed.
Lemma items_wf ks : Forall item_ok ks -> forallb (fun p => wf_sub (snd p)) ks = true.
Proof. induction 1 as [|x l [H _] _ IH]; simpl; auto. now rewrite H, IH. Qed.

Lemma node_obs n c sl sl' :
  node_inv sl sl' ->
  small (UNode n c sl') /\ Permutation (leaves (UNode n c sl')) (leaves (UNode n c sl)) /\
  (n_up sl = 1 -> deq (depths w (UNode n c sl')) (depths w (UNode n c sl))) /\
  dists_equiv (pairdists w (UNode n c sl')) (pairdists w (UNode n c sl)) /\
  exists news, Forall is_new news /\ veq2 (map view2 (branches (UNode n c sl'))) (map view2 (branches (UNode n c sl)) ++ news).
Proof.
  intros [N1 [N2 [N4 [N5 [N6 [N7 [news [N8 N9]]]]]]]].
  assert (Hk : kids_of sl <> [] -> kids_of sl' <> []).
  { intros H E. rewrite E in N6. change (kleaves []) with (@nil string) in N6.
    apply Permutation_nil in N6. apply kleaves_nil_iff in N6. auto. }
  repeat split.
  - apply small_unfold. split; auto. now apply items_small.
  - rewrite !leaves_unfold. destruct (kids_of sl) eqn:E.
    + now rewrite N4.
    + destruct (kids_of sl') eqn:E'; [exfalso; apply Hk; auto; discriminate|]. exact N6.
  - intros _. destruct (kids_of sl) eqn:E.
    + rewrite !depths_leaf; auto. reflexivity.
    + rewrite !depths_agg; auto; [|rewrite E; discriminate|apply Hk; discriminate]. rewrite E. apply N7.
  - rewrite !pairdists_agg. apply N7.
  - exists news. split; auto. now rewrite !branches_unfold, !brs_bviews.
Qed.

Lemma sub_inv_of_node n c sl sl' :
  n_up sl = 1 -> node_inv sl sl' -> sub_inv (UNode n c sl) (UNode n c sl').
Proof.
  intros Hu HN. destruct (node_obs n c sl sl' HN) as [O1 [O2 [O3 [O4 O5]]]].
  destruct HN as [N1 [N2 [N4 [N5 _]]]].
  unfold sub_inv. repeat split; auto.
  rewrite wf_sub_unfold, N1, Hu. simpl. now apply items_wf.
Qed.

Lemma resolve_sub : forall t cs, wf_sub t = true -> sub_inv t (resolve t cs).
Proof.
  induction t as [n c sl IH] using utree_ind'. intros cs Hw.
  rewrite resolve_eq. rewrite wf_sub_unfold in Hw. apply andb_true_iff in Hw. destruct Hw as [Hu Hwk].
  apply Nat.eqb_eq in Hu. destruct (rgo_shape sl cs) as [S1 S2].
  apply sub_inv_of_node; auto.
  apply resolve_here_inv; auto; try lia. apply rgo_kids; auto.
Qed.

(** ** Tree.Resolve *)
Lemma resolve_root_inv n c sl cs :
  wf (UNode n c sl) = true ->
  exists sl', resolve (UNode n c sl) cs = UNode n c sl' /\ node_inv sl sl'.
Proof.
  intros Hw. rewrite resolve_eq. eexists. split; [reflexivity|].
  rewrite wf_unfold in Hw. apply andb_true_iff in Hw. destruct Hw as [Hu Hwk].
  apply Nat.eqb_eq in Hu. destruct (rgo_shape sl cs) as [S1 S2].
  apply resolve_here_inv; auto; try lia. apply rgo_kids; auto.
  apply Forall_forall. intros [[e ch]|] _; auto. intros. now apply resolve_sub.
Qed.

Theorem resolve_wf t cs : wf t = true -> wf (resolve t cs) = true.
Proof.
  destruct t as [n c sl]. intros Hw. destruct (resolve_root_inv n c sl cs Hw) as [sl' [-> [N1 [_ [_ [N5 _]]]]]].
  rewrite wf_unfold in *. apply andb_true_iff in Hw. destruct Hw as [Hu _]. apply Nat.eqb_eq in Hu.
  rewrite N1, Hu. simpl. now apply items_wf.
Qed.

Theorem resolve_leaves t cs : wf t = true -> Permutation (leaves (resolve t cs)) (leaves t).
Proof.
  destruct t as [n c sl]. intros Hw. destruct (resolve_root_inv n c sl cs Hw) as [sl' [-> HN]].
  apply (node_obs n c sl sl' HN).
Qed.

(** no node with more than three neighbours *)
Theorem resolve_binary t cs : wf t = true -> Forall (fun x => degree x <= 3) (nodes (resolve t cs)).
Proof.
  destruct t as [n c sl]. intros Hw. destruct (resolve_root_inv n c sl cs Hw) as [sl' [-> HN]].
  apply (node_obs n c sl sl' HN).
Qed.

Theorem resolve_dists t cs :
  wf t = true -> dists_equiv (pairdists len0 (resolve t cs)) (pairdists len0 t).
Proof.
  destruct t as [n c sl]. intros Hw. destruct (resolve_root_inv n c sl cs Hw) as [sl' [-> HN]].
  apply (node_obs n c sl sl' HN).
Qed.

(** every branch of the input is still there with its length, support and p-value and the
    same leaves below; the other branches of the result have length 0 and no support *)
Theorem resolve_branches t cs :
  wf t = true ->
  exists news, Forall is_new news /\
               veq2 (map view2 (branches (resolve t cs))) (map view2 (branches t) ++ news).
Proof.
  destruct t as [n c sl]. intros Hw. destruct (resolve_root_inv n c sl cs Hw) as [sl' [-> HN]].
  apply (node_obs n c sl sl' HN).
Qed.

(** * no single-child node appears *)
Definition nss_item (x : einfo * utree) : Prop := wf_sub (snd x) = true /\ no_single_sub (snd x) = true.

Lemma join2_nss a b : nss_item a -> nss_item b -> nss_item (join2 a b).
Proof.
  intros [Ha1 Ha2] [Hb1 Hb2]. unfold join2, regroup, nss_item. simpl snd. split.
  - rewrite wf_sub_unfold. simpl. rewrite !reparent_wf_sub by auto. reflexivity.
  - rewrite nss_unfold. simpl. rewrite !reparent_nss by auto. reflexivity.
Qed.

Lemma caterpillar_nss rest : forall a, nss_item a -> Forall nss_item rest -> nss_item (fold_left join2 rest a).
Proof.
  induction rest as [|b rest IH]; intros a Ha Hr; simpl; auto.
  inversion Hr; subst. apply IH; auto. now apply join2_nss.
Qed.

Lemma resolve_here_nss sl cs :
  n_up sl <= 1 -> length sl <> 2 -> Forall nss_item (kids_of sl) ->
  length (resolve_here sl cs) <> 2 /\ Forall nss_item (kids_of (resolve_here sl cs)).
Proof.
  intros Hu Hl HF. destruct (le_lt_dec (length sl) 3) as [Hs|Hb].
  - rewrite resolve_here_small by auto. auto.
  - destruct (resolve_here_big sl cs Hu Hb) as [keep [a [rest [E [K1 [K2 [K3 K4]]]]]]].
    rewrite E. split.
    + rewrite app_length. simpl length. rewrite (length_slots keep), K1, K2. lia.
    + assert (Hitems : Forall nss_item (kids_of keep ++ a :: rest)).
      { eapply Permutation_Forall; [symmetry; exact K3|exact HF]. }
      apply Forall_app in Hitems. destruct Hitems as [Hk Hit]. inversion Hit; subst.
      rewrite kids_of_app. simpl. apply Forall_app. split; auto.
      constructor; [|constructor]. now apply caterpillar_nss.
Qed.

Lemma rgo_nss sl :
  Forall (fun s : slot => match s with
                          | Some (_, c) => forall cs, wf_sub c = true -> no_single_sub c = true -> nss_item (e0, resolve c cs)
                          | None => True end) sl ->
  forallb (fun p => wf_sub (snd p)) (kids_of sl) = true ->
  forallb (fun p => no_single_sub (snd p)) (kids_of sl) = true ->
  forall cs, Forall nss_item (kids_of (rgo sl cs)).
Proof.
  induction sl as [|[[e ch]|] r IHr]; intros IH Hw Hs cs; simpl; [constructor| |].
  - inversion IH as [|? ? Hc Hr]; subst. simpl in Hw, Hs.
    apply andb_true_iff in Hw. destruct Hw as [Hw1 Hw2]. apply andb_true_iff in Hs. destruct Hs as [Hs1 Hs2].
    constructor; [|apply IHr; auto]. exact (Hc _ Hw1 Hs1).
  - inversion IH; subst. apply IHr; auto.
Qed.

Lemma nss_items_forallb ks : Forall nss_item ks -> forallb (fun p => no_single_sub (snd p)) ks = true.
Proof. induction 1 as [|x l [_ H] _ IH]; simpl; auto. now rewrite H, IH. Qed.
Lemma nss_items_wf ks : Forall nss_item ks -> forallb (fun p => wf_sub (snd p)) ks = true.
Proof. induction 1 as [|x l [H _] _ IH]; simpl; auto. now rewrite H, IH. Qed.

Lemma resolve_nss_sub : forall t cs, wf_sub t = true -> no_single_sub t = true -> nss_item (e0, resolve t cs).
Proof.
  induction t as [n c sl IH] using utree_ind'. intros cs Hw Hs.
  destruct (resolve_sub (UNode n c sl) cs Hw) as [W _].
  unfold nss_item. cbn [snd]. split; auto.
  rewrite resolve_eq. rewrite wf_sub_unfold in Hw. rewrite nss_unfold in Hs.
  apply andb_true_iff in Hw. destruct Hw as [Hu Hwk]. apply Nat.eqb_eq in Hu.
  apply andb_true_iff in Hs. destruct Hs as [Hl Hsk]. apply negb_true_iff, Nat.eqb_neq in Hl.
  destruct (rgo_shape sl cs) as [S1 S2].
  destruct (resolve_here_nss (rgo sl cs)
              (skipn (length (flat_map (fun s : slot => match s with Some (_, ch) => resolve_bounds ch | None => [] end) sl)) cs))
    as [N1 N2]; try lia.
  { now apply rgo_nss. }
  rewrite nss_unfold. apply andb_true_iff. split; [now apply negb_true_iff, Nat.eqb_neq|now apply nss_items_forallb].
Qed.

Theorem resolve_no_single t cs : wf t = true -> no_single t = true -> no_single (resolve t cs) = true.
Proof.
  destruct t as [n c sl]. intros Hw Hs. rewrite resolve_eq. rewrite wf_unfold in Hw.
  apply andb_true_iff in Hw. destruct Hw as [Hu Hwk]. apply Nat.eqb_eq in Hu.
  unfold no_single, kids in *. simpl uslots in *.
  destruct (rgo_shape sl cs) as [S1 S2].
  set (cs' := skipn _ cs).
  assert (HF : Forall nss_item (kids_of (rgo sl cs))).
  { apply rgo_nss; auto. apply Forall_forall. intros [[e ch]|] _; auto. intros. now apply resolve_nss_sub. }
  destruct (le_lt_dec (length (rgo sl cs)) 3) as [Hsm|Hb].
  - rewrite resolve_here_small by auto. now apply nss_items_forallb.
  - destruct (resolve_here_big (rgo sl cs) cs' ltac:(lia) Hb) as [keep [a [rest [E [K1 [K2 [K3 K4]]]]]]].
    rewrite E.
    assert (Hitems : Forall nss_item (kids_of keep ++ a :: rest)).
    { eapply Permutation_Forall; [symmetry; exact K3|exact HF]. }
    apply Forall_app in Hitems. destruct Hitems as [Hk Hit]. inversion Hit; subst.
    rewrite kids_of_app. simpl. apply nss_items_forallb. apply Forall_app. split; auto.
    constructor; [|constructor]. now apply caterpillar_nss.
Qed.

(** the root keeps two neighbours, or ends with three *)
Theorem resolve_root_degree t cs :
  wf t = true -> degree (resolve t cs) = Nat.min 3 (degree t).
Proof.
  destruct t as [n c sl]. intros Hw. rewrite resolve_eq. unfold degree. simpl uslots.
  rewrite wf_unfold in Hw. apply andb_true_iff in Hw. destruct Hw as [Hu _]. apply Nat.eqb_eq in Hu.
  destruct (rgo_shape sl cs) as [S1 S2]. set (cs' := skipn _ cs).
  destruct (le_lt_dec (length (rgo sl cs)) 3) as [Hsm|Hb].
  - rewrite resolve_here_small by auto. lia.
  - destruct (resolve_here_big (rgo sl cs) cs' ltac:(lia) Hb) as [keep [a [rest [E [K1 [K2 _]]]]]].
    rewrite E, app_length. simpl length. rewrite (length_slots keep), K1, K2. lia.
Qed.
