(** Heap model (Model/Heap.v): basic facts about the association-list maps, the labelled
    tree [ltree], the representation predicate [shape] ("the heap below node [lid lt], entered
    from [prev], is the labelled tree [lt]") and its link with the executable [dump_from]. *)
From Coq Require Import String ZArith QArith Bool Arith Lia Permutation List.
From GT Require Import Base.UTree Model.Reroot Model.Heap.
Import ListNotations.
Local Close Scope Q_scope.

(** * association lists *)
Lemma alookup_aupd {A} k k' (v : A) m :
  alookup k' (aupd k v m) = if Nat.eqb k' k then Some v else alookup k' m.
Proof.
  induction m as [|[k0 v0] m IH]; cbn.
  - destruct (Nat.eqb k' k); reflexivity.
  - destruct (Nat.eqb_spec k k0) as [->|Hn]; cbn.
    + destruct (Nat.eqb_spec k' k0); reflexivity.
    + destruct (Nat.eqb_spec k' k0) as [->|Hn'].
      * destruct (Nat.eqb_spec k0 k); [congruence|reflexivity].
      * exact IH.
Qed.

Lemma alookup_aupd_eq {A} k (v : A) m : alookup k (aupd k v m) = Some v.
Proof. rewrite alookup_aupd, Nat.eqb_refl. reflexivity. Qed.

Lemma alookup_aupd_ne {A} k k' (v : A) m : k' <> k -> alookup k' (aupd k v m) = alookup k' m.
Proof. intros H. rewrite alookup_aupd. destruct (Nat.eqb_spec k' k); [contradiction|reflexivity]. Qed.

Lemma alookup_arem {A} k k' (m : amap A) :
  alookup k' (arem k m) = if Nat.eqb k' k then None else alookup k' m.
Proof.
  induction m as [|[k0 v0] m IH]; cbn.
  - destruct (Nat.eqb k' k); reflexivity.
  - destruct (Nat.eqb_spec k k0) as [->|Hn]; cbn.
    + rewrite IH. destruct (Nat.eqb_spec k' k0); reflexivity.
    + destruct (Nat.eqb_spec k' k0) as [->|Hn'].
      * destruct (Nat.eqb_spec k0 k); [congruence|reflexivity].
      * exact IH.
Qed.

Lemma alookup_In {A} k (v : A) m : alookup k m = Some v -> In k (map fst m).
Proof.
  induction m as [|[k0 v0] m IH]; cbn; [discriminate|].
  destruct (Nat.eqb_spec k k0) as [->|Hn]; intros H; [left; reflexivity|right; auto].
Qed.

Lemma alookup_app {A} k (m1 m2 : amap A) :
  alookup k (m1 ++ m2) = match alookup k m1 with Some v => Some v | None => alookup k m2 end.
Proof.
  induction m1 as [|[k0 v0] m1 IH]; cbn; [reflexivity|].
  destruct (Nat.eqb k k0); [reflexivity|exact IH].
Qed.

Lemma alookup_None {A} k (m : amap A) : ~ In k (map fst m) -> alookup k m = None.
Proof.
  induction m as [|[k0 v0] m IH]; cbn; [reflexivity|]. intros H.
  destruct (Nat.eqb_spec k k0) as [->|Hn]; [exfalso; apply H; left; reflexivity|].
  apply IH. intros Hi. apply H. right. exact Hi.
Qed.

(** * lists *)
Lemma index_of_spec x l i : index_of x l = Some i ->
  nth_error l i = Some x /\ forall j, j < i -> nth_error l j <> Some x.
Proof.
  revert i. induction l as [|y l IH]; cbn; [discriminate|]. intros i.
  destruct (Nat.eqb_spec y x) as [->|Hn].
  - intros [= <-]. split; [reflexivity|]. intros j Hj. lia.
  - destruct (index_of x l) as [i'|]; [|discriminate]. intros [= <-].
    destruct (IH i' eq_refl) as [H1 H2]. split; [exact H1|].
    intros [|j] Hj; cbn; [congruence|]. apply H2. lia.
Qed.

Lemma index_of_None x l : index_of x l = None -> ~ In x l.
Proof.
  induction l as [|y l IH]; cbn; [intros _ []|].
  destruct (Nat.eqb_spec y x) as [->|Hn]; [discriminate|].
  destruct (index_of x l); [discriminate|]. intros _ [H|H]; [contradiction|]. exact (IH eq_refl H).
Qed.

Lemma index_of_In x l : In x l -> exists i, index_of x l = Some i.
Proof.
  intros H. destruct (index_of x l) eqn:E; [eauto|]. exfalso. exact (index_of_None _ _ E H).
Qed.

Lemma NoDup_app_iff {A} (l1 l2 : list A) :
  NoDup (l1 ++ l2) <-> NoDup l1 /\ NoDup l2 /\ (forall x, In x l1 -> ~ In x l2).
Proof.
  induction l1 as [|a l1 IH]; cbn.
  - split; [intros H; repeat split; [constructor|exact H|intros x []]|intros (_ & H & _); exact H].
  - split.
    + intros H. inversion H as [|? ? Hni Hnd]; subst. apply IH in Hnd. destruct Hnd as (N1 & N2 & N3).
      repeat split; [constructor; [intros Hi; apply Hni; apply in_or_app; left; exact Hi|exact N1]|exact N2|].
      intros x [<-|Hx]; [intros Hi; apply Hni; apply in_or_app; right; exact Hi|apply N3; exact Hx].
    + intros (N1 & N2 & N3). inversion N1 as [|? ? Hni Hnd]; subst. constructor.
      * intros Hi. apply in_app_or in Hi. destruct Hi as [Hi|Hi]; [contradiction|]. apply (N3 a); [left; reflexivity|exact Hi].
      * apply IH. repeat split; [exact Hnd|exact N2|]. intros x Hx. apply N3. right. exact Hx.
Qed.

Lemma NoDup_app_remove_l {A} (l1 l2 : list A) : NoDup (l1 ++ l2) -> NoDup l2.
Proof. intros H. apply NoDup_app_iff in H. apply H. Qed.
Lemma NoDup_app_remove_r {A} (l1 l2 : list A) : NoDup (l1 ++ l2) -> NoDup l1.
Proof. intros H. apply NoDup_app_iff in H. apply H. Qed.

Lemma nodupb_spec l : nodupb l = true <-> NoDup l.
Proof.
  induction l as [|x l IH]; cbn.
  - split; [constructor|reflexivity].
  - rewrite andb_true_iff, negb_true_iff, IH. split.
    + intros [H1 H2]. constructor; [|exact H2]. intros Hi.
      assert (existsb (Nat.eqb x) l = true) as E.
      { apply existsb_exists. exists x. split; [exact Hi|apply Nat.eqb_refl]. }
      congruence.
    + intros H. inversion H as [|? ? H1 H2]; subst. split; [|exact H2].
      destruct (existsb (Nat.eqb x) l) eqn:E; [|reflexivity].
      apply existsb_exists in E. destruct E as [y [Hy E]]. apply Nat.eqb_eq in E. subst y. contradiction.
Qed.

Lemma omap_Forall2 {A B} (f : A -> option B) l l' :
  omap f l = Some l' <-> Forall2 (fun a b => f a = Some b) l l'.
Proof.
  revert l'. induction l as [|a l IH]; intros l'; cbn.
  - split; [intros [= <-]; constructor|intros H; inversion H; reflexivity].
  - split.
    + destruct (f a) as [b|] eqn:E; [|discriminate].
      destruct (omap f l) as [r|] eqn:E2; [|discriminate]. intros [= <-].
      constructor; [exact E|]. apply IH. reflexivity.
    + intros H. inversion H as [|? b ? r Hb Hr]; subst. rewrite Hb.
      apply IH in Hr. rewrite Hr. reflexivity.
Qed.

Lemma is_prev_true prev c e : is_prev prev c e = true <-> prev = Some (c, e).
Proof.
  destruct prev as [[p pe]|]; cbn; [|split; discriminate].
  rewrite andb_true_iff, !Nat.eqb_eq. split; [intros [-> ->]; reflexivity|intros [= -> ->]; auto].
Qed.

Lemma is_prev_false prev c e : is_prev prev c e = false <-> prev <> Some (c, e).
Proof.
  rewrite <- is_prev_true. destruct (is_prev prev c e); split; congruence.
Qed.

(** * labelled trees *)
Section LInd.
  Variable P : ltree -> Prop.
  Hypothesis H : forall i n c sl,
      Forall (fun s : lslot => match s with Some (_, _, t) => P t | None => True end) sl ->
      P (LNode i n c sl).
  Fixpoint ltree_ind' (t : ltree) : P t :=
    match t with
    | LNode i n c sl =>
      H i n c sl
        ((fix go (l : list lslot) :
            Forall (fun s : lslot => match s with Some (_, _, t) => P t | None => True end) l :=
            match l with
            | [] => Forall_nil _
            | None :: r => Forall_cons None I (go r)
            | Some (e, ei, t') :: r => Forall_cons (Some (e, ei, t')) (ltree_ind' t') (go r)
            end) sl)
    end.
End LInd.

Definition lslotP (P : ltree -> Prop) (s : lslot) : Prop :=
  match s with Some (_, _, t) => P t | None => True end.

(** children of a slot list *)
Definition lkids (sl : list lslot) : list ltree :=
  flat_map (fun s : lslot => match s with Some (_, _, ch) => [ch] | None => [] end) sl.

Definition lnup (sl : list lslot) : nat :=
  length (filter (fun s : lslot => match s with None => true | _ => false end) sl).

Fixpoint lheight (t : ltree) : nat :=
  match t with
  | LNode _ _ _ sl =>
    S (fold_right (fun (s : lslot) acc => match s with Some (_, _, c) => Nat.max (lheight c) acc | None => acc end) 0 sl)
  end.

Definition erase_slot (s : lslot) : slot :=
  match s with None => None | Some (_, ei, ch) => Some (ei, erase ch) end.

Lemma erase_eq i n c sl : erase (LNode i n c sl) = UNode n c (map erase_slot sl).
Proof. reflexivity. Qed.

Lemma n_up_erase sl : n_up (map erase_slot sl) = lnup sl.
Proof.
  unfold n_up, lnup. induction sl as [|[[[e ei] ch]|] sl IH]; cbn; [reflexivity|exact IH|].
  f_equal. exact IH.
Qed.

Lemma lids_eq i n c sl :
  lids (LNode i n c sl) = i :: flat_map (fun s : lslot => match s with Some (_, _, ch) => lids ch | None => [] end) sl.
Proof. reflexivity. Qed.

Lemma lid_in_lids lt : In (lid lt) (lids lt).
Proof. destruct lt; cbn. left. reflexivity. Qed.

Lemma lheight_le_lids lt : lheight lt <= length (lids lt).
Proof.
  induction lt as [i n c sl IH] using ltree_ind'. cbn [lheight lids length]. apply le_n_S.
  induction IH as [|s sl Hs _ IHsl]; cbn; [lia|].
  destruct s as [[[e ei] ch]|]; cbn in *; [|exact IHsl]. rewrite app_length. lia.
Qed.

(** * the representation predicate *)

(** the edge [e] joins [i] (nearer the root) and [c]; with [o = true] it also points away from
    the root *)
Definition edge_ok (o : bool) (h : heap) (e i c : nat) (ei : einfo) : Prop :=
  exists ed, alookup e (hedges h) = Some ed /\ hinfo ed = ei /\
             if o then hleft ed = i /\ hright ed = c
             else (hleft ed = i /\ hright ed = c) \/ (hleft ed = c /\ hright ed = i).

Fixpoint shape (o : bool) (h : heap) (prev : option (nat * nat)) (lt : ltree) {struct lt} : Prop :=
  match lt with
  | LNode i nm cm sl =>
    exists hn, alookup i (hnodes h) = Some hn /\ hname hn = nm /\ hcom hn = cm /\
               length (hneigh hn) = length (hbr hn) /\
      (fix go (l : list (nat * nat)) (sl : list lslot) {struct sl} : Prop :=
         match sl, l with
         | [], [] => True
         | s :: sl', ce :: l' =>
           match s with
           | None => prev = Some ce
           | Some (e', ei, ch) =>
             prev <> Some ce /\ e' = snd ce /\ lid ch = fst ce /\
             edge_ok o h (snd ce) i (fst ce) ei /\ shape o h (Some (i, snd ce)) ch
           end /\ go l' sl'
         | _, _ => False
         end) (combine (hneigh hn) (hbr hn)) sl
  end.

Definition slot_ok (o : bool) (h : heap) (prev : option (nat * nat)) (i : nat) (ce : nat * nat) (s : lslot) : Prop :=
  match s with
  | None => prev = Some ce
  | Some (e', ei, ch) =>
    prev <> Some ce /\ e' = snd ce /\ lid ch = fst ce /\
    edge_ok o h (snd ce) i (fst ce) ei /\ shape o h (Some (i, snd ce)) ch
  end.

Lemma shape_unfold o h prev i nm cm sl :
  shape o h prev (LNode i nm cm sl) <->
  exists hn, alookup i (hnodes h) = Some hn /\ hname hn = nm /\ hcom hn = cm /\
             length (hneigh hn) = length (hbr hn) /\
             Forall2 (slot_ok o h prev i) (combine (hneigh hn) (hbr hn)) sl.
Proof.
  cbn [shape]. split; intros [hn (H1 & H2 & H3 & H4 & H5)]; exists hn; repeat split; try assumption.
  - revert H5. generalize (combine (hneigh hn) (hbr hn)). clear.
    induction sl as [|s sl IH]; intros [|ce l]; try contradiction; [constructor|].
    intros [Hs Hr]. constructor; [exact Hs|apply IH; exact Hr].
  - revert H5. generalize (combine (hneigh hn) (hbr hn)). clear.
    induction sl as [|s sl IH]; intros l H; inversion H; subst; [exact I|].
    split; [assumption|apply IH; assumption].
Qed.

Global Opaque shape.

Definition slots_of (hn : hnode) : list (nat * nat) := combine (hneigh hn) (hbr hn).

Lemma slots_of_fst hn : length (hneigh hn) = length (hbr hn) -> map fst (slots_of hn) = hneigh hn.
Proof.
  unfold slots_of. generalize (hbr hn). induction (hneigh hn) as [|a l IH]; intros [|b l'] H; cbn in *; try lia; [reflexivity|].
  f_equal. apply IH. lia.
Qed.
Lemma slots_of_snd hn : length (hneigh hn) = length (hbr hn) -> map snd (slots_of hn) = hbr hn.
Proof.
  unfold slots_of. generalize (hbr hn). induction (hneigh hn) as [|a l IH]; intros [|b l'] H; cbn in *; try lia; [reflexivity|].
  f_equal. apply IH. lia.
Qed.

Lemma edge_ok_weaken o h e i c ei : edge_ok true h e i c ei -> edge_ok o h e i c ei.
Proof.
  intros [ed (H1 & H2 & H3)]. exists ed. repeat split; try assumption.
  destruct o; [exact H3|left; exact H3].
Qed.

Lemma Forall2_impl_r {A B} (P Q : A -> B -> Prop) l l' :
  Forall2 P l l' -> (forall a b, In b l' -> P a b -> Q a b) -> Forall2 Q l l'.
Proof.
  induction 1 as [|a b l l' Hab _ IH]; intros HPQ; constructor.
  - apply HPQ; [left; reflexivity|exact Hab].
  - apply IH. intros a0 b0 Hi. apply HPQ. right. exact Hi.
Qed.

Lemma in_lids_child i n c sl e ei ch x :
  In (Some (e, ei, ch)) sl -> In x (lids ch) -> In x (lids (LNode i n c sl)).
Proof.
  intros Hs Hx. rewrite lids_eq. right. apply in_flat_map. exists (Some (e, ei, ch)). split; assumption.
Qed.

Lemma leids_eq i n c sl :
  leids (LNode i n c sl) = flat_map (fun s : lslot => match s with Some (e, _, ch) => e :: leids ch | None => [] end) sl.
Proof. reflexivity. Qed.

Lemma in_leids_child i n c sl e ei ch x :
  In (Some (e, ei, ch)) sl -> In x (leids ch) -> In x (leids (LNode i n c sl)).
Proof.
  intros Hs Hx. rewrite leids_eq. apply in_flat_map. exists (Some (e, ei, ch)). split; [assumption|right; assumption].
Qed.

Lemma in_leids_here i n c sl e ei ch :
  In (Some (e, ei, ch)) sl -> In e (leids (LNode i n c sl)).
Proof.
  intros Hs. rewrite leids_eq. apply in_flat_map. exists (Some (e, ei, ch)). split; [assumption|left; reflexivity].
Qed.

Lemma shape_weaken h : forall lt prev o, shape true h prev lt -> shape o h prev lt.
Proof.
  induction lt as [i n c sl IH] using ltree_ind'. intros prev o H.
  apply shape_unfold in H. apply shape_unfold. destruct H as [hn (H1 & H2 & H3 & H4 & H5)].
  exists hn. repeat split; try assumption.
  rewrite Forall_forall in IH.
  apply (Forall2_impl_r _ _ _ _ H5). intros ce s Hin Hs. specialize (IH s Hin).
  destruct s as [[[e ei] ch]|]; cbn [slot_ok lslotP] in *; [|exact Hs].
  destruct Hs as (A & B & C & D & E). repeat split; try assumption.
  - apply edge_ok_weaken. exact D.
  - apply IH. exact E.
Qed.

(** frame: [shape] only reads the nodes in [lids] and the edges in [leids] *)
Lemma shape_frame o h h' : forall lt prev,
  (forall n, In n (lids lt) -> alookup n (hnodes h') = alookup n (hnodes h)) ->
  (forall e, In e (leids lt) -> alookup e (hedges h') = alookup e (hedges h)) ->
  shape o h prev lt -> shape o h' prev lt.
Proof.
  induction lt as [i n c sl IH] using ltree_ind'. intros prev Hn He H.
  apply shape_unfold in H. apply shape_unfold. destruct H as [hn (H1 & H2 & H3 & H4 & H5)].
  exists hn. split; [rewrite Hn; [exact H1|left; reflexivity]|]. repeat split; try assumption.
  rewrite Forall_forall in IH.
  apply (Forall2_impl_r _ _ _ _ H5). intros ce s Hin Hs. specialize (IH s Hin).
  destruct s as [[[e ei] ch]|]; cbn [slot_ok lslotP] in *; [|exact Hs].
  destruct Hs as (A & B & C & D & E). repeat split; try assumption.
  - destruct D as [ed (D1 & D2 & D3)]. exists ed. split; [|split; assumption].
    rewrite He; [exact D1|]. subst e. eapply in_leids_here. exact Hin.
  - apply IH; [| |exact E].
    + intros n0 Hi. apply Hn. eapply in_lids_child; eassumption.
    + intros e0 Hi. apply He. eapply in_leids_child; eassumption.
Qed.

Lemma lheight_child i n c sl e ei ch : In (Some (e, ei, ch)) sl -> S (lheight ch) <= lheight (LNode i n c sl).
Proof.
  intros Hin. cbn [lheight]. apply le_n_S. induction sl as [|s sl IH]; [destruct Hin|].
  destruct Hin as [->|Hin]; cbn [fold_right]; [lia|]. specialize (IH Hin).
  destruct s as [[[e' ei'] ch']|]; lia.
Qed.

(** [shape] determines the dump *)
Lemma shape_dump o h : forall lt prev fuel,
  shape o h prev lt -> lheight lt <= fuel -> dump_from fuel h prev (lid lt) = Some lt.
Proof.
  induction lt as [i n c sl IH] using ltree_ind'. intros prev fuel H Hf.
  apply shape_unfold in H. destruct H as [hn (H1 & H2 & H3 & H4 & H5)].
  destruct fuel as [|f]; [cbn in Hf; lia|]. cbn [dump_from lid]. rewrite H1.
  rewrite H4, Nat.eqb_refl. cbn [negb].
  match goal with |- match ?X with _ => _ end = _ => assert (X = Some sl) as -> end; [|subst; reflexivity].
  apply omap_Forall2. rewrite Forall_forall in IH.
  apply (Forall2_impl_r _ _ _ _ H5). intros [c0 e0] s Hin Hs. specialize (IH s Hin).
  destruct s as [[[e ei] ch]|]; cbn [slot_ok lslotP fst snd] in *.
  - destruct Hs as (A & B & C & D & E). subst e. apply is_prev_false in A. rewrite A.
    destruct D as [ed (D1 & D2 & D3)]. rewrite D1. rewrite <- C.
    rewrite (IH _ f E); [subst; reflexivity|].
    pose proof (lheight_child i n c sl _ _ _ Hin). lia.
  - apply is_prev_true in Hs. rewrite Hs. reflexivity.
Qed.
