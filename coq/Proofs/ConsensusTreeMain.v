(** C09, the constructed consensus tree ([consensus_utree], Model/ConsensusTree.v): its branches are
    exactly the kept bipartitions, each with support = frequency and length = mean of its lengths
    over the trees containing it, plus the tip branches with their mean lengths. *)
From Coq Require Import String NArith ZArith QArith Bool Arith Lia List Permutation Sorted.
From GT Require Import Base.UTree Spec.Obs Spec.ConsensusSpec Model.Consensus Model.ConsensusTree
     Proofs.IndexTree Proofs.IndexSplit Proofs.Splits Proofs.USplits
     Proofs.CompareBase Proofs.CompareTree Proofs.CompareMain Proofs.CompareDomain Proofs.CompareDupfree
     Proofs.CompareCor Proofs.ConsensusMain Proofs.ConsensusCompat Proofs.ConsensusRound Proofs.ConsensusInsert.
Import ListNotations.
Local Close Scope Q_scope.
Local Arguments leaves : simpl never.

Section Tree.
  (** the taxa, sorted; [m] is the least one *)
  Variable m : string.
  Variable rest : list string.
  Let all := m :: rest.
  Hypothesis Asorted : StronglySorted slt all.

  (** invariant of the working tree *)
  Record TI (t : utree) : Prop := mkTI {
    ti_wf : children_wf (uslots t) = true;
    ti_up : n_up (uslots t) = 0;
    ti_nd : NoDup (leaves t);
    ti_all : forall x, In x (leaves t) <-> In x all;
    ti_kids : kids t <> [];
    (* the least taxon hangs on a tip branch: no other clade contains it *)
    ti_m : forall s, In s (branch_splits [] t) -> In m (sside s) -> sside s = [m]
  }.

  (** a key: sorted, at least two taxa, inside the taxa, without the least one *)
  Definition good_key (k : list string) : Prop :=
    StronglySorted slt k /\ 2 <= length k /\ incl k all /\ ~ In m k.

  Lemma canon_no_m k : ~ In m k -> canon_side all k = k.
  Proof.
    intros H. unfold canon_side, all. destruct (smem m k) eqn:E; auto. apply smem_In in E. contradiction.
  Qed.

  Lemma raw_split_of ec : sside (split_of [] ec) = sset (EL ec).
  Proof. reflexivity. Qed.

  Theorem step_tree t k d :
    TI t -> good_key k ->
    (forall s, In s (branch_splits all t) -> compatible all k (sside s)) ->
    TI (insert_clade k d t) /\
    Permutation (branch_splits all (insert_clade k d t)) (mkSplit k (elen d) (esup d) false :: branch_splits all t).
  Proof.
    intros [W U ND A K M] (Ks & K2 & Ki & Km) C.
    assert (Ik : incl k (leaves t)) by (intros x Hx; apply A; auto).
    assert (LAM : forall ec, In ec (edges_below t) -> nested_or_disjoint k (EL ec)).
    { intros ec Hec.
      assert (R0 : In (split_of [] ec) (branch_splits [] t)) by (rewrite (branch_splits_edges _ _ W); now apply in_map).
      assert (R1 : In (split_of all ec) (branch_splits all t)) by (rewrite (branch_splits_edges _ _ W); now apply in_map).
      destruct (In_dec_str m (EL ec)) as [Hm|Hm].
      - (* the tip of the least taxon: disjoint from k *)
        right. right. intros x Hx Hy.
        assert (E : sset (EL ec) = [m]) by (apply (M _ R0); rewrite raw_split_of; now apply sset_In2).
        apply sset_In2 in Hy. rewrite E in Hy. destruct Hy as [<-|[]]. contradiction.
      - pose proof (C _ R1) as CP. unfold split_of in CP. cbn [sside] in CP. fold (EL ec) in CP.
        rewrite canon_no_m in CP by (intro H; apply Hm; now apply sset_In1 in H).
        destruct CP as [H|[H|[H|H]]].
        + right. right. intros x Hx Hy. apply (H x); auto. now apply sset_In2.
        + left. intros x Hx. apply sset_In1. now apply H.
        + right. left. intros x Hx. apply H. now apply sset_In2.
        + exfalso. destruct (H m (or_introl eq_refl)) as [H1|H1]; [contradiction|]. apply Hm. now apply sset_In1. }
    destruct (insert_clade_spec all k d Ks K2 t W ND Ik K LAM) as (P1 & P2 & P3 & P4 & P5).
    destruct (insert_clade_spec [] k d Ks K2 t W ND Ik K LAM) as (R1 & _).
    unfold new_split in P1, R1. rewrite canon_no_m in P1 by exact Km. split; [|exact P1].
    constructor; auto.
    - now rewrite P4.
    - eapply Permutation_NoDup; [apply Permutation_sym, P2|exact ND].
    - intros x. rewrite <- A. split; apply Permutation_in; auto. now apply Permutation_sym.
    - intros s Hs Hm. apply (Permutation_in _ R1) in Hs. destruct Hs as [<-|Hs]; [|now apply M].
      simpl in Hm. contradiction.
  Qed.

  (** the fold *)
  Theorem fold_tree (dk : list string -> einfo) : forall ks t,
      TI t -> Forall good_key ks ->
      (forall k s, In k ks -> In s (branch_splits all t) -> compatible all k (sside s)) ->
      (forall k k', In k ks -> In k' ks -> compatible all k k') ->
      let t' := fold_left (fun t k => insert_clade k (dk k) t) ks t in
      TI t' /\
      Permutation (branch_splits all t')
                  (map (fun k => mkSplit k (elen (dk k)) (esup (dk k)) false) ks ++ branch_splits all t).
  Proof.
    induction ks as [|k ks IH]; intros t T F C CC; simpl.
    - split; auto.
    - inversion F as [|? ? Gk F']; subst.
      destruct (step_tree t k (dk k) T Gk) as [T1 P1].
      { intros s Hs. apply C; auto. now left. }
      destruct (IH (insert_clade k (dk k) t) T1 F') as [T2 P2].
      + intros k' s Hk' Hs. apply (Permutation_in _ P1) in Hs. destruct Hs as [<-|Hs].
        * simpl. apply CC; [now right|now left].
        * apply C; auto. now right.
      + intros a b Ha Hb. apply CC; now right.
      + split; auto. eapply Permutation_trans; [exact P2|].
        eapply Permutation_trans; [apply Permutation_app_head; exact P1|].
        apply Permutation_sym, Permutation_middle.
  Qed.

  (** the star tree *)
  Lemma sub_leaves_star (f : string -> Q) l :
    sub_leaves (map (fun x => Some (mkE (f x) nilv nilv [], UNode x [] [None])) l) = l.
  Proof.
    unfold sub_leaves. induction l as [|x l IH]; simpl; auto.
    now rewrite IH.
  Qed.

  Lemma star_splits A (f : string -> Q) l :
    flat_map (slot_bs A) (map (fun x => Some (mkE (f x) nilv nilv [], UNode x [] [None])) l) =
    map (fun x => mkSplit (canon_side A [x]) (f x) nilv true) l.
  Proof.
    induction l as [|x l IH]; simpl; auto. rewrite IH.
    rewrite ?(leaves_no_kids x [] [None] eq_refl). reflexivity.
  Qed.

  Definition star_slots (f : string -> Q) (l : list string) : list slot :=
    map (fun x => Some (mkE (f x) nilv nilv [], UNode x [] [None])) l.

  Lemma star_wf f l : children_wf (star_slots f l) = true.
  Proof.
    unfold children_wf, star_slots. apply forallb_forall. intros s Hs. apply in_map_iff in Hs.
    destruct Hs as (x & <- & _). reflexivity.
  Qed.
  Lemma star_n_up f l : n_up (star_slots f l) = 0.
  Proof. unfold n_up, star_slots. induction l; simpl; auto. Qed.
  Lemma star_kids f l : l <> [] -> kids_of (star_slots f l) <> [].
  Proof. destruct l; [congruence|]. intros _. unfold kids_of, star_slots. simpl. discriminate. Qed.

  Lemma star_TI (f : string -> Q) : TI (star_utree all f).
  Proof.
    assert (NDa : NoDup all) by now apply NoDup_sorted_slt.
    assert (NE : all <> []) by (unfold all; discriminate).
    pose proof (star_kids f all NE) as KN.
    unfold star_utree. fold (star_slots f all). constructor; cbn [uslots].
    - apply star_wf.
    - apply star_n_up.
    - rewrite leaves_node by exact KN. unfold star_slots. now rewrite sub_leaves_star.
    - intros x. rewrite leaves_node by exact KN. unfold star_slots. now rewrite sub_leaves_star.
    - exact KN.
    - intros s Hs Hm. rewrite branch_splits_unfold in Hs. unfold star_slots in Hs. rewrite star_splits in Hs.
      apply in_map_iff in Hs. destruct Hs as (x & <- & _). cbn [sside canon_side] in *. destruct Hm as [->|[]]. reflexivity.
  Qed.

  Lemma star_compat (f : string -> Q) k s :
    good_key k -> In s (branch_splits all (star_utree all f)) -> compatible all k (sside s).
  Proof.
    intros (_ & _ & Ki & Km) Hs. unfold star_utree in Hs. rewrite branch_splits_unfold, star_splits in Hs.
    apply in_map_iff in Hs. destruct Hs as (x & <- & Hx). cbn [sside].
    assert (CS : forall y, In y (canon_side all [x]) <-> (In m [x] /\ In y all /\ ~ In y [x]) \/ (~ In m [x] /\ In y [x]))
      by (intros y; apply canon_side_In').
    destruct (string_dec m x) as [->|Ne].
    - (* the tip of the least taxon: its canonical side is everything else, which contains k *)
      right. left. intros y Hy. apply CS. left. split; [now left|]. split; [now apply Ki|].
      intros [<-|[]]. contradiction.
    - assert (Nm : ~ In m [x]) by (intros [E|[]]; congruence).
      destruct (In_dec_str x k) as [i|i].
      + right. right. left. intros y Hy. apply CS in Hy. destruct Hy as [[H _]|[_ [<-|[]]]]; [contradiction|exact i].
      + left. intros y Hy Hc. apply CS in Hc. destruct Hc as [[H _]|[_ [<-|[]]]]; contradiction.
  Qed.
End Tree.

(** * the keys of the collection *)
Lemma add_key_In k l x : In x (add_key k l) -> x = k \/ In x l.
Proof.
  induction l as [|y l IH]; simpl; intros H.
  - destruct H as [H|H]; [left; now symmetry|destruct H].
  - destruct (key_eqb k y).
    + now right.
    + destruct H as [H|H]; [right; now left|]. destruct (IH H) as [H1|H1]; [now left|right; now right].
Qed.

Lemma all_keys_In ts k : In k (all_keys ts) -> exists t, In t ts /\ In k (map sside (usplits t)).
Proof.
  unfold all_keys.
  assert (G : forall l acc, In k (fold_left (fun acc k => add_key k acc) l acc) -> In k l \/ In k acc).
  { induction l as [|x l IH]; simpl; intros acc H; auto.
    destruct (IH _ H) as [H1|H1]; auto. apply add_key_In in H1. destruct H1 as [->|H1]; auto. }
  intros H. destruct (G _ _ H) as [H1|[]].
  apply in_flat_map in H1. destruct H1 as (t & Ht & Hk). eauto.
Qed.

Lemma usplits_key_has t k : In k (map sside (usplits t)) -> tree_has t k = true.
Proof.
  intros H. apply in_map_iff in H. destruct H as (s & <- & Hs).
  unfold tree_has, tree_split, find_split.
  destruct (find (fun s0 => sset_eqb (sside s0) (sside s)) (usplits t)) eqn:F; auto.
  exfalso. pose proof (find_none _ _ F s Hs) as N. simpl in N.
  assert (sset_eqb (sside s) (sside s) = true) by (apply sset_eqb_eq; reflexivity). congruence.
Qed.

Section Headline.
  Variable t0 : utree.
  Variable r : list utree.
  Let ts := t0 :: r.
  Variable c64 : Q.
  Hypothesis Hts : Forall (fun t => good t /\ tipset t = tipset t0) ts.
  Hypothesis Hc : ((1 # 2) <= c64)%Q.

  Let all := tipset t0.

  Lemma all_shape : exists m rest, all = m :: rest /\ StronglySorted slt all.
  Proof.
    assert (S : StronglySorted slt all) by apply sset_sorted.
    destruct all as [|m rest] eqn:E; [|eauto]. exfalso.
    inversion Hts as [|? ? [G _] _]; subst. pose proof (good_two_leaves t0 G) as L.
    destruct (leaves t0) as [|x xs] eqn:El; [simpl in L; lia|].
    assert (In x all) by (apply tipset_In; rewrite El; now left). rewrite E in H. destruct H.
  Qed.

  Lemma kept_key_props k :
    In k (kept_keys ts c64) ->
    2 <= length k /\
    keep_split c64 (Z.of_nat (length ts)) (Z.of_nat (freq_count ts k)) = true /\
    exists t ec, In t ts /\ In ec (edges t) /\ k = canon_side all (sset (EL ec)).
  Proof.
    unfold kept_keys, ts. intros H. apply filter_In in H. destruct H as [Hk Hf].
    apply andb_prop in Hf. destruct Hf as [Hf K3]. apply andb_prop in Hf. destruct Hf as [K1 K2].
    apply Nat.leb_le in K1. split; auto. split; auto.
    destruct (all_keys_In _ _ Hk) as (t & Ht & Hu).
    rewrite Forall_forall in Hts. destruct (Hts t Ht) as [G E].
    destruct (tree_has_branch t k G (usplits_key_has t k Hu)) as (ec & Hec & ->).
    exists t, ec. rewrite E. auto.
  Qed.

  Theorem consensus_utree_spec :
    Permutation (branch_splits all (consensus_utree ts c64))
                (map (fun k => mkSplit k (mean (lens_of ts k))
                                       (inject_Z (Z.of_nat (freq_count ts k)) / inject_Z (Z.of_nat (length ts)))%Q false)
                     (kept_keys ts c64)
                 ++ map (fun x => mkSplit (tip_key all x) (mean (lens_of ts (tip_key all x))) nilv true) all)
    /\ wf (consensus_utree ts c64) = true
    /\ (forall x, In x (leaves (consensus_utree ts c64)) <-> In x all)
    /\ NoDup (leaves (consensus_utree ts c64)).
  Proof.
    destruct all_shape as (m & rest & E & S).
    assert (GK : Forall (good_key m rest) (kept_keys ts c64)).
    { apply Forall_forall. intros k Hk. destruct (kept_key_props k Hk) as (K2 & _ & t & ec & Ht & Hec & ->).
      rewrite Forall_forall in Hts. destruct (Hts t Ht) as [G Et].
      pose proof (edges_below_leaves t ec Hec) as Iec.
      unfold good_key. rewrite <- E. split; [|split; [|split]]; auto.
      - apply canon_side_sorted; [exact S|apply sset_sorted].
      - unfold all. rewrite <- Et. unfold tipset. intros x Hx. apply (canon_side_incl (leaves t) (EL ec) Iec x Hx).
      - rewrite E. intro Hm. apply CompareTree.canon_side_In' in Hm. tauto. }
    assert (CC : forall k k', In k (kept_keys ts c64) -> In k' (kept_keys ts c64) -> compatible all k k').
    { intros k k' Hk Hk'. destruct (kept_key_props k Hk) as (_ & K1 & _). destruct (kept_key_props k' Hk') as (_ & K2 & _).
      apply (kept_splits_compatible ts all c64 k k'); auto. unfold ts. discriminate. }
    unfold consensus_utree, ts. fold ts. fold all. rewrite E in *.
    set (f := fun x => mean (lens_of ts (tip_key (m :: rest) x))).
    destruct (fold_tree m rest (key_data ts) (kept_keys ts c64) (star_utree (m :: rest) f) (star_TI m rest S f) GK) as [T P].
    - intros k s Hk Hs. rewrite Forall_forall in GK. apply (star_compat m rest S f k s (GK k Hk) Hs).
    - exact CC.
    - cbv zeta in T, P. destruct T as [W U ND A K M].
      split; [|split; [|split]]; auto.
      + eapply Permutation_trans; [exact P|]. apply Permutation_app_head.
        unfold star_utree. rewrite branch_splits_unfold, star_splits. reflexivity.
      + destruct (fold_left _ _ _) as [n cm sl]. simpl in *. rewrite U. simpl. exact W.
  Qed.
End Headline.

(** * in the words of the property *)
Lemma freq_count_bounds ts k : In k (all_keys ts) -> 1 <= freq_count ts k <= length ts.
Proof.
  intros H. destruct (all_keys_In ts k H) as (t & Ht & Hu). apply usplits_key_has in Hu.
  unfold freq_count. split.
  - assert (IN : In t (filter (fun t => tree_has t k) ts)) by (apply filter_In; auto).
    revert IN. generalize (filter (fun t => tree_has t k) ts). intros l IN. destruct l; [destruct IN|simpl; lia].
  - rewrite <- (filter_partition_length (fun t => tree_has t k) ts). apply Nat.le_add_r.
Qed.

(** the inner branches of the consensus tree are exactly the non-trivial bipartitions of the
    collection whose frequency is strictly greater than the threshold or that occur in every
    tree; each carries its frequency as support and the mean of its lengths as length *)
Theorem consensus_headline (t0 : utree) (r : list utree) (cutoff : Q) :
  let ts := t0 :: r in
  let all := tipset t0 in
  let n := length ts in
  Forall (fun t => good t /\ tipset t = all) ts ->
  ((1 # 2) <= cutoff)%Q -> (cutoff <= 1)%Q -> (Zpos (Qden cutoff) * Z.of_nat n < 2 ^ 52)%Z ->
  forall s,
    (In s (branch_splits all (consensus_utree ts (round53 cutoff))) /\ stip s = false) <->
    (exists k, In k (all_keys ts) /\ 2 <= length k /\ 2 <= length all - length k /\
               ((cutoff < inject_Z (Z.of_nat (freq_count ts k)) / inject_Z (Z.of_nat n))%Q \/ freq_count ts k = n) /\
               s = mkSplit k (mean (lens_of ts k))
                           (inject_Z (Z.of_nat (freq_count ts k)) / inject_Z (Z.of_nat n))%Q false).
Proof.
  intros ts all n Hts C1 C2 Cs s.
  assert (C0 : (0 < cutoff)%Q) by (eapply Qlt_le_trans; [|exact C1]; reflexivity).
  assert (H12 : (round53 (1 # 2) == 1 # 2)%Q) by (vm_compute; reflexivity).
  assert (Hc : ((1 # 2) <= round53 cutoff)%Q).
  { rewrite <- H12. apply round53_mono; auto. reflexivity. }
  destruct (consensus_utree_spec t0 r (round53 cutoff) Hts Hc) as (P & _).
  fold ts all in P.
  assert (KE : forall k, In k (all_keys ts) ->
                         (keep_split (round53 cutoff) (Z.of_nat n) (Z.of_nat (freq_count ts k)) = true <->
                          ((cutoff < inject_Z (Z.of_nat (freq_count ts k)) / inject_Z (Z.of_nat n))%Q \/ freq_count ts k = n))).
  { intros k Hk. destruct (freq_count_bounds ts k Hk) as [B1 B2]. fold n in B2.
    rewrite (keep_split_exact cutoff (Z.of_nat n) (Z.of_nat (freq_count ts k)) C0 C2); [|lia|exact Cs].
    split; intros [H|H]; auto; right; lia. }
  assert (KK : forall k, In k (kept_keys ts (round53 cutoff)) <->
                         In k (all_keys ts) /\ 2 <= length k /\ 2 <= length all - length k /\
                         keep_split (round53 cutoff) (Z.of_nat n) (Z.of_nat (freq_count ts k)) = true).
  { intros k. unfold kept_keys, ts. fold ts. fold all. rewrite filter_In, !andb_true_iff, !Nat.leb_le. fold n. tauto. }
  split.
  - intros [Hs Ht]. apply (Permutation_in _ P) in Hs. apply in_app_or in Hs. destruct Hs as [Hs|Hs].
    + apply in_map_iff in Hs. destruct Hs as (k & <- & Hk). apply KK in Hk. destruct Hk as (A1 & A2 & A3 & A4).
      exists k. repeat split; auto. now apply KE.
    + apply in_map_iff in Hs. destruct Hs as (x & <- & _). discriminate.
  - intros (k & A1 & A2 & A3 & A4 & ->). split; [|reflexivity].
    apply (Permutation_in _ (Permutation_sym P)). apply in_or_app. left.
    apply in_map_iff. exists k. split; auto. apply KK. repeat split; auto. now apply KE.
Qed.

(** * the headline is not vacuous: ((a,b),c,d) twice and the star tree (a,b,c,d), threshold 0.5:
    the hypotheses hold and the split ab|cd (canonical side {c,d}, frequency 2/3) is in the tree *)
Local Open Scope string_scope.
Example headline_example :
  let ts := [CompareCor.wit_ref; CompareCor.wit_ref; CompareCor.wit_star] in
  Forall (fun t => good t /\ tipset t = tipset CompareCor.wit_ref) ts /\
  ((1 # 2) <= 1 # 2)%Q /\ (Zpos (Qden (1 # 2)) * Z.of_nat (length ts) < 2 ^ 52)%Z /\
  (exists s, In s (branch_splits (tipset CompareCor.wit_ref) (consensus_utree ts (round53 (1 # 2)))) /\
             stip s = false /\ sside s = ["c"; "d"] /\ (ssup s == 2 # 3)%Q /\ (slen s == 1)%Q).
Proof.
  cbv zeta.
  assert (N : NoDup ["a"; "b"; "c"; "d"]) by (repeat constructor; simpl; intuition discriminate).
  assert (L1 : leaves CompareCor.wit_ref = ["a"; "b"; "c"; "d"]) by (vm_compute; reflexivity).
  assert (L2 : leaves CompareCor.wit_star = ["a"; "b"; "c"; "d"]) by (vm_compute; reflexivity).
  assert (G1 : good CompareCor.wit_ref) by (unfold good; rewrite L1; repeat split; auto; vm_compute; auto).
  assert (G2 : good CompareCor.wit_star) by (unfold good; rewrite L2; repeat split; auto; vm_compute; auto).
  split; [|split; [|split]].
  - constructor; [split; [exact G1|reflexivity]|]. constructor; [split; [exact G1|reflexivity]|].
    constructor; [split; [exact G2|vm_compute; reflexivity]|constructor].
  - apply Qle_refl.
  - vm_compute. reflexivity.
  - eexists. split; [vm_compute; right; right; left; reflexivity|].
    repeat split; vm_compute; reflexivity.
Qed.

(** * the kept bipartitions do not depend on the order of the collection *)
Lemma freq_count_perm_local ts ts' k : Permutation ts ts' -> freq_count ts k = freq_count ts' k.
Proof. intros P. unfold freq_count. apply Permutation_length. now apply CompareCor.filter_perm'. Qed.

Lemma add_key_keeps k l x : In x l -> In x (add_key k l).
Proof.
  induction l as [|y l IH]; simpl; intros H; [destruct H|].
  destruct (key_eqb k y); [exact H|]. destruct H as [->|H]; [now left|right; auto].
Qed.

Lemma add_key_adds k l : In k (add_key k l).
Proof.
  induction l as [|y l IH]; simpl; [now left|].
  destruct (key_eqb k y) eqn:E; [|now right].
  unfold key_eqb in E. apply sset_eqb_eq in E. subst. now left.
Qed.

Lemma all_keys_In_iff ts k : In k (all_keys ts) <-> exists t, In t ts /\ In k (map sside (usplits t)).
Proof.
  split; [apply all_keys_In|]. intros (t & Ht & Hk). unfold all_keys.
  assert (Hl : In k (flat_map (fun t => map sside (usplits t)) ts)) by (apply in_flat_map; eauto).
  assert (G : forall l acc, In k l \/ In k acc -> In k (fold_left (fun acc k => add_key k acc) l acc)).
  { induction l as [|x l IH]; simpl; intros acc H; [tauto|].
    apply IH. destruct H as [[->|H]|H]; auto; right; [apply add_key_adds|now apply add_key_keeps]. }
  apply G. auto.
Qed.

Theorem kept_keys_perm t0 r t0' r' c64 k :
  Permutation (t0 :: r) (t0' :: r') -> tipset t0' = tipset t0 ->
  (In k (kept_keys (t0 :: r) c64) <-> In k (kept_keys (t0' :: r') c64)).
Proof.
  intros P E. unfold kept_keys. rewrite !filter_In, E, (Permutation_length P), (freq_count_perm_local _ _ k P).
  rewrite !all_keys_In_iff.
  assert (X : (exists t, In t (t0 :: r) /\ In k (map sside (usplits t))) <-> (exists t, In t (t0' :: r') /\ In k (map sside (usplits t)))).
  { split; intros (t & Ht & Hk); exists t; split; auto.
    - apply (Permutation_in _ P Ht).
    - apply (Permutation_in _ (Permutation_sym P) Ht). }
  tauto.
Qed.
