(** DELTRAN / ACCTRAN as "delayed / accelerated transformation": among the most-parsimonious
    labellings, those whose changes are as far from / as close to the root as possible
    (sum of the depths of the lower ends of the branches that carry a change).
    - refuted: the DELTRAN sets of the code are NOT the states of the delayed labellings (the code
      never resolves the root and only intersects with the parent's set); witness below;
    - tested only (bounded, not a theorem): the ACCTRAN sets are exactly the states of the
      accelerated labellings, and the delayed states are inside the DELTRAN sets. *)
From Coq Require Import String ZArith QArith Bool Arith Lia List.
From GT Require Import Base.UTree Spec.Obs Spec.Parsimony Model.Reroot Model.Parsimony
     Proofs.ParsimonyHartigan Proofs.ParsimonyCtx Proofs.ParsimonyTests.
Import ListNotations.
Local Close Scope Q_scope.
Local Open Scope string_scope.

(** sum of the depths (of the lower end) of the branches with a change *)
Definition wslots (ts : string -> list nat) (rec : nat -> utree -> ltree -> nat) (dep x : nat)
  : list slot -> list (option ltree) -> nat :=
  fix go (a : list slot) (b : list (option ltree)) : nat :=
    match a, b with
    | Some (_, c) :: a', Some lc :: b' =>
      (if is_leaf c then (if mem x (ts (uname c)) then 0 else S dep)
       else (if Nat.eqb x (lroot lc) then 0 else S dep) + rec (S dep) c lc) + go a' b'
    | _ :: a', _ :: b' => go a' b'
    | _, _ => 0
    end.
Fixpoint wcost (ts : string -> list nat) (dep : nat) (t : utree) (l : ltree) : nat :=
  match t, l with UNode _ _ sl, LNode x ll => wslots ts (wcost ts) dep x sl ll end.

(** most parsimonious, with the changes as far from the root as possible *)
Definition delayed (ts : string -> list nat) (t : utree) (l : ltree) : Prop :=
  optimal ts t l /\ forall l', optimal ts t l' -> wcost ts 0 t l' <= wcost ts 0 t l.

(** * the witness: (a,(b,c)) with a = 0, b = 1, c = 2 *)
Definition dw_tree : utree :=
  UNode "" [] [Some (e0, UNode "a" [] [None]);
               Some (e0, UNode "" [] [None; Some (e0, UNode "b" [] [None]); Some (e0, UNode "c" [] [None])])].
Definition dw_ts (n : string) : list nat :=
  if String.eqb n "a" then [0] else if String.eqb n "b" then [1] else [2].
Definition dw_tv (n : string) : vec :=
  if String.eqb n "a" then [1; 0; 0] else if String.eqb n "b" then [0; 1; 0] else [0; 0; 1].
Definition dw_best : ltree :=
  LNode 0 [Some (LNode 0 [None]); Some (LNode 0 [None; Some (LNode 0 [None]); Some (LNode 0 [None])])].

Lemma dw_shape : forall l, shape_ok dw_tree l = true ->
  exists r y la lb lc, l = LNode r [Some la; Some (LNode y [None; Some lb; Some lc])].
Proof.
  intros [r ll] H. unfold dw_tree in H. rewrite shape_ok_unfold in H.
  destruct ll as [|[la|] ll]; simpl in H; try discriminate.
  apply andb_prop in H. destruct H as [_ H].
  destruct ll as [|[[y l2]|] ll]; simpl in H; try discriminate.
  apply andb_prop in H. destruct H as [H H'].
  destruct ll; [|discriminate].
  destruct l2 as [|[?|] l2]; simpl in H; try discriminate.
  destruct l2 as [|[lb|] l2]; simpl in H; try discriminate.
  apply andb_prop in H. destruct H as [_ H].
  destruct l2 as [|[lc|] l2]; simpl in H; try discriminate.
  apply andb_prop in H. destruct H as [_ H].
  destruct l2; [|discriminate].
  exists r, y, la, lb, lc. reflexivity.
Qed.

Lemma dw_costs : forall r y la lb lc,
  let l := LNode r [Some la; Some (LNode y [None; Some lb; Some lc])] in
  cost dw_ts dw_tree l =
    (if Nat.eqb r 0 then 0 else 1) + (if Nat.eqb r y then 0 else 1) +
    (if Nat.eqb y 1 then 0 else 1) + (if Nat.eqb y 2 then 0 else 1) /\
  wcost dw_ts 0 dw_tree l =
    (if Nat.eqb r 0 then 0 else 1) + (if Nat.eqb r y then 0 else 1) +
    (if Nat.eqb y 1 then 0 else 2) + (if Nat.eqb y 2 then 0 else 2).
Proof.
  intros. unfold l. simpl. unfold branch_cost. simpl. unfold branch_cost. simpl. unfold mem. simpl.
  rewrite !orb_false_r.
  destruct (Nat.eqb r 0), (Nat.eqb r y), (Nat.eqb y 1), (Nat.eqb y 2); simpl; split; reflexivity.
Qed.

(** the code reports the three states at the root for DELTRAN, but every delayed labelling
    gives state 0 to the root *)
Example deltran_sets_are_delayed_transformation_refuted :
  vroot (fst (parsimony false dw_tv 3 Deltran dw_tree)) = [1; 1; 1] /\
  forall l, shape_ok dw_tree l = true -> delayed dw_ts dw_tree l -> lroot l = 0.
Proof.
  split; [vm_compute; reflexivity|].
  intros l Hs [[_ Hopt] Hdel].
  destruct (dw_shape l Hs) as [r [y [la [lb [lc El]]]]]. subst l. simpl lroot.
  assert (Hb : shape_ok dw_tree dw_best = true) by reflexivity.
  assert (Hbo : optimal dw_ts dw_tree dw_best).
  { split; [exact Hb|]. intros l' Hs'.
    destruct (dw_shape l' Hs') as [r' [y' [la' [lb' [lc' El']]]]]. subst l'.
    destruct (dw_costs r' y' la' lb' lc') as [C _]. rewrite C.
    change (cost dw_ts dw_tree dw_best) with 2.
    destruct (Nat.eqb r' 0) eqn:E0; destruct (Nat.eqb r' y') eqn:E3;
      destruct (Nat.eqb y' 1) eqn:E1; destruct (Nat.eqb y' 2) eqn:E2;
      repeat match goal with
             | H : Nat.eqb _ _ = true |- _ => apply Nat.eqb_eq in H
             | H : Nat.eqb _ _ = false |- _ => apply Nat.eqb_neq in H
             end; simpl; lia. }
  specialize (Hopt dw_best Hb). specialize (Hdel dw_best Hbo).
  destruct (dw_costs r y la lb lc) as [C W]. rewrite C in Hopt. rewrite W in Hdel.
  change (cost dw_ts dw_tree dw_best) with 2 in Hopt.
  change (wcost dw_ts 0 dw_tree dw_best) with 4 in Hdel.
  destruct (Nat.eqb r 0) eqn:E0; destruct (Nat.eqb r y) eqn:E3;
    destruct (Nat.eqb y 1) eqn:E1; destruct (Nat.eqb y 2) eqn:E2;
    repeat match goal with
           | H : Nat.eqb _ _ = true |- _ => apply Nat.eqb_eq in H
           | H : Nat.eqb _ _ = false |- _ => apply Nat.eqb_neq in H
           end; simpl in *; lia.
Qed.

(** * bounded tests (not theorems) *)
Definition list_max (l : list nat) : nat := fold_left Nat.max l 0.
Definition sets_of (ls : list ltree) (t : utree) (k : nat) : list (list nat) :=
  map (fun i => filter (fun x => existsb (fun l => match nth_error (lflat l) i with Some y => Nat.eqb x y | None => false end) ls) (seq 0 k))
      (seq 0 (length (nodes t))).
Definition extreme_sets (far : bool) (k : nat) (ts : string -> list nat) (t : utree) : list (list nat) :=
  let ls := all_labellings k t in
  let m := list_min (map (cost ts t) ls) in
  let best := filter (fun l => Nat.eqb (cost ts t l) m) ls in
  let w := if far then list_max (map (wcost ts 0 t) best) else list_min (map (wcost ts 0 t) best) in
  sets_of (filter (fun l => Nat.eqb (wcost ts 0 t l) w) best) t k.
Definition go_sets (a : algo) k t asg : list (list nat) :=
  per_node false t a k asg (fun i n s => if is_leaf n then [] else s).
Definition spec_sets (far : bool) k t asg : list (list nat) :=
  map (fun p => if is_leaf (fst p) then [] else snd p) (combine (nodes t) (extreme_sets far k (ts_of asg) t)).
Definition c_acc_is_accelerated k t asg := list_eqb (list_eqb Nat.eqb) (go_sets Acctran k t asg) (spec_sets false k t asg).
Definition c_delayed_in_deltran k t asg :=
  forallb (fun p => forallb (fun x => mem x (snd p)) (fst p)) (combine (spec_sets true k t asg) (go_sets Deltran k t asg)).

Example test_acctran_sets_are_the_accelerated_states :
  all_ok (c_acc_is_accelerated 2) [[0];[1]] [2;3;4;5] = true /\
  all_ok (c_acc_is_accelerated 3) single3 [2;3;4] = true.
Proof. vm_compute. split; reflexivity. Qed.

Example test_delayed_states_are_in_the_deltran_sets :
  all_ok (c_delayed_in_deltran 2) [[0];[1]] [2;3;4;5] = true /\
  all_ok (c_delayed_in_deltran 3) single3 [2;3;4] = true.
Proof. vm_compute. split; reflexivity. Qed.
