(** C15: InsertIdenticalTips as a whole: the loops over the groups and over the new names of
    a group perform a sequence of single insertions ([iseq]); the added tips are exactly the
    names of the groups that the index did not hold. *)
From Coq Require Import String ZArith QArith Bool Arith Lia List Permutation Setoid Morphisms.
From GT Require Import Base.UTree Spec.Obs Model.Reroot Spec.Unrooted
     Proofs.RerootBase Proofs.PruneBase Model.LocalEdit Proofs.LocalEditBase Proofs.LocalEdit
     Proofs.MatrixCells Proofs.LocalEditInsert.
Import ListNotations.
Local Close Scope Q_scope.
Local Open Scope string_scope.
Local Open Scope list_scope.

Lemma name_mem_true x l : name_mem x l = true <-> In x l.
Proof.
  unfold name_mem. rewrite existsb_exists. split.
  - intros [y [Hy E]]. apply String.eqb_eq in E. now subst.
  - intros H. exists x. split; auto. apply String.eqb_refl.
Qed.
Lemma name_mem_false x l : name_mem x l = false <-> ~ In x l.
Proof.
  rewrite <- name_mem_true. destruct (name_mem x l); split; intros; try congruence; tauto.
Qed.

(** * the loop over the new names of one group *)
Lemma insert_news_sem old : forall news t idx t' idx',
    wf t = true -> (forall x, In x (leaves t) -> In x idx) ->
    insert_news old news t idx = Ok (t', idx') ->
    iseq (map (pair old) news) t t' /\ idx' = idx ++ news /\
    (forall x, In x (leaves t') -> In x idx') /\ (forall n, In n news -> ~ In n idx).
Proof.
  induction news as [|nm r IH]; intros t idx t' idx' W L H; simpl in H.
  - inversion H; subst. rewrite app_nil_r. repeat split; auto. constructor.
  - destruct (name_mem nm idx) eqn:M; [discriminate|]. apply name_mem_false in M.
    destruct (is_tip t && String.eqb (uname t) old); [discriminate|].
    destruct (insert_sub old nm t) as [t1|] eqn:E; [|discriminate].
    assert (S : istep old nm t t1) by (repeat split; auto).
    assert (P := istep_leaves _ _ _ _ S).
    destruct (IH t1 (idx ++ [nm]) t' idx') as [A [B [C D]]]; auto.
    + eapply istep_wf; eauto.
    + intros x X. apply (Permutation_in _ P) in X. rewrite in_app_iff. destruct X as [<-|X]; simpl; auto.
    + repeat split.
      * simpl. econstructor; eauto.
      * rewrite B, <- app_assoc. reflexivity.
      * exact C.
      * intros n [<-|Hn]; auto. intros X. apply (D n Hn). rewrite in_app_iff. auto.
Qed.

(** * the loop over the names of one group *)
Definition ex_in (idx g : list string) : list string := filter (fun a => name_mem a idx) g.
Definition nw_in (idx g : list string) : list string := filter (fun a => negb (name_mem a idx)) g.

Lemma scan_group_sem idx : ~ In "" idx ->
  forall g old0 news0 last old news last',
    scan_group idx g old0 news0 last = Ok (old, news, last') ->
    news = news0 ++ nw_in idx g /\
    ((old0 = "" /\ ((ex_in idx g = [] /\ old = "") \/ (ex_in idx g = [old] /\ old <> ""))) \/
     (old0 <> "" /\ ex_in idx g = [] /\ old = old0)).
Proof.
  intros Hne. induction g as [|name r IH]; intros old0 news0 last old news last' H; simpl in H.
  - inversion H; subst. rewrite app_nil_r. split; auto. simpl.
    destruct (String.eqb old "") eqn:E.
    + apply String.eqb_eq in E. left. auto.
    + apply String.eqb_neq in E. right. auto.
  - destruct idx as [|i0 ir] eqn:Ei; [discriminate|]. rewrite <- Ei in *.
    unfold ex_in, nw_in. simpl filter.
    destruct (name_mem name idx) eqn:M; simpl in H; simpl negb.
    + destruct (String.eqb old0 "") eqn:E0; simpl in H; [|discriminate].
      apply String.eqb_eq in E0. subst old0.
      assert (Nn : name <> "") by (apply name_mem_true in M; intros ->; tauto).
      destruct (IH _ _ _ _ _ _ H) as [A [[B _]|[_ [C D]]]]; [congruence|].
      split; auto. left. split; auto. right. fold (ex_in idx r). rewrite C. subst old. auto.
    + destruct (IH _ _ _ _ _ _ H) as [A B]. split.
      * rewrite A, <- app_assoc. reflexivity.
      * exact B.
Qed.

(** * the loop over the groups *)
Lemma insert_groups_sem : forall groups t idx last t',
    wf t = true -> (forall x, In x (leaves t) -> In x idx) -> ~ In "" idx ->
    Forall (fun g => ~ In "" g) groups ->
    insert_groups groups t idx last = Ok t' ->
    exists ps, iseq ps t t' /\
      (forall n, In n (map snd ps) <-> In n (concat groups) /\ ~ In n idx) /\
      (NoDup (concat groups) ->
       forall g o n, In g groups -> In o g -> In n g -> In o idx -> ~ In n idx -> In (o, n) ps).
Proof.
  induction groups as [|g rest IH]; intros t idx last t' W L Hne Hg H; simpl in H.
  - inversion H; subst. exists []. split; [constructor|]. split.
    + simpl. tauto.
    + intros _ g o n [].
  - destruct (scan_group idx g "" [] last) as [[[old news] last']|m] eqn:Es; [|discriminate].
    destruct (String.eqb old "") eqn:Eo; [discriminate|]. apply String.eqb_neq in Eo.
    destruct (insert_news old news t idx) as [[t1 idx1]|m] eqn:En; [|discriminate].
    destruct (scan_group_sem idx Hne _ _ _ _ _ _ _ Es) as [A B]. simpl in A.
    destruct B as [[_ [[_ B]|[B _]]]|[B _]]; try congruence.
    destruct (insert_news_sem old news t idx t1 idx1 W L En) as [S1 [I1 [L1 F1]]].
    inversion Hg as [|? ? Hg1 Hg2]; subst.
    assert (Hne1 : ~ In "" (idx ++ nw_in idx g)).
    { rewrite in_app_iff. intros [X|X]; auto. unfold nw_in in X. apply filter_In in X. tauto. }
    destruct (IH t1 (idx ++ nw_in idx g) last' t') as [ps2 [S2 [M2 Z2]]]; auto.
    { eapply iseq_wf; eauto. }
    exists (map (pair old) (nw_in idx g) ++ ps2). split; [eapply iseq_app; eauto|]. split.
    + intros n. rewrite map_app, map_map. simpl. rewrite map_id, in_app_iff, M2.
      simpl concat. rewrite !in_app_iff. unfold nw_in. rewrite filter_In, negb_true_iff, name_mem_false.
      destruct (name_mem n idx) eqn:Mi.
      * apply name_mem_true in Mi. tauto.
      * apply name_mem_false in Mi. split; [tauto|]. intros [[X|X] _]; [tauto|].
        destruct (in_dec string_dec n g); [tauto|]. right. repeat split; auto.
        intros [Y|Y]; tauto.
    + intros Nd g' o n [<-|Hg'] Ho Hn Io Nn.
      * apply in_app_iff. left. apply in_map_iff. exists n. split.
        -- f_equal. assert (X : In o (ex_in idx g)).
           { unfold ex_in. apply filter_In. split; auto. now apply name_mem_true. }
           rewrite B in X. destruct X as [X|[]]. now subst.
        -- unfold nw_in. apply filter_In. split; auto. apply negb_true_iff. now apply name_mem_false.
      * apply in_app_iff. right. simpl concat in Nd.
        apply (Z2 (NoDup_app_r _ _ Nd) g' o n); auto.
        -- rewrite in_app_iff. auto.
        -- rewrite in_app_iff. intros [X|X]; [tauto|]. unfold nw_in in X. apply filter_In in X.
           destruct X as [X _]. apply (NoDup_app_disjoint _ _ n Nd X).
           apply in_concat. exists g'. auto.
Qed.

(** the pairs (model, new tip) in the order of the insertions: for every group, the member
    that the index holds when the group is processed (a tip of the tree, or a tip added by an
    earlier group: chained groups) with every name of the group that the index does not hold *)
Fixpoint anchor_pairs (idx : list string) (groups : list (list string)) : list (string * string) :=
  match groups with
  | [] => []
  | g :: r =>
    match ex_in idx g with
    | old :: _ => map (pair old) (nw_in idx g) ++ anchor_pairs (idx ++ nw_in idx g) r
    | [] => []
    end
  end.

Lemma insert_groups_pairs : forall groups t idx last t',
    wf t = true -> (forall x, In x (leaves t) -> In x idx) -> ~ In "" idx ->
    Forall (fun g => ~ In "" g) groups ->
    insert_groups groups t idx last = Ok t' ->
    iseq (anchor_pairs idx groups) t t'.
Proof.
  induction groups as [|g rest IH]; intros t idx last t' W L Hne Hg H; simpl in H.
  - inversion H; subst. constructor.
  - destruct (scan_group idx g "" [] last) as [[[old news] last']|m] eqn:Es; [|discriminate].
    destruct (String.eqb old "") eqn:Eo; [discriminate|]. apply String.eqb_neq in Eo.
    destruct (insert_news old news t idx) as [[t1 idx1]|m] eqn:En; [|discriminate].
    destruct (scan_group_sem idx Hne _ _ _ _ _ _ _ Es) as [A B]. simpl in A.
    destruct B as [[_ [[_ B]|[B _]]]|[B _]]; try congruence.
    destruct (insert_news_sem old news t idx t1 idx1 W L En) as [S1 [I1 [L1 F1]]].
    inversion Hg as [|? ? Hg1 Hg2]; subst.
    assert (Hne1 : ~ In "" (idx ++ nw_in idx g)).
    { rewrite in_app_iff. intros [X|X]; auto. unfold nw_in in X. apply filter_In in X. tauto. }
    simpl anchor_pairs. rewrite B. eapply iseq_app; [exact S1|].
    eapply IH; eauto. eapply iseq_wf; eauto.
Qed.

(** * InsertIdenticalTips *)
Section All.
  Variables t t' : utree.
  Variable idx : list string.
  Variable groups : list (list string).
  Hypothesis Wt : wf t = true.
  (** the index holds (at least) the tips of the tree, and no empty name is around *)
  Hypothesis Hidx : forall x, In x (leaves t) -> In x idx.
  Hypothesis Hne : ~ In "" idx.
  Hypothesis Hgr : Forall (fun g => ~ In "" g) groups.
  Hypothesis Hok : insert_identical t idx groups = Ok t'.

  Lemma insert_identical_seq :
    exists ps, iseq ps t t' /\
      (forall n, In n (map snd ps) <-> In n (concat groups) /\ ~ In n idx) /\
      (NoDup (concat groups) ->
       forall g o n, In g groups -> In o g -> In n g -> In o idx -> ~ In n idx -> In (o, n) ps).
  Proof.
    unfold insert_identical in Hok. destruct (first_dup [] (map uname (nodes t))); [discriminate|].
    eapply insert_groups_sem; eauto.
  Qed.

  Lemma insert_identical_pairs : iseq (anchor_pairs idx groups) t t'.
  Proof.
    unfold insert_identical in Hok. destruct (first_dup [] (map uname (nodes t))); [discriminate|].
    eapply insert_groups_pairs; eauto.
  Qed.

  (** chained groups included: every inserted tip is at distance zero from the member of its
      group that was known when the group was processed *)
  Theorem insert_identical_zero_chained w :
    (forall e, qeqb (elen e) 0%Q = true -> (w e == 0)%Q) -> NoDup (leaves t) ->
    forall o n d, In (o, n) (anchor_pairs idx groups) -> In (o, n, d) (pairdists w t') -> (d == 0)%Q.
  Proof.
    intros Hw Nl o n d Hin Hd.
    eapply (iseq_zero_all w Hw (anchor_pairs idx groups) t t' o n d); eauto. apply insert_identical_pairs.
  Qed.

  (** exactly these tips are added, in this order *)
  Theorem insert_identical_added :
    NoDup (map snd (anchor_pairs idx groups)) /\
    Permutation (leaves t') (map snd (anchor_pairs idx groups) ++ leaves t).
  Proof.
    split; [apply (iseq_fresh _ _ _ insert_identical_pairs)|apply iseq_leaves, insert_identical_pairs].
  Qed.

  Theorem insert_identical_wf : wf t' = true.
  Proof. destruct insert_identical_seq as [ps [S _]]. eapply iseq_wf; eauto. Qed.

  (** exactly the requested tips are added: the names of the groups the index did not hold *)
  Theorem insert_identical_leaves :
    exists added, NoDup added /\
      (forall n, In n added <-> In n (concat groups) /\ ~ In n idx) /\
      Permutation (leaves t') (added ++ leaves t) /\
      (forall w, (forall e, qeqb (elen e) 0%Q = true -> (w e == 0)%Q) ->
                 dists_equiv (fP (fun x => negb (smem x added)) (pairdists w t')) (pairdists w t)).
  Proof.
    destruct insert_identical_seq as [ps [S [M _]]]. exists (map snd ps).
    split; [apply (iseq_fresh _ _ _ S)|]. split; auto. split; [now apply iseq_leaves|].
    intros w Hw. now apply iseq_dists.
  Qed.

  (** an inserted tip is at distance zero from the existing member of its group *)
  Theorem insert_identical_zero w :
    (forall e, qeqb (elen e) 0%Q = true -> (w e == 0)%Q) ->
    NoDup (concat groups) -> NoDup (leaves t) ->
    forall g o n d, In g groups -> In o g -> In n g -> In o idx -> ~ In n idx ->
                    In (o, n, d) (pairdists w t') -> (d == 0)%Q.
  Proof.
    intros Hw Nd Nl g o n d Hg Ho Hn Io Nn Hd.
    destruct insert_identical_seq as [ps [S [_ Z]]].
    eapply (iseq_zero_all w Hw ps t t' o n d); eauto.
  Qed.
End All.

(** path lengths satisfy the hypothesis on weights *)
Lemma len0_zero e : qeqb (elen e) 0%Q = true -> (len0 e == 0)%Q.
Proof.
  unfold qeqb. intros H. apply Qeq_bool_iff in H. unfold len0.
  destruct (Qle_bool 0 (elen e)); [exact H|reflexivity].
Qed.

(** non-vacuity: chained groups {b,x} then {x,y} on ((a:1,b:2):1,c:1,d:0); *)
Definition ins_tree : utree :=
  UNode "" [] [Some (mkE 1 nilv nilv [], UNode "" [] [None; Some (mkE 1 nilv nilv [], UNode "a" [] [None]);
                                                       Some (mkE 2 nilv nilv [], UNode "b" [] [None])]);
               Some (mkE 1 nilv nilv [], UNode "c" [] [None]);
               Some (mkE 0 nilv nilv [], UNode "d" [] [None])].

Lemma ins_example :
  anchor_pairs ["a"; "b"; "c"; "d"] [["x"; "b"]; ["y"; "x"]; ["d"; "z"]] = [("b", "x"); ("x", "y"); ("d", "z")] /\
  exists t', insert_identical ins_tree ["a"; "b"; "c"; "d"] [["x"; "b"]; ["y"; "x"]; ["d"; "z"]] = Ok t' /\
             leaves t' = ["a"; "x"; "b"; "y"; "c"; "d"; "z"].
Proof. split; [reflexivity|]. eexists. split; vm_compute; reflexivity. Qed.
