(** C17 at the level of Spec/Obs.v: the canonical splits ([branch_splits], [usplits]) of a
    proposed neighbour are those of the tree with exactly one replaced; the notion
    [same_splits] used for distinctness is equality of the key sets of [usplits]. *)
From Coq Require Import String ZArith QArith Bool Arith Lia List Permutation.
From GT Require Import Base.UTree Spec.Obs Spec.Unrooted Spec.NNISpec Model.Reroot Model.NNI
     Proofs.RerootBase Proofs.Splits Proofs.USplits Proofs.NNIBase Proofs.NNISem Proofs.NNIMain
     Proofs.NNISets Proofs.NNIKeys Proofs.NNIDistinct Proofs.NNIList.
Import ListNotations.
Local Close Scope Q_scope.
Local Arguments leaves : simpl never.
Local Arguments bsplits : simpl never.
Local Arguments kleaves : simpl never.
Local Arguments kbs : simpl never.

(** * keys of the branches of a tree *)
Definition bkeys (t : utree) : list key := map sside (branch_splits (tipset t) t).

Lemma bkeys_eq t : bkeys t = map (fun x => keyof (leaves t) (clade x)) (bsplits t).
Proof.
  unfold bkeys. rewrite branch_splits_bsplits, map_map. apply map_ext. intros x. reflexivity.
Qed.

Lemma keyof_perm L L' X : Permutation L L' -> keyof L X = keyof L' X.
Proof. intros H. unfold keyof. now rewrite (sset_perm _ _ H). Qed.

(** the leaf sets below the branches have no repetition *)
Lemma bsplits_clade_nodup t : NoDup (leaves t) -> forall y, In y (bsplits t) -> NoDup (clade y).
Proof.
  induction t as [n c sl IH] using utree_ind'. intros ND y Hy.
  rewrite bsplits_unfold in Hy. rewrite leaves_unfold in ND.
  assert (IHK : Forall (fun p => NoDup (leaves (snd p)) -> forall y, In y (bsplits (snd p)) -> NoDup (clade y)) (kids_of sl)).
  { rewrite Forall_forall in *. intros [e ch] Hp. apply kids_of_In in Hp. exact (IH _ Hp). }
  clear IH. destruct (kids_of sl) as [|p0 K0] eqn:E; [destruct Hy|]. rewrite <- E in *. clear E p0 K0.
  induction IHK as [|p K Hp _ IHr]; [destruct Hy|].
  rewrite kbs_cons in Hy. change (p :: K) with ([p] ++ K) in ND. rewrite kleaves_app in ND.
  unfold kleaves at 1 in ND. cbn [flat_map] in ND. rewrite app_nil_r in ND.
  destruct Hy as [<-|Hy]; [exact (NoDup_app_l _ _ ND)|].
  apply in_app_or in Hy. destruct Hy as [Hy|Hy].
  - apply Hp; auto. exact (NoDup_app_l _ _ ND).
  - apply IHr; auto. exact (NoDup_app_r _ _ ND).
Qed.

(** * [same_splits] is equality of the key sets *)
Lemma agree_same_bipartition L x c1 c2 :
  NoDup L -> NoDup c1 -> NoDup c2 -> incl c1 L -> incl c2 L ->
  same_bipartition L x c1 -> agree L c1 c2 -> same_bipartition L x c2.
Proof.
  intros NL N1 N2 I1 I2 S A.
  assert (Nx : NoDup x).
  { destruct S as [S|S]; [eapply Permutation_NoDup; [symmetry|]; eauto|].
    eapply NoDup_app_l. eapply Permutation_NoDup; [symmetry|]; eauto. }
  (* membership form of S *)
  assert (Sx : (forall a, In a x <-> In a c1) \/ ((forall a, In a x -> In a L /\ ~ In a c1) /\ (forall a, In a L -> ~ In a c1 -> In a x))).
  { destruct S as [S|S].
    - left. intros a. split; apply Permutation_in; auto. now symmetry.
    - right. assert (ND' : NoDup (x ++ c1)) by (eapply Permutation_NoDup; [symmetry|]; eauto). split.
      + intros a Ha. split; [apply (Permutation_in _ S), in_or_app; now left|].
        intros Hc. eapply NoDup_app_disjoint; eauto.
      + intros a HL Hn. apply (Permutation_in _ (Permutation_sym S)) in HL. apply in_app_or in HL. tauto. }
  assert (dec : forall a l, In a l \/ ~ In a l) by (intros a l; destruct (in_dec string_dec a l); auto).
  assert (Ix : incl x L).
  { intros a Ha. destruct Sx as [Sx|[Sx _]]; [apply I1, Sx, Ha | apply (Sx a Ha)]. }
  (* x is c2 or its complement *)
  assert (C : (forall a, In a x <-> In a c2) \/ (forall a, In a L -> (In a x <-> ~ In a c2))).
  { destruct Sx as [Sx|[Sx1 Sx2]], A as [A|A].
    - left. intros a. rewrite Sx. split; intros H; [apply (A a (I1 a H)), H | apply (A a (I2 a H)), H].
    - right. intros a Ha. rewrite Sx. apply A, Ha.
    - right. intros a Ha. split.
      + intros Hx Hc. apply (proj2 (Sx1 a Hx)). apply (A a Ha), Hc.
      + intros Hn. apply Sx2; auto. intros Hc. apply Hn. apply (A a Ha), Hc.
    - left. intros a. split.
      + intros Hx. destruct (Sx1 a Hx) as [HL Hn]. destruct (dec a c2) as [H|H]; auto.
        exfalso. apply Hn. apply (A a HL). exact H.
      + intros Hc. apply Sx2; [apply I2, Hc|]. intros H1. apply (proj1 (A a (I2 a Hc)) H1). exact Hc. }
  destruct C as [C|C].
  - left. apply NoDup_Permutation; auto.
  - right. apply NoDup_Permutation; auto.
    + apply NNIList.NoDup_app_intro; auto. intros a Hx Hc. apply (proj1 (C a (Ix a Hx)) Hx Hc).
    + intros a. rewrite in_app_iff. split.
      * intros [H|H]; auto.
      * intros HL. destruct (dec a c2) as [H|H]; auto. left. apply (C a HL), H.
Qed.

Lemma agree_sym L x y : agree L x y -> agree L y x.
Proof.
  intros [H|H]; [left|right]; intros a Ha; specialize (H a Ha); [tauto|].
  destruct (in_dec string_dec a x), (in_dec string_dec a y); tauto.
Qed.

Lemma has_split_key t x : NoDup (leaves t) -> has_split t x -> In (keyof (leaves t) x) (bkeys t).
Proof.
  intros ND (y & Iy & S). rewrite bkeys_eq. apply in_map_iff. exists y. split; auto.
  unfold keyof. destruct S as [S|S].
  - now rewrite (sset_perm _ _ S).
  - symmetry. now apply canon_side_complement.
Qed.

Lemma keys_incl_splits t1 t2 :
  NoDup (leaves t1) -> Permutation (leaves t1) (leaves t2) ->
  (forall k, In k (bkeys t1) -> In k (bkeys t2)) -> forall x, has_split t1 x -> has_split t2 x.
Proof.
  intros ND HP HK x (y1 & I1 & S1).
  assert (ND2 : NoDup (leaves t2)) by (eapply Permutation_NoDup; eauto).
  assert (K1 : In (keyof (leaves t1) (clade y1)) (bkeys t1)) by (rewrite bkeys_eq; apply in_map_iff; eauto).
  apply HK in K1. rewrite bkeys_eq in K1. apply in_map_iff in K1. destruct K1 as (y2 & E & I2).
  rewrite <- (keyof_perm _ _ (clade y2) HP) in E.
  assert (Ic1 : incl (clade y1) (leaves t1)) by now apply bsplits_clade_incl.
  assert (Ic2 : incl (clade y2) (leaves t1)).
  { intros a Ha. apply (Permutation_in _ (Permutation_sym HP)). eapply bsplits_clade_incl; eauto. }
  apply (keyof_agree (leaves t1)) in E; auto. apply agree_sym in E. rename E into A.
  pose proof (agree_same_bipartition _ _ _ _ ND (bsplits_clade_nodup t1 ND y1 I1)
                (bsplits_clade_nodup t2 ND2 y2 I2) Ic1 Ic2 S1 A) as S2.
  exists y2. split; auto. destruct S2 as [S2|S2]; [left; auto|right]. now rewrite S2.
Qed.

(** trees on the same tips: same key set, same splits *)
Theorem same_keys_same_splits t1 t2 :
  NoDup (leaves t1) -> Permutation (leaves t1) (leaves t2) ->
  (forall k, In k (bkeys t1) <-> In k (bkeys t2)) -> same_splits t1 t2.
Proof.
  intros ND HP HK x. split.
  - apply keys_incl_splits; auto. intros k. apply HK.
  - apply keys_incl_splits; auto.
    + eapply Permutation_NoDup; eauto.
    + now symmetry.
    + intros k. apply HK.
Qed.

(** the keys of [usplits] are the keys of the branches *)
Lemma dd_In k ks : forall acc, In k (dd acc ks) <-> In k acc \/ In k ks.
Proof.
  unfold dd. induction ks as [|a ks IH]; intros acc; cbn [fold_left].
  - cbn. tauto.
  - rewrite IH. unfold dd_step. destruct (kmem a acc) eqn:E.
    + apply kmem_In in E. cbn. split; [tauto|]. intros [H|[<-|H]]; auto.
    + rewrite in_app_iff. cbn. tauto.
Qed.

Lemma usplits_keys t k : In k (map sside (usplits t)) <-> In k (bkeys t).
Proof. rewrite usplits_eq, sside_foldsplits, dd_In. unfold bkeys. cbn. tauto. Qed.

(** * the canonical splits of a neighbour *)
Theorem branch_splits_replaced r t t' :
  wf t = true -> NoDup (leaves t) -> 2 <= length (kids t) -> valid r t -> apply r t = Some t' ->
  exists c_old c_new M,
    tipset t' = tipset t /\
    Permutation (branch_splits (tipset t) t) (c_old :: M) /\
    Permutation (branch_splits (tipset t') t') (c_new :: M) /\
    (slen c_new == slen c_old)%Q /\ (ssup c_new == ssup c_old)%Q /\ stip c_old = false /\ stip c_new = false /\
    ~ In (sside c_new) (map sside (c_old :: M)) /\ ~ In (sside c_old) (map sside (c_new :: M)).
Proof.
  intros W ND K2 V A1.
  destruct (apply_one_split r t t' W V A1) as (ec & A & B & C & D & old & new & rest & rest' & HL & NB & NDd & NAC & Ho & Hn & B0 & B1 & HR).
  destruct (NAC K2) as [NA NC].
  pose proof (apply_leaves r t t' W V A1) as TL.
  assert (ND' : NoDup (leaves t')) by (eapply Permutation_NoDup; eauto).
  assert (ET : tipset t' = tipset t) by (unfold tipset; apply sset_perm; now symmetry).
  set (all := tipset t).
  assert (MP : Permutation (map (canon_split all) rest') (map (canon_split all) rest)).
  { symmetry. eapply PermR_map_eq; [|exact HR]. intros x y H. now apply canon_split_bs_same. }
  exists (canon_split all (ec, old, false)), (canon_split all (ec, new, false)), (map (canon_split all) rest).
  (* crossing of the old and the new side *)
  assert (CR : crosses (leaves t) old new).
  { eapply (cross_old_new (leaves t) _ _ _ _ ND HL NA NB NC NDd).
    - now apply two_perm.
    - destruct Hn as [H|H]; [left|right]; now apply two_perm. }
  assert (Iold : In (ec, old, false) (bsplits t)) by (apply (Permutation_in _ (Permutation_sym B0)); now left).
  assert (Inew : In (ec, new, false) (bsplits t')) by (apply (Permutation_in _ (Permutation_sym B1)); now left).
  assert (Io : incl old (leaves t)) by (apply (bsplits_clade_incl t _ Iold)).
  assert (In' : incl new (leaves t)).
  { intros a Ha. apply (Permutation_in _ (Permutation_sym TL)). apply (bsplits_clade_incl t' _ Inew). exact Ha. }
  split; [exact ET|]. split; [|split].
  - rewrite branch_splits_bsplits. fold all. rewrite B0. reflexivity.
  - rewrite ET, branch_splits_bsplits. fold all. rewrite B1. cbn [map]. now rewrite MP.
  - split; [reflexivity|]. split; [reflexivity|]. split; [reflexivity|]. split; [reflexivity|]. split.
    + (* the new key is not a key of t *)
      intros H. assert (H' : In (keyof (leaves t) new) (bkeys t)).
      { unfold bkeys. rewrite branch_splits_bsplits. fold all. rewrite B0. exact H. }
      rewrite bkeys_eq in H'. apply in_map_iff in H'. destruct H' as (y & E & Iy).
      apply (keyof_agree (leaves t)) in E; auto; [|now apply bsplits_clade_incl].
      apply agree_sym in E. rename E into Ag.
      apply (crosses_agree_r _ _ _ _ Ag) in CR.
      exact (laminar_not_crosses _ _ _ (bsplits_laminar t ND _ _ Iold Iy) CR).
    + (* the old key is not a key of t' *)
      intros H. assert (H' : In (keyof (leaves t') old) (bkeys t')).
      { unfold bkeys. rewrite ET, branch_splits_bsplits. fold all. rewrite B1. cbn [map]. rewrite MP.
        rewrite <- (keyof_perm _ _ old TL). exact H. }
      rewrite bkeys_eq in H'. apply in_map_iff in H'. destruct H' as (y & E & Iy).
      rewrite <- !(keyof_perm _ _ _ TL) in E.
      assert (Iy' : incl (clade y) (leaves t)).
      { intros a Ha. apply (Permutation_in _ (Permutation_sym TL)). eapply bsplits_clade_incl; eauto. }
      apply (keyof_agree (leaves t)) in E; auto.
      apply agree_sym in E. rename E into Ag.
      apply crosses_sym in CR. apply (crosses_agree_r _ _ _ _ Ag) in CR.
      apply (crosses_permL _ _ _ _ TL) in CR.
      exact (laminar_not_crosses _ _ _ (bsplits_laminar t' ND' _ _ Inew Iy) CR).
Qed.

(** * the same at the level of [usplits] (lookup by key, data up to Qeq) *)
Lemma fold_step_absent k l : forall o, ~ In k (map sside l) -> fold_left (step k) l o = o.
Proof.
  induction l as [|s l IH]; intros o H; cbn [fold_left]; auto.
  cbn [map] in H. rewrite IH by (intros X; apply H; now right).
  unfold step. destruct (sset_eqb (sside s) k) eqn:E; auto.
  apply sset_eqb_eq in E. exfalso. apply H. now left.
Qed.

Lemma split_qeq_sym x y : split_qeq x y -> split_qeq y x.
Proof. intros (A & B & C & D). repeat split; auto; now symmetry. Qed.
Lemma orel_qeq_sym a b : orel split_qeq a b -> orel split_qeq b a.
Proof. destruct a, b; cbn; auto using split_qeq_sym. Qed.

Lemma find_foldsplits_cons k c M :
  find_split k (foldsplits (c :: M)) =
  fold_left (step k) M (if sset_eqb (sside c) k then Some c else None).
Proof. rewrite find_split_foldsplits. reflexivity. Qed.

Theorem usplits_replaced r t t' :
  wf t = true -> NoDup (leaves t) -> 2 <= length (kids t) -> valid r t -> apply r t = Some t' ->
  exists c_old c_new,
    (slen c_new == slen c_old)%Q /\ (ssup c_new == ssup c_old)%Q /\
    sside c_old <> sside c_new /\
    orel split_qeq (find_split (sside c_old) (usplits t)) (Some c_old) /\
    find_split (sside c_new) (usplits t) = None /\
    orel split_qeq (find_split (sside c_new) (usplits t')) (Some c_new) /\
    find_split (sside c_old) (usplits t') = None /\
    forall k, k <> sside c_old -> k <> sside c_new ->
              orel split_qeq (find_split k (usplits t')) (find_split k (usplits t)).
Proof.
  intros W ND K2 V A1.
  destruct (branch_splits_replaced r t t' W ND K2 V A1)
    as (co & cn & M & ET & P0 & P1 & EL & ES & _ & _ & Nn & No).
  exists co, cn. cbn [map] in Nn, No.
  assert (NoM : ~ In (sside co) (map sside M)) by (intros X; apply No; now right).
  assert (NnM : ~ In (sside cn) (map sside M)) by (intros X; apply Nn; now right).
  assert (Ne : sside co <> sside cn) by (intros X; apply No; now left).
  pose proof (fun k => foldsplits_perm k _ _ P0) as F0. pose proof (fun k => foldsplits_perm k _ _ P1) as F1.
  rewrite <- !usplits_eq in F0, F1.
  assert (refl_eqb : forall k, sset_eqb k k = true) by (intros k; now apply sset_eqb_eq).
  assert (neq_eqb : forall a b, a <> b -> sset_eqb a b = false) by (intros a b H; now apply sset_eqb_false).
  split; [exact EL|]. split; [exact ES|]. split; [exact Ne|]. split; [|split; [|split; [|split]]].
  - specialize (F0 (sside co)). rewrite find_foldsplits_cons, refl_eqb, (fold_step_absent _ _ _ NoM) in F0. exact F0.
  - specialize (F0 (sside cn)). rewrite find_foldsplits_cons, (neq_eqb _ _ Ne), (fold_step_absent _ _ _ NnM) in F0.
    destruct (find_split (sside cn) (usplits t)); [destruct F0|reflexivity].
  - specialize (F1 (sside cn)). rewrite find_foldsplits_cons, refl_eqb, (fold_step_absent _ _ _ NnM) in F1. exact F1.
  - specialize (F1 (sside co)).
    rewrite find_foldsplits_cons, (neq_eqb (sside cn) (sside co)), (fold_step_absent _ _ _ NoM) in F1 by congruence.
    destruct (find_split (sside co) (usplits t')); [destruct F1|reflexivity].
  - intros k H1 H2. specialize (F0 k). specialize (F1 k).
    rewrite find_foldsplits_cons, (neq_eqb (sside co) k) in F0 by congruence.
    rewrite find_foldsplits_cons, (neq_eqb (sside cn) k) in F1 by congruence.
    eapply orel_trans; [apply split_qeq_trans | exact F1 | apply orel_qeq_sym, F0].
Qed.

(** * distinct neighbours have different key sets *)
Theorem distinct_keys t1 t2 :
  NoDup (leaves t1) -> Permutation (leaves t1) (leaves t2) -> ~ same_splits t1 t2 ->
  ~ (forall k, In k (map sside (usplits t1)) <-> In k (map sside (usplits t2))).
Proof.
  intros ND HP H HK. apply H. apply same_keys_same_splits; auto.
  intros k. rewrite <- !usplits_keys. apply HK.
Qed.
