(** C07, the flag combinations with removeRoot = true at oracle level.  On an unrooted tree of the
    domain removeRoot changes nothing, so the oracle clauses [collapse_ok] / [collapse_ok_tips] hold
    for removeRoot = true with and without removeTips.  On a rooted tree of the domain removeRoot
    changes nothing as long as neither root branch is a selected inner branch; then the same
    clauses hold, with and without removeTips. *)
From Coq Require Import String ZArith QArith Bool Arith Lia List Permutation.
From GT Require Import Base.UTree Spec.Obs Spec.Contract Model.Reroot Model.Collapse Proofs.CollapseBase
     Proofs.CollapseExact Proofs.CollapseDepth Proofs.CollapseOracleFull Proofs.RootedUSplits Proofs.RootedOracle Proofs.CollapseTips.
Import ListNotations.
Local Close Scope Q_scope.

(** * unrooted domain *)
Lemma unrooted_transfer rt sel t : unrooted t -> remove_edges true rt sel t = remove_edges false rt sel t.
Proof.
  intros U. destruct (unrooted_parts t U) as [Hw [Hd [Hs _]]]. symmetry. now apply remove_edges_transfer.
Qed.

Theorem rr_len_oracle l t : unrooted t -> collapse_ok (CLen l) t (collapse_len l true false t) = None.
Proof. intros U. unfold collapse_len. rewrite unrooted_transfer by auto. now apply collapse_len_oracle. Qed.

Theorem rr_sup_oracle x t : unrooted t -> collapse_ok (CSup x) t (collapse_sup x true t) = None.
Proof. intros U. unfold collapse_sup. rewrite unrooted_transfer by auto. now apply collapse_sup_oracle. Qed.

Lemma depth_rr mn mx rt t : unrooted t -> collapse_depth mn mx true rt t = collapse_depth mn mx false rt t.
Proof.
  intros U. unfold collapse_depth. destruct (existsb _ (edges t)); auto. now rewrite unrooted_transfer.
Qed.

Theorem rr_depth_oracle mn mx t :
  unrooted t -> exists g, collapse_depth mn mx true false t = Ok g /\ collapse_ok (CDepth mn mx) t g = None.
Proof. intros U. rewrite depth_rr by auto. now apply collapse_depth_oracle. Qed.

Theorem rr_tips_len_oracle l t : unrooted t -> collapse_ok_tips (CLen l) t (collapse_len l true true t) = None.
Proof. intros U. unfold collapse_len. rewrite unrooted_transfer by auto. now apply tips_len_oracle. Qed.

Theorem rr_tips_depth_oracle mn mx t :
  unrooted t -> exists g, collapse_depth mn mx true true t = Ok g /\ collapse_ok_tips (CDepth mn mx) t g = None.
Proof. intros U. rewrite depth_rr by auto. now apply tips_depth_oracle. Qed.

(** * rooted domain, neither root branch is a selected inner branch *)
Definition root_branches_stay (s : einfo -> utree -> bool) (t : utree) : Prop :=
  forall e c, In (Some (e, c)) (uslots t) -> stays s (e, c) = true.

Lemma rooted_transfer rt s t :
  rooted_dom t -> root_branches_stay s t ->
  remove_edges true rt (fun _ e c => s e c) t = remove_edges false rt (fun _ e c => s e c) t.
Proof.
  intros [Hw [Hs [Hn [n [cm [e1 [c1 [e2 [c2 [-> Hi]]]]]]]]]] St.
  apply remove_edges_rooted_rr; auto; apply St; simpl; auto.
Qed.

Theorem rooted_rr_len_oracle l (rt : bool) t :
  rooted_dom t -> root_branches_stay (fun e _ => sel_len l e) t ->
  (if rt then collapse_ok_tips (CLen l) t (collapse_len l true rt t) else collapse_ok (CLen l) t (collapse_len l true rt t)) = None.
Proof.
  intros R St. unfold collapse_len. rewrite (rooted_transfer rt (fun e _ => sel_len l e)) by auto.
  destruct rt; [now apply rooted_tips_len_oracle|now apply rooted_collapse_len_oracle].
Qed.

Theorem rooted_rr_sup_oracle x t :
  rooted_dom t -> root_branches_stay (fun e _ => sel_sup x e) t ->
  collapse_ok (CSup x) t (collapse_sup x true t) = None.
Proof.
  intros R St. unfold collapse_sup. rewrite (rooted_transfer false (fun e _ => sel_sup x e)) by auto.
  now apply rooted_collapse_sup_oracle.
Qed.

Theorem rooted_rr_depth_oracle mn mx (rt : bool) t :
  rooted_dom t -> root_branches_stay (fun _ c => sel_depth t mn mx c) t ->
  exists g, collapse_depth mn mx true rt t = Ok g /\
            (if rt then collapse_ok_tips (CDepth mn mx) t g else collapse_ok (CDepth mn mx) t g) = None.
Proof.
  intros R St.
  assert (E : collapse_depth mn mx true rt t = collapse_depth mn mx false rt t).
  { unfold collapse_depth. destruct (existsb _ (edges t)); auto.
    now rewrite (rooted_transfer rt (fun _ c => sel_depth t mn mx c)). }
  rewrite E. destruct rt; [now apply rooted_tips_depth_oracle|now apply rooted_collapse_depth_oracle].
Qed.
