(** Heap model: reroot_nocheck (tree.go) = Reroot without the membership test; on a good heap
    every node of the heap is in the tree, so the two coincide. *)
From Coq Require Import String ZArith QArith Bool Arith Lia Permutation List.
From GT Require Import Base.UTree Model.Reroot Model.Heap Proofs.Enum Proofs.HeapBase Proofs.HeapRep
     Proofs.HeapGood Proofs.HeapGoodRep Proofs.HeapRerootL Proofs.HeapReorder Proofs.HeapReroot.
Import ListNotations.
Local Close Scope Q_scope.

Theorem reroot_nocheck_eq h n : Good h -> reroot_nocheck_heap n h = reroot_heap n h.
Proof.
  intros G. destruct (Good_Rep h G) as [lt R]. unfold reroot_nocheck_heap, reroot_heap, get_node.
  destruct (alookup n (hnodes h)) as [hn|] eqn:En; [|reflexivity]. cbn [hbind].
  destruct (Nat.ltb (length (hneigh hn)) 2); [reflexivity|].
  rewrite (Rep_tree_nodes _ _ R). cbn [hbind].
  assert (In n (lids lt)) as Hin by (apply (rep_nodes _ _ R); congruence).
  rewrite (proj2 (existsb_eqb_In n (lids lt)) Hin). reflexivity.
Qed.

Theorem reroot_nocheck_good h n h' : Good h -> reroot_nocheck_heap n h = HOk h' -> Good h' /\ hroot h' = n.
Proof. intros G E. rewrite (reroot_nocheck_eq h n G) in E. exact (reroot_heap_good h n h' G E). Qed.

Theorem reroot_nocheck_refines h t ns j n : Good h -> abs h = Some t ->
  tree_nodes h = HOk ns -> nth_error ns j = Some n ->
  match reroot_nocheck_heap n h with
  | HOk h' => exists t', reroot t j = Ok t' /\ abs h' = Some t'
  | HErr m => reroot t j = Err m
  | HPanic => False
  end.
Proof. intros G Ha Hns Hj. rewrite (reroot_nocheck_eq h n G). exact (reroot_heap_refines h t ns j n G Ha Hns Hj). Qed.
