(** C06, refusals of one removeTip on ANY well-formed tree with distinct tip names (single-child
    inner nodes allowed): the call succeeds, or the name is not a tip of the tree, or the tip -
    alone or below a chain of single-child nodes - hangs on a root with exactly two other
    children, each of them a tip or a single-child node; then the message is "could not find a
    new node to set as a root" when one of the two is a single-child node and "only made of two
    tips" when both are tips.  No other refusal is reachable. *)
From Coq Require Import String ZArith QArith Bool Arith Lia List Permutation.
From GT Require Import Base.UTree Spec.Obs Spec.Unrooted Model.Reroot Model.Prune Proofs.RerootBase Proofs.PruneBase Proofs.PruneStep
     Proofs.PruneSub Proofs.PruneRoot Proofs.Prune Proofs.PruneSplits Proofs.PruneGen Proofs.PruneGenRoot.
Import ListNotations.
Local Close Scope Q_scope.
Local Arguments leaves : simpl never.

Section Refuse.
  Variable nm : string.

  Definition root_stuck (t : utree) (m : string) : Prop :=
    exists A e ch B e1 c1 e2 c2,
      uslots t = A ++ Some (e, ch) :: B /\ leaves ch = [nm] /\
      A ++ B = [Some (e1, c1); Some (e2, c2)] /\ degree c1 <= 2 /\ degree c2 <= 2 /\
      m = if Nat.eqb (degree c2) 2 || Nat.eqb (degree c1) 2 then err_no_root nm else err_two_tips nm.

  Theorem remove_tip_cases_g t :
    wf t = true -> 2 <= degree t -> NoDup (leaves t) ->
    (exists t', remove_tip nm t = Ok t') \/
    (remove_tip nm t = Err (err_not_tip nm) /\ ~ In nm (leaves t)) \/
    (exists m, remove_tip nm t = Err m /\ root_stuck t m).
  Proof.
    destruct t as [n c sl]. intros Hwf Hdeg Hnd.
    rewrite wf_unfold in Hwf. apply andb_true_iff in Hwf. destruct Hwf as [Hup Hwk]. apply Nat.eqb_eq in Hup.
    unfold degree in Hdeg. simpl uslots in Hdeg.
    unfold remove_tip.
    assert (Et : is_tip (UNode n c sl) = false).
    { unfold is_tip, degree. simpl. apply Nat.eqb_neq. lia. }
    rewrite Et. simpl andb. cbv iota.
    destruct (kids_of sl) as [|k0 kr] eqn:Ek.
    { exfalso. generalize (length_slots sl). rewrite Ek, Hup. simpl. lia. }
    assert (Hndk : NoDup (kleaves (kids_of sl))).
    { rewrite leaves_unfold, Ek in Hnd. now rewrite Ek. }
    assert (Hlv : leaves (UNode n c sl) = kleaves (kids_of sl)).
    { rewrite leaves_unfold, Ek. reflexivity. }
    rewrite <- Ek in *. clear Ek k0 kr.
    generalize (node_hitg nm sl (all_hit_okg nm sl) Hwk Hndk).
    destruct (first_hit (hit nm (rm_sub nm)) 0 sl) as [[[i e] o]|].
    2:{ intros Hnot. right. left. split; auto. now rewrite Hlv. }
    intros [A [ch [B [-> [-> [Ho [Hnf [HA [HB [Hin Hwch]]]]]]]]]].
    destruct o as [|ch'| |ec cc|m]; simpl in Ho.
    - congruence.
    - left. eexists. reflexivity.
    - destruct Ho as [Hk0 Hn0]. rewrite remove_nth_app.
      assert (HuL : n_up (A ++ B) = 0).
      { rewrite n_up_app, n_up_cons in Hup. rewrite n_up_app. lia. }
      remember (A ++ B) as L.
      destruct L as [|s1 [|s2 [|s3 L]]].
      + left. eexists. reflexivity.
      + destruct s1 as [[e1 [n1 cm1 sl1]]|]; [|unfold n_up in HuL; simpl in HuL; lia].
        left. eexists. reflexivity.
      + destruct s1 as [[e1 c1]|]; [|rewrite n_up_cons in HuL; lia].
        destruct s2 as [[e2 c2]|]; [|rewrite !n_up_cons in HuL; lia].
        destruct c1 as [n1 cm1 sl1], c2 as [n2 cm2 sl2].
        unfold after_del_root. cbv zeta.
        set (c1 := UNode n1 cm1 sl1) in *. set (c2 := UNode n2 cm2 sl2) in *.
        destruct (Nat.ltb 1 (degree c1 - 1)) eqn:E1; [left; eexists; reflexivity|].
        destruct (Nat.ltb 1 (degree c2 - 1)) eqn:E2; [left; eexists; reflexivity|].
        apply Nat.ltb_ge in E1, E2.
        right. right. exists (if Nat.eqb (degree c2 - 1) 1 || Nat.eqb (degree c1 - 1) 1 then err_no_root nm else err_two_tips nm).
        split; [destruct (Nat.eqb (degree c2 - 1) 1 || Nat.eqb (degree c1 - 1) 1); reflexivity|].
        exists A, e, ch, B, e1, c1, e2, c2. simpl uslots. repeat split; auto; try lia.
        assert (W1 : 1 <= degree c1).
        { assert (Hin1 : In (Some (e1, c1)) (A ++ Some (e, ch) :: B)).
          { assert (H0 : In (Some (e1, c1)) (A ++ B)) by (rewrite <- HeqL; now left).
            apply in_app_or in H0. apply in_or_app. destruct H0; auto. right. now right. }
          apply kids_of_In in Hin1. rewrite forallb_forall in Hwk. specialize (Hwk _ Hin1). cbn [snd] in Hwk.
          generalize (CollapseBase.wf_sub_up _ Hwk). unfold c1, degree. simpl. intros Hu.
          generalize (length_slots sl1). lia. }
        assert (W2 : 1 <= degree c2).
        { assert (Hin2 : In (Some (e2, c2)) (A ++ Some (e, ch) :: B)).
          { assert (H0 : In (Some (e2, c2)) (A ++ B)) by (rewrite <- HeqL; right; now left).
            apply in_app_or in H0. apply in_or_app. destruct H0; auto. right. now right. }
          apply kids_of_In in Hin2. rewrite forallb_forall in Hwk. specialize (Hwk _ Hin2). cbn [snd] in Hwk.
          generalize (CollapseBase.wf_sub_up _ Hwk). unfold c2, degree. simpl. intros Hu.
          generalize (length_slots sl2). lia. }
        replace (Nat.eqb (degree c2 - 1) 1) with (Nat.eqb (degree c2) 2)
          by (destruct (Nat.eqb_spec (degree c2) 2), (Nat.eqb_spec (degree c2 - 1) 1); auto; lia).
        replace (Nat.eqb (degree c1 - 1) 1) with (Nat.eqb (degree c1) 2)
          by (destruct (Nat.eqb_spec (degree c1) 2), (Nat.eqb_spec (degree c1 - 1) 1); auto; lia).
        reflexivity.
      + left. assert (E3 : after_del_root nm n c (s1 :: s2 :: s3 :: L) = Ok (UNode n c (s1 :: s2 :: s3 :: L))).
        { destruct s1 as [[? [? ? ?]]|], s2 as [[? ?]|]; reflexivity. }
        rewrite E3. eexists. reflexivity.
    - left. eexists. reflexivity.
    - destruct Ho.
  Qed.
End Refuse.
