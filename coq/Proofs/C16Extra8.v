(** C16 round 8: BipartitionTree / EdgeTree (tree/treegen.go:314,352), model in Model/C16Extra8.v.
    For ALL name lists: the result is Ok exactly when both sides have at least two names and all
    names are pairwise distinct; the tree returned is well formed, has exactly one internal branch,
    which separates the right names from the left names, all lengths 1, indexes ready. *)
From Coq Require Import String NArith ZArith QArith Bool Arith Lia List Permutation Sorted.
From GT Require Import Base.UTree Spec.Obs Spec.GenShape Spec.Counting Model.Reroot Model.Rand2 Model.TreeGen Model.Index
     Proofs.RerootBase Proofs.TreeGenGraft Proofs.IndexBase Proofs.IndexTree Proofs.IndexSplit
     Proofs.TreeGenNames Proofs.TreeGenMain Proofs.TreeGenBal Proofs.TreeGenIndex Proofs.TreeGenTopo Model.C16Extra8.
Import ListNotations.
Local Close Scope Q_scope.

(** * list facts *)
Lemma mem_str_In x l : mem_str x l = true <-> In x l.
Proof.
  unfold mem_str. rewrite existsb_exists. split.
  - intros [y [Hy E]]. apply String.eqb_eq in E. now subst.
  - intros H. exists x. split; [exact H|apply String.eqb_refl].
Qed.

Lemma nodup_strb_spec l : nodup_strb l = true <-> NoDup l.
Proof.
  induction l as [|x r IH]; cbn [nodup_strb].
  - split; [constructor|reflexivity].
  - rewrite andb_true_iff, negb_true_iff, IH. split.
    + intros [Hm Hr]. constructor; [|exact Hr]. intros Hin. apply mem_str_In in Hin. congruence.
    + intros Hnd. inversion Hnd as [|y r' Hnin Hr]; subst. split; [|exact Hr].
      destruct (mem_str x r) eqn:E; [|reflexivity]. apply mem_str_In in E. contradiction.
Qed.

Lemma common_spec lefts rights :
  existsb (fun r => mem_str r lefts) rights = true <-> exists x, In x lefts /\ In x rights.
Proof.
  rewrite existsb_exists. split.
  - intros [x [Hr Hm]]. apply mem_str_In in Hm. eauto.
  - intros [x [Hl Hr]]. exists x. split; [exact Hr|now apply mem_str_In].
Qed.

(** * the slots [map tip_slot names] *)
Lemma tip_slots_n_up names : n_up (map tip_slot names) = 0.
Proof.
  induction names as [|x r IH]; [reflexivity|]. cbn [map]. unfold tip_slot at 1. now rewrite n_up_cons, IH.
Qed.

Lemma tip_slots_forallb (p : slot -> bool) names :
  (forall nm, p (tip_slot nm) = true) -> forallb p (map tip_slot names) = true.
Proof.
  intros Hp. apply forallb_forall. intros s Hs. apply in_map_iff in Hs as [nm [<- _]]. apply Hp.
Qed.

Lemma tip_slots_leaves names :
  flat_map (fun s : slot => match s with Some (_, c) => leaves c | None => [] end) (map tip_slot names) = names.
Proof.
  induction names as [|x r IH]; [reflexivity|]. cbn [map flat_map]. rewrite IH. reflexivity.
Qed.

Lemma tip_slots_internal names :
  flat_map (fun s : slot => match s with
                     | Some (e, c) => if is_tip c then []
                                      else (e, c) :: (if Nat.ltb 1 (degree c) then internal_edges c else [])
                     | None => [] end) (map tip_slot names) = [].
Proof.
  induction names as [|x r IH]; [reflexivity|]. cbn [map flat_map]. rewrite IH. reflexivity.
Qed.

Lemma tip_slots_tip_edges names :
  length (flat_map (fun s : slot => match s with
                       | Some (e, c) => (if is_tip c then [(e, c)] else []) ++
                                        (if Nat.ltb 1 (degree c) then tip_edges c else [])
                       | None => [] end) (map tip_slot names)) = length names.
Proof.
  induction names as [|x r IH]; [reflexivity|]. cbn [map flat_map]. rewrite app_length, IH. reflexivity.
Qed.

Lemma kids_of_tip_slots names : kids_of (map tip_slot names) = map (fun nm => (eL one, tip_node nm)) names.
Proof.
  induction names as [|x r IH]; [reflexivity|]. cbn [map]. unfold kids_of in *. cbn [flat_map]. now rewrite IH.
Qed.

(** * the tree [two_star lefts rights] *)
Definition inner_of (rights : list string) : utree := UNode EmptyString [] (None :: map tip_slot rights).

Lemma two_star_wf lefts rights : wf (two_star lefts rights) = true.
Proof.
  unfold two_star, wf. apply andb_true_iff. split.
  - rewrite n_up_cons, tip_slots_n_up. reflexivity.
  - cbn [forallb]. apply andb_true_iff. split.
    + cbn [wf_sub]. apply andb_true_iff. split.
      * rewrite n_up_cons, tip_slots_n_up. reflexivity.
      * cbn [forallb]. apply tip_slots_forallb. reflexivity.
    + apply tip_slots_forallb. reflexivity.
Qed.

Lemma two_star_degree lefts rights : degree (two_star lefts rights) = S (length lefts).
Proof. unfold two_star, degree. cbn [uslots length]. now rewrite map_length. Qed.

Lemma inner_leaves rights : 1 <= length rights -> leaves (inner_of rights) = rights.
Proof.
  intros H. unfold inner_of. cbn [leaves]. unfold kids_of. cbn [flat_map app].
  fold (kids_of (map tip_slot rights)). rewrite kids_of_tip_slots.
  destruct rights as [|x r]; [simpl in H; lia|]. cbn [map]. apply (tip_slots_leaves (x :: r)).
Qed.

Lemma two_star_leaves lefts rights :
  1 <= length rights -> leaves (two_star lefts rights) = rights ++ lefts.
Proof.
  intros H. unfold two_star. cbn [leaves]. unfold kids_of at 1. cbn [flat_map app].
  fold (inner_of rights). rewrite (inner_leaves rights H), tip_slots_leaves. reflexivity.
Qed.

Lemma two_star_lens lefts rights : lens_nonneg (two_star lefts rights) = true.
Proof.
  unfold two_star. cbn [lens_nonneg forallb]. apply andb_true_iff. split.
  - apply andb_true_iff. split; [reflexivity|]. apply tip_slots_forallb. reflexivity.
  - apply tip_slots_forallb. reflexivity.
Qed.

(** exactly one internal branch: the first one, above the node holding the right names *)
Lemma two_star_internal lefts rights :
  1 <= length rights ->
  internal_edges (two_star lefts rights) = [(eL one, inner_of rights)].
Proof.
  intros H. unfold two_star. cbn [internal_edges flat_map]. fold (inner_of rights).
  assert (D : degree (inner_of rights) = S (length rights)).
  { unfold inner_of, degree. cbn [uslots length]. now rewrite map_length. }
  unfold is_tip at 1. rewrite D.
  destruct (Nat.eqb_spec (S (length rights)) 1) as [E|_]; [lia|].
  destruct (Nat.ltb_spec 1 (S (length rights))) as [_|E]; [|lia].
  rewrite tip_slots_internal. unfold inner_of at 2. cbn [internal_edges flat_map].
  rewrite tip_slots_internal. reflexivity.
Qed.

Lemma two_star_tip_edges lefts rights :
  1 <= length rights ->
  length (tip_edges (two_star lefts rights)) = length rights + length lefts.
Proof.
  intros H. unfold two_star. cbn [tip_edges flat_map]. rewrite !app_length.
  assert (D : degree (UNode EmptyString [] (None :: map tip_slot rights)) = S (length rights)).
  { unfold degree. cbn [uslots length]. now rewrite map_length. }
  unfold is_tip at 1. rewrite D.
  destruct (Nat.eqb_spec (S (length rights)) 1) as [E|_]; [lia|].
  destruct (Nat.ltb_spec 1 (S (length rights))) as [_|E]; [|lia].
  cbn [length tip_edges flat_map app]. rewrite !tip_slots_tip_edges. lia.
Qed.

(** the central theorem about the shape *)
Theorem two_star_ok lefts rights :
  1 <= length lefts -> 1 <= length rights ->
  let t := two_star lefts rights in
  wf t = true /\ leaves t = rights ++ lefts /\ lens_nonneg t = true /\
  degree t = S (length lefts) /\
  length (tip_edges t) = length rights + length lefts /\
  (exists e c, internal_edges t = [(e, c)] /\ leaves c = rights /\ Qeq (elen e) 1%Q).
Proof.
  intros Hl Hr t. subst t. repeat split.
  - apply two_star_wf.
  - now apply two_star_leaves.
  - apply two_star_lens.
  - apply two_star_degree.
  - now apply two_star_tip_edges.
  - exists (eL one), (inner_of rights). split; [now apply two_star_internal|].
    split; [now apply inner_leaves|reflexivity].
Qed.

Theorem two_star_indexes lefts rights :
  1 <= length lefts -> 1 <= length rights -> NoDup (lefts ++ rights) ->
  indexes_ready (two_star lefts rights).
Proof.
  intros Hl Hr ND. apply good_indexes_ready. repeat split.
  - apply two_star_wf.
  - rewrite two_star_degree. lia.
  - rewrite two_star_leaves by exact Hr.
    eapply Permutation_NoDup; [apply Permutation_app_comm|exact ND].
Qed.

(** * BipartitionTree *)
Theorem bipartition_tree_ok lefts rights :
  2 <= length lefts -> 2 <= length rights -> NoDup (lefts ++ rights) ->
  exists t, bipartition_tree lefts rights = GOk t /\
    wf t = true /\ leaves t = rights ++ lefts /\ NoDup (leaves t) /\ lens_nonneg t = true /\
    length (tip_edges t) = length rights + length lefts /\
    (exists e c, internal_edges t = [(e, c)] /\ leaves c = rights /\ Qeq (elen e) 1%Q) /\
    indexes_ready t.
Proof.
  intros Hl Hr ND. exists (two_star lefts rights).
  destruct (two_star_ok lefts rights) as (W & L & N & D & TE & IE); [lia|lia|].
  split.
  - unfold bipartition_tree.
    destruct (Nat.leb_spec (length lefts) 1) as [E|_]; [lia|].
    destruct (Nat.leb_spec (length rights) 1) as [E|_]; [lia|]. cbn [orb].
    destruct (existsb (fun r => mem_str r lefts) rights) eqn:C.
    + apply common_spec in C as [x [Hxl Hxr]]. exfalso.
      apply in_split in Hxl as [l1 [l2 ->]]. rewrite <- app_assoc in ND. cbn [app] in ND.
      apply NoDup_remove_2 in ND. apply ND. rewrite !in_app_iff. right. now right.
    + apply nodup_strb_spec in ND. now rewrite ND.
  - split; [exact W|]. split; [exact L|]. split.
    { rewrite L. eapply Permutation_NoDup; [apply Permutation_app_comm|exact ND]. }
    split; [exact N|]. split; [exact TE|]. split; [exact IE|].
    apply two_star_indexes; [lia|lia|exact ND].
Qed.

Theorem bipartition_tree_small lefts rights :
  length lefts <= 1 \/ length rights <= 1 -> bipartition_tree lefts rights = GErr err_bip_small.
Proof.
  intros H. unfold bipartition_tree.
  destruct (Nat.leb_spec (length lefts) 1) as [_|E1]; [reflexivity|].
  destruct (Nat.leb_spec (length rights) 1) as [_|E2]; [reflexivity|]. lia.
Qed.

Theorem bipartition_tree_common lefts rights x :
  2 <= length lefts -> 2 <= length rights -> In x lefts -> In x rights ->
  bipartition_tree lefts rights = GErr err_bip_common.
Proof.
  intros Hl Hr Il Ir. unfold bipartition_tree.
  destruct (Nat.leb_spec (length lefts) 1) as [E|_]; [lia|].
  destruct (Nat.leb_spec (length rights) 1) as [E|_]; [lia|]. cbn [orb].
  assert (C : existsb (fun r => mem_str r lefts) rights = true) by (apply common_spec; eauto).
  now rewrite C.
Qed.

(** a name repeated inside one side passes both explicit tests and is caught by ReinitIndexes *)
Theorem bipartition_tree_dup lefts rights :
  2 <= length lefts -> 2 <= length rights -> (forall x, In x lefts -> ~ In x rights) ->
  ~ NoDup (lefts ++ rights) ->
  bipartition_tree lefts rights = GErr err_tipindex_dup.
Proof.
  intros Hl Hr Dis ND. unfold bipartition_tree.
  destruct (Nat.leb_spec (length lefts) 1) as [E|_]; [lia|].
  destruct (Nat.leb_spec (length rights) 1) as [E|_]; [lia|]. cbn [orb].
  destruct (existsb (fun r => mem_str r lefts) rights) eqn:C.
  - apply common_spec in C as [x [Hxl Hxr]]. exfalso. exact (Dis x Hxl Hxr).
  - destruct (nodup_strb (lefts ++ rights)) eqn:B; [|reflexivity].
    apply nodup_strb_spec in B. contradiction.
Qed.

(** the exact domain of success, and never a panic *)
Theorem bipartition_tree_domain lefts rights :
  bipartition_tree lefts rights <> GPanic /\
  ((exists t, bipartition_tree lefts rights = GOk t) <->
   (2 <= length lefts /\ 2 <= length rights /\ NoDup (lefts ++ rights))).
Proof.
  split.
  - unfold bipartition_tree.
    destruct (Nat.leb (length lefts) 1 || Nat.leb (length rights) 1); [discriminate|].
    destruct (existsb (fun r => mem_str r lefts) rights); [discriminate|].
    destruct (nodup_strb (lefts ++ rights)); discriminate.
  - split.
    + intros [t E]. unfold bipartition_tree in E.
      destruct (Nat.leb_spec (length lefts) 1) as [E1|E1]; [discriminate|].
      destruct (Nat.leb_spec (length rights) 1) as [E2|E2]; [discriminate|]. cbn [orb] in E.
      destruct (existsb (fun r => mem_str r lefts) rights); [discriminate|].
      destruct (nodup_strb (lefts ++ rights)) eqn:B; [|discriminate].
      apply nodup_strb_spec in B. repeat split; [lia|lia|exact B].
    + intros (Hl & Hr & ND). destruct (bipartition_tree_ok lefts rights Hl Hr ND) as [t [E _]]. eauto.
Qed.

(** * EdgeTree: every name of [alltips] on its side, one internal branch *)
Theorem edge_tree_ok alltips isright :
  let rights := filter isright alltips in
  let lefts := filter (fun nm => negb (isright nm)) alltips in
  1 <= length lefts -> 1 <= length rights -> NoDup alltips ->
  let t := edge_tree_of alltips isright in
  wf t = true /\ leaves t = rights ++ lefts /\ Permutation (leaves t) alltips /\
  lens_nonneg t = true /\
  (exists e c, internal_edges t = [(e, c)] /\ leaves c = rights) /\
  indexes_ready t.
Proof.
  intros rights lefts Hl Hr ND t. subst t. unfold edge_tree_of. fold rights lefts.
  destruct (two_star_ok lefts rights Hl Hr) as (W & L & N & D & TE & (e & c & IE & LC & _)).
  assert (P : Permutation (rights ++ lefts) alltips).
  { subst rights lefts. clear. induction alltips as [|x r IH]; [constructor|].
    cbn [filter]. destruct (isright x); cbn [negb].
    - cbn [app]. now constructor.
    - eapply Permutation_trans; [apply Permutation_sym, Permutation_middle|]. now constructor. }
  split; [exact W|]. split; [exact L|]. split; [rewrite L; exact P|]. split; [exact N|].
  split; [exists e, c; split; auto|].
  - apply two_star_indexes; auto.
    eapply Permutation_NoDup; [|exact ND]. apply Permutation_sym.
    eapply Permutation_trans; [apply Permutation_app_comm|exact P].
Qed.

(** * the SIZE of a generated tree.  A well-formed binary tree with L tips has exactly 2L-3 branches
    when unrooted and 2L-2 when rooted (Tree.Edges()); hence every tree returned by the random
    generators for n tips has 2n-3 / 2n-2 branches. *)
Definition slot_fact (s : slot) : Prop :=
  match s with Some (_, c) => n_edges c + 2 = 2 * length (leaves c) | None => True end.

Definition leaves_sl (sl : list slot) : list string :=
  flat_map (fun s : slot => match s with Some (_, c) => leaves c | None => [] end) sl.

Lemma kids_len sl : length sl = length (kids_of sl) + n_up sl.
Proof.
  induction sl as [|[p|] r IH]; [reflexivity| |]; rewrite n_up_cons; unfold kids_of in *;
    cbn [flat_map app length]; lia.
Qed.

Lemma slots_edges_leaves sl :
  Forall slot_fact sl -> slots_edges n_edges sl + length (kids_of sl) = 2 * length (leaves_sl sl).
Proof.
  induction sl as [|[[e c]|] r IH]; intros F.
  - reflexivity.
  - inversion F as [|? ? Hc Hr]; subst. specialize (IH Hr). unfold slot_fact in Hc.
    unfold slots_edges, kids_of, leaves_sl in *. cbn [fold_right flat_map app length].
    rewrite app_length. lia.
  - inversion F as [|? ? Hc Hr]; subst. specialize (IH Hr).
    unfold slots_edges, kids_of, leaves_sl in *. cbn [fold_right flat_map app length]. exact IH.
Qed.

Lemma leaves_node n c sl : kids_of sl <> [] -> leaves (UNode n c sl) = leaves_sl sl.
Proof. intros H. cbn [leaves]. destruct (kids_of sl); [contradiction|reflexivity]. Qed.

Lemma sub_edges_leaves t : wf_sub t = true -> bin_sub t = true -> n_edges t + 2 = 2 * length (leaves t).
Proof.
  induction t as [n c sl IH] using utree_ind'. intros W B.
  cbn [wf_sub] in W. cbn [bin_sub] in B.
  apply andb_true_iff in W as [Wu Ws]. apply andb_true_iff in B as [Bl Bs].
  apply Nat.eqb_eq in Wu.
  assert (F : Forall slot_fact sl).
  { apply Forall_forall. intros [[e ch]|] Hin; [|exact I]. unfold slot_fact.
    rewrite Forall_forall in IH. specialize (IH _ Hin). cbn in IH.
    unfold sub_all in Bs. rewrite forallb_forall in Ws, Bs.
    apply IH; [exact (Ws _ Hin)|exact (Bs _ Hin)]. }
  pose proof (slots_edges_leaves sl F) as E. pose proof (kids_len sl) as K.
  rewrite n_edges_unfold.
  apply orb_true_iff in Bl as [L1|L3]; apply Nat.eqb_eq in L1 || apply Nat.eqb_eq in L3.
  - destruct sl as [|[p|] [|s2 r2]]; try (cbn [length] in L1; lia).
    + rewrite n_up_cons in Wu. cbn in Wu. lia.
    + reflexivity.
  - assert (K2 : kids_of sl <> []) by (destruct (kids_of sl); [simpl in K; lia|discriminate]).
    rewrite (leaves_node n c sl K2). lia.
Qed.

(** the count, for any well-formed binary tree *)
Theorem binary_edge_count (rooted : bool) t :
  wf t = true -> binary rooted t = true ->
  length (edges t) + (if rooted then 2 else 3) = 2 * length (leaves t).
Proof.
  intros W B. destruct t as [n c sl].
  assert (W' := W). unfold wf in W'. apply andb_true_iff in W' as [Wu Ws]. apply Nat.eqb_eq in Wu.
  unfold binary in B. apply andb_true_iff in B as [Bd Bs]. apply Nat.eqb_eq in Bd.
  unfold degree in Bd. cbn [uslots] in Bd, Bs.
  unfold edges. rewrite edges_below_n_edges by exact Ws. rewrite n_edges_unfold.
  assert (F : Forall slot_fact sl).
  { apply Forall_forall. intros [[e ch]|] Hin; [|exact I]. unfold slot_fact.
    unfold sub_all in Bs. rewrite forallb_forall in Ws, Bs.
    apply sub_edges_leaves; [exact (Ws _ Hin)|exact (Bs _ Hin)]. }
  pose proof (slots_edges_leaves sl F) as E. pose proof (kids_len sl) as K.
  assert (K2 : kids_of sl <> []) by (destruct (kids_of sl); [destruct rooted; simpl in K; lia|discriminate]).
  rewrite (leaves_node n c sl K2). destruct rooted; lia.
Qed.

Theorem good_tree_edge_count rooted n t :
  good_tree rooted n t ->
  length (leaves t) = n /\ length (edges t) + (if rooted then 2 else 3) = 2 * n.
Proof.
  intros (W & B & R & P & ND & L).
  assert (Ln : length (leaves t) = n).
  { rewrite (Permutation_length P), map_length, seq_length. reflexivity. }
  split; [exact Ln|]. rewrite <- Ln. now apply binary_edge_count.
Qed.

Theorem uniform_tree_size n rooted cs ls :
  3 <= n -> in_bounds cs (uniform_bounds n rooted) ->
  exists t, uniform_tree n rooted cs ls = GOk t /\ length (leaves t) = n /\
            length (edges t) = (if rooted then 2 * n - 2 else 2 * n - 3).
Proof.
  intros Hn Hb. destruct (uniform_tree_ok n rooted cs ls Hn Hb) as [t [E G]].
  exists t. split; [exact E|]. destruct (good_tree_edge_count _ _ _ G) as [L C].
  split; [exact L|]. destruct rooted; lia.
Qed.

Theorem yule_tree_size n rooted cs ls :
  3 <= n -> in_bounds cs (yule_bounds n rooted) ->
  exists t, yule_tree n rooted cs ls = GOk t /\ length (leaves t) = n /\
            length (edges t) = (if rooted then 2 * n - 2 else 2 * n - 3).
Proof.
  intros Hn Hb. destruct (yule_tree_ok n rooted cs ls Hn Hb) as [t [E G]].
  exists t. split; [exact E|]. destruct (good_tree_edge_count _ _ _ G) as [L C].
  split; [exact L|]. destruct rooted; lia.
Qed.
