(** C08, part 2: the branches of a well-formed tree as index keys and as splits.
    - [branch_splits] lists one split per branch of Tree.Edges(), in the same order;
    - HashEquals on the keys of two trees on the same taxa is equality of the canonical sides
      (from Proofs/IndexSplit.v [equal_or_complement_iff]);
    - ReinitIndexes succeeds on a good tree. *)
From Coq Require Import String NArith ZArith QArith Bool Arith Lia List Permutation Sorted.
From GT Require Import Base.UTree Spec.Obs Spec.CompareSpec Model.Reroot Model.Index Model.HashMap Model.EdgeIndex
     Model.Compare Proofs.IndexBase Proofs.IndexTree Proofs.IndexSplit Proofs.Splits Proofs.USplits Proofs.CompareBase.
Import ListNotations.
Local Close Scope Q_scope.
Local Arguments leaves : simpl never.

(** * one split per branch, in Edges() order *)
Definition isleafb (c : utree) : bool := match kids c with [] => true | _ => false end.

Definition split_of (all : list string) (ec : einfo * utree) : split :=
  mkSplit (canon_side all (sset (leaves (snd ec)))) (elen (fst ec)) (esup (fst ec)) (isleafb (snd ec)).

Lemma wf_sub_tip_slots c : wf_sub c = true -> Nat.ltb 1 (degree c) = false -> kids c = [].
Proof.
  destruct c as [n cm sl]. intros W D. apply wf_sub_inv in W. destruct W as [Hup _].
  unfold degree in D. simpl in *. apply Nat.ltb_ge in D.
  pose proof (length_slots sl) as HL. rewrite Hup in HL.
  unfold kids. simpl. destruct (kids_of sl); auto. simpl in HL. lia.
Qed.

Lemma branch_splits_no_kids all c : kids c = [] -> branch_splits all c = [].
Proof.
  destruct c as [n cm sl]. unfold kids. simpl. intros K.
  apply (kids_nil_flat _ (fun c => [c])) in K.
  induction sl as [|[[e ch]|] r IH]; simpl in *; auto. discriminate.
Qed.

Lemma branch_splits_edges all t :
  children_wf (uslots t) = true -> branch_splits all t = map (split_of all) (edges_below t).
Proof.
  induction t as [n cm sl IH] using utree_ind'. simpl uslots. intros W.
  simpl. rewrite map_flat_map.
  apply flat_map_ext_in. intros [[e c]|] Hin; auto.
  pose proof (children_wf_in _ _ _ W Hin) as Wc.
  rewrite Forall_forall in IH. specialize (IH _ Hin). simpl in IH.
  simpl map. f_equal.
  destruct (Nat.ltb 1 (degree c)) eqn:D.
  - apply IH. destruct c. apply wf_sub_inv in Wc. apply Wc.
  - simpl. apply branch_splits_no_kids. now apply wf_sub_tip_slots.
Qed.

Lemma is_tip_isleafb c : wf_sub c = true -> is_tip c = isleafb c.
Proof.
  destruct c as [n cm sl]. intros W. apply wf_sub_inv in W. destruct W as [Hup _].
  unfold is_tip, degree, isleafb, kids. simpl.
  pose proof (length_slots sl) as HL. rewrite Hup in HL.
  destruct (kids_of sl); simpl in HL.
  - rewrite HL. reflexivity.
  - apply Nat.eqb_neq. lia.
Qed.

(** * canonical sides and "same split" *)
Lemma tipset_In t x : In x (tipset t) <-> In x (leaves t).
Proof. unfold tipset. apply sset_In. Qed.

Lemma canon_side_In all X x :
  In x (canon_side all X) <->
  match all with
  | [] => In x X
  | m :: _ => if smem m X then In x all /\ ~ In x X else In x X
  end.
Proof.
  unfold canon_side. destruct all as [|m r]; [tauto|].
  destruct (smem m X) eqn:E; [|tauto].
  unfold sdiff. rewrite filter_In, negb_true_iff.
  split; intros [H1 H2]; split; auto.
  - intro Hx. apply smem_In in Hx. congruence.
  - destruct (smem x X) eqn:F; auto. apply smem_In in F. contradiction.
Qed.

Lemma canon_side_sorted all X :
  StronglySorted slt all -> StronglySorted slt X -> StronglySorted slt (canon_side all X).
Proof.
  intros Sa Sx. unfold canon_side. destruct all as [|m r]; auto.
  destruct (smem m X); auto. now apply filter_sorted.
Qed.

Lemma In_dec_str (x : string) l : {In x l} + {~ In x l}.
Proof. apply in_dec. apply string_dec. Qed.

Lemma canon_side_In' m r X x :
  In x (canon_side (m :: r) X) <-> (In m X /\ In x (m :: r) /\ ~ In x X) \/ (~ In m X /\ In x X).
Proof.
  rewrite canon_side_In. destruct (smem m X) eqn:E.
  - apply smem_In in E. tauto.
  - assert (~ In m X) by (intro H; apply smem_In in H; congruence). tauto.
Qed.

Lemma canon_same_split L A B :
  incl A L -> incl B L ->
  (canon_side (sset L) (sset A) = canon_side (sset L) (sset B) <-> same_split L A B).
Proof.
  intros HA HB.
  assert (EQ : canon_side (sset L) (sset A) = canon_side (sset L) (sset B) <->
               (forall x, In x (canon_side (sset L) (sset A)) <-> In x (canon_side (sset L) (sset B)))).
  { split; [intros ->; tauto|]. intros H. apply sorted_ext; auto; apply canon_side_sorted; apply sset_sorted. }
  rewrite EQ. clear EQ.
  destruct (sset L) as [|m r] eqn:EL.
  - (* no taxa: both sides empty *)
    assert (NL : forall x, ~ In x L).
    { intros x Hx. apply sset_In in Hx. rewrite EL in Hx. destruct Hx. }
    split.
    + intros _. left. intros x Hx. exfalso. apply (NL x Hx).
    + intros _ x. rewrite !canon_side_In, !sset_In. split; intros Hx; exfalso.
      * apply (NL x), HA, Hx.
      * apply (NL x), HB, Hx.
  - assert (Hm : In m L) by (apply sset_In; rewrite EL; now left).
    assert (C : forall X x, In x (canon_side (m :: r) (sset X)) <->
                            (In m X /\ In x L /\ ~ In x X) \/ (~ In m X /\ In x X)).
    { intros X x. rewrite canon_side_In', <- EL, !sset_In. tauto. }
    split.
    + intros H.
      destruct (In_dec_str m A) as [mA|mA], (In_dec_str m B) as [mB|mB].
      * left. intros x Hx. specialize (H x). rewrite !C in H.
        destruct (In_dec_str x A), (In_dec_str x B); tauto.
      * right. intros x Hx. specialize (H x). rewrite !C in H.
        destruct (In_dec_str x A), (In_dec_str x B); tauto.
      * right. intros x Hx. specialize (H x). rewrite !C in H.
        destruct (In_dec_str x A), (In_dec_str x B); tauto.
      * left. intros x Hx. specialize (H x). rewrite !C in H.
        destruct (In_dec_str x A), (In_dec_str x B); tauto.
    + intros H x. rewrite !C.
      destruct (In_dec_str x L) as [xL|xL].
      * destruct H as [H|H]; pose proof (H m Hm); specialize (H x xL);
          destruct (In_dec_str m A), (In_dec_str m B), (In_dec_str x A), (In_dec_str x B); tauto.
      * assert (~ In x A) by (intro; apply xL; auto).
        assert (~ In x B) by (intro; apply xL; auto).
        tauto.
Qed.

(** * keys of a good tree *)
Lemma in_combine_swap {A B} (l : list A) (l' : list B) a b : In (a, b) (combine l l') -> In (b, a) (combine l' l).
Proof.
  revert l'. induction l; destruct l'; simpl; intros; auto. destruct H.
  - inversion H; subst. now left.
  - right. auto.
Qed.

(** the key [k] is a branch of [t], [s] is the split of that branch *)
Definition key_of (t : utree) (k : ekey) (s : split) : Prop :=
  exists ec, branch_row t ec (ek_row k) /\ ek_len k = elen (fst ec) /\ s = split_of (tipset t) ec.

Lemma keys_splits_gen (t : utree) (f : nat * (erow * (einfo * utree)) -> ekey)
      (Hf : forall i r ec, ek_row (f (i, (r, ec))) = r /\ ek_len (f (i, (r, ec))) = elen (fst ec)) :
  forall (R : list erow) (E : list (einfo * utree)) i,
    length R = length E ->
    (forall r ec, In (r, ec) (combine R E) -> branch_row t ec r) ->
    Forall2 (key_of t) (map f (number_from i (combine R E))) (map (split_of (tipset t)) E).
Proof.
  induction R as [|r R IH]; destruct E as [|ec E]; simpl; intros i HL HB; try discriminate; constructor.
  - exists ec. destruct (Hf i r ec) as [-> ->]. repeat split; auto.
  - apply IH; auto.
Qed.

Lemma branch_keys_splits tag t :
  good t -> Forall2 (key_of t) (branch_keys tag t) (branch_splits (tipset t) t).
Proof.
  intros G. pose proof G as (W & D & ND).
  assert (Wc : children_wf (uslots t) = true) by (destruct t; apply wf_inv in W; apply W).
  rewrite (branch_splits_edges _ _ Wc). unfold branch_keys, branch_keys_of.
  apply (keys_splits_gen t (fun p => mkEK (tag, fst p) (fst (snd p)) (elen (fst (snd (snd p)))))).
  - intros. simpl. auto.
  - apply rows_length. exact G.
  - intros r ec H. unfold branch_row. now apply in_combine_swap.
Qed.

Lemma key_of_tip t k s : good t -> key_of t k s -> key_tip k = stip s.
Proof.
  intros G (ec & B & _ & ->). destruct (branch_row_describes _ _ _ G B) as [RD Hin].
  unfold key_tip. simpl.
  destruct RD as (_ & _ & _ & _ & _ & _ & _ & _ & _ & _ & ->).
  apply is_tip_isleafb. destruct G as (W & _ & _).
  apply (edges_below_wf t ec); auto. destruct t; apply wf_inv in W; apply W.
Qed.

Lemma key_of_len t k s : key_of t k s -> ek_len k = slen s.
Proof. intros (ec & _ & E & ->). exact E. Qed.

Lemma key_of_eqb t1 t2 k1 s1 k2 s2 :
  good t1 -> good t2 -> Permutation (leaves t1) (leaves t2) ->
  key_of t1 k1 s1 -> key_of t2 k2 s2 ->
  ekey_eqb k1 k2 = split_key_eqb s1 s2.
Proof.
  intros G1 G2 P (ec1 & B1 & _ & ->) (ec2 & B2 & _ & ->).
  assert (ET : tipset t2 = tipset t1) by (unfold tipset; apply sset_perm; now symmetry).
  unfold ekey_eqb, hash_equals, split_key_eqb. simpl. rewrite ET.
  destruct (branch_row_describes _ _ _ G1 B1) as [_ I1].
  destruct (branch_row_describes _ _ _ G2 B2) as [_ I2].
  assert (HA : incl (leaves (snd ec1)) (leaves t1)) by (apply edges_below_leaves; auto).
  assert (HB : incl (leaves (snd ec2)) (leaves t1)).
  { intros x Hx. apply (Permutation_in _ (Permutation_sym P)). apply (edges_below_leaves t2 ec2); auto. }
  pose proof (equal_or_complement_iff t1 t2 ec1 _ ec2 _ G1 G2 P B1 B2) as EOC.
  pose proof (canon_same_split (leaves t1) _ _ HA HB) as CS. fold (tipset t1) in CS.
  destruct (equal_or_complement (r_bits (ek_row k1)) (r_bits (ek_row k2))) eqn:E1.
  - symmetry. apply sset_eqb_eq. apply CS. apply EOC. reflexivity.
  - symmetry. apply sset_eqb_false. intro H. apply CS in H. apply EOC in H. congruence.
Qed.

(** * ReinitIndexes on a good tree *)
Lemma reinit_good tag t :
  good t -> reinit tag t = Some (Ok (sorted_tip_names t, branch_keys tag t)).
Proof.
  intros (W & D & ND). unfold reinit. rewrite (index_tables_ok t W D ND). reflexivity.
Qed.

Lemma compare_tip_indexes_same t1 t2 :
  good t1 -> good t2 -> Permutation (leaves t1) (leaves t2) ->
  compare_tip_indexes (sorted_tip_names t1) (sorted_tip_names t2) = EmptyString.
Proof.
  intros G1 G2 P. rewrite <- (same_taxa_same_ids t1 t2 G1 G2 P).
  destruct G1 as (W & D & ND). destruct (tables_spec t1 W D ND) as (Pi & _ & _).
  unfold compare_tip_indexes.
  assert (NE : length (sorted_tip_names t1) <> 0).
  { rewrite (Permutation_length Pi). destruct (root_NI t1 W D) as [_ TN].
    intro Z. apply length_zero_iff_nil in Z.
    destruct t1 as [n cm sl]. unfold degree in D. simpl in D.
    apply wf_inv in W. destruct W as [Hup Hch].
    pose proof (length_slots sl) as HL. rewrite Hup in HL.
    destruct (kids_of sl) as [|[e c] ks] eqn:K; [simpl in HL; lia|].
    assert (Hin : In (Some (e, c)) sl).
    { assert (In (e, c) (kids_of sl)) by (rewrite K; now left).
      unfold kids_of in H. apply in_flat_map in H. destruct H as ([q|] & Hs & Hp); simpl in Hp; [|contradiction].
      destruct Hp as [<-|[]]. exact Hs. }
    destruct (sub_spec [] c (children_wf_in _ _ _ Hch Hin)) as (_ & _ & _ & NEc).
    apply NEc. apply incl_l_nil. rewrite <- Z.
    apply (edges_below_leaves (UNode n cm sl) (e, c)).
    simpl. apply in_flat_map. exists (Some (e, c)). split; auto. now left. }
  apply Nat.eqb_neq in NE. rewrite NE, Nat.eqb_refl. simpl.
  assert (F : forallb (fun k => existsb (String.eqb k) (sorted_tip_names t1)) (sorted_tip_names t1) = true).
  { apply forallb_forall. intros x Hx. apply existsb_exists. exists x. split; auto. apply String.eqb_refl. }
  now rewrite F.
Qed.
