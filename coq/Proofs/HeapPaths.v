(** Heap model: addressing by paths.  Links between the labelled tree of a heap and the
    positional addressing of the tree models: [NNI.at_path] / [lreplace], [NNI.edge_locs] /
    [leids]. *)
From Coq Require Import String ZArith QArith Bool Arith Lia Permutation List.
From GT Require Import Base.UTree Model.Reroot Model.NNI Model.Heap Proofs.Enum Proofs.HeapBase Proofs.HeapRep
     Proofs.HeapGood Proofs.HeapGoodRep Proofs.HeapRerootL Proofs.HeapReorder Proofs.HeapCtx Proofs.HeapGraft Proofs.HeapGraftSq
     Proofs.HeapCollapseTree.
Import ListNotations.
Local Close Scope Q_scope.

Lemma lnode_at_in_lids : forall p lt sub, lnode_at lt p = Some sub -> In (lid sub) (lids lt).
Proof.
  intros p lt sub H. destruct (lnode_at_lsubs p lt None sub H) as [q Hq]. eapply lsubs_in_lids. exact Hq.
Qed.

(** rewriting the sub-node at path p *)
Lemma erase_lreplace_at_path (f : utree -> option utree) new : forall p lt sub,
  lnode_at lt p = Some sub -> NoDup (lids lt) -> f (erase sub) = Some (erase new) ->
  at_path f p (erase lt) = Some (erase (lreplace (lid sub) new lt)).
Proof.
  induction p as [|k q IH]; intros lt sub H Nd Hf.
  - injection H as <-. cbn [at_path]. rewrite Hf. destruct lt as [i n c sl]. rewrite lreplace_eq. cbn [lid]. rewrite Nat.eqb_refl. reflexivity.
  - destruct lt as [i n c sl]. cbn [lnode_at lslots] in H.
    destruct (nth_error sl k) as [[[[e ei] ch]|]|] eqn:Ek; try discriminate.
    pose proof (lnode_at_in_lids q ch sub H) as Hin.
    rewrite lids_eq in Nd. apply NoDup_cons_iff in Nd. destruct Nd as [Ni Nd]. fold (sids sl) in Ni, Nd.
    assert (Nch : NoDup (lids ch)) by exact (NoDup_flat_map_in _ _ _ Nd (nth_error_In _ _ Ek)).
    rewrite erase_eq. cbn [at_path]. rewrite nth_error_map, Ek. cbn [option_map erase_slot].
    rewrite (IH ch sub H Nch Hf). rewrite lreplace_eq.
    destruct (Nat.eqb_spec i (lid sub)) as [E|_].
    { exfalso. apply Ni. rewrite E. eapply in_sids; [eapply nth_error_In; exact Ek|exact Hin]. }
    rewrite erase_eq. f_equal. f_equal.
    assert (Hm : map (lreplace_slot (lreplace (lid sub) new)) sl = set_nth k (Some (e, ei, lreplace (lid sub) new ch)) sl).
    { clear - Ek Nd Hin. revert k Ek. induction sl as [|s sl IHsl]; intros k Ek; [destruct k; discriminate|].
      cbn [sids flat_map] in Nd. apply NoDup_app_iff in Nd. destruct Nd as (N1 & N2 & N3).
      destruct k as [|k]; cbn in Ek.
      - injection Ek as ->. rewrite set_nth_0. cbn [map lreplace_slot]. f_equal.
        clear - N3 Hin. induction sl as [|s sl IHsl]; [reflexivity|]. cbn [map]. f_equal.
        + destruct s as [[[e' ei'] ch']|]; [|reflexivity]. cbn. rewrite lreplace_notin; [reflexivity|].
          intros Hi. apply (N3 _ Hin). cbn. apply in_or_app. left. exact Hi.
        + apply IHsl. intros y Hy Hy'. apply (N3 y Hy). cbn. apply in_or_app. right. exact Hy'.
      - rewrite set_nth_cons. cbn [map]. f_equal.
        + destruct s as [[[e' ei'] ch']|]; [|reflexivity]. cbn. rewrite lreplace_notin; [reflexivity|].
          intros Hi. apply (N3 _ Hi). eapply in_sids; [eapply nth_error_In; exact Ek|exact Hin].
        + apply IHsl; assumption. }
    change (fun s : lslot => match s with Some (e0, ei0, ch0) => Some (e0, ei0, lreplace (lid sub) new ch0) | None => None end)
      with (lreplace_slot (lreplace (lid sub) new)).
    rewrite Hm, (map_set_nth erase_slot). reflexivity.
Qed.

Lemma lwf_sub_kids_of i n c sl : lwf_sub (LNode i n c sl) -> forall e ei ch, In (Some (e, ei, ch)) sl -> lwf_sub ch.
Proof. intros W. apply lwf_sub_iff in W. apply W. Qed.

Lemma espan_leids : forall lt, (forall e ei ch, In (Some (e, ei, ch)) (lslots lt) -> lwf_sub ch) ->
  espan (map erase_slot (lslots lt)) = length (leids lt).
Proof.
  induction lt as [i n c sl IH] using ltree_ind'. intros W. cbn [lslots] in *. rewrite leids_eq.
  induction IH as [|s sl Hs _ IHsl]; [reflexivity|].
  destruct s as [[[e ei] ch]|]; cbn [map erase_slot espan fold_right flat_map].
  - fold (espan (map erase_slot sl)). cbn [length]. rewrite app_length.
    rewrite IHsl by (intros e' ei' ch' Hin; apply (W e' ei' ch'); right; exact Hin).
    pose proof (W e ei ch (or_introl eq_refl)) as Wc. rewrite (span_espan (erase ch) Wc).
    destruct ch as [i' n' c' sl']. rewrite erase_eq. cbn [uslots]. cbn [lslotP lslots] in Hs.
    rewrite Hs by (exact (lwf_sub_kids_of _ _ _ _ Wc)). reflexivity.
  - apply IHsl. intros e' ei' ch' Hin. apply (W e' ei' ch'). right. exact Hin.
Qed.

(** the k-th edge id of the dump and the k-th location of [edge_locs] *)
Lemma edge_locs_leids : forall lt, (forall e ei ch, In (Some (e, ei, ch)) (lslots lt) -> lwf_sub ch) ->
  forall k e, nth_error (leids lt) k = Some e ->
  exists p j sub ei ch, nth_error (edge_locs (erase lt)) k = Some (p, j) /\ lnode_at lt p = Some sub /\
    nth_error (lslots sub) j = Some (Some (e, ei, ch)).
Proof.
  induction lt as [i n c sl IH] using ltree_ind'. intros W k e Hk. cbn [lslots] in W.
  rewrite erase_eq, edge_locs_eq. rewrite leids_eq in Hk. fold (seids sl) in Hk.
  assert (H : forall l pre k, sl = pre ++ l -> nth_error (seids l) k = Some e ->
            exists p j sub ei ch, nth_error (edge_locs_go (length pre) (map erase_slot l)) k = Some (p, j) /\
              lnode_at (LNode i n c sl) p = Some sub /\ nth_error (lslots sub) j = Some (Some (e, ei, ch))).
  { induction l as [|s l IHl]; intros pre k0 Esl Hk0; [destruct k0; discriminate|].
    assert (Esl' : sl = (pre ++ [s]) ++ l) by (rewrite <- app_assoc; exact Esl).
    assert (Hs : In s sl) by (rewrite Esl; apply in_or_app; right; left; reflexivity).
    assert (Hnth : nth_error sl (length pre) = Some s) by (rewrite Esl; apply nth_error_app_mid).
    destruct s as [[[e' ei] ch]|]; cbn [map erase_slot edge_locs_go seids flat_map] in *.
    - fold (seids l) in Hk0. pose proof (W _ _ _ Hs) as Wc.
      destruct (edge_locs_guard (erase ch) (fun q => (length pre :: fst q, snd q)) Wc) as [Eg Lg]. rewrite Eg.
      assert (Wck : forall e0 ei0 ch0, In (Some (e0, ei0, ch0)) (lslots ch) -> lwf_sub ch0).
      { destruct ch as [i' n' c' sl']. exact (lwf_sub_kids_of _ _ _ _ Wc). }
      assert (Ll : length (edge_locs (erase ch)) = length (leids ch)).
      { rewrite Lg. destruct ch as [i' n' c' sl']. rewrite erase_eq. cbn [uslots]. exact (espan_leids (LNode i' n' c' sl') Wck). }
      destruct k0 as [|k0]; cbn [nth_error app] in Hk0 |- *.
      + injection Hk0 as ->. exists [], (length pre), (LNode i n c sl), ei, ch. repeat split. exact Hnth.
      + destruct (Nat.lt_ge_cases k0 (length (leids ch))) as [Hlt|Hge].
        * rewrite nth_error_app1 in Hk0 by exact Hlt. rewrite nth_error_app1 by (rewrite map_length, Ll; exact Hlt).
          rewrite Forall_forall in IH. destruct (IH _ Hs Wck k0 e Hk0) as (p & j & sub & ei0 & ch0 & A1 & A2 & A3).
          exists (length pre :: p), j, sub, ei0, ch0. rewrite nth_error_map, A1. cbn [option_map fst snd lnode_at lslots]. rewrite Hnth.
          repeat split; assumption.
        * rewrite nth_error_app2 in Hk0 by exact Hge. rewrite nth_error_app2 by (rewrite map_length, Ll; exact Hge). rewrite map_length, Ll.
          destruct (IHl (pre ++ [Some (e', ei, ch)]) (k0 - length (leids ch)) Esl' Hk0) as (p & j & sub & ei0 & ch0 & A1 & A2 & A3).
          rewrite app_length in A1. cbn [length] in A1. rewrite Nat.add_1_r in A1. exists p, j, sub, ei0, ch0. repeat split; assumption.
    - destruct (IHl (pre ++ [None]) k0 Esl' Hk0) as (p & j & sub & ei0 & ch0 & A1 & A2 & A3).
      rewrite app_length in A1. cbn [length] in A1. rewrite Nat.add_1_r in A1. exists p, j, sub, ei0, ch0. repeat split; assumption. }
  exact (H sl [] k eq_refl Hk).
Qed.

(** sub-nodes are determined by their id *)
Lemma lsubs_inj lt prev a b : NoDup (lids lt) -> In a (lsubs prev lt) -> In b (lsubs prev lt) ->
  lid (snd a) = lid (snd b) -> a = b.
Proof.
  intros Nd Ha Hb E. rewrite <- (lsubs_lids lt prev) in Nd.
  destruct (In_nth_error _ _ Ha) as [i Hi]. destruct (In_nth_error _ _ Hb) as [j Hj].
  assert (i = j).
  { apply (proj1 (NoDup_nth_error _) Nd).
    - rewrite map_length. apply nth_error_Some. congruence.
    - rewrite !nth_error_map, Hi, Hj. cbn. f_equal. exact E. }
  subst j. congruence.
Qed.

(** one level of [lreplace] below a node whose id is not the target *)
Lemma lreplace_one_level x new i n c sl k e ei ch : i <> x -> NoDup (sids sl) ->
  nth_error sl k = Some (Some (e, ei, ch)) -> In x (lids ch) ->
  lreplace x new (LNode i n c sl) = LNode i n c (set_nth k (Some (e, ei, lreplace x new ch)) sl).
Proof.
  intros Hi Nd Ek Hin. rewrite lreplace_eq. destruct (Nat.eqb_spec i x); [contradiction|]. f_equal.
  revert k Ek Nd. induction sl as [|s sl IHsl]; intros k Ek Nd; [destruct k; discriminate|].
  cbn [sids flat_map] in Nd. apply NoDup_app_iff in Nd. destruct Nd as (N1 & N2 & N3).
  destruct k as [|k]; cbn in Ek.
  - injection Ek as ->. rewrite set_nth_0. cbn [map lreplace_slot]. f_equal.
    clear - N3 Hin. induction sl as [|s sl IHsl]; [reflexivity|]. cbn [map]. f_equal.
    + destruct s as [[[e' ei'] ch']|]; [|reflexivity]. cbn. rewrite lreplace_notin; [reflexivity|].
      intros Hi. apply (N3 _ Hin). cbn. apply in_or_app. left. exact Hi.
    + apply IHsl. intros y Hy Hy'. apply (N3 y Hy). cbn. apply in_or_app. right. exact Hy'.
  - rewrite set_nth_cons. cbn [map]. f_equal.
    + destruct s as [[[e' ei'] ch']|]; [|reflexivity]. cbn. rewrite lreplace_notin; [reflexivity|].
      intros Hi'. apply (N3 _ Hi'). eapply in_sids; [eapply nth_error_In; exact Ek|exact Hin].
    + apply IHsl; assumption.
Qed.

(** replacing inside a sub-node = replacing the sub-node by its rewritten version *)
Lemma lreplace_compose x new : forall lt prev p sub, NoDup (lids lt) -> In (p, sub) (lsubs prev lt) -> In x (lids sub) ->
  lreplace x new lt = lreplace (lid sub) (lreplace x new sub) lt.
Proof.
  induction lt as [i n c sl IH] using ltree_ind'. intros prev p sub Nd Hin Hx.
  rewrite lsubs_eq in Hin. destruct Hin as [E|Hin].
  - injection E as <- <-. rewrite (lreplace_eq (lid (LNode i n c sl))). cbn [lid]. rewrite Nat.eqb_refl. reflexivity.
  - apply in_flat_map in Hin. destruct Hin as [s [Hs Hin]]. destruct s as [[[es eis] chs]|]; [|destruct Hin].
    assert (Hl : In (lid sub) (lids chs)) by (eapply lsubs_in_lids; exact Hin).
    assert (Hxc : In x (lids chs)) by (eapply lsubs_sub_lids; eassumption).
    pose proof Nd as Nd0. rewrite lids_eq in Nd. apply NoDup_cons_iff in Nd. destruct Nd as [Ni Nd]. fold (sids sl) in Ni, Nd.
    destruct (In_nth_error _ _ Hs) as [js Hjs].
    assert (Nix : i <> x) by (intros ->; apply Ni; eapply in_sids; eassumption).
    assert (Nis : i <> lid sub) by (intros E0; apply Ni; rewrite E0; eapply in_sids; eassumption).
    rewrite (lreplace_one_level x new i n c sl js es eis chs Nix Nd Hjs Hxc).
    rewrite (lreplace_one_level (lid sub) _ i n c sl js es eis chs Nis Nd Hjs Hl).
    f_equal. f_equal. f_equal. f_equal. rewrite Forall_forall in IH. eapply (IH _ Hs); [|exact Hin|exact Hx].
    exact (NoDup_flat_map_in _ _ _ Nd Hs).
Qed.

Lemma lreplace_child lt prev pP xm nmP cmP slP kp e1 ei1 X new : NoDup (lids lt) ->
  In (pP, LNode xm nmP cmP slP) (lsubs prev lt) -> nth_error slP kp = Some (Some (e1, ei1, X)) ->
  lreplace xm (LNode xm nmP cmP (set_nth kp (Some (e1, ei1, new)) slP)) lt = lreplace (lid X) new lt.
Proof.
  intros Nd Hsub Hkp.
  assert (NdP : NoDup (lids (LNode xm nmP cmP slP))) by (eapply lsubs_NoDup; eassumption).
  assert (HinX : In (lid X) (lids (LNode xm nmP cmP slP))).
  { eapply in_lids_child; [eapply nth_error_In; exact Hkp|apply lid_in_lids]. }
  rewrite (lreplace_compose (lid X) new lt prev pP _ Nd Hsub HinX). cbn [lid]. f_equal.
  rewrite lids_eq in NdP. apply NoDup_cons_iff in NdP. destruct NdP as [Ni NdP]. fold (sids slP) in Ni, NdP.
  assert (Nx : xm <> lid X).
  { intros E0. apply Ni. rewrite E0. eapply in_sids; [eapply nth_error_In; exact Hkp|apply lid_in_lids]. }
  rewrite (lreplace_one_level (lid X) new xm nmP cmP slP kp e1 ei1 X Nx NdP Hkp (lid_in_lids X)).
  destruct X as [ix nx cx slx]. rewrite (lreplace_eq (lid (LNode ix nx cx slx))). cbn [lid]. rewrite Nat.eqb_refl. reflexivity.
Qed.
