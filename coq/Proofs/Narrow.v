(** What a narrow counter does: exact below 2^w, wrong from 2^w on. *)
From Coq Require Import ZArith Lia.
Local Open Scope Z_scope.

(** k increments of a w-bit unsigned counter starting from 0 *)
Definition count_w (w : Z) (k : Z) : Z := k mod 2 ^ w.

Lemma count_w_exact : forall w k, 0 <= w -> 0 <= k < 2 ^ w -> count_w w k = k.
Proof. intros w k Hw Hk. unfold count_w. apply Z.mod_small. exact Hk. Qed.

Lemma count_w_wraps : forall w, 0 <= w -> count_w w (2 ^ w) = 0 /\ count_w w (2 ^ w) <> 2 ^ w.
Proof.
  intros w Hw. unfold count_w. rewrite Z.mod_same by (apply Z.pow_nonzero; lia).
  split; [reflexivity|]. pose proof (Z.pow_pos_nonneg 2 w ltac:(lia) Hw). lia.
Qed.

(** the two sizes met in seeded changes: 256 children with one state, 65536 taxa under one branch *)
Example count_uint8 : count_w 8 260 = 4.    Proof. reflexivity. Qed.
Example count_uint16 : count_w 16 65538 = 2. Proof. reflexivity. Qed.
