(** Heap model: the refinement square of the by-pointer loop of Tree.RemoveTips against the
    by-name loop of Model/Prune.v, for the trees of Properties/C06.v (no single node, a root
    that is not a tip, distinct tip names). *)
From Coq Require Import String ZArith QArith Bool Arith Lia Permutation List.
From GT Require Import Base.UTree Model.Reroot Model.Prune Model.NNI Model.Heap Model.HeapSpec Model.HeapEdit2 Proofs.Enum Proofs.HeapBase Proofs.HeapRep
     Proofs.HeapGood Proofs.HeapGoodRep Proofs.HeapRerootL Proofs.HeapReorder Proofs.HeapReroot Proofs.HeapUnrootL Proofs.HeapUnroot
     Proofs.HeapCtx Proofs.HeapGraft Proofs.HeapCollapse Proofs.HeapPrune Proofs.HeapPaths Proofs.HeapCollapseTree
     Proofs.HeapCollapseSq Proofs.HeapPruneTree Proofs.HeapTips Proofs.HeapPruneSq.
From GT Require Spec.Obs Proofs.PruneStep Proofs.PruneRoot Proofs.PruneTotal Proofs.Prune.
Import ListNotations.
Local Close Scope Q_scope.

(** * no node with two neighbours below the root *)
Lemma no_single_sub_at : forall p lt i n c sl, no_single_sub (erase lt) = true -> lnode_at lt p = Some (LNode i n c sl) -> length sl <> 2.
Proof.
  induction p as [|k p IH]; intros [i0 n0 c0 sl0] i n c sl H Hp.
  - injection Hp as -> -> -> ->. rewrite erase_eq in H. cbn [no_single_sub] in H. apply andb_true_iff in H. destruct H as [H _].
    rewrite map_length in H. destruct (Nat.eqb_spec (length sl) 2); [discriminate|assumption].
  - cbn [lnode_at lslots] in Hp. destruct (nth_error sl0 k) as [[[[e ei] ch]|]|] eqn:E; try discriminate.
    rewrite erase_eq in H. cbn [no_single_sub] in H. apply andb_true_iff in H. destruct H as [_ H].
    rewrite forallb_forall in H. specialize (H (erase_slot (Some (e, ei, ch)))). cbn [erase_slot] in H.
    apply (IH ch i n c sl); [|exact Hp]. apply H. apply in_map_iff. exists (Some (e, ei, ch)). split; [reflexivity|eapply nth_error_In; exact E].
Qed.

Lemma no_single_at : forall p lt i n c sl, no_single (erase lt) = true -> p <> [] -> lnode_at lt p = Some (LNode i n c sl) -> length sl <> 2.
Proof.
  intros [|k p] [i0 n0 c0 sl0] i n c sl H Np Hp; [congruence|].
  cbn [lnode_at lslots] in Hp. destruct (nth_error sl0 k) as [[[[e ei] ch]|]|] eqn:E; try discriminate.
  apply (no_single_sub_at p ch i n c sl); [|exact Hp].
  unfold no_single in H. rewrite forallb_forall in H. apply (H (ei, erase ch)).
  rewrite erase_eq. unfold kids. cbn [uslots]. unfold kids_of. apply in_flat_map. exists (erase_slot (Some (e, ei, ch))). split; [|left; reflexivity].
  apply in_map_iff. exists (Some (e, ei, ch)). split; [reflexivity|eapply nth_error_In; exact E].
Qed.

(** * removeTip keeps the other tips (ids and names) *)
Theorem remove_tip_heap_keeps nm h lt p j x nmx cmx h' : Rep h lt -> no_single (erase lt) = true ->
  lnode_at lt (p ++ [j]) = Some (LNode x nmx cmx [None]) -> remove_tip_heap nm x h = HOk h' ->
  exists lt', Rep h' lt' /\
    forall e, In e (ltips lt) -> fst e <> x -> fst e <> lid lt -> In e (ltips lt') \/ exists cm, lt' = LNode (fst e) (snd e) cm [].
Proof.
  intros R Hns Hp Hrun.
  destruct (drop_leaf_path h lt p j x nmx cmx R Hp)
    as (Q & nm' & cm' & l1 & l2 & ex & eix & hx & h1 & hq1 & HQ & Ej & Hx & Hng & Hbr & Hex & Ev & R1 & HQ1 & Hat & Hq1 & Lq1 & Hrt & Hlen).
  set (newQ := LNode Q nm' cm' (l1 ++ l2)) in *. set (lt1 := lreplace Q newQ lt) in *.
  destruct (lnode_at_lsubs p lt None _ HQ) as [pp HsubQ].
  destruct (node_at_record h lt p Q nm' cm' _ R HQ) as (hq & EQ & LQ & Hne & Hnil).
  (* the tips of lt other than x are tips of lt1 *)
  assert (K1 : forall e, In e (ltips lt) -> fst e <> x -> fst e <> lid lt -> In e (ltips lt1)).
  { intros e He Nx Nr. apply (ltips_lreplace Q newQ lt None pp _ (rep_nd _ _ R) HsubQ eq_refl e He).
    intros Hs. unfold newQ. rewrite ltips_eq in Hs |- *. rewrite stips_app in *. cbn [stips flat_map] in Hs. rewrite ltips_eq in Hs.
    cbn [length Nat.eqb stips flat_map app] in Hs. fold (stips l2) in Hs.
    apply in_app_or in Hs. apply in_or_app. destruct Hs as [Hs|Hs].
    - (* Q itself had a single slot: it is the root *)
      exfalso. destruct (Nat.eqb_spec (length (l1 ++ Some (ex, eix, LNode x nmx cmx [None]) :: l2)) 1) as [L|_]; [|destruct Hs].
      destruct Hs as [<-|[]]. cbn [fst] in Nr. apply Nr.
      destruct p as [|k0 p0]; [destruct (Hnil eq_refl) as [_ ->]; reflexivity|].
      destruct (Hne ltac:(discriminate)) as [_ W]. apply lwf_sub_iff in W. destruct W as [W1 _].
      destruct l1 as [|a l1]; [|destruct l1; cbn in L; rewrite ?app_length in L; cbn in L; lia].
      destruct l2 as [|b l2]; [|cbn in L; lia]. cbn in W1. discriminate.
    - right. apply in_app_or in Hs. apply in_or_app. destruct Hs as [Hs|Hs]; [left; exact Hs|right].
      destruct Hs as [<-|Hs]; [exfalso; apply Nx; reflexivity|]. exact Hs. }
  assert (Elid : lid lt1 = lid lt) by (apply lid_lreplace; reflexivity).
  (* the run *)
  rewrite remove_tip_heap_eq in Hrun. unfold get_node at 1 in Hrun. rewrite Hx in Hrun. cbn [hbind] in Hrun. rewrite Hng in Hrun. cbn [length Nat.eqb negb] in Hrun.
  unfold nth_res at 1 in Hrun. rewrite Hbr in Hrun. cbn [nth_error hbind] in Hrun. unfold get_edge in Hrun. rewrite Hex in Hrun. cbn [hbind hleft] in Hrun.
  destruct (del_neighbor Q x h) as [h0| |] eqn:E0; cbn [hbind] in Ev; try discriminate. cbn [hbind] in Hrun. rewrite Ev in Hrun. cbn [hbind] in Hrun.
  unfold get_node at 1 in Hrun. rewrite Hq1 in Hrun. cbn [hbind] in Hrun.
  assert (Fin : exists lt', Rep h' lt' /\ Keeps lt1 lt').
  { destruct (Nat.eqb_spec (length (hneigh hq1)) 1) as [L1|L1].
    - (* Q is left with one neighbour: it is the root *)
      assert (Ep : p = []).
      { destruct p as [|k0 p0]; [reflexivity|]. exfalso.
        apply (no_single_at (k0 :: p0) lt Q nm' cm' _ Hns ltac:(discriminate) HQ). rewrite app_length in *. cbn [length]. lia. }
      subst p. destruct (Hnil eq_refl) as [Er _].
      assert (Eloop : single_path_loop (hfuel h1) Q h1 = HOk (Q, h1)).
      { unfold hfuel. cbn [single_path_loop]. unfold get_node. rewrite Hq1. cbn [hbind]. rewrite Hrt, <- Er, Nat.eqb_refl. reflexivity. }
      rewrite Eloop in Hrun. cbn [hbind] in Hrun. pose proof (after_loop_eq nm Q h1) as AL. cbv zeta in AL. rewrite AL in Hrun. clear AL.
      pose proof (prune_tail_square_k nm h1 lt1 [] newQ R1 HQ1 (or_introl eq_refl)) as Sq. cbn [lid newQ] in Sq. fold newQ in Sq.
      destruct (after_root nm [] (erase lt1)) as [t'|m].
      + destruct Sq as (h2 & lt' & E2 & R2 & _ & K2). unfold newQ in E2. cbn [lid] in E2. rewrite E2 in Hrun. injection Hrun as <-. exists lt'. split; assumption.
      + unfold newQ in Sq. cbn [lid] in Sq. rewrite Sq in Hrun. discriminate.
    - cbn [hbind] in Hrun. rewrite <- (prune_tail_tail nm h1 Q hq1 Hq1 L1) in Hrun.
      pose proof (prune_tail_square_k nm h1 lt1 p newQ R1 HQ1) as Sq. unfold newQ in Sq. cbn [lid lslots] in Sq.
      specialize (Sq ltac:(right; lia)).
      destruct (after_root nm p (erase lt1)) as [t'|m].
      + destruct Sq as (h2 & lt' & E2 & R2 & _ & K2). rewrite E2 in Hrun. injection Hrun as <-. exists lt'. split; assumption.
      + rewrite Sq in Hrun. discriminate. }
  destruct Fin as (lt' & R' & K2). exists lt'. split; [exact R'|].
  intros e He Nx Nr. apply K2; [apply K1; assumption|]. rewrite Elid. exact Nr.
Qed.

(** * tips of a represented heap *)
Lemma ltips_inv : forall lt prev e, In e (ltips lt) ->
  exists p cm sl, In (p, LNode (fst e) (snd e) cm sl) (lsubs prev lt) /\ length sl = 1.
Proof.
  induction lt as [i n c sl IH] using ltree_ind'. intros prev e He. rewrite ltips_eq in He. apply in_app_or in He. destruct He as [He|He].
  - destruct (Nat.eqb_spec (length sl) 1) as [L|_]; [|destruct He]. destruct He as [<-|[]].
    exists prev, c, sl. split; [apply lsubs_self|exact L].
  - unfold stips in He. apply in_flat_map in He. destruct He as [s [Hs He]]. destruct s as [[[x xi] ch]|]; [|destruct He].
    rewrite Forall_forall in IH. destruct (IH _ Hs (Some (i, x)) e He) as (p & cm & sl' & H1 & H2).
    exists p, cm, sl'. split; [|exact H2]. rewrite lsubs_eq. right. apply in_flat_map. exists (Some (x, xi, ch)). split; [exact Hs|exact H1].
Qed.

Lemma node_record h lt p i n c sl : Rep h lt -> In (p, LNode i n c sl) (lsubs None lt) ->
  exists hn, alookup i (hnodes h) = Some hn /\ hname hn = n /\ length (hneigh hn) = length sl.
Proof.
  intros R Hin. pose proof (shape_lsubs _ _ _ _ _ _ (rep_shape _ _ R) Hin) as Sh. pose proof Sh as Sh0.
  apply shape_unfold in Sh. destruct Sh as [hn (A1 & A2 & _)]. exists hn. split; [exact A1|]. split; [exact A2|].
  exact (proj1 (shape_length _ _ _ _ _ _ _ _ Sh0 A1)).
Qed.

Lemma tip_record h lt e : Rep h lt -> In e (ltips lt) ->
  exists hy, alookup (fst e) (hnodes h) = Some hy /\ hname hy = snd e /\ length (hneigh hy) = 1.
Proof.
  intros R He. destruct (ltips_inv lt None e He) as (p & cm & sl & Hin & L).
  destruct (node_record h lt p _ _ cm sl R Hin) as (hy & A1 & A2 & A3). exists hy. rewrite A3, L. repeat split; assumption.
Qed.

Lemma lnode_tip lt P y n c sl : lnode_at lt P = Some (LNode y n c sl) -> length sl = 1 -> In (y, n) (ltips lt).
Proof.
  intros Hp L. destruct (lnode_at_lsubs P lt None _ Hp) as [q Hq]. eapply ltips_lsubs; [exact Hq|].
  rewrite ltips_eq, L. left. reflexivity.
Qed.

Lemma tipn_at_lnode nm : forall P lt y n c sl, lnode_at lt P = Some (LNode y n c sl) -> tipn_at nm P (erase lt) -> length sl = 1 /\ n = nm.
Proof.
  induction P as [|k P IH]; intros [i0 n0 c0 sl0] y n c sl H T.
  - injection H as -> -> -> ->. unfold tipn_at in T. cbn [at_path] in T. rewrite erase_eq in T. unfold is_tip, degree in T. cbn [uslots uname] in T.
    rewrite map_length in T. destruct (Nat.eqb_spec (length sl) 1) as [L|_]; [|cbn in T; congruence].
    destruct (String.eqb_spec n nm) as [E|_]; [split; assumption|cbn in T; congruence].
  - cbn [lnode_at lslots] in H. unfold tipn_at in T. rewrite erase_eq, at_path_cons, nth_error_map in T.
    destruct (nth_error sl0 k) as [[[[e ei] ch]|]|]; try discriminate. cbn [option_map erase_slot] in T.
    apply (IH ch y n c sl H). unfold tipn_at. destruct (at_path _ P (erase ch)); [discriminate|congruence].
Qed.

Lemma NoDup_snd_inj {A B} (l : list (A * B)) a b s : NoDup (map snd l) -> In (a, s) l -> In (b, s) l -> a = b.
Proof.
  induction l as [|[x t] l IH]; intros Nd Ha Hb; [destruct Ha|]. cbn [map snd] in Nd. apply NoDup_cons_iff in Nd. destruct Nd as [Nx Nd].
  destruct Ha as [Ea|Ha], Hb as [Eb|Hb].
  - congruence.
  - injection Ea as -> ->. exfalso. apply Nx. apply in_map_iff. exists (b, s). split; [reflexivity|exact Hb].
  - injection Eb as -> ->. exfalso. apply Nx. apply in_map_iff. exists (a, s). split; [reflexivity|exact Ha].
  - exact (IH Nd Ha Hb).
Qed.

Lemma has_tip_ltips lt e : In e (ltips lt) -> has_tip (snd e) (erase lt) = true.
Proof.
  intros He. assert (Hn : In (snd e) (tip_names (erase lt))) by (rewrite <- ltips_names; apply in_map; exact He).
  unfold tip_names in Hn. apply in_map_iff in Hn. destruct Hn as (x & Ex & Hx).
  destruct (PruneTotal.tips_in_nodes _ _ Hx) as [Hin Ht]. unfold has_tip. apply existsb_exists. exists x. split; [exact Hin|].
  rewrite Ht, Ex. cbn [andb]. apply String.eqb_refl.
Qed.

Lemma filter_flat_map {A B} (f : B -> bool) (g : A -> list B) l : filter f (flat_map g l) = flat_map (fun a => filter f (g a)) l.
Proof. induction l as [|a l IH]; [reflexivity|]. cbn [flat_map]. rewrite filter_app, IH. reflexivity. Qed.

Lemma filter_tips (f : nat -> bool) : forall lt prev,
  (forall p i n c sl, In (p, LNode i n c sl) (lsubs prev lt) -> f i = Nat.eqb (length sl) 1) ->
  filter f (lids lt) = map fst (ltips lt).
Proof.
  induction lt as [i n c sl IH] using ltree_ind'. intros prev H. rewrite lids_eq, ltips_eq, map_app. cbn [filter]. fold (sids sl).
  rewrite (H prev i n c sl (lsubs_self prev _)).
  assert (Hk : forall x xi ch, In (Some (x, xi, ch)) sl -> filter f (lids ch) = map fst (ltips ch)).
  { intros x xi ch Hs. rewrite Forall_forall in IH. apply (IH _ Hs (Some (i, x))). intros p i' n' c' sl' Hin. apply (H p i' n' c' sl').
    rewrite lsubs_eq. right. apply in_flat_map. exists (Some (x, xi, ch)). split; [exact Hs|exact Hin]. }
  assert (E : filter f (sids sl) = map fst (stips sl)).
  { clear - Hk. induction sl as [|s sl IHsl]; [reflexivity|]. destruct s as [[[x xi] ch]|]; cbn [sids stips flat_map]; fold (sids sl) (stips sl).
    - rewrite filter_app, map_app, (Hk x xi ch (or_introl eq_refl)), IHsl; [reflexivity|]. intros; eapply Hk; right; eassumption.
    - apply IHsl. intros; eapply Hk; right; eassumption. }
  rewrite E. destruct (Nat.eqb (length sl) 1); reflexivity.
Qed.

Lemma tips_heap_ltips h lt : Rep h lt -> tips_heap h = HOk (map fst (ltips lt)).
Proof.
  intros R. unfold tips_heap. rewrite (Rep_tree_nodes _ _ R). cbn [hbind]. f_equal.
  apply (filter_tips _ lt None). intros p i n c sl Hin. destruct (node_record h lt p i n c sl R Hin) as (hn & A1 & _ & A3). rewrite A1, A3. reflexivity.
Qed.

(** * the loop *)
Definition tclass (t : utree) : Prop := wf t = true /\ no_single t = true /\ degree t <> 1 /\ NoDup (Obs.leaves t).

Lemma at_path_lnode_ex (f : utree -> option utree) : forall P lt, at_path f P (erase lt) <> None -> exists sub, lnode_at lt P = Some sub.
Proof.
  induction P as [|k P IH]; intros [i n c sl] H; [exists (LNode i n c sl); reflexivity|].
  rewrite erase_eq, at_path_cons, nth_error_map in H. cbn [lnode_at lslots].
  destruct (nth_error sl k) as [[[[e ei] ch]|]|]; cbn [option_map erase_slot] in H; try congruence.
  apply IH. destruct (at_path f P (erase ch)); [discriminate|congruence].
Qed.

Lemma root_not_tip lt e : degree (erase lt) <> 1 -> NoDup (lids lt) -> In e (ltips lt) -> fst e <> lid lt.
Proof.
  intros Hd Nd He E. destruct (ltips_inv lt None e He) as (p & cm & sl & Hin & L).
  pose proof (lsubs_head lt None p _ Nd Hin E) as E2. injection E2 as _ E2. apply Hd. rewrite <- E2, erase_eq. unfold degree. cbn [uslots].
  rewrite map_length. exact L.
Qed.

Theorem remove_tips_loop_square revert names : forall r h lt, Rep h lt -> tclass (erase lt) -> NoDup (map fst r) ->
  (forall e, In e r -> In e (ltips lt) \/ exists cm, lt = LNode (fst e) (snd e) cm []) ->
  match remove_loop revert names (map snd r) (erase lt) with
  | Ok t' => exists h', remove_tips_loop_heap revert names (map fst r) h = HOk h' /\ Good h' /\ abs h' = Some t'
  | Err m => remove_tips_loop_heap revert names (map fst r) h = HErr m
  end.
Proof.
  induction r as [|[y nm] r IH]; intros h lt R C Nd Hinv.
  - cbn [map remove_loop remove_tips_loop_heap]. exists h. split; [reflexivity|]. split; [exact (Rep_Good _ _ R)|exact (Rep_abs _ _ R)].
  - cbn [map fst snd] in *. apply NoDup_cons_iff in Nd. destruct Nd as [Ny Nd].
    assert (Hinv' : forall e, In e r -> In e (ltips lt) \/ exists cm, lt = LNode (fst e) (snd e) cm []) by (intros e He; apply Hinv; right; exact He).
    cbn [remove_loop remove_tips_loop_heap].
    destruct (Hinv (y, nm) (or_introl eq_refl)) as [He|[cm Hl]]; cbn [fst snd] in *.
    + destruct (tip_record h lt (y, nm) R He) as (hy & Ey & Eny & Ly). cbn [fst snd] in *.
      unfold get_node. rewrite Ey. cbn [hbind]. rewrite Ly, Eny. cbn [Nat.eqb negb].
      pose proof (has_tip_ltips lt (y, nm) He) as Ht. cbn [snd] in Ht. rewrite Ht. cbn [negb].
      destruct (selected revert names nm); [|exact (IH h lt R C Nd Hinv')].
      destruct C as (Cw & Cn & Cd & Cl).
      assert (D2 : 2 <= degree (erase lt)).
      { destruct lt as [i n c sl]. rewrite erase_eq in *. unfold degree in *. cbn [uslots] in *. rewrite map_length in *.
        destruct sl as [|s [|s' sl]]; cbn [length] in *; [|lia|lia]. rewrite ltips_eq in He. destruct He. }
      assert (NdN : NoDup (map snd (ltips lt))) by (rewrite ltips_names, (Prune.tip_names_leaves _ Cw D2); exact Cl).
      assert (Hft : find_tip nm (erase lt) = find_sub nm (erase lt)).
      { unfold find_tip, is_tip. destruct (Nat.eqb_spec (degree (erase lt)) 1); [contradiction|reflexivity]. }
      pose proof (remove_tip_find nm (erase lt)) as RF. rewrite Hft in RF.
      destruct (find_sub nm (erase lt)) as [P|] eqn:Efs.
      2:{ exfalso. assert (Hnl : In nm (Obs.leaves (erase lt))).
          { rewrite <- (Prune.tip_names_leaves _ Cw D2), <- ltips_names. apply in_map_iff. exists (y, nm). split; [reflexivity|exact He]. }
          destruct (PruneTotal.remove_tip_cases nm (erase lt) Cw Cn Cd Cl) as [[t' Hr]|[[Hr [H0|H0]]|[Hr _]]].
          - rewrite RF in Hr. discriminate.
          - lia.
          - contradiction.
          - rewrite RF in Hr. unfold err_not_tip, err_two_tips in Hr. cbn [append] in Hr. discriminate. }
      destruct (find_sub_at nm _ _ Efs) as [_ NP]. pose proof (find_sub_atn nm _ _ Efs) as TN.
      destruct (at_path_lnode_ex _ P lt TN) as [[y' n' c' sl'] Hp].
      destruct (tipn_at_lnode nm P lt y' n' c' sl' Hp TN) as [L' ->].
      assert (Ey' : y' = y) by exact (NoDup_snd_inj (ltips lt) y' y nm NdN (lnode_tip lt P y' nm c' sl' Hp L') He). subst y'.
      pose proof (remove_tip_square nm h (erase lt) P lt (LNode y nm c' sl') (Rep_Good _ _ R) (Rep_abs _ _ R) (Rep_dump _ _ R)) as Sq.
      rewrite Hft in Sq. specialize (Sq eq_refl Hp). cbn [lid] in Sq.
      destruct (remove_tip nm (erase lt)) as [t1|m] eqn:Erm.
      2:{ rewrite Sq. reflexivity. }
      destruct Sq as (h1 & Ev & G1 & A1). rewrite Ev. cbn [hbind].
      (* the leaf and its path *)
      destruct (node_at_record h lt P y nm c' sl' R Hp) as (_ & _ & _ & Hne & _).
      destruct (Hne NP) as [_ W]. apply lwf_sub_iff in W. destruct W as [W1 _].
      destruct sl' as [|s [|s' sl']]; cbn in L'; try lia. destruct s as [[[x xi] ch]|]; [cbn in W1; discriminate|].
      destruct (exists_last NP) as (p & j & ->).
      destruct (remove_tip_heap_keeps nm h lt p j y nm c' h1 R Cn Hp Ev) as (lt1 & R1 & K).
      assert (Et1 : erase lt1 = t1) by (pose proof (Rep_abs _ _ R1) as X; rewrite A1 in X; congruence).
      destruct (PruneRoot.remove_tip_ok nm (erase lt) t1 Cw Cn Cd Cl Erm) as (Cw1 & Cn1 & Cd1 & _ & Hlv & _).
      assert (C1 : tclass (erase lt1)).
      { rewrite Et1. repeat split; try assumption. eapply Permutation_NoDup; [symmetry; exact Hlv|]. apply NoDup_filter. exact Cl. }
      specialize (IH h1 lt1 R1 C1 Nd). rewrite Et1 in IH. apply IH.
      intros e Her. destruct (Hinv' e Her) as [Hel|[cm Hl]]; [|rewrite Hl in He; rewrite ltips_eq in He; destruct He].
      apply K; [exact Hel| |].
      * intros E. apply Ny. rewrite <- E. apply in_map. exact Her.
      * apply root_not_tip; [exact Cd|exact (rep_nd _ _ R)|exact Hel].
    + (* the tree is reduced to this node, which has no neighbour left *)
      subst lt. destruct (node_record h _ None y nm cm [] R (lsubs_self None _)) as (hy & Ey & Eny & Ly).
      unfold get_node. rewrite Ey. cbn [hbind]. rewrite Ly, Eny. cbn [length Nat.eqb negb].
      rewrite erase_eq. cbn [map has_tip nodes flat_map existsb is_tip degree uslots length Nat.eqb andb orb negb]. reflexivity.
Qed.

Lemma ltips_fst_nodup h lt : Rep h lt -> NoDup (map fst (ltips lt)).
Proof.
  intros R. pose proof (tips_heap_ltips h lt R) as E. unfold tips_heap in E. rewrite (Rep_tree_nodes _ _ R) in E. cbn [hbind] in E.
  injection E as <-. apply NoDup_filter. exact (rep_nd _ _ R).
Qed.

Theorem remove_tips_by_pointer_square revert names h t : Good h -> abs h = Some t ->
  no_single t = true -> degree t <> 1 -> NoDup (Obs.leaves t) ->
  match remove_loop revert names (tip_names t) t with
  | Ok t' => exists h', remove_tips_by_pointer_heap revert names h = HOk h' /\ Good h' /\ abs h' = Some t'
  | Err m => remove_tips_by_pointer_heap revert names h = HErr m
  end.
Proof.
  intros G Ha Cn Cd Cl. destruct (Good_abs_Rep h t G Ha) as (lt & R & <-).
  unfold remove_tips_by_pointer_heap. rewrite (tips_heap_ltips h lt R). cbn [hbind]. rewrite <- ltips_names.
  apply remove_tips_loop_square; [exact R| | |].
  - repeat split; try assumption. exact (rep_wf _ _ R).
  - exact (ltips_fst_nodup h lt R).
  - intros e He. left. exact He.
Qed.

(** against Tree.RemoveTips as a whole: for these trees UpdateTipIndex (which does not touch the
    structure) never refuses *)
Theorem remove_tips_by_pointer_square' revert names h t : Good h -> abs h = Some t ->
  no_single t = true -> degree t <> 1 -> NoDup (Obs.leaves t) ->
  match remove_tips revert names t with
  | Ok t' => exists h', remove_tips_by_pointer_heap revert names h = HOk h' /\ Good h' /\ abs h' = Some t'
  | Err m => remove_tips_by_pointer_heap revert names h = HErr m
  end.
Proof.
  intros G Ha Cn Cd Cl. pose proof (remove_tips_by_pointer_square revert names h t G Ha Cn Cd Cl) as Sq.
  assert (Cw : wf t = true) by (destruct (Good_abs_Rep h t G Ha) as (lt & R & <-); exact (rep_wf _ _ R)).
  unfold remove_tips. destruct (remove_loop revert names (tip_names t) t) as [t1|m] eqn:El; [|exact Sq].
  destruct (Prune.remove_loop_ok revert names _ _ _ Cw Cn Cd Cl El) as (Cw1 & _ & Cd1 & Hlv & _).
  unfold update_tip_index. rewrite PruneTotal.tip_names_nodup; [exact Sq|exact Cw1|exact Cd1|].
  eapply Permutation_NoDup; [symmetry; exact Hlv|]. apply NoDup_filter. exact Cl.
Qed.
