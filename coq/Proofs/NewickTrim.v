(** strings.TrimSpace as modelled in Model/Newick.v: a name it leaves unchanged does not
    start with a character the lexer skips as whitespace. *)
From Coq Require Import String Ascii ZArith Bool Arith Lia List.
From GT Require Import Base.UTree Model.Newick Spec.NewickSpec Proofs.NewickLex.
Import ListNotations.
Local Open Scope string_scope.

Lemma sdrop_length : forall k s, String.length (sdrop k s) <= String.length s.
Proof.
  induction k; intros s; simpl; [lia|]. destruct s; simpl; [lia|]. specialize (IHk s). lia.
Qed.

Lemma trim_with_length : forall w fuel s, String.length (trim_with w fuel s) <= String.length s.
Proof.
  induction fuel; intros s; cbn [trim_with]; [lia|].
  destruct (w s) eqn:E; [lia|]. pose proof (IHfuel (sdrop (S n) s)). pose proof (sdrop_length (S n) s). lia.
Qed.

Lemma srev_app_length : forall s acc, String.length (srev_app s acc) = String.length s + String.length acc.
Proof.
  induction s; intros acc; simpl; [reflexivity|]. rewrite IHs. simpl. lia.
Qed.

Lemma srev_length : forall s, String.length (srev s) = String.length s.
Proof. intros. unfold srev. rewrite srev_app_length. simpl. lia. Qed.

Lemma trim_right_length : forall s, String.length (trim_right s) <= String.length s.
Proof.
  intros. unfold trim_right. rewrite srev_length.
  pose proof (trim_with_length blank_suffix_rev (String.length s) (srev s)). rewrite srev_length in H. exact H.
Qed.

Lemma is_ws_blank1 : forall c, is_ws c = true -> is_blank1 c = true.
Proof.
  intros c H. unfold is_ws in H. unfold is_blank1.
  repeat (apply orb_true_iff in H; destruct H as [H|H]); rewrite H; rewrite ?orb_true_r; reflexivity.
Qed.

Lemma trim_left_blank : forall c r, is_blank1 c = true ->
    String.length (trim_left (String c r)) <= String.length r.
Proof.
  intros c r H. unfold trim_left. cbn [String.length trim_with].
  assert (Hb : blank_prefix (String c r) = 1) by (simpl; rewrite H; reflexivity).
  rewrite Hb. cbn [sdrop]. apply trim_with_length.
Qed.

Lemma no_blank_first : forall c r, no_blank_around (String c r) = true -> is_ws c = false.
Proof.
  intros c r H. unfold no_blank_around in H. apply String.eqb_eq in H.
  destruct (is_ws c) eqn:E; [|reflexivity]. exfalso.
  apply is_ws_blank1 in E. pose proof (trim_left_blank c r E) as H1.
  pose proof (trim_right_length (trim_left (String c r))) as H2.
  unfold trim_space in H. rewrite H in H2. simpl in H2. lia.
Qed.
