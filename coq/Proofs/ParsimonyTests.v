(** Exhaustive tests of every clause of C12 on all small trees (all plane shapes without
    unary nodes, re-rootings included for the rooting clause), all assignments of single states
    or of state sets to the tips, against the brute-force specification of Spec/Parsimony.v.
    Run BEFORE the clauses were proved (up to 5 tips x 3 states, see the report); the bounds
    below are smaller to keep the build fast.  These are tests, not the theorems. *)
From Coq Require Import String ZArith QArith Bool Arith List.
From GT Require Import Base.UTree Spec.Obs Spec.Parsimony Model.Reroot Model.Parsimony.
Import ListNotations.
Local Close Scope Q_scope.
Local Open Scope string_scope.

Inductive shape := Lf | Nd (l : list shape).

(* all forests (non-empty sequences of trees) with n leaves in total; trees have no unary node *)
Fixpoint forests (fuel n : nat) : list (list shape) :=
  match fuel with
  | O => []
  | S f =>
    flat_map (fun i =>
      let firsts := if Nat.eqb i 1 then [Lf]
                    else map Nd (filter (fun fs => Nat.ltb 1 (length fs)) (forests f i)) in
      if Nat.eqb i n then map (fun t => [t]) firsts
      else flat_map (fun t => map (cons t) (forests f (n - i))) firsts)
    (seq 1 n)
  end.
Definition trees (n : nat) : list shape :=
  map Nd (filter (fun fs => Nat.ltb 1 (length fs)) (forests (3 * n + 3) n)).

Definition names := ["a";"b";"c";"d";"e";"f"].
Fixpoint build (s : shape) (isroot : bool) (k : nat) : utree * nat :=
  match s with
  | Lf => (UNode (nth k names "") [] (if isroot then [] else [None]), S k)
  | Nd l =>
    let '(sl, k') := (fix go (l : list shape) (k : nat) : list slot * nat :=
                        match l with
                        | [] => ([], k)
                        | c :: r => let '(t, k1) := build c false k in
                                    let '(r', k2) := go r k1 in (Some (e0, t) :: r', k2)
                        end) l k in
    (UNode "" [] (if isroot then sl else None :: sl), k')
  end.
Definition utree_of (s : shape) : utree := fst (build s true 0).


(* all assignments of a set from [sets] to each of n tips *)
Fixpoint assignments (sets : list (list nat)) (n : nat) : list (list (list nat)) :=
  match n with
  | O => [[]]
  | S n' => flat_map (fun s => map (cons s) (assignments sets n')) sets
  end.

Definition ts_of (asg : list (list nat)) (n : string) : list nat :=
  match index_of n names with Some i => nth i asg [] | None => [] end.
Definition setvec (k : nat) (S : list nat) : vec := map (fun j => if mem j S then 1 else 0) (seq 0 k).
Definition tv_of (k : nat) (asg : list (list nat)) (n : string) : vec := setvec k (ts_of asg n).
Definition set_of (v : vec) : list nat := filter (fun j => Nat.ltb 0 (nth j v 0)) (seq 0 (length v)).

Definition nat_list_eqb (a b : list nat) : bool := list_eqb Nat.eqb a b.
Definition subset (a b : list nat) : bool := forallb (fun x => mem x b) a.

(* clause tests; each returns true when the clause holds on (t, asg) *)
Definition c_steps k t asg := Nat.eqb (up_steps (tv_of k asg) k t) (mincost_bf k (ts_of asg) t).
Definition c_sank k t asg := Nat.eqb (mincost_sank k (ts_of asg) t) (mincost_bf k (ts_of asg) t).

Definition per_node {A} (skip : bool) (t : utree) (a : algo) k asg (f : nat -> utree -> list nat -> A) : list A :=
  let vt := fst (parsimony skip (tv_of k asg) k a t) in
  map (fun p => let '(i, n, v) := p in f i n (set_of v))
      (combine (combine (seq 0 (length (nodes t))) (nodes t)) (vflat vt)).

Definition c_tips skip a k t asg :=
  forallb (fun b => b) (per_node skip t a k asg (fun i n s => if is_leaf n then nat_list_eqb s (ts_of asg (uname n)) else true)).
Definition c_sub skip a k t asg :=
  forallb (fun b => b) (per_node skip t a k asg (fun i n s => if is_leaf n then true else subset s (opt_states_bf k (ts_of asg) t i))).
Definition c_eq skip a k t asg :=
  forallb (fun b => b) (per_node skip t a k asg (fun i n s => if is_leaf n then true else nat_list_eqb s (opt_states_bf k (ts_of asg) t i))).
Definition c_unamb skip a k t asg :=
  let sets := per_node skip t a k asg (fun i n s => (is_leaf n, s)) in
  if forallb (fun p => fst p || Nat.eqb (length (snd p)) 1) sets
  then Nat.eqb (cost (ts_of asg) t (fst (ltree_of t (map (fun p => hd 0 (snd p)) sets)))) (mincost_bf k (ts_of asg) t)
  else true.
Definition c_reroot k t asg :=
  forallb (fun i => match reroot t i with
                    | Ok t' => Nat.eqb (up_steps (tv_of k asg) k t') (up_steps (tv_of k asg) k t)
                    | Err _ => true end) (seq 0 (length (nodes t))).

Definition first_fail (f : utree -> list (list nat) -> bool) (sets : list (list nat)) (ns : list nat)
  : option (utree * list (list nat)) :=
  find (fun p => negb (f (fst p) (snd p)))
       (flat_map (fun n => flat_map (fun s => map (fun a => (utree_of s, a)) (assignments sets n)) (trees n)) ns).

Definition single3 := [[0];[1];[2]].
Definition amb2 := [[0];[1];[0;1]].
Definition amb3 := [[0];[1];[2];[0;1];[1;2];[0;1;2]].

Definition all_ok (f : utree -> list (list nat) -> bool) sets ns : bool :=
  match first_fail f sets ns with None => true | Some _ => false end.

Definition algos := [Downpass; Deltran; Acctran].

(** single states at the tips (character variant, tips rewritten by ACCTRAN) *)
Example test_single_states :
  all_ok (c_sank 3) single3 [2;3;4] = true /\
  all_ok (c_steps 3) single3 [2;3;4] = true /\
  all_ok (c_reroot 3) single3 [2;3;4] = true /\
  all_ok (c_eq false Downpass 3) single3 [2;3;4] = true /\
  forallb (fun a => all_ok (c_sub false a 3) single3 [2;3;4]) algos = true /\
  forallb (fun a => all_ok (c_unamb false a 3) single3 [2;3;4]) algos = true /\
  forallb (fun a => all_ok (c_tips false a 3) single3 [2;3;4]) algos = true.
Proof. vm_compute. repeat split; reflexivity. Qed.

(** state sets at the tips (sequence variant, tips skipped by ACCTRAN) *)
Example test_state_sets :
  all_ok (c_sank 3) amb3 [2;3] = true /\
  all_ok (c_steps 3) amb3 [2;3] = true /\
  all_ok (c_steps 2) amb2 [4] = true /\
  all_ok (c_reroot 2) amb2 [2;3;4] = true /\
  all_ok (c_eq true Downpass 2) amb2 [2;3;4] = true /\
  forallb (fun a => all_ok (c_sub true a 2) amb2 [2;3;4]) algos = true /\
  forallb (fun a => all_ok (c_unamb true a 2) amb2 [2;3;4]) algos = true /\
  forallb (fun a => all_ok (c_tips true a 2) amb2 [2;3;4]) algos = true.
Proof. vm_compute. repeat split; reflexivity. Qed.

(** the clause that failed: ACCTRAN rewriting tip children (the sequence variant before the
    fix) alters an ambiguous tip; smallest witness (a,b), a = {0}, b = {0,1} *)
Example test_acctran_rewrites_ambiguous_tip :
  all_ok (c_tips false Acctran 2) amb2 [2] = false.
Proof. vm_compute. reflexivity. Qed.
