(** C17: the proposed neighbours are different trees, from each other and from the original:
    trees equal up to [utree_eqb] (hence also identical trees) have the same splits. *)
From Coq Require Import String ZArith QArith Bool Arith Lia List Permutation.
From GT Require Import Base.UTree Spec.Obs Spec.Unrooted Spec.NNISpec Model.Reroot Model.NNI
     Proofs.RerootBase Proofs.Splits Proofs.NNIBase Proofs.NNISem Proofs.NNIMain Proofs.NNISets
     Proofs.NNIDistinct.
Import ListNotations.
Local Close Scope Q_scope.
Local Arguments leaves : simpl never.
Local Arguments bsplits : simpl never.
Local Arguments kleaves : simpl never.
Local Arguments kbs : simpl never.

Definition side_of (x : einfo * list string * bool) : list string * bool := (snd (fst x), snd x).

(** what [utree_eqb] preserves *)
Definition same_obs (a b : utree) : Prop :=
  leaves a = leaves b /\ isleaf a = isleaf b /\ map side_of (bsplits a) = map side_of (bsplits b).

Definition slots_eqb : list slot -> list slot -> bool :=
  fix go (l1 l2 : list slot) : bool :=
    match l1, l2 with
    | [], [] => true
    | None :: r1, None :: r2 => go r1 r2
    | Some (e1, t1) :: r1, Some (e2, t2) :: r2 => einfo_eqb e1 e2 && utree_eqb t1 t2 && go r1 r2
    | _, _ => false
    end.

Lemma utree_eqb_unfold n1 c1 s1 n2 c2 s2 :
  utree_eqb (UNode n1 c1 s1) (UNode n2 c2 s2) =
  String.eqb n1 n2 && list_eqb String.eqb c1 c2 && slots_eqb s1 s2.
Proof. reflexivity. Qed.

Lemma slots_eqb_kids s1 : forall s2,
  Forall (fun s : slot => match s with Some (_, t) => forall b, utree_eqb t b = true -> same_obs t b | None => True end) s1 ->
  slots_eqb s1 s2 = true ->
  Forall2 (fun p q => same_obs (snd p) (snd q)) (kids_of s1) (kids_of s2).
Proof.
  induction s1 as [|[[e1 t1]|] r1 IH]; intros [|[[e2 t2]|] r2] F H; cbn in H; try discriminate.
  - constructor.
  - inversion F; subst. apply andb_true_iff in H. destruct H as [H Hr].
    apply andb_true_iff in H. destruct H as [_ Ht]. cbn [kids_of flat_map app].
    constructor; [cbn [snd]; auto|]. now apply IH.
  - inversion F; subst. cbn [kids_of flat_map app]. now apply IH.
Qed.

Lemma kleaves_cons p K : kleaves (p :: K) = leaves (snd p) ++ kleaves K.
Proof. change (p :: K) with ([p] ++ K). now rewrite kleaves_app, kleaves_one. Qed.
Lemma side_kbs_cons p K :
  map side_of (kbs (p :: K)) =
  (leaves (snd p), isleaf (snd p)) :: map side_of (bsplits (snd p)) ++ map side_of (kbs K).
Proof. rewrite kbs_cons. cbn [map]. now rewrite map_app. Qed.

Lemma kids_same_obs K1 K2 :
  Forall2 (fun p q => same_obs (snd p) (snd q)) K1 K2 ->
  kleaves K1 = kleaves K2 /\ map side_of (kbs K1) = map side_of (kbs K2).
Proof.
  induction 1 as [|p q K1 K2 (E1 & E2 & E3) F [A B]]; [auto|].
  rewrite !kleaves_cons, !side_kbs_cons. now rewrite A, B, E1, E2, E3.
Qed.

Lemma utree_eqb_same_obs a : forall b, utree_eqb a b = true -> same_obs a b.
Proof.
  induction a as [n1 c1 s1 IH] using utree_ind'. intros [n2 c2 s2] H.
  rewrite utree_eqb_unfold in H. apply andb_true_iff in H. destruct H as [H Hs].
  apply andb_true_iff in H. destruct H as [Hn _]. apply String.eqb_eq in Hn. subst n2.
  pose proof (slots_eqb_kids s1 s2 IH Hs) as F. unfold same_obs.
  rewrite !leaves_unfold, !bsplits_unfold. unfold isleaf, kids. cbn [uslots].
  destruct (kids_same_obs _ _ F) as [A B].
  destruct F as [|p q K1 K2 _ _]; [auto|]. rewrite A, B. auto.
Qed.

Lemma same_obs_same_splits a b : same_obs a b -> same_splits a b.
Proof.
  assert (G : forall a b, same_obs a b -> forall x, has_split a x -> has_split b x).
  { intros u v (EL & _ & EB) x (y & Iy & S).
    assert (I : In (side_of y) (map side_of (bsplits v))) by (rewrite <- EB; now apply in_map).
    apply in_map_iff in I. destruct I as (y' & E & Iy'). exists y'. split; auto.
    rewrite <- EL. unfold side_of in E. inversion E as [[E1 E2]]. now rewrite E1. }
  intros H x. split; apply G; auto.
  destruct H as (A & B & C). repeat split; auto.
Qed.

Lemma not_same_splits_trees a b :
  ~ same_splits a b -> a <> b /\ utree_eqb a b = false.
Proof.
  intros H. split.
  - intros ->. apply H. intros x. tauto.
  - destruct (utree_eqb a b) eqn:E; auto. exfalso. apply H.
    now apply same_obs_same_splits, utree_eqb_same_obs.
Qed.

(** * a neighbour is not the original tree *)
Theorem neighbour_not_original r t t1 :
  wf t = true -> NoDup (leaves t) -> 2 <= length (kids t) ->
  valid r t -> apply r t = Some t1 -> ~ same_splits t1 t.
Proof.
  intros W ND K2 V A1.
  destruct (apply_one_split r t t1 W V A1) as (ec & A & B & C & D & old & new & rest & rest' & HL & NB & NDd & NAC & Ho & Hn & B0 & B1 & _).
  destruct (NAC K2) as [NA NC].
  pose proof (apply_leaves r t t1 W V A1) as TL.
  eapply crossing_distinct.
  - eapply Permutation_NoDup; eauto.
  - eapply head_has_split; eauto.
  - eapply head_has_split; eauto.
  - eapply crosses_permL; [exact TL|]. apply crosses_sym.
    eapply (cross_old_new (leaves t) _ _ _ _ ND HL NA NB NC NDd).
    + now apply two_perm.
    + destruct Hn as [H|H]; [left|right]; now apply two_perm.
Qed.
