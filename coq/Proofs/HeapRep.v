(** Heap model: the strong representation invariant [Rep h lt] ("the heap is exactly the
    labelled tree lt, rooted at its root, every edge pointing away from it") and what it gives:
    [abs h = Some (erase lt)], a well-formed tree. *)
From Coq Require Import String ZArith QArith Bool Arith Lia Permutation List.
From GT Require Import Base.UTree Model.Reroot Model.Heap Proofs.Enum Proofs.HeapBase.
Import ListNotations.
Local Close Scope Q_scope.

(** * well-formedness on labelled trees = well-formedness of the erased tree *)
Definition lwf (lt : ltree) : Prop := wf (erase lt) = true.
Definition lwf_sub (lt : ltree) : Prop := wf_sub (erase lt) = true.

Lemma forallb_erase sl :
  forallb (fun s : slot => match s with Some (_, c) => wf_sub c | None => true end) (map erase_slot sl) = true <->
  (forall e ei ch, In (Some (e, ei, ch)) sl -> lwf_sub ch).
Proof.
  rewrite forallb_forall. split.
  - intros H e ei ch Hin. apply (H (erase_slot (Some (e, ei, ch)))). apply in_map. exact Hin.
  - intros H s Hs. apply in_map_iff in Hs. destruct Hs as [[[[e ei] ch]|] [<- Hin]]; cbn; [|reflexivity].
    exact (H _ _ _ Hin).
Qed.

Lemma lwf_iff i n c sl : lwf (LNode i n c sl) <->
  lnup sl = 0 /\ forall e ei ch, In (Some (e, ei, ch)) sl -> lwf_sub ch.
Proof.
  unfold lwf. rewrite erase_eq. cbn [wf]. rewrite andb_true_iff, Nat.eqb_eq, n_up_erase, forallb_erase. reflexivity.
Qed.

Lemma lwf_sub_iff i n c sl : lwf_sub (LNode i n c sl) <->
  lnup sl = 1 /\ forall e ei ch, In (Some (e, ei, ch)) sl -> lwf_sub ch.
Proof.
  unfold lwf_sub at 1. rewrite erase_eq. cbn [wf_sub]. rewrite andb_true_iff, Nat.eqb_eq, n_up_erase, forallb_erase. reflexivity.
Qed.

(** * the invariant *)
Record Rep (h : heap) (lt : ltree) : Prop := mkRep {
  rep_root : hroot h = lid lt;
  rep_shape : shape true h None lt;
  rep_wf : lwf lt;
  rep_nd : NoDup (lids lt);
  rep_ned : NoDup (leids lt);
  rep_nodes : forall n, In n (lids lt) <-> alookup n (hnodes h) <> None;
  rep_edges : forall e, In e (leids lt) <-> alookup e (hedges h) <> None;
  rep_fn : forall n, In n (lids lt) -> n < hnextn h;
  rep_fe : forall e, In e (leids lt) -> e < hnexte h
}.

Lemma lids_le_nodes h lt :
  NoDup (lids lt) -> (forall n, In n (lids lt) -> alookup n (hnodes h) <> None) ->
  length (lids lt) <= length (hnodes h).
Proof.
  intros Hnd Hin. rewrite <- (map_length fst (hnodes h)). apply NoDup_incl_length; [exact Hnd|].
  intros n Hn. specialize (Hin n Hn). destruct (alookup n (hnodes h)) eqn:E; [|congruence].
  eapply alookup_In. exact E.
Qed.

Lemma Rep_fuel h lt : Rep h lt -> lheight lt <= length (hnodes h).
Proof.
  intros R. pose proof (lheight_le_lids lt).
  pose proof (lids_le_nodes h lt (rep_nd _ _ R) (fun n Hn => proj1 (rep_nodes _ _ R n) Hn)). lia.
Qed.

Theorem Rep_dump h lt : Rep h lt -> dump h = Some lt.
Proof.
  intros R. unfold dump. rewrite (rep_root _ _ R).
  rewrite (shape_dump true h lt None (hfuel h) (rep_shape _ _ R)).
  - rewrite (proj2 (nodupb_spec _) (rep_nd _ _ R)). reflexivity.
  - unfold hfuel. pose proof (Rep_fuel _ _ R). lia.
Qed.

Theorem Rep_abs h lt : Rep h lt -> abs h = Some (erase lt).
Proof. intros R. unfold abs. rewrite (Rep_dump _ _ R). reflexivity. Qed.

Theorem Rep_abs_wf h lt : Rep h lt -> exists t, abs h = Some t /\ wf t = true.
Proof. intros R. exists (erase lt). split; [apply Rep_abs; exact R|exact (rep_wf _ _ R)]. Qed.

Lemma Rep_unique h lt lt' : Rep h lt -> Rep h lt' -> lt = lt'.
Proof. intros R R'. apply Rep_dump in R, R'. congruence. Qed.

(** * all sub-nodes with the context they are entered from *)
Fixpoint lsubs (prev : option (nat * nat)) (lt : ltree) : list (option (nat * nat) * ltree) :=
  match lt with
  | LNode i _ _ sl =>
    (prev, lt) :: flat_map (fun s : lslot => match s with
                                             | Some (e, _, ch) => lsubs (Some (i, e)) ch
                                             | None => [] end) sl
  end.

Lemma lsubs_eq prev i n c sl :
  lsubs prev (LNode i n c sl) =
  (prev, LNode i n c sl) :: flat_map (fun s : lslot => match s with
                                             | Some (e, _, ch) => lsubs (Some (i, e)) ch
                                             | None => [] end) sl.
Proof. reflexivity. Qed.

Lemma lsubs_self prev lt : In (prev, lt) (lsubs prev lt).
Proof. destruct lt. left. reflexivity. Qed.

Lemma lsubs_lids : forall lt prev, map (fun p => lid (snd p)) (lsubs prev lt) = lids lt.
Proof.
  induction lt as [i n c sl IH] using ltree_ind'. intros prev.
  rewrite lsubs_eq, lids_eq. cbn [map snd lid]. f_equal.
  induction IH as [|s sl Hs _ IHsl]; [reflexivity|]. cbn [flat_map]. rewrite map_app, IHsl.
  f_equal. destruct s as [[[e ei] ch]|]; [apply Hs|reflexivity].
Qed.

Lemma in_lids_lsubs lt prev x : In x (lids lt) -> exists p sub, In (p, sub) (lsubs prev lt) /\ lid sub = x.
Proof.
  rewrite <- (lsubs_lids lt prev). intros H. apply in_map_iff in H. destruct H as [[p sub] [E H]].
  exists p, sub. split; [exact H|exact E].
Qed.

Lemma lsubs_in_lids : forall lt prev p sub, In (p, sub) (lsubs prev lt) -> In (lid sub) (lids lt).
Proof.
  intros lt prev p sub H. rewrite <- (lsubs_lids lt prev). apply in_map_iff. exists (p, sub). split; [reflexivity|exact H].
Qed.

(** sub-nodes of sub-nodes *)
Lemma lsubs_trans : forall lt prev p sub p' sub',
  In (p, sub) (lsubs prev lt) -> In (p', sub') (lsubs p sub) -> In (p', sub') (lsubs prev lt).
Proof.
  induction lt as [i n c sl IH] using ltree_ind'. intros prev p sub p' sub' H H'.
  rewrite lsubs_eq in H. destruct H as [[= <- <-]|H]; [exact H'|].
  rewrite lsubs_eq. right. apply in_flat_map in H. destruct H as [s [Hs H]].
  apply in_flat_map. exists s. split; [exact Hs|]. rewrite Forall_forall in IH. specialize (IH s Hs).
  destruct s as [[[e ei] ch]|]; [|destruct H]. eapply IH; eassumption.
Qed.

Lemma lsubs_child prev i n c sl e ei ch :
  In (Some (e, ei, ch)) sl -> In (Some (i, e), ch) (lsubs prev (LNode i n c sl)).
Proof.
  intros H. rewrite lsubs_eq. right. apply in_flat_map. exists (Some (e, ei, ch)). split; [exact H|apply lsubs_self].
Qed.

Lemma lsubs_sub_lids : forall lt prev p sub x, In (p, sub) (lsubs prev lt) -> In x (lids sub) -> In x (lids lt).
Proof.
  intros lt prev p sub x H Hx. destruct (in_lids_lsubs sub p x Hx) as [p' [sub' [H' <-]]].
  eapply lsubs_in_lids. eapply lsubs_trans; eassumption.
Qed.

Lemma lsubs_sub_leids : forall lt prev p sub x, In (p, sub) (lsubs prev lt) -> In x (leids sub) -> In x (leids lt).
Proof.
  induction lt as [i n c sl IH] using ltree_ind'. intros prev p sub x H Hx.
  rewrite lsubs_eq in H. destruct H as [[= <- <-]|H]; [exact Hx|].
  apply in_flat_map in H. destruct H as [s [Hs H]]. rewrite Forall_forall in IH. specialize (IH s Hs).
  destruct s as [[[e ei] ch]|]; [|destruct H]. eapply in_leids_child; [exact Hs|]. eapply IH; eassumption.
Qed.

(** every edge id belongs to a child slot of some sub-node *)
Lemma in_leids_lsubs : forall lt prev x, In x (leids lt) ->
  exists p i n c sl ei ch, In (p, LNode i n c sl) (lsubs prev lt) /\ In (Some (x, ei, ch)) sl.
Proof.
  induction lt as [i n c sl IH] using ltree_ind'. intros prev x H.
  rewrite leids_eq in H. apply in_flat_map in H. destruct H as [s [Hs H]].
  rewrite Forall_forall in IH. specialize (IH s Hs). destruct s as [[[e ei] ch]|]; [|destruct H].
  destruct H as [<-|H].
  - exists prev, i, n, c, sl, ei, ch. split; [apply lsubs_self|exact Hs].
  - destruct (IH (Some (i, e)) x H) as (p & i' & n' & c' & sl' & ei' & ch' & H1 & H2).
    exists p, i', n', c', sl', ei', ch'. split; [|exact H2].
    eapply lsubs_trans; [|exact H1]. eapply lsubs_child. exact Hs.
Qed.

Lemma shape_lsubs o h : forall lt prev p sub, shape o h prev lt -> In (p, sub) (lsubs prev lt) -> shape o h p sub.
Proof.
  induction lt as [i n c sl IH] using ltree_ind'. intros prev p sub H Hin.
  rewrite lsubs_eq in Hin. destruct Hin as [[= <- <-]|Hin]; [exact H|].
  apply shape_unfold in H. destruct H as [hn (H1 & H2 & H3 & H4 & H5)].
  apply in_flat_map in Hin. destruct Hin as [s [Hs Hin]].
  rewrite Forall_forall in IH. specialize (IH s Hs).
  destruct s as [[[e ei] ch]|]; [|destruct Hin].
  assert (exists ce, slot_ok o h prev i ce (Some (e, ei, ch))) as [ce Hce].
  { clear - H5 Hs. induction H5 as [|ce s l sl' Hs' _ IH5]; [destruct Hs|].
    destruct Hs as [->|Hs]; [exists ce; exact Hs'|exact (IH5 Hs)]. }
  cbn [slot_ok] in Hce. destruct Hce as (A & B & C & D & E). subst e. eapply IH; eassumption.
Qed.

Lemma lwf_sub_lsubs : forall lt prev p sub, (lwf lt \/ lwf_sub lt) -> In (p, sub) (lsubs prev lt) ->
  (p, sub) = (prev, lt) \/ lwf_sub sub.
Proof.
  induction lt as [i n c sl IH] using ltree_ind'. intros prev p sub Hwf Hin.
  rewrite lsubs_eq in Hin. destruct Hin as [E|Hin]; [left; symmetry; exact E|]. right.
  assert (Hk : forall e ei ch, In (Some (e, ei, ch)) sl -> lwf_sub ch).
  { destruct Hwf as [Hwf|Hwf]; [apply lwf_iff in Hwf|apply lwf_sub_iff in Hwf]; apply Hwf. }
  apply in_flat_map in Hin. destruct Hin as [s [Hs Hin]].
  rewrite Forall_forall in IH. specialize (IH s Hs).
  destruct s as [[[e ei] ch]|]; [|destruct Hin].
  destruct (IH (Some (i, e)) p sub (or_intror (Hk _ _ _ Hs)) Hin) as [[= -> ->]|H]; [|exact H].
  exact (Hk _ _ _ Hs).
Qed.
