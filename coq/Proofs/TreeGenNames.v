(** C16: the decimal printer [itoa] (strconv.Itoa) is injective, hence the generated tip
    names Tip0, Tip1, ... are pairwise distinct. *)
From Coq Require Import String Ascii Bool Arith Lia List FinFun.
From GT Require Import Model.TreeGen.
Import ListNotations.

Definition dvalue (l : list nat) : nat := fold_right (fun d acc => d + 10 * acc) 0 l.

Lemma dvalue_cons d l : dvalue (d :: l) = d + 10 * dvalue l.
Proof. reflexivity. Qed.

Lemma digits_le_S f n :
  digits_le (S f) n = if Nat.ltb n 10 then [n] else (n mod 10) :: digits_le f (n / 10).
Proof. reflexivity. Qed.

Lemma digits_le_spec fuel : forall n, n < fuel ->
  dvalue (digits_le fuel n) = n /\ Forall (fun d => d < 10) (digits_le fuel n).
Proof.
  induction fuel as [|f IH]; intros n Hn; [lia|].
  rewrite digits_le_S. destruct (Nat.ltb n 10) eqn:E.
  - apply Nat.ltb_lt in E. split; [rewrite dvalue_cons; simpl; lia|]. constructor; auto.
  - apply Nat.ltb_ge in E.
    assert (Hd : n / 10 < f).
    { assert (n / 10 < n) by (apply Nat.div_lt; lia). lia. }
    destruct (IH _ Hd) as [V F]. split.
    + rewrite dvalue_cons, V.
      pose proof (Nat.div_mod n 10). lia.
    + constructor; auto. apply Nat.mod_upper_bound. lia.
Qed.

Lemma digit_char_inj a b : a < 10 -> b < 10 -> digit_char a = digit_char b -> a = b.
Proof.
  unfold digit_char. intros Ha Hb H.
  apply (f_equal nat_of_ascii) in H.
  rewrite !nat_ascii_embedding in H by lia. lia.
Qed.

Lemma map_digit_char_inj l1 : forall l2,
  Forall (fun d => d < 10) l1 -> Forall (fun d => d < 10) l2 ->
  map digit_char l1 = map digit_char l2 -> l1 = l2.
Proof.
  induction l1 as [|a l1 IH]; intros [|b l2] H1 H2 H; simpl in H; try discriminate; auto.
  inversion H1; inversion H2; subst. inversion H.
  f_equal; [apply digit_char_inj; auto | apply IH; auto].
Qed.

Lemma string_of_list_ascii_inj l1 l2 :
  string_of_list_ascii l1 = string_of_list_ascii l2 -> l1 = l2.
Proof.
  intros H. apply (f_equal list_ascii_of_string) in H.
  now rewrite !list_ascii_of_string_of_list_ascii in H.
Qed.

Theorem itoa_inj a b : itoa a = itoa b -> a = b.
Proof.
  unfold itoa. intros H.
  apply string_of_list_ascii_inj in H.
  destruct (digits_le_spec (S a) a (Nat.lt_succ_diag_r a)) as [Va Fa].
  destruct (digits_le_spec (S b) b (Nat.lt_succ_diag_r b)) as [Vb Fb].
  apply map_digit_char_inj in H; try (apply Forall_rev; assumption).
  apply (f_equal (@rev nat)) in H. rewrite !rev_involutive in H.
  rewrite <- Va, <- Vb, H. reflexivity.
Qed.

Theorem tip_name_inj a b : tip_name a = tip_name b -> a = b.
Proof.
  unfold tip_name. simpl. intros H. inversion H. now apply itoa_inj.
Qed.

Lemma tip_names_NoDup i n : NoDup (map tip_name (seq i n)).
Proof.
  apply FinFun.Injective_map_NoDup; [|apply seq_NoDup].
  intros a b. apply tip_name_inj.
Qed.

Theorem topo_name_inj a b : topo_name [] a = topo_name [] b -> a = b.
Proof.
  unfold topo_name. simpl. intros H. inversion H as [H']. apply itoa_inj in H'. lia.
Qed.
