(** Statements behind the judge clauses added in rounds 5-7: sizes below the minimum (stated over
    Z, so in particular for every negative size), StarTreeFromTree, the size of the prune --random
    selection. *)
From Coq Require Import String ZArith QArith Bool Arith Lia List Permutation.
From GT Require Import Base.UTree Spec.Obs Spec.GenShape Spec.Counting Model.Reroot Model.Rand Model.Rand2 Model.TreeGen Model.Sampling Model.Index
     Proofs.RerootBase Proofs.C05Main Proofs.IndexSplit Proofs.SamplingBase Proofs.SamplingRes Proofs.SamplingCode Proofs.SamplingEdge
     Proofs.TreeGenNames Proofs.TreeGenGraft Proofs.TreeGenLoop Proofs.TreeGenMain Proofs.TreeGenBal Proofs.TreeGenTopo
     Proofs.TreeGenIndex.
Import ListNotations.
Local Close Scope Q_scope.
Local Arguments n_up : simpl never.

(** ** (a) sizes below the minimum, over Z: Go's int n, the model's size is Z.to_nat n *)
Theorem generators_below_minimum_Z (z : Z) rooted cs ls names :
  ((z < 3)%Z -> (exists m, uniform_tree (Z.to_nat z) rooted cs ls = GErr m) /\
                (exists m, yule_tree (Z.to_nat z) rooted cs ls = GErr m) /\
                (exists m, caterpillar_tree (Z.to_nat z) rooted ls = GErr m)) /\
  ((z < 1)%Z -> exists m, balanced_tree (Z.to_nat z) rooted ls = GErr m) /\
  ((z < 2)%Z -> (exists m, balanced_tree (Z.to_nat z) false ls = GErr m) /\
                (exists m, star_tree (Z.to_nat z) = GErr m) /\
                (exists m, all_topologies (Z.to_nat z) true names = Err m)) /\
  ((z < 3)%Z -> exists m, all_topologies (Z.to_nat z) false names = Err m).
Proof.
  split; [intros H; repeat split|split; [intros H|split; [intros H; repeat split|intros H]]].
  - apply uniform_tree_small. lia.
  - apply yule_tree_small. lia.
  - apply caterpillar_tree_small. lia.
  - assert (Z.to_nat z = 0) as -> by lia. apply balanced_tree_small.
  - assert (Z.to_nat z = 0 \/ Z.to_nat z = 1) as [-> | ->] by lia; [apply balanced_tree_small|apply balanced_depth1_unrooted].
  - apply star_tree_small. lia.
  - apply all_topologies_rooted_err. lia.
  - apply all_topologies_unrooted_err. lia.
Qed.

(** ** (b) StarTreeFromTree *)
Definition src_names (t : utree) : list string := map (fun p => uname (snd p)) (tip_edges t).

Lemma star_like_ok (l : list (einfo * utree)) : 2 <= length l ->
  let s := UNode EmptyString [] (map (fun p => Some (eL (elen (fst p)), tip_node (uname (snd p)))) l) in
  wf s = true /\ star s = true /\ degree s = length l /\ leaves s = map (fun p => uname (snd p)) l.
Proof.
  intros H. cbv zeta.
  set (sl := map (fun p : einfo * utree => Some (eL (elen (fst p)), tip_node (uname (snd p)))) l).
  assert (A : forall p : slot -> bool, (forall e nm, p (Some (eL e, tip_node nm)) = true) -> forallb p sl = true).
  { intros p Hp. apply forallb_forall. intros s Hs. apply in_map_iff in Hs as [x [<- _]]. apply Hp. }
  assert (U : n_up sl = 0).
  { unfold sl. clear. induction l as [|x r IH]; [reflexivity|]. cbn [map]. now rewrite n_up_cons, IH. }
  assert (W : wf (UNode EmptyString [] sl) = true).
  { rewrite wf_def, U. simpl. apply A. reflexivity. }
  assert (D : degree (UNode EmptyString [] sl) = length l) by (unfold degree, sl; simpl; apply map_length).
  repeat split; auto.
  - apply A. reflexivity.
  - rewrite leaves_tip_names; auto; [|lia].
    rewrite <- tnames_tip_names. unfold tnames. rewrite mu_unfold.
    unfold degree in D. simpl in D. rewrite D.
    destruct (Nat.eqb_spec (length l) 1); [lia|]. cbn [app].
    unfold sl. clear. induction l as [|x r IH]; [reflexivity|].
    cbn [map]. rewrite mu_sl_cons_some, IH. reflexivity.
Qed.

Theorem star_tree_from_tree_ok t : 2 <= length (tip_edges t) ->
  exists s, star_tree_from_tree t = GOk s /\ wf s = true /\ star s = true /\
            degree s = length (tip_edges t) /\ leaves s = src_names t.
Proof.
  intros H. unfold star_tree_from_tree. destruct (Nat.ltb_spec (length (tip_edges t)) 2); [lia|].
  eexists. split; [reflexivity|]. apply (star_like_ok (tip_edges t) H).
Qed.

Theorem star_tree_from_tree_indexes t : 2 <= length (tip_edges t) -> NoDup (src_names t) ->
  exists s, star_tree_from_tree t = GOk s /\ leaves s = src_names t /\ indexes_ready s.
Proof.
  intros H ND. destruct (star_tree_from_tree_ok t H) as [s [E [W [S [D L]]]]].
  exists s. split; [exact E|split; [exact L|]]. apply good_indexes_ready.
  split; [exact W|split; [lia|now rewrite L]].
Qed.

Theorem star_tree_from_tree_small t : length (tip_edges t) < 2 -> exists m, star_tree_from_tree t = GErr m.
Proof. intros H. unfold star_tree_from_tree. destruct (Nat.ltb_spec (length (tip_edges t)) 2); [eauto|lia]. Qed.

(** ** (c) prune --random k: the selection has exactly min(k, n) tips of the tree, whatever the draws *)
Lemma NoDup_map_nth (names : list string) d : NoDup names -> forall idx,
  NoDup idx -> Forall (fun i => i < length names) idx -> NoDup (map (fun i => nth i names d) idx).
Proof.
  intros ND idx. induction idx as [|i r IH]; intros Hn Hf; [constructor|].
  inversion Hn; subst. inversion Hf; subst. cbn [map]. constructor; [|now apply IH].
  intros Hin. apply in_map_iff in Hin as [j [Ej Hj]].
  rewrite Forall_forall in H4. specialize (H4 j Hj).
  assert (j = i) by (eapply (proj1 (NoDup_nth names d)); eauto). subst. contradiction.
Qed.

Theorem random_tips_size k t cs :
  in_bounds cs (reservoir_bounds code_bound k (length (tip_names t))) ->
  exists sel, random_tips k t cs = Some (map Some sel) /\
              length sel = Nat.min k (length (tip_names t)) /\
              incl sel (tip_names t) /\ (NoDup (tip_names t) -> NoDup sel).
Proof.
  set (names := tip_names t). set (n := length names). intros Hb.
  destruct (Nat.le_gt_cases k n) as [Hk|Hk].
  - (* the reservoir is full: k distinct positions below n *)
    assert (Hl : length cs = n - k).
    { apply in_bounds_length in Hb. unfold reservoir_bounds in Hb. now rewrite map_length, seq_length in Hb. }
    rewrite random_tips_positions. fold names. fold n. unfold sample_noreplace.
    pose proof (reservoir_runl code_bound k (n - k) cs Hl) as R.
    replace (k + (n - k)) with n in R by lia. rewrite R.
    fold (content k (n - k) cs). destruct (content_inv k (n - k) cs) as [I1 [I2 I3]].
    replace (k + (n - k)) with n in I3 by lia.
    exists (map (fun i => nth i names EmptyString) (content k (n - k) cs)).
    cbn [option_map]. rewrite !map_map. repeat split.
    + now rewrite map_length, I1, Nat.min_l.
    + intros x Hx. apply in_map_iff in Hx as [i [<- Hi]]. apply nth_In.
      rewrite Forall_forall in I3. now apply I3.
    + intros ND. now apply NoDup_map_nth.
  - (* fewer tips than k: no draw, every tip is selected *)
    destruct (reservoir_all code_bound k names) as [Eb Er]; [fold n; lia|].
    fold n in Eb. rewrite Eb in Hb. inversion Hb; subst.
    exists names. unfold random_tips. fold names. rewrite Er. repeat split; auto.
    + fold n. rewrite Nat.min_r; lia.
    + apply incl_refl.
Qed.
