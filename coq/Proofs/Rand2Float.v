(** rand.Float64 on the raw stream: a value whose conversion rounds to 2^63 (x >= 2^63-512) is
    skipped (the Go code retries), any other value is consumed and gives a float in [0,1). *)
From Coq Require Import ZArith NArith QArith Bool Arith Lia List.
From GT Require Import Model.Rand Model.Rand2.
Import ListNotations.
Local Close Scope Q_scope.

Lemma float64_retry x r : N.eqb (round53 x) two63 = true -> float64 (x :: r) = float64 r.
Proof. intros H. unfold float64. simpl. now rewrite H. Qed.

Lemma float64_take x r : N.eqb (round53 x) two63 = false -> float64 (x :: r) = Some (f64_of_int63 x, r).
Proof. intros H. unfold float64. simpl. now rewrite H. Qed.

(** the retry threshold: exactly the 512 largest 63-bit values *)
Lemma retry_threshold :
  N.eqb (round53 (two63 - 512)) two63 = true /\ N.eqb (round53 (two63 - 1)) two63 = true /\
  N.eqb (round53 (two63 - 513)) two63 = false.
Proof. vm_compute. repeat split. Qed.

(** a plan with a retry: the Float64 draw consumes two raw values, its position is that of the
    value finally used, and the following Intn draw reads the next one *)
Example run_plan_retry :
  run_plan [DFloat; DInt 4] 0 [(two63 - 1)%N; 4611686018427387904%N; 12884901888%N; 7%N]
  = Some ([3], [mkF 1 (Qmake 4611686018427387904 9223372036854775808)], [7%N]).
Proof. vm_compute. reflexivity. Qed.
