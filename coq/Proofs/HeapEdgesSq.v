(** Heap model: the refinement square of Tree.RemoveEdges on a LIST of branches (the loop
    [remove_edges_heap]) against the one-pass model of Model/Collapse.v. *)
From Coq Require Import String ZArith QArith Bool Arith Lia Permutation List.
From GT Require Import Base.UTree Model.Reroot Model.Prune Model.Collapse Model.NNI Model.Heap Model.HeapEdit Model.HeapSpec Proofs.Enum Proofs.HeapBase Proofs.HeapRep
     Proofs.HeapGood Proofs.HeapGoodRep Proofs.HeapRerootL Proofs.HeapReorder Proofs.HeapReroot Proofs.HeapUnrootL Proofs.HeapCtx
     Proofs.HeapCollapseTree Proofs.HeapPaths Proofs.HeapCollapseSq Proofs.HeapLoopsTotal Proofs.HeapEdgesSeq.
Import ListNotations.
Local Close Scope Q_scope.

Lemma lremove_nil rr rt lt : lremove rr rt (selL []) lt = lt.
Proof.
  unfold lremove. destruct (lproc_none rr rt (selL []) lt (fun x _ => eq_refl) 0) as [P _]. rewrite P. cbn [fst snd].
  rewrite app_nil_r. apply lnode_eta.
Qed.

Theorem remove_edges_heap_Rep rr rt : forall todo done h lt, Rep h (lremove rr rt (selL done) lt) -> NoDup (leids lt) ->
  filter (selL (done ++ todo)) (leids lt) = done ++ todo ->
  (forall x, In x todo -> In x (leids (lremove rr rt (selL done) lt))) ->
  exists h', remove_edges_heap rr rt todo h = HOk h' /\ Rep h' (lremove rr rt (selL (done ++ todo)) lt).
Proof.
  induction todo as [|e todo IH]; intros done h lt R Nd Hf Hin.
  - exists h. split; [reflexivity|]. rewrite app_nil_r. exact R.
  - set (cur := lremove rr rt (selL done) lt) in *.
    destruct (remove_edge_step_total rr rt h cur e R (Hin e (or_introl eq_refl))) as (h1 & lt1 & Ev & R1 & Keep).
    destruct (edge_context cur e (rep_wf _ _ R) (Hin e (or_introl eq_refl))) as (p & l & nm & cm & l1 & l2 & ei & ch & Hsub).
    destruct (remove_edge_Rep rr rt h cur p l nm cm l1 l2 e ei ch R Hsub) as (h1' & Ev' & R1').
    rewrite Ev in Ev'. injection Ev' as <-.
    rewrite <- (lstep_lreplace rr rt e l nm cm l1 ei ch l2 cur None p (rep_nd _ _ R) (rep_ned _ _ R) Hsub) in R1'.
    unfold cur in R1'. rewrite <- (lremove_snoc rr rt lt done e todo Nd Hf) in R1'.
    pose proof (Rep_unique _ _ _ R1 R1') as E1. subst lt1.
    cbn [remove_edges_heap]. rewrite Ev. cbn [hbind].
    destruct (IH (done ++ [e]) h1 lt R1' Nd) as (h2 & E2 & R2).
    + rewrite <- app_assoc. exact Hf.
    + intros x Hx. apply Keep; [|apply Hin; right; exact Hx].
      intros ->. assert (Nes : NoDup (done ++ e :: todo)) by (rewrite <- Hf; apply NoDup_filter; exact Nd).
      apply NoDup_remove_2 in Nes. apply Nes. apply in_or_app. right. exact Hx.
    + exists h2. split; [exact E2|]. rewrite <- app_assoc in R2. exact R2.
Qed.

Theorem remove_edges_heap_square_gen rr rt selidx es h lt : Rep h lt ->
  filter (selL es) (leids lt) = es ->
  (forall j x xi ch, nth_error (ledges lt) j = Some (x, xi, ch) -> selidx j xi (erase ch) = selL es x) ->
  exists h', remove_edges_heap rr rt es h = HOk h' /\ Good h' /\ abs h' = Some (remove_edges rr rt selidx (erase lt)).
Proof.
  intros R Hf Hs.
  destruct (remove_edges_heap_Rep rr rt es [] h lt) as (h' & Ev & R').
  - rewrite lremove_nil. exact R.
  - exact (rep_ned _ _ R).
  - exact Hf.
  - intros x Hx. rewrite lremove_nil. rewrite <- Hf in Hx. apply filter_In in Hx. exact (proj1 Hx).
  - exists h'. split; [exact Ev|]. split; [exact (Rep_Good _ _ R')|]. rewrite (Rep_abs _ _ R'). f_equal. cbn [app].
    unfold lremove, remove_edges.
    pose proof (rep_wf _ _ R) as W. destruct lt as [i n c sl]. apply lwf_iff in W. destruct W as [_ Wk].
    rewrite (erase_lproc_gen rr rt (selL es) selidx (LNode i n c sl) Wk true 0 0).
    + rewrite erase_eq, map_app. reflexivity.
    + intros j x xi ch Hj. cbn [Nat.add]. apply Hs. exact Hj.
Qed.

Theorem remove_edges_heap_square rr rt selidx es h lt : Rep h lt ->
  filter (selL es) (leids lt) = es ->
  (forall j x e c, nth_error (leids lt) j = Some x -> selidx j e c = selL es x) ->
  exists h', remove_edges_heap rr rt es h = HOk h' /\ Good h' /\ abs h' = Some (remove_edges rr rt selidx (erase lt)).
Proof.
  intros R Hf Hs. apply remove_edges_heap_square_gen; [exact R|exact Hf|].
  intros j x xi ch Hj. apply Hs. rewrite <- ledges_ids, nth_error_map, Hj. reflexivity.
Qed.

(** ** a selection on the data of the branch (CollapseShortBranches, CollapseLowSupport) *)
Lemma sel_records {A} (key : A -> nat) (g : A -> bool) : forall E : list A, NoDup (map key E) ->
  filter (selL (map key (filter g E))) (map key E) = map key (filter g E) /\
  forall r, In r E -> g r = selL (map key (filter g E)) (key r).
Proof.
  induction E as [|a E IH]; intros Nd; [split; [reflexivity|intros r []]|].
  cbn [map] in Nd. apply NoDup_cons_iff in Nd. destruct Nd as [Na Nd]. destruct (IH Nd) as [F1 F2].
  assert (Hnot : selL (map key (filter g E)) (key a) = false).
  { destruct (selL (map key (filter g E)) (key a)) eqn:E0; [|reflexivity]. apply selL_In in E0. exfalso. apply Na.
    apply in_map_iff in E0. destruct E0 as (r & Er & Hr). apply filter_In in Hr. apply in_map_iff. exists r. split; [exact Er|exact (proj1 Hr)]. }
  cbn [filter map]. destruct (g a) eqn:Ga; cbn [map filter].
  - split.
    + unfold selL at 1. cbn [existsb]. rewrite Nat.eqb_refl. cbn [orb]. f_equal. rewrite <- F1 at 2.
      apply filter_ext_in. intros y Hy. unfold selL. cbn [existsb]. destruct (Nat.eqb_spec y (key a)) as [->|_]; [contradiction|reflexivity].
    + intros r [<-|Hr]; [rewrite Ga; symmetry; apply selL_In; left; reflexivity|].
      rewrite (F2 r Hr). unfold selL. cbn [existsb]. destruct (Nat.eqb_spec (key r) (key a)) as [E0|_]; [|reflexivity].
      exfalso. apply Na. rewrite <- E0. apply in_map. exact Hr.
  - split.
    + rewrite Hnot. exact F1.
    + intros r [<-|Hr]; [rewrite Ga, Hnot; reflexivity|exact (F2 r Hr)].
Qed.

Theorem remove_edges_where_square rr rt (g : einfo -> bool) h t : Good h -> abs h = Some t ->
  exists lt h', dump h = Some lt /\ remove_edges_heap rr rt (ids_where g lt) h = HOk h' /\ Good h' /\
    abs h' = Some (remove_edges rr rt (fun _ e _ => g e) t).
Proof.
  intros G Ha. destruct (Good_abs_Rep h t G Ha) as (lt & R & <-).
  assert (Nd : NoDup (map (fun p : nat * einfo * ltree => fst (fst p)) (ledges lt))) by (rewrite ledges_ids; exact (rep_ned _ _ R)).
  destruct (sel_records (fun p : nat * einfo * ltree => fst (fst p)) (fun p => g (snd (fst p))) (ledges lt) Nd) as [F1 F2].
  rewrite ledges_ids in F1.
  destruct (remove_edges_heap_square_gen rr rt (fun _ e _ => g e) (ids_where g lt) h lt R F1) as (h' & Ev & G' & A').
  - intros j x xi ch Hj. exact (F2 (x, xi, ch) (nth_error_In _ _ Hj)).
  - exists lt, h'. split; [exact (Rep_dump _ _ R)|]. split; [exact Ev|]. split; [exact G'|exact A'].
Qed.

Lemma ids_from_cons k idx a L : ids_from k idx (a :: L) = if existsb (Nat.eqb k) idx then a :: ids_from (S k) idx L else ids_from (S k) idx L.
Proof. unfold ids_from. cbn [length seq combine filter fst]. destruct (existsb (Nat.eqb k) idx); reflexivity. Qed.

Lemma ids_from_incl k idx : forall L x, In x (ids_from k idx L) -> In x L.
Proof.
  intros L. revert k. induction L as [|a L IH]; intros k x H; [exact H|]. rewrite ids_from_cons in H.
  destruct (existsb (Nat.eqb k) idx); [destruct H as [<-|H]; [left; reflexivity|]|]; right; exact (IH _ _ H).
Qed.

Lemma ids_from_sel idx : forall L k j x, NoDup L -> nth_error L j = Some x -> existsb (Nat.eqb (k + j)) idx = selL (ids_from k idx L) x.
Proof.
  induction L as [|a L IH]; intros k j x Nd Hj; [destruct j; discriminate|]. apply NoDup_cons_iff in Nd. destruct Nd as [Na Nd].
  rewrite ids_from_cons. destruct j as [|j]; cbn [nth_error] in Hj.
  - injection Hj as ->. rewrite Nat.add_0_r. destruct (existsb (Nat.eqb k) idx) eqn:E.
    + symmetry. apply selL_In. left. reflexivity.
    + symmetry. destruct (selL (ids_from (S k) idx L) x) eqn:E2; [|reflexivity]. apply selL_In in E2. exfalso. apply Na. eapply ids_from_incl. exact E2.
  - replace (k + S j) with (S k + j) by lia. rewrite (IH (S k) j x Nd Hj).
    destruct (existsb (Nat.eqb k) idx); [|reflexivity]. unfold selL. cbn [existsb].
    destruct (Nat.eqb_spec x a) as [->|_]; [exfalso; apply Na; eapply nth_error_In; exact Hj|reflexivity].
Qed.

Lemma ids_from_filter idx : forall L k, NoDup L -> filter (selL (ids_from k idx L)) L = ids_from k idx L.
Proof.
  induction L as [|a L IH]; intros k Nd; [reflexivity|]. apply NoDup_cons_iff in Nd. destruct Nd as [Na Nd].
  rewrite ids_from_cons. cbn [filter]. destruct (existsb (Nat.eqb k) idx).
  - unfold selL at 1. cbn [existsb]. rewrite Nat.eqb_refl. cbn [orb]. f_equal. rewrite <- (IH (S k) Nd) at 2.
    apply filter_ext_in. intros y Hy. unfold selL. cbn [existsb]. destruct (Nat.eqb_spec y a) as [->|_]; [contradiction|reflexivity].
  - assert (E : selL (ids_from (S k) idx L) a = false).
    { destruct (selL (ids_from (S k) idx L) a) eqn:E2; [|reflexivity]. apply selL_In in E2. exfalso. apply Na. eapply ids_from_incl. exact E2. }
    rewrite E. apply IH. exact Nd.
Qed.

Theorem remove_edges_idx_heap_square rr rt idx h t : Good h -> abs h = Some t ->
  exists lt h', dump h = Some lt /\ remove_edges_heap rr rt (ids_at idx (leids lt)) h = HOk h' /\ Good h' /\
    abs h' = Some (remove_edges_idx rr rt idx t).
Proof.
  intros G Ha. destruct (Good_abs_Rep h t G Ha) as (lt & R & <-).
  destruct (remove_edges_heap_square rr rt (fun k _ _ => existsb (Nat.eqb k) idx) (ids_at idx (leids lt)) h lt R) as (h' & Ev & G' & A').
  - apply ids_from_filter. exact (rep_ned _ _ R).
  - intros j x _ _ Hj. exact (ids_from_sel idx (leids lt) 0 j x (rep_ned _ _ R) Hj).
  - exists lt, h'. split; [exact (Rep_dump _ _ R)|]. split; [exact Ev|]. split; [exact G'|exact A'].
Qed.
