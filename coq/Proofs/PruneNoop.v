(** C06: the name table after RemoveTips, including the call that removes nothing.  The model's
    table after a successful call ([tip_index_after orig t']) does not depend on the table [orig]
    that was there before (possibly stale: tips renamed or grafted since the last indexing, or no
    table at all): it lists exactly the tips of the result.  A call that selects no tip of the
    tree succeeds, returns the tree unchanged, and the look-ups (ExistsTip / TipNode / TipIndex,
    NbTips) answer for the current tips. *)
From Coq Require Import String ZArith QArith Bool Arith Lia List Permutation.
From GT Require Import Base.UTree Spec.Obs Model.Reroot Model.Prune Proofs.RerootBase Proofs.PruneBase Proofs.Prune Proofs.PruneTotal
     Proofs.OracleSets Proofs.PruneGenRoot Proofs.PruneLookup Judge.C06.
Import ListNotations.
Local Close Scope Q_scope.
Local Open Scope string_scope.
Local Arguments leaves : simpl never.

(** after any successful call whose result keeps a root with two neighbours, whatever [orig] was *)
Theorem table_after_success revert names t t' orig :
  wf t = true -> 2 <= degree t -> NoDup (leaves t) ->
  filter (kept revert names) (leaves t) <> [] ->
  remove_tips revert names t = Ok t' -> 2 <= degree t' ->
  tip_index_after orig t' = leaves t' /\ NoDup (leaves t') /\
  Permutation (leaves t') (filter (kept revert names) (leaves t)).
Proof.
  intros Hwf Hdeg Hnd Hrest Hr Hd'.
  destruct (remove_tips_okg revert names t t' Hwf Hdeg Hnd Hrest Hr) as [Hwf' [Hlv _]].
  unfold tip_index_after. rewrite tip_names_leaves by auto. split; auto. split; auto.
  eapply NoDup_perm; [symmetry; exact Hlv|]. now apply NoDup_filter'.
Qed.

(** in the strict domain (no single-child node) nothing else is needed *)
Theorem table_after_success_strict revert names t t' orig :
  wf t = true -> no_single t = true -> 2 <= degree t -> NoDup (leaves t) ->
  remove_tips revert names t = Ok t' -> 2 <= length (leaves t') ->
  Permutation (tip_index_after orig t') (leaves t') /\ NoDup (tip_index_after orig t') /\
  Permutation (leaves t') (filter (kept revert names) (leaves t)).
Proof.
  intros Hwf Hns Hdeg Hnd Hr H2.
  destruct (remove_tips_index revert names t t' Hwf Hns Hdeg Hnd Hr H2) as [I1 I2].
  destruct (remove_tips_ok revert names t t' Hwf Hns Hdeg Hnd Hr) as [_ [_ [Hlv _]]].
  unfold tip_index_after in *. split; [|split]; auto. now rewrite I1, Hlv.
Qed.

(** ** the call that removes nothing *)
Lemma noop_loop revert names t : forall todo,
  (forall x, In x todo -> has_tip x t = true /\ selected revert names x = false) ->
  remove_loop revert names todo t = Ok t.
Proof.
  induction todo as [|nm r IH]; intros H; simpl; auto.
  destruct (H nm (or_introl eq_refl)) as [H1 H2]. rewrite H1, H2. simpl. apply IH. intros x Hx. apply H. now right.
Qed.

Theorem noop_prune revert names t :
  wf t = true -> 2 <= degree t -> NoDup (leaves t) ->
  (forall x, In x (leaves t) -> selected revert names x = false) ->
  remove_tips revert names t = Ok t.
Proof.
  intros Hwf Hdeg Hnd Hsel. unfold remove_tips. rewrite noop_loop.
  - unfold update_tip_index. rewrite tip_names_nodup by (auto; lia). reflexivity.
  - rewrite tip_names_leaves by auto. intros x Hx. split; auto. now apply has_tip_leaf.
Qed.

(** no listed name is a tip (default mode), or every tip is listed (-r) *)
Corollary noop_absent names t :
  wf t = true -> 2 <= degree t -> NoDup (leaves t) ->
  (forall x, In x (leaves t) -> ~ In x names) -> remove_tips false names t = Ok t.
Proof.
  intros Hwf Hdeg Hnd H. apply noop_prune; auto. intros x Hx. unfold selected. now apply name_in_false, H.
Qed.
Corollary noop_keep_all names t :
  wf t = true -> 2 <= degree t -> NoDup (leaves t) ->
  (forall x, In x (leaves t) -> In x names) -> remove_tips true names t = Ok t.
Proof.
  intros Hwf Hdeg Hnd H. apply noop_prune; auto. intros x Hx. unfold selected.
  rewrite (name_in_In x names (H x Hx)). reflexivity.
Qed.

(** the look-ups after it: whatever the table was before the call, every name is answered as
    "a tip of the tree" exactly when it is one, and NbTips is the number of tips *)
Theorem noop_lookups orig t nm :
  wf t = true -> 2 <= degree t ->
  expect_lookup (tip_index_after orig t) t nm =
  if smem nm (leaves t) then mkLookup nm "T" "T" "T" else mkLookup nm "F" "F" "F".
Proof.
  intros Hwf Hdeg. unfold tip_index_after. rewrite tip_names_leaves by auto.
  rewrite expect_nonempty by (apply CollapseBase.leaves_nonempty).
  destruct (smem nm (leaves t)) eqn:E; auto. apply smem_In in E. now rewrite (has_tip_leaf t nm Hwf Hdeg E).
Qed.

Theorem noop_lookups_accepted orig t ls :
  wf t = true -> 2 <= degree t ->
  Forall (fun l => l = if smem (lname l) (leaves t) then mkLookup (lname l) "T" "T" "T" else mkLookup (lname l) "F" "F" "F") ls ->
  lookups_against (tip_index_after orig t) t ls (Z.of_nat (length (leaves t))) = None.
Proof.
  intros Hwf Hdeg HF. unfold lookups_against.
  assert (Hfind : find (fun l => negb (lookup_eqb l (expect_lookup (tip_index_after orig t) t (lname l)))) ls = None).
  { induction HF as [|l r Hl _ IH]; simpl; auto. rewrite noop_lookups by auto. rewrite <- Hl.
    assert (R : lookup_eqb l l = true) by (unfold lookup_eqb; now rewrite !String.eqb_refl).
    rewrite R. simpl. exact IH. }
  rewrite Hfind. unfold tip_index_after. rewrite tip_names_leaves by auto.
  destruct (leaves t) eqn:E; [exfalso; eapply CollapseBase.leaves_nonempty; eauto|].
  now rewrite Z.eqb_refl.
Qed.
