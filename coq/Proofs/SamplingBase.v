(** The finite space of choice vectors: [all_choices bounds] lists, without repetition, exactly
    the vectors within bounds; its size is the product of the bounds. *)
From Coq Require Import Bool Arith Lia List Permutation.
From GT Require Import Model.Sampling Spec.Counting.
Import ListNotations.

Lemma all_choices_cons b bs :
  all_choices (b :: bs) = flat_map (fun v => map (cons v) (all_choices bs)) (seq 0 b).
Proof. reflexivity. Qed.

Lemma all_choices_in bounds : forall cs, In cs (all_choices bounds) <-> in_bounds cs bounds.
Proof.
  unfold in_bounds. induction bounds as [|b bs IH]; intros cs; simpl.
  - split.
    + intros [<-|[]]. constructor.
    + intros H. inversion H. now left.
  - rewrite in_flat_map. split.
    + intros [v [Hv Hc]]. apply in_map_iff in Hc as [cs' [<- Hc]].
      apply in_seq in Hv. constructor; [lia|]. now apply IH.
    + intros H. inversion H as [|v b' cs' bs' Hv Hc]; subst.
      exists v. split; [apply in_seq; lia|]. apply in_map. now apply IH.
Qed.

Lemma all_choices_length bounds : length (all_choices bounds) = prod bounds.
Proof.
  induction bounds as [|b bs IH]; simpl; auto.
  assert (H : forall l, length (flat_map (fun v : nat => map (cons v) (all_choices bs)) l)
                        = length l * length (all_choices bs)).
  { induction l as [|x l IHl]; simpl; auto. rewrite app_length, map_length, IHl. lia. }
  rewrite H, seq_length, IH. reflexivity.
Qed.

Lemma NoDup_app_intro {A} (l1 l2 : list A) :
  NoDup l1 -> NoDup l2 -> (forall x, In x l1 -> In x l2 -> False) -> NoDup (l1 ++ l2).
Proof.
  induction l1 as [|a l1 IH]; simpl; intros H1 H2 Hd; auto.
  inversion H1; subst. constructor.
  - rewrite in_app_iff. intros [H|H]; [contradiction|]. eapply Hd; eauto.
  - apply IH; auto. intros x Hx. apply Hd. now right.
Qed.

Lemma NoDup_flat_map_disjoint {A B} (f : A -> list B) (l : list A) :
  NoDup l -> (forall a, In a l -> NoDup (f a)) ->
  (forall a a' b, In a l -> In a' l -> In b (f a) -> In b (f a') -> a = a') ->
  NoDup (flat_map f l).
Proof.
  induction l as [|x l IH]; intros Hnd Hf Hdis; simpl; [constructor|].
  inversion Hnd; subst.
  apply NoDup_app_intro.
  - apply Hf. now left.
  - apply IH; auto.
    + intros a Ha. apply Hf. now right.
    + intros a a' b Ha Ha'. apply Hdis; now right.
  - intros b Hb Hb'. apply in_flat_map in Hb' as [a' [Ha' Hb']].
    assert (x = a') by (eapply Hdis; eauto; [now left|now right]). subst. contradiction.
Qed.

Lemma all_choices_NoDup bounds : NoDup (all_choices bounds).
Proof.
  induction bounds as [|b bs IH]; simpl.
  - constructor; [intros []|constructor].
  - apply NoDup_flat_map_disjoint.
    + apply seq_NoDup.
    + intros v _. apply FinFun.Injective_map_NoDup; auto. intros x y H. now inversion H.
    + intros a a' c _ _ Hc Hc'. apply in_map_iff in Hc as [x [<- _]].
      apply in_map_iff in Hc' as [y [E _]]. now inversion E.
Qed.

Lemma in_bounds_length cs bounds : in_bounds cs bounds -> length cs = length bounds.
Proof. unfold in_bounds. induction 1; simpl; auto. Qed.

Lemma in_bounds_app cs1 cs2 b1 b2 :
  in_bounds cs1 b1 -> in_bounds cs2 b2 -> in_bounds (cs1 ++ cs2) (b1 ++ b2).
Proof. unfold in_bounds. apply Forall2_app. Qed.

Lemma in_bounds_app_inv cs b1 b2 :
  in_bounds cs (b1 ++ b2) ->
  exists cs1 cs2, cs = cs1 ++ cs2 /\ in_bounds cs1 b1 /\ in_bounds cs2 b2.
Proof.
  unfold in_bounds. intros H. apply Forall2_app_inv_r in H as [l1 [l2 [H1 [H2 E]]]]. eauto.
Qed.

Lemma count_where_app {A} (p : A -> bool) l1 l2 :
  count_where p (l1 ++ l2) = count_where p l1 + count_where p l2.
Proof. unfold count_where. now rewrite filter_app, app_length. Qed.

Lemma count_where_flat_map {A B} (p : B -> bool) (f : A -> list B) l :
  count_where p (flat_map f l) = fold_right (fun a acc => count_where p (f a) + acc) 0 l.
Proof. induction l as [|x l IH]; simpl; auto. now rewrite count_where_app, IH. Qed.

Lemma count_where_map {A B} (p : B -> bool) (f : A -> B) l :
  count_where p (map f l) = count_where (fun a => p (f a)) l.
Proof.
  unfold count_where. induction l as [|x l IH]; simpl; auto.
  destruct (p (f x)); simpl; now rewrite IH.
Qed.

Lemma count_where_ext {A} (p q : A -> bool) l :
  (forall a, In a l -> p a = q a) -> count_where p l = count_where q l.
Proof.
  unfold count_where. induction l as [|x l IH]; intros H; simpl; auto.
  rewrite (H x) by now left. destruct (q x); simpl; rewrite IH; auto; intros; apply H; now right.
Qed.
