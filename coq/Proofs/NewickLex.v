(** Lexer facts for Model/Newick.v: [span], [scan], [scan_iw], [consume_comment] consume
    input; what they return on the tokens the writer emits; characterisation of
    [consume_comment]. *)
From Coq Require Import String Ascii ZArith QArith Bool Arith Lia List.
From GT Require Import Base.UTree Model.Newick Spec.NewickSpec.
Import ListNotations.
Local Close Scope Q_scope.
Local Open Scope string_scope.

Ltac break_match :=
  match goal with
  | |- context [match ?x with _ => _ end] => destruct x eqn:?
  end.
Ltac break_match_hyp :=
  match goal with
  | H : context [match ?x with _ => _ end] |- _ => destruct x eqn:?
  end.

Ltac ascii_eqs :=
  repeat match goal with
         | H : Ascii.eqb _ _ = true |- _ => apply Ascii.eqb_eq in H
         | H : (_ && _)%bool = true |- _ => apply andb_true_iff in H; destruct H
         end.

(** * strings *)
Lemma app_empty_r : forall s : string, s ++ "" = s.
Proof. induction s; simpl; congruence. Qed.

Lemma app_assoc_s : forall a b c : string, (a ++ b) ++ c = a ++ (b ++ c).
Proof. induction a; simpl; intros; congruence. Qed.

Lemma length_app_s : forall a b : string, String.length (a ++ b) = String.length a + String.length b.
Proof. induction a; simpl; intros; auto. Qed.

Lemma forall_chars_app : forall p a b,
    forall_chars p (a ++ b) = forall_chars p a && forall_chars p b.
Proof.
  induction a; simpl; intros; [reflexivity|]. rewrite IHa. apply andb_assoc.
Qed.

Lemma forall_chars_impl : forall (p q : ascii -> bool) s,
    (forall c, p c = true -> q c = true) -> forall_chars p s = true -> forall_chars q s = true.
Proof.
  induction s; simpl; intros Hpq H; [reflexivity|].
  apply andb_true_iff in H. destruct H. rewrite (Hpq _ H), (IHs Hpq H0). reflexivity.
Qed.

Definition no_nul (s : string) : bool := forall_chars (fun c => negb (is_nul c)) s.

(** * span *)
Lemma span_length : forall p s a b, span p s = (a, b) ->
    String.length a + String.length b <= String.length s.
Proof.
  induction s; simpl; intros a0 b H.
  - inversion H; simpl; lia.
  - destruct (is_nul a); [inversion H; subst; simpl; lia|].
    destruct (p a).
    + destruct (span p s) as [x y] eqn:E. inversion H; subst. specialize (IHs x b eq_refl). simpl. lia.
    + inversion H; subst. simpl. lia.
Qed.

(** [span] stops exactly at the end of a block of good characters followed by a bad one *)
Definition stops_at (p : ascii -> bool) (s : string) : bool :=
  match s with String c _ => negb (p c) && negb (is_nul c) | EmptyString => true end.

Lemma span_exact : forall p a rest,
    forall_chars p a = true -> no_nul a = true -> stops_at p rest = true -> span p (a ++ rest) = (a, rest).
Proof.
  induction a; simpl; intros rest Ha Hn Hr.
  - destruct rest as [|c r]; simpl in *; [reflexivity|].
    apply andb_true_iff in Hr. destruct Hr as [Hr1 Hr2].
    apply negb_true_iff in Hr1. apply negb_true_iff in Hr2. rewrite Hr1, Hr2. reflexivity.
  - apply andb_true_iff in Ha. destruct Ha as [Ha1 Ha2].
    unfold no_nul in Hn. simpl in Hn. apply andb_true_iff in Hn. destruct Hn as [Hn1 Hn2].
    apply negb_true_iff in Hn1. rewrite Hn1, Ha1.
    rewrite (IHa rest Ha2 Hn2 Hr). reflexivity.
Qed.

(** ... and somewhere inside a string that contains a bad character *)
Lemma span_stop_inside : forall p a d k,
    p d = false -> is_nul d = false -> no_nul a = true ->
    exists a1 a2, a = a1 ++ a2 /\ span p (a ++ String d k) = (a1, a2 ++ String d k).
Proof.
  induction a; simpl; intros d k Hd Hz Hn.
  - exists "", "". rewrite Hd, Hz. split; reflexivity.
  - unfold no_nul in Hn. simpl in Hn. apply andb_true_iff in Hn. destruct Hn as [Hn1 Hn2].
    apply negb_true_iff in Hn1. rewrite Hn1.
    destruct (p a) eqn:E.
    + destruct (IHa d k Hd Hz Hn2) as [a1 [a2 [Heq Hs]]]. rewrite Hs.
      exists (String a a1), a2. split; [simpl; congruence|reflexivity].
    + exists "", (String a a0). split; reflexivity.
Qed.

Section Lex.
  Variable numeric : string -> bool.

  (** every token but EOF has a non-empty literal; every scan consumes what it returns *)
  Lemma scan_lit_nonempty : forall ign s tok lit r,
      scan numeric ign s = (tok, lit, r) -> tok <> EOF -> lit <> "".
  Proof.
    intros ign s tok lit r H Hne. destruct s as [|c s]; simpl in H.
    - inversion H; subst. congruence.
    - repeat break_match_hyp; inversion H; subst; try discriminate; congruence.
  Qed.

  Lemma scan_consumes : forall ign s tok lit r,
      scan numeric ign s = (tok, lit, r) -> String.length lit + String.length r <= String.length s.
  Proof.
    intros ign s tok lit r H. destruct s as [|c s]; simpl in H.
    - inversion H; simpl; lia.
    - repeat break_match_hyp; inversion H; subst; simpl; try lia;
        match goal with E : span _ _ = _ |- _ => apply span_length in E; lia end.
  Qed.

  Lemma scan_length_le : forall ign s tok lit r,
      scan numeric ign s = (tok, lit, r) -> String.length r <= String.length s.
  Proof. intros ign s tok lit r H. apply scan_consumes in H. lia. Qed.

  Lemma scan_length : forall ign s tok lit r,
      scan numeric ign s = (tok, lit, r) -> tok <> EOF -> String.length r < String.length s.
  Proof.
    intros ign s tok lit r H Hne.
    pose proof (scan_consumes _ _ _ _ _ H). pose proof (scan_lit_nonempty _ _ _ _ _ H Hne).
    destruct lit; [congruence|simpl in *; lia].
  Qed.

  Lemma scan_iw_spec : forall s tok lit r pre,
      scan_iw numeric s = (tok, lit, r, pre) ->
      scan numeric false pre = (tok, lit, r) /\ String.length pre <= String.length s.
  Proof.
    intros s tok lit r pre H. unfold scan_iw in H.
    destruct (scan numeric false s) as [[t l] r0] eqn:E.
    destruct t; try (inversion H; subst; split; [assumption|lia]).
    destruct (scan numeric false r0) as [[t2 l2] r2] eqn:E2. inversion H; subst.
    split; [assumption|]. eapply scan_length_le; eassumption.
  Qed.

  Lemma scan_iw_length : forall s tok lit r pre,
      scan_iw numeric s = (tok, lit, r, pre) -> tok <> EOF -> String.length r < String.length s.
  Proof.
    intros s tok lit r pre H Hne. apply scan_iw_spec in H. destruct H as [H Hl].
    pose proof (scan_length _ _ _ _ _ H Hne). lia.
  Qed.

  Lemma scan_iw_length_le : forall s tok lit r pre,
      scan_iw numeric s = (tok, lit, r, pre) -> String.length r <= String.length s.
  Proof.
    intros s tok lit r pre H. apply scan_iw_spec in H. destruct H as [H Hl].
    pose proof (scan_length_le _ _ _ _ _ H). lia.
  Qed.

  (** * consume_comment *)
  Lemma consume_no_fuel : forall fuel acc s,
      String.length s < fuel -> consume_comment numeric fuel acc s <> CFuel.
  Proof.
    induction fuel; intros acc s Hlt; [lia|]. simpl.
    destruct (scan numeric true s) as [[tok lit] r] eqn:E.
    destruct tok; try discriminate;
      (apply IHfuel; pose proof (scan_length _ _ _ _ _ E ltac:(discriminate)); lia).
  Qed.

  Lemma consume_length : forall fuel acc s c r,
      consume_comment numeric fuel acc s = COk c r -> String.length r < String.length s.
  Proof.
    induction fuel; intros acc s c r H; [discriminate|]. simpl in H.
    destruct (scan numeric true s) as [[tok lit] r0] eqn:E.
    pose proof (scan_length_le _ _ _ _ _ E) as Hle.
    destruct tok; try discriminate;
      try (apply IHfuel in H; lia).
    inversion H; subst. eapply scan_length; [eassumption|discriminate].
  Qed.

  (** * identifiers and numbers *)
  Lemma scan_ident : forall n rest,
      n <> "" ->
      match n with String c _ => is_ws c = false | EmptyString => True end ->
      forall_chars (is_ident false) n = true -> no_nul n = true ->
      stops_at (is_ident false) rest = true ->
      scan numeric false (n ++ rest) = (if numeric n then NUMERIC else IDENT, n, rest).
  Proof.
    intros n rest Hne Hws Hall Hnn Hstop. destruct n as [|c n]; [congruence|].
    simpl in Hall. apply andb_true_iff in Hall. destruct Hall as [Hc Hn].
    unfold no_nul in Hnn. simpl in Hnn. apply andb_true_iff in Hnn. destruct Hnn as [Hz Hnn].
    apply negb_true_iff in Hz.
    simpl. rewrite Hz, Hws.
    unfold is_ident, is_meta in Hc.
    destruct (Ascii.eqb c "[") eqn:E3, (Ascii.eqb c "]") eqn:E4, (Ascii.eqb c "(") eqn:E1,
             (Ascii.eqb c ")") eqn:E2, (Ascii.eqb c ",") eqn:E5, (Ascii.eqb c ":") eqn:E7,
             (Ascii.eqb c ";") eqn:E6; simpl in Hc; try discriminate.
    simpl. rewrite (span_exact _ _ _ Hn Hnn Hstop). reflexivity.
  Qed.

  Lemma scan_iw_direct : forall s tok lit r,
      scan numeric false s = (tok, lit, r) -> tok <> WS -> scan_iw numeric s = (tok, lit, r, s).
  Proof.
    intros s tok lit r H Hne. unfold scan_iw. rewrite H. destruct tok; congruence.
  Qed.

  Lemma scan_iw_ident : forall n rest,
      n <> "" ->
      match n with String c _ => is_ws c = false | EmptyString => True end ->
      forall_chars (is_ident false) n = true -> no_nul n = true ->
      stops_at (is_ident false) rest = true ->
      scan_iw numeric (n ++ rest) = (if numeric n then NUMERIC else IDENT, n, rest, n ++ rest).
  Proof.
    intros. apply scan_iw_direct; [apply scan_ident; assumption|].
    destruct (numeric n); discriminate.
  Qed.

  (** * consume_comment reads up to the first "]" *)
  Lemma comment_chars_split : forall a b,
      forall_chars comment_char (a ++ b) = true ->
      forall_chars comment_char a = true /\ forall_chars comment_char b = true.
  Proof. intros a b H. rewrite forall_chars_app in H. apply andb_true_iff in H. exact H. Qed.

  Lemma comment_no_nul : forall c, forall_chars comment_char c = true -> no_nul c = true.
  Proof.
    intros c H. unfold no_nul. eapply forall_chars_impl; [|exact H].
    intros x Hx. unfold comment_char in Hx. apply andb_true_iff in Hx. tauto.
  Qed.

  Lemma scan_in_comment : forall a c k,
      comment_char a = true ->
      forall_chars comment_char c = true ->
      exists tok lit c',
        scan numeric true (String a (c ++ String "]" k)) = (tok, lit, c' ++ String "]" k) /\
        String a c = lit ++ c' /\ tok <> CLOSEBRACK /\ tok <> EOF /\ tok <> ILLEGAL /\
        forall_chars comment_char c' = true.
  Proof.
    intros a c k Ha Hc.
    unfold comment_char in Ha. apply andb_true_iff in Ha. destruct Ha as [Ha Hz].
    apply negb_true_iff in Ha. apply negb_true_iff in Hz.
    assert (Hsub : forall (p : ascii -> bool), p "]"%char = false ->
              exists a1 a2, c = a1 ++ a2 /\ span p (c ++ String "]" k) = (a1, a2 ++ String "]" k) /\
                            forall_chars comment_char a2 = true).
    { intros p Hp. destruct (span_stop_inside p c "]" k Hp eq_refl (comment_no_nul c Hc)) as [a1 [a2 [Heq Hs]]].
      exists a1, a2. split; [assumption|]. split; [assumption|].
      subst c. apply comment_chars_split in Hc. tauto. }
    simpl. rewrite Hz. destruct (is_ws a) eqn:Ews.
    - destruct (Hsub is_ws eq_refl) as [a1 [a2 [Heq [Hs Hok]]]]. rewrite Hs.
      exists WS, (String a a1), a2. subst c. repeat split; try discriminate; assumption.
    - destruct (Ascii.eqb a "(") eqn:E1.
      { exists OPENPAR, "(", c. apply Ascii.eqb_eq in E1. subst a. repeat split; try discriminate; assumption. }
      destruct (Ascii.eqb a ")") eqn:E2.
      { exists CLOSEPAR, ")", c. apply Ascii.eqb_eq in E2. subst a. repeat split; try discriminate; assumption. }
      destruct (Ascii.eqb a "[") eqn:E3.
      { exists OPENBRACK, "[", c. apply Ascii.eqb_eq in E3. subst a. repeat split; try discriminate; assumption. }
      rewrite Ha.
      destruct (Ascii.eqb a ",") eqn:E5.
      { exists NEWSIBLING, ",", c. apply Ascii.eqb_eq in E5. subst a. repeat split; try discriminate; assumption. }
      rewrite andb_false_r.
      destruct (Ascii.eqb a ":") eqn:E7.
      { exists STARTLEN, ":", c. apply Ascii.eqb_eq in E7. subst a. repeat split; try discriminate; assumption. }
      destruct (Hsub (is_ident true) eq_refl) as [a1 [a2 [Heq [Hs Hok]]]]. rewrite Hs.
      exists (if numeric (String a a1) then NUMERIC else IDENT), (String a a1), a2. subst c.
      repeat split; try assumption; destruct (numeric (String a a1)); discriminate.
  Qed.

  Lemma consume_comment_spec : forall fuel c acc k,
      String.length c < fuel ->
      forall_chars comment_char c = true ->
      consume_comment numeric fuel acc (c ++ String "]" k) = COk (acc ++ c) k.
  Proof.
    induction fuel; intros c acc k Hlt Hc; [lia|].
    destruct c as [|a c].
    - simpl. rewrite app_empty_r. reflexivity.
    - simpl in Hc. apply andb_true_iff in Hc. destruct Hc as [Ha Hc].
      destruct (scan_in_comment a c k Ha Hc) as [tok [lit [c' [Hs [Heq [H1 [H2 [H3 Hok]]]]]]]].
      change (String a c ++ String "]" k) with (String a (c ++ String "]" k)).
      cbn [consume_comment]. rewrite Hs.
      assert (Hlen : String.length c' < fuel).
      { assert (String.length (String a c) = String.length (lit ++ c')) by congruence.
        pose proof (scan_lit_nonempty _ _ _ _ _ Hs H2) as Hl.
        rewrite length_app_s in H. simpl in H, Hlt. destruct lit; [congruence|simpl in H; lia]. }
      destruct tok; try congruence;
        (rewrite (IHfuel c' (acc ++ lit) k Hlen Hok); rewrite app_assoc_s; rewrite <- Heq; reflexivity).
  Qed.
End Lex.
