(** Lexer facts for Model/Newick.v: [span], [scan], [scan_iw], [consume_comment] consume
    input; characterisation of [consume_comment]. *)
From Coq Require Import String Ascii ZArith QArith Bool Arith Lia List.
From GT Require Import Base.UTree Model.Newick Spec.NewickSpec.
Import ListNotations.
Local Close Scope Q_scope.
Local Open Scope string_scope.

Ltac break_match :=
  match goal with
  | |- context [match ?x with _ => _ end] => destruct x eqn:?
  end.
Ltac break_match_hyp :=
  match goal with
  | H : context [match ?x with _ => _ end] |- _ => destruct x eqn:?
  end.

Ltac ascii_eqs :=
  repeat match goal with
         | H : Ascii.eqb _ _ = true |- _ => apply Ascii.eqb_eq in H
         | H : (_ && _)%bool = true |- _ => apply andb_true_iff in H; destruct H
         end.

(** * strings *)
Lemma app_empty_r : forall s : string, s ++ "" = s.
Proof. induction s; simpl; congruence. Qed.

Lemma app_assoc_s : forall a b c : string, (a ++ b) ++ c = a ++ (b ++ c).
Proof. induction a; simpl; intros; congruence. Qed.

Lemma length_app_s : forall a b : string, String.length (a ++ b) = String.length a + String.length b.
Proof. induction a; simpl; intros; auto. Qed.

(** * span *)
Lemma span_app : forall p s a b, span p s = (a, b) -> s = a ++ b.
Proof.
  induction s; simpl; intros a0 b H.
  - inversion H; reflexivity.
  - destruct (p a).
    + destruct (span p s) as [x y] eqn:E. inversion H; subst. simpl. f_equal. apply IHs. reflexivity.
    + inversion H; subst. reflexivity.
Qed.

Lemma span_length : forall p s a b, span p s = (a, b) -> String.length b <= String.length s.
Proof.
  intros p s a b H. apply span_app in H. subst. rewrite length_app_s. lia.
Qed.



(** [span] stops exactly at the end of a block of good characters followed by a bad one *)
Definition stops_at (p : ascii -> bool) (s : string) : bool :=
  match s with String c _ => negb (p c) | EmptyString => true end.

Lemma span_exact : forall p a rest,
    forall_chars p a = true -> stops_at p rest = true -> span p (a ++ rest) = (a, rest).
Proof.
  induction a; simpl; intros rest Ha Hr.
  - destruct rest as [|c r]; simpl in *; [reflexivity|].
    apply negb_true_iff in Hr. rewrite Hr. reflexivity.
  - apply andb_true_iff in Ha. destruct Ha as [Ha1 Ha2]. rewrite Ha1.
    rewrite (IHa rest Ha2 Hr). reflexivity.
Qed.

(** ... and somewhere inside a string that contains a bad character *)
Lemma span_stop_inside : forall p a d k,
    p d = false -> exists a1 a2, a = a1 ++ a2 /\ span p (a ++ String d k) = (a1, a2 ++ String d k).
Proof.
  induction a; simpl; intros d k Hd.
  - exists "", "". rewrite Hd. split; reflexivity.
  - destruct (p a) eqn:E.
    + destruct (IHa d k Hd) as [a1 [a2 [Heq Hs]]]. rewrite Hs.
      exists (String a a1), a2. split; [simpl; congruence|reflexivity].
    + exists "", (String a a0). split; reflexivity.
Qed.

Lemma forall_chars_app : forall p a b,
    forall_chars p (a ++ b) = forall_chars p a && forall_chars p b.
Proof.
  induction a; simpl; intros; [reflexivity|]. rewrite IHa. apply andb_assoc.
Qed.

Lemma forall_chars_impl : forall (p q : ascii -> bool) s,
    (forall c, p c = true -> q c = true) -> forall_chars p s = true -> forall_chars q s = true.
Proof.
  induction s; simpl; intros Hpq H; [reflexivity|].
  apply andb_true_iff in H. destruct H. rewrite (Hpq _ H), (IHs Hpq H0). reflexivity.
Qed.

Section Lex.
  Variable numeric : string -> bool.

  (** every token but EOF consumes at least one character *)
  Lemma scan_app : forall ign s tok lit r,
      scan numeric ign s = (tok, lit, r) -> s = lit ++ r.
  Proof.
    intros ign s tok lit r H. destruct s as [|c s]; simpl in H.
    - inversion H; reflexivity.
    - repeat break_match_hyp; inversion H; subst; ascii_eqs; subst; simpl; try reflexivity;
        f_equal; eapply span_app; eassumption.
  Qed.

  Lemma scan_eof : forall ign s lit r, scan numeric ign s = (EOF, lit, r) -> s = "" /\ lit = "" /\ r = "".
  Proof.
    intros ign s lit r H. destruct s as [|c s]; simpl in H.
    - inversion H; auto.
    - repeat break_match_hyp; inversion H.
  Qed.

  Lemma scan_lit_nonempty : forall ign s tok lit r,
      scan numeric ign s = (tok, lit, r) -> tok <> EOF -> lit <> "".
  Proof.
    intros ign s tok lit r H Hne. destruct s as [|c s]; simpl in H.
    - inversion H; subst. congruence.
    - repeat break_match_hyp; inversion H; subst; discriminate.
  Qed.

  Lemma scan_length : forall ign s tok lit r,
      scan numeric ign s = (tok, lit, r) -> tok <> EOF -> String.length r < String.length s.
  Proof.
    intros ign s tok lit r H Hne.
    pose proof (scan_app _ _ _ _ _ H) as Happ.
    pose proof (scan_lit_nonempty _ _ _ _ _ H Hne) as Hl.
    subst s. rewrite length_app_s. destruct lit; [congruence|simpl; lia].
  Qed.

  Lemma scan_length_le : forall ign s tok lit r,
      scan numeric ign s = (tok, lit, r) -> String.length r <= String.length s.
  Proof.
    intros ign s tok lit r H. apply scan_app in H. subst. rewrite length_app_s. lia.
  Qed.

  (** a WS token is a maximal run: the next token is not WS *)
  Lemma span_ws_next : forall s a b, span is_ws s = (a, b) ->
      match b with String c _ => is_ws c = false | EmptyString => True end.
  Proof.
    induction s; simpl; intros x y H.
    - inversion H; exact I.
    - destruct (is_ws a) eqn:E.
      + destruct (span is_ws s) as [u v] eqn:E2. inversion H; subst. eapply IHs; reflexivity.
      + inversion H; subst. exact E.
  Qed.

  Lemma scan_ws_rest : forall s lit r, scan numeric false s = (WS, lit, r) ->
      match r with String c _ => is_ws c = false | EmptyString => True end.
  Proof.
    intros s lit r H. destruct s as [|c s]; simpl in H; [inversion H|].
    destruct (is_ws c) eqn:E.
    - destruct (span is_ws s) as [u v] eqn:E2. inversion H; subst. eapply span_ws_next; eassumption.
    - repeat break_match_hyp; inversion H.
  Qed.

  Lemma scan_not_ws_start : forall ign c s tok lit r,
      is_ws c = false -> scan numeric ign (String c s) = (tok, lit, r) -> tok <> WS.
  Proof.
    intros ign c s tok lit r Hc H. simpl in H. rewrite Hc in H.
    repeat break_match_hyp; inversion H; subst; discriminate.
  Qed.

  Lemma scan_iw_spec : forall s tok lit r pre,
      scan_iw numeric s = (tok, lit, r, pre) ->
      scan numeric false pre = (tok, lit, r) /\ String.length pre <= String.length s /\ tok <> WS.
  Proof.
    intros s tok lit r pre H. unfold scan_iw in H.
    destruct (scan numeric false s) as [[t l] r0] eqn:E.
    destruct t; try (inversion H; subst; split; [assumption|split; [lia|discriminate]]).
    destruct (scan numeric false r0) as [[t2 l2] r2] eqn:E2. inversion H; subst.
    split; [assumption|]. split.
    - eapply scan_length_le; eassumption.
    - pose proof (scan_ws_rest _ _ _ E) as Hr. destruct pre as [|c p].
      + simpl in E2. inversion E2. discriminate.
      + eapply scan_not_ws_start; eassumption.
  Qed.

  Lemma scan_iw_length : forall s tok lit r pre,
      scan_iw numeric s = (tok, lit, r, pre) -> tok <> EOF -> String.length r < String.length s.
  Proof.
    intros s tok lit r pre H Hne. apply scan_iw_spec in H. destruct H as [H [Hl _]].
    pose proof (scan_length _ _ _ _ _ H Hne). lia.
  Qed.

  Lemma scan_iw_length_le : forall s tok lit r pre,
      scan_iw numeric s = (tok, lit, r, pre) -> String.length r <= String.length s.
  Proof.
    intros s tok lit r pre H. apply scan_iw_spec in H. destruct H as [H [Hl _]].
    pose proof (scan_length_le _ _ _ _ _ H). lia.
  Qed.

  (** * consume_comment *)
  Lemma consume_no_fuel : forall fuel acc s,
      String.length s < fuel -> consume_comment numeric fuel acc s <> CFuel.
  Proof.
    induction fuel; intros acc s Hlt; [lia|]. simpl.
    destruct (scan numeric true s) as [[tok lit] r] eqn:E.
    destruct tok; try discriminate;
      (apply IHfuel; pose proof (scan_length _ _ _ _ _ E ltac:(discriminate)); lia).
  Qed.

  Lemma consume_length : forall fuel acc s c r,
      consume_comment numeric fuel acc s = COk c r -> String.length r < String.length s.
  Proof.
    induction fuel; intros acc s c r H; [discriminate|]. simpl in H.
    destruct (scan numeric true s) as [[tok lit] r0] eqn:E.
    pose proof (scan_length_le _ _ _ _ _ E) as Hle.
    destruct tok; try discriminate;
      try (apply IHfuel in H; lia).
    inversion H; subst. eapply scan_length; [eassumption|discriminate].
  Qed.

  (** * identifiers and numbers *)
  Lemma scan_ident : forall n rest,
      n <> "" ->
      match n with String c _ => is_ws c = false | EmptyString => True end ->
      forall_chars (is_ident false) n = true ->
      stops_at (is_ident false) rest = true ->
      scan numeric false (n ++ rest) = (if numeric n then NUMERIC else IDENT, n, rest).
  Proof.
    intros n rest Hne Hws Hall Hstop. destruct n as [|c n]; [congruence|].
    simpl in Hall. apply andb_true_iff in Hall. destruct Hall as [Hc Hn].
    simpl. rewrite Hws.
    unfold is_ident, is_meta in Hc.
    destruct (Ascii.eqb c "[") eqn:E3, (Ascii.eqb c "]") eqn:E4, (Ascii.eqb c "(") eqn:E1,
             (Ascii.eqb c ")") eqn:E2, (Ascii.eqb c ",") eqn:E5, (Ascii.eqb c ":") eqn:E7,
             (Ascii.eqb c ";") eqn:E6; simpl in Hc; try discriminate.
    simpl. rewrite (span_exact _ _ _ Hn Hstop). reflexivity.
  Qed.

  Lemma scan_iw_direct : forall s tok lit r,
      scan numeric false s = (tok, lit, r) -> tok <> WS -> scan_iw numeric s = (tok, lit, r, s).
  Proof.
    intros s tok lit r H Hne. unfold scan_iw. rewrite H. destruct tok; congruence.
  Qed.

  Lemma scan_iw_ident : forall n rest,
      n <> "" ->
      match n with String c _ => is_ws c = false | EmptyString => True end ->
      forall_chars (is_ident false) n = true ->
      stops_at (is_ident false) rest = true ->
      scan_iw numeric (n ++ rest) = (if numeric n then NUMERIC else IDENT, n, rest, n ++ rest).
  Proof.
    intros. apply scan_iw_direct; [apply scan_ident; assumption|].
    destruct (numeric n); discriminate.
  Qed.

  (** * consume_comment reads up to the first "]" *)
  Lemma scan_in_comment : forall a c k,
      Ascii.eqb a "]" = false ->
      forall_chars (fun x => negb (Ascii.eqb x "]")) c = true ->
      exists tok lit c',
        scan numeric true (String a (c ++ String "]" k)) = (tok, lit, c' ++ String "]" k) /\
        String a c = lit ++ c' /\ tok <> CLOSEBRACK /\ tok <> EOF /\ tok <> ILLEGAL /\
        forall_chars (fun x => negb (Ascii.eqb x "]")) c' = true.
  Proof.
    intros a c k Ha Hc.
    assert (Hsub : forall (p : ascii -> bool), p "]"%char = false ->
              exists a1 a2, c = a1 ++ a2 /\ span p (c ++ String "]" k) = (a1, a2 ++ String "]" k) /\ forall_chars (fun x => negb (Ascii.eqb x "]")) a2 = true).
    { intros p Hp. destruct (span_stop_inside p c "]" k Hp) as [a1 [a2 [Heq Hs]]].
      exists a1, a2. split; [assumption|]. split; [assumption|].
      subst c. rewrite forall_chars_app in Hc. apply andb_true_iff in Hc. tauto. }
    simpl. destruct (is_ws a) eqn:Ews.
    - destruct (Hsub is_ws eq_refl) as [a1 [a2 [Heq [Hs Hok]]]]. rewrite Hs.
      exists WS, (String a a1), a2. subst c. repeat split; try discriminate; assumption.
    - destruct (Ascii.eqb a "(") eqn:E1.
      { exists OPENPAR, "(", c. apply Ascii.eqb_eq in E1. subst a. repeat split; try discriminate; assumption. }
      destruct (Ascii.eqb a ")") eqn:E2.
      { exists CLOSEPAR, ")", c. apply Ascii.eqb_eq in E2. subst a. repeat split; try discriminate; assumption. }
      destruct (Ascii.eqb a "[") eqn:E3.
      { exists OPENBRACK, "[", c. apply Ascii.eqb_eq in E3. subst a. repeat split; try discriminate; assumption. }
      rewrite Ha.
      destruct (Ascii.eqb a ",") eqn:E5.
      { exists NEWSIBLING, ",", c. apply Ascii.eqb_eq in E5. subst a. repeat split; try discriminate; assumption. }
      rewrite andb_false_r.
      destruct (Ascii.eqb a ":") eqn:E7.
      { exists STARTLEN, ":", c. apply Ascii.eqb_eq in E7. subst a. repeat split; try discriminate; assumption. }
      destruct (Hsub (is_ident true) eq_refl) as [a1 [a2 [Heq [Hs Hok]]]]. rewrite Hs.
      exists (if numeric (String a a1) then NUMERIC else IDENT), (String a a1), a2. subst c.
      repeat split; try assumption; destruct (numeric (String a a1)); discriminate.
  Qed.

  Lemma consume_comment_spec : forall fuel c acc k,
      String.length c < fuel ->
      forall_chars (fun x => negb (Ascii.eqb x "]")) c = true ->
      consume_comment numeric fuel acc (c ++ String "]" k) = COk (acc ++ c) k.
  Proof.
    induction fuel; intros c acc k Hlt Hc; [lia|].
    destruct c as [|a c].
    - simpl. rewrite app_empty_r. reflexivity.
    - simpl in Hc. apply andb_true_iff in Hc. destruct Hc as [Ha Hc]. apply negb_true_iff in Ha.
      destruct (scan_in_comment a c k Ha Hc) as [tok [lit [c' [Hs [Heq [H1 [H2 [H3 Hok]]]]]]]].
      change (String a c ++ String "]" k) with (String a (c ++ String "]" k)).
      cbn [consume_comment]. rewrite Hs.
      assert (Hlen : String.length c' < fuel).
      { assert (String.length (String a c) = String.length (lit ++ c')) by congruence.
        pose proof (scan_lit_nonempty _ _ _ _ _ Hs H2) as Hl.
        rewrite length_app_s in H. simpl in H, Hlt. destruct lit; [congruence|simpl in H; lia]. }
      destruct tok; try congruence;
        (rewrite (IHfuel c' (acc ++ lit) k Hlen Hok); rewrite app_assoc_s; rewrite <- Heq; reflexivity).
  Qed.
End Lex.
