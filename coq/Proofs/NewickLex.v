(** Lexer facts for Model/Newick.v: [span], [scan], [scan_iw], [consume_comment] consume
    input; characterisation of [consume_comment]. *)
From Coq Require Import String Ascii ZArith QArith Bool Arith Lia List.
From GT Require Import Base.UTree Model.Newick.
Import ListNotations.
Local Close Scope Q_scope.
Local Open Scope string_scope.

Ltac break_match :=
  match goal with
  | |- context [match ?x with _ => _ end] => destruct x eqn:?
  end.
Ltac break_match_hyp :=
  match goal with
  | H : context [match ?x with _ => _ end] |- _ => destruct x eqn:?
  end.

Ltac ascii_eqs :=
  repeat match goal with
         | H : Ascii.eqb _ _ = true |- _ => apply Ascii.eqb_eq in H
         | H : (_ && _)%bool = true |- _ => apply andb_true_iff in H; destruct H
         end.

(** * strings *)
Lemma app_empty_r : forall s : string, s ++ "" = s.
Proof. induction s; simpl; congruence. Qed.

Lemma app_assoc_s : forall a b c : string, (a ++ b) ++ c = a ++ (b ++ c).
Proof. induction a; simpl; intros; congruence. Qed.

Lemma length_app_s : forall a b : string, String.length (a ++ b) = String.length a + String.length b.
Proof. induction a; simpl; intros; auto. Qed.

(** * span *)
Lemma span_app : forall p s a b, span p s = (a, b) -> s = a ++ b.
Proof.
  induction s; simpl; intros a0 b H.
  - inversion H; reflexivity.
  - destruct (p a).
    + destruct (span p s) as [x y] eqn:E. inversion H; subst. simpl. f_equal. apply IHs. reflexivity.
    + inversion H; subst. reflexivity.
Qed.

Lemma span_length : forall p s a b, span p s = (a, b) -> String.length b <= String.length s.
Proof.
  intros p s a b H. apply span_app in H. subst. rewrite length_app_s. lia.
Qed.


Section Lex.
  Variable numeric : string -> bool.

  (** every token but EOF consumes at least one character *)
  Lemma scan_app : forall ign s tok lit r,
      scan numeric ign s = (tok, lit, r) -> s = lit ++ r.
  Proof.
    intros ign s tok lit r H. destruct s as [|c s]; simpl in H.
    - inversion H; reflexivity.
    - repeat break_match_hyp; inversion H; subst; ascii_eqs; subst; simpl; try reflexivity;
        f_equal; eapply span_app; eassumption.
  Qed.

  Lemma scan_eof : forall ign s lit r, scan numeric ign s = (EOF, lit, r) -> s = "" /\ lit = "" /\ r = "".
  Proof.
    intros ign s lit r H. destruct s as [|c s]; simpl in H.
    - inversion H; auto.
    - repeat break_match_hyp; inversion H.
  Qed.

  Lemma scan_lit_nonempty : forall ign s tok lit r,
      scan numeric ign s = (tok, lit, r) -> tok <> EOF -> lit <> "".
  Proof.
    intros ign s tok lit r H Hne. destruct s as [|c s]; simpl in H.
    - inversion H; subst. congruence.
    - repeat break_match_hyp; inversion H; subst; discriminate.
  Qed.

  Lemma scan_length : forall ign s tok lit r,
      scan numeric ign s = (tok, lit, r) -> tok <> EOF -> String.length r < String.length s.
  Proof.
    intros ign s tok lit r H Hne.
    pose proof (scan_app _ _ _ _ _ H) as Happ.
    pose proof (scan_lit_nonempty _ _ _ _ _ H Hne) as Hl.
    subst s. rewrite length_app_s. destruct lit; [congruence|simpl; lia].
  Qed.

  Lemma scan_length_le : forall ign s tok lit r,
      scan numeric ign s = (tok, lit, r) -> String.length r <= String.length s.
  Proof.
    intros ign s tok lit r H. apply scan_app in H. subst. rewrite length_app_s. lia.
  Qed.

  (** a WS token is a maximal run: the next token is not WS *)
  Lemma span_ws_next : forall s a b, span is_ws s = (a, b) ->
      match b with String c _ => is_ws c = false | EmptyString => True end.
  Proof.
    induction s; simpl; intros x y H.
    - inversion H; exact I.
    - destruct (is_ws a) eqn:E.
      + destruct (span is_ws s) as [u v] eqn:E2. inversion H; subst. eapply IHs; reflexivity.
      + inversion H; subst. exact E.
  Qed.

  Lemma scan_ws_rest : forall s lit r, scan numeric false s = (WS, lit, r) ->
      match r with String c _ => is_ws c = false | EmptyString => True end.
  Proof.
    intros s lit r H. destruct s as [|c s]; simpl in H; [inversion H|].
    destruct (is_ws c) eqn:E.
    - destruct (span is_ws s) as [u v] eqn:E2. inversion H; subst. eapply span_ws_next; eassumption.
    - repeat break_match_hyp; inversion H.
  Qed.

  Lemma scan_not_ws_start : forall ign c s tok lit r,
      is_ws c = false -> scan numeric ign (String c s) = (tok, lit, r) -> tok <> WS.
  Proof.
    intros ign c s tok lit r Hc H. simpl in H. rewrite Hc in H.
    repeat break_match_hyp; inversion H; subst; discriminate.
  Qed.

  Lemma scan_iw_spec : forall s tok lit r pre,
      scan_iw numeric s = (tok, lit, r, pre) ->
      scan numeric false pre = (tok, lit, r) /\ String.length pre <= String.length s /\ tok <> WS.
  Proof.
    intros s tok lit r pre H. unfold scan_iw in H.
    destruct (scan numeric false s) as [[t l] r0] eqn:E.
    destruct t; try (inversion H; subst; split; [assumption|split; [lia|discriminate]]).
    destruct (scan numeric false r0) as [[t2 l2] r2] eqn:E2. inversion H; subst.
    split; [assumption|]. split.
    - eapply scan_length_le; eassumption.
    - pose proof (scan_ws_rest _ _ _ E) as Hr. destruct pre as [|c p].
      + simpl in E2. inversion E2. discriminate.
      + eapply scan_not_ws_start; eassumption.
  Qed.

  Lemma scan_iw_length : forall s tok lit r pre,
      scan_iw numeric s = (tok, lit, r, pre) -> tok <> EOF -> String.length r < String.length s.
  Proof.
    intros s tok lit r pre H Hne. apply scan_iw_spec in H. destruct H as [H [Hl _]].
    pose proof (scan_length _ _ _ _ _ H Hne). lia.
  Qed.

  Lemma scan_iw_length_le : forall s tok lit r pre,
      scan_iw numeric s = (tok, lit, r, pre) -> String.length r <= String.length s.
  Proof.
    intros s tok lit r pre H. apply scan_iw_spec in H. destruct H as [H [Hl _]].
    pose proof (scan_length_le _ _ _ _ _ H). lia.
  Qed.

  (** * consume_comment *)
  Lemma consume_no_fuel : forall fuel acc s,
      String.length s < fuel -> consume_comment numeric fuel acc s <> CFuel.
  Proof.
    induction fuel; intros acc s Hlt; [lia|]. simpl.
    destruct (scan numeric true s) as [[tok lit] r] eqn:E.
    destruct tok; try discriminate;
      (apply IHfuel; pose proof (scan_length _ _ _ _ _ E ltac:(discriminate)); lia).
  Qed.

  Lemma consume_length : forall fuel acc s c r,
      consume_comment numeric fuel acc s = COk c r -> String.length r < String.length s.
  Proof.
    induction fuel; intros acc s c r H; [discriminate|]. simpl in H.
    destruct (scan numeric true s) as [[tok lit] r0] eqn:E.
    pose proof (scan_length_le _ _ _ _ _ E) as Hle.
    destruct tok; try discriminate;
      try (apply IHfuel in H; lia).
    inversion H; subst. eapply scan_length; [eassumption|discriminate].
  Qed.
End Lex.
