(** Worker pool with bounded / unbuffered channels, closer and caller (Model/Pool2.v):
    simulation by the unbounded pool of Model/Pool.v (a Pool2 step is 0, 1 or 2 Pool steps),
    transfer of the safety theorems, the facts specific to the closer and the caller. *)
From Coq Require Import Bool Arith Lia List Permutation.
From GT Require Import Model.Pool Model.Pool2 Proofs.Pool.
Import ListNotations.

Local Arguments pending {job res err} s.
Local Arguments closed {job res err} s.
Local Arguments queue {job res err} s.
Local Arguments ws {job res err} s.
Local Arguments out {job res err} s.
Local Arguments errs {job res err} s.
Local Arguments mkSt {job res err}.
Local Arguments producer_step {job res err} s.
Local Arguments worker_step {job res err}.
Local Arguments step {job res err}.
Local Arguments run {job res err}.
Local Arguments init {job res err}.
Local Arguments finished {job res err} s.
Local Arguments busy_jobs {job res err} s.
Local Arguments is_exited {job} w.
Local Arguments pending2 {job res err} s.
Local Arguments closed2 {job res err} s.
Local Arguments queue2 {job res err} s.
Local Arguments ws2 {job res err} s.
Local Arguments rchan {job res err} s.
Local Arguments closed_out {job res err} s.
Local Arguments recvd {job res err} s.
Local Arguments caller_done {job res err} s.
Local Arguments errs2 {job res err} s.
Local Arguments mkSt2 {job res err}.
Local Arguments producer_step2 {job res err}.
Local Arguments closer_step {job res err}.
Local Arguments caller_step {job res err}.
Local Arguments send_result {job res err}.
Local Arguments worker_step2 {job res err}.
Local Arguments step2 {job res err}.
Local Arguments run2 {job res err}.
Local Arguments init2 {job res err}.
Local Arguments abs {job res err}.
Local Arguments inv {job res err}.
Local Arguments inv_run {job res err}.
Local Arguments inv_init {job res err}.
Local Arguments run_app {job res err}.

Lemma all_exited_mid {job} (l1 l2 : list (wstate job)) w :
  forallb is_exited (l1 ++ w :: l2) = true -> w = Exited.
Proof.
  rewrite forallb_app. simpl. intros H.
  apply andb_prop in H. destruct H as [_ H]. apply andb_prop in H. destruct H as [H _].
  destruct w; simpl in H; congruence.
Qed.

Section Pool2Proofs.
  Variables (job res err : Type).
  Variable f : job -> res.
  Variable fails : job -> bool.
  Variable e_of : job -> err.
  Variable on_fail : fail_mode.
  Variable done_on_exit : bool.
  Variables cj cr : nat.

  Local Notation state2 := (st2 job res err).
  Local Notation wstep2f := (worker_step2 f fails e_of on_fail done_on_exit cj cr).
  Local Notation step2f := (step2 f fails e_of on_fail done_on_exit cj cr).
  Local Notation run2f := (run2 f fails e_of on_fail done_on_exit cj cr).
  Local Notation runf := (run f fails e_of on_fail done_on_exit).
  Local Notation stepf := (step f fails e_of on_fail done_on_exit).
  Local Notation invf := (inv f fails e_of on_fail done_on_exit).

  Lemma run2_app sched1 sched2 s : run2f (sched1 ++ sched2) s = run2f sched2 (run2f sched1 s).
  Proof. unfold run2. apply fold_left_app. Qed.

  Lemma run2_snoc sched a s : run2f (sched ++ [a]) s = step2f (run2f sched s) a.
  Proof. rewrite run2_app. reflexivity. Qed.

  (** * The worker step as a relation *)

  Inductive wstep2 (s : state2) (i : nat) : state2 -> Prop :=
  | W2_stutter : wstep2 s i s
  | W2_take l1 l2 j q :
      ws2 s = l1 ++ Idle :: l2 -> length l1 = i -> queue2 s = j :: q ->
      wstep2 s i (mkSt2 (pending2 s) (closed2 s) q (l1 ++ Busy j :: l2) (rchan s)
                        (closed_out s) (recvd s) (caller_done s) (errs2 s))
  | W2_rdv l1 l2 j p :
      ws2 s = l1 ++ Idle :: l2 -> length l1 = i -> queue2 s = [] -> cj = 0 -> pending2 s = j :: p ->
      wstep2 s i (mkSt2 p (closed2 s) [] (l1 ++ Busy j :: l2) (rchan s)
                        (closed_out s) (recvd s) (caller_done s) (errs2 s))
  | W2_exit l1 l2 pd :
      ws2 s = l1 ++ Idle :: l2 -> length l1 = i -> queue2 s = [] -> closed2 s = true ->
      pending2 s = pd ->
      wstep2 s i (mkSt2 pd true [] (l1 ++ Exited :: l2) (rchan s)
                        (closed_out s) (recvd s) (caller_done s) (errs2 s))
  | W2_send l1 l2 j :
      ws2 s = l1 ++ Busy j :: l2 -> length l1 = i ->
      (fails j = false \/ on_fail = Continue) -> length (rchan s) < cr ->
      wstep2 s i (mkSt2 (pending2 s) (closed2 s) (queue2 s) (l1 ++ Idle :: l2) (rchan s ++ [f j])
                        (closed_out s) (recvd s) (caller_done s)
                        (if fails j then errs2 s ++ [e_of j] else errs2 s))
  | W2_deliver l1 l2 j :
      ws2 s = l1 ++ Busy j :: l2 -> length l1 = i ->
      (fails j = false \/ on_fail = Continue) -> cr = 0 -> rchan s = [] -> caller_done s = false ->
      wstep2 s i (mkSt2 (pending2 s) (closed2 s) (queue2 s) (l1 ++ Idle :: l2) []
                        (closed_out s) (recvd s ++ [f j]) false
                        (if fails j then errs2 s ++ [e_of j] else errs2 s))
  | W2_stop l1 l2 j :
      ws2 s = l1 ++ Busy j :: l2 -> length l1 = i -> fails j = true -> on_fail = Stop ->
      wstep2 s i (mkSt2 (pending2 s) (closed2 s) (queue2 s)
                        (l1 ++ (if done_on_exit then Exited else Dead) :: l2) (rchan s)
                        (closed_out s) (recvd s) (caller_done s) (errs2 s ++ [e_of j])).

  Lemma send_result_spec s i j l1 l2 :
    ws2 s = l1 ++ Busy j :: l2 -> length l1 = i ->
    (forall x, set_nth i x (ws2 s) = l1 ++ x :: l2) ->
    (fails j = false \/ on_fail = Continue) ->
    wstep2 s i (send_result f cr s i j (if fails j then errs2 s ++ [e_of j] else errs2 s)).
  Proof.
    intros Hw Hi Hset Hm. unfold send_result.
    destruct (length (rchan s) <? cr) eqn:L.
    - apply Nat.ltb_lt in L. rewrite Hset. eapply W2_send; eauto.
    - destruct cr as [|c] eqn:C; [|apply W2_stutter].
      destruct (rchan s) eqn:R; [|apply W2_stutter].
      destruct (caller_done s) eqn:D; [apply W2_stutter|].
      rewrite Hset. eapply W2_deliver; eauto.
  Qed.

  Lemma worker_step2_spec s i : wstep2 s i (wstep2f s i).
  Proof.
    unfold worker_step2.
    destruct (nth_error (ws2 s) i) as [w|] eqn:E; [|apply W2_stutter].
    destruct (nth_error_mid _ _ _ E) as (l1 & l2 & Hl & Hlen & Hset).
    destruct w as [|j| |]; try apply W2_stutter.
    - destruct (queue2 s) as [|j q] eqn:Q.
      + destruct cj as [|c] eqn:C.
        * destruct (pending2 s) as [|j p] eqn:P.
          -- destruct (closed2 s) eqn:Cl; [|apply W2_stutter].
             rewrite Hset. eapply W2_exit; eauto.
          -- rewrite Hset. eapply W2_rdv; eauto.
        * destruct (closed2 s) eqn:Cl; [|apply W2_stutter].
          rewrite Hset. eapply W2_exit; eauto.
      + rewrite Hset. eapply W2_take; eauto.
    - destruct (fails j) eqn:F.
      + destruct on_fail eqn:O.
        * pose proof (send_result_spec s i j l1 l2 Hl Hlen Hset (or_intror O)) as H.
          rewrite F in H. exact H.
        * rewrite Hset. eapply W2_stop; eauto.
      + pose proof (send_result_spec s i j l1 l2 Hl Hlen Hset (or_introl F)) as H.
        rewrite F in H. exact H.
  Qed.

  (** * Simulation: every Pool2 step is a (possibly empty) sequence of Pool steps *)

  Lemma sim_send s i j l1 l2 :
    ws2 s = l1 ++ Busy j :: l2 -> nth_error (ws2 s) i = Some (Busy j) ->
    (fails j = false \/ on_fail = Continue) ->
    let s' := send_result f cr s i j (if fails j then errs2 s ++ [e_of j] else errs2 s) in
    abs s' = abs s \/ abs s' = stepf (abs s) (S i).
  Proof.
    intros Hw E Hm s'. unfold s', send_result.
    assert (Hstep : stepf (abs s) (S i) =
                    mkSt (pending2 s) (closed2 s) (queue2 s) (set_nth i Idle (ws2 s))
                         ((recvd s ++ rchan s) ++ [f j])
                         (if fails j then errs2 s ++ [e_of j] else errs2 s)).
    { simpl. unfold worker_step. simpl. rewrite E.
      destruct (fails j) eqn:F; auto.
      destruct Hm as [Hm|Hm]; [discriminate|]. rewrite Hm. reflexivity. }
    destruct (length (rchan s) <? cr).
    - right. rewrite Hstep. unfold abs. simpl. now rewrite app_assoc.
    - destruct cr; auto. destruct (rchan s) eqn:R; auto.
      destruct (caller_done s); auto.
      right. rewrite Hstep. unfold abs. simpl. now rewrite !app_nil_r.
  Qed.

  Lemma sim_step s a : exists sched, abs (step2f s a) = runf sched (abs s).
  Proof.
    destruct a as [|[|[|i]]]; simpl.
    - (* producer *)
      unfold producer_step2. destruct (pending2 s) as [|j p] eqn:P.
      + exists [0]. simpl. unfold producer_step. simpl. rewrite P. reflexivity.
      + destruct (length (queue2 s) <? cj).
        * exists [0]. simpl. unfold producer_step. simpl. rewrite P. reflexivity.
        * exists []. reflexivity.
    - (* closer *)
      exists []. unfold closer_step. destruct (forallb _ _); reflexivity.
    - (* caller *)
      exists []. unfold caller_step. destruct (caller_done s); [reflexivity|].
      destruct (rchan s) as [|r rc] eqn:R.
      + destruct (closed_out s); [|reflexivity]. unfold abs. simpl. now rewrite R.
      + unfold abs. simpl. rewrite R. now rewrite <- app_assoc.
    - (* worker *)
      unfold worker_step2.
      destruct (nth_error (ws2 s) i) as [w|] eqn:E; [|exists []; reflexivity].
      destruct w as [|j| |]; try (exists []; reflexivity).
      + destruct (queue2 s) as [|j q] eqn:Q.
        * assert (Hexit : exists sched,
                    abs (if closed2 s
                         then mkSt2 (pending2 s) (closed2 s) [] (set_nth i Exited (ws2 s)) (rchan s)
                                    (closed_out s) (recvd s) (caller_done s) (errs2 s)
                         else s) = runf sched (abs s)).
          { destruct (closed2 s) eqn:Cl.
            - exists [S i]. simpl. unfold worker_step. simpl. rewrite E, Q, Cl. reflexivity.
            - exists []. reflexivity. }
          destruct cj; [|exact Hexit].
          destruct (pending2 s) as [|j p] eqn:P; [exact Hexit|].
          exists [0; S i]. simpl. unfold producer_step. simpl. rewrite P, Q. simpl.
          unfold worker_step. simpl. rewrite E. reflexivity.
        * exists [S i]. simpl. unfold worker_step. simpl. rewrite E, Q. reflexivity.
      + destruct (nth_error_mid _ _ _ E) as (l1 & l2 & Hl & _ & _).
        destruct (fails j) eqn:F.
        * destruct on_fail eqn:O.
          -- pose proof (sim_send s i j l1 l2 Hl E (or_intror O)) as H.
             rewrite F in H. simpl in H. rewrite O in H. destruct H as [H|H].
             ++ exists []. exact H.
             ++ exists [S i]. exact H.
          -- exists [S i]. simpl. unfold worker_step. simpl. rewrite E, F. reflexivity.
        * pose proof (sim_send s i j l1 l2 Hl E (or_introl F)) as H.
          rewrite F in H. simpl in H. destruct H as [H|H].
          -- exists []. exact H.
          -- exists [S i]. exact H.
  Qed.

  Lemma sim_run sched s : exists sched1, abs (run2f sched s) = runf sched1 (abs s).
  Proof.
    revert s. induction sched as [|a sched IH]; intros s.
    - exists []. reflexivity.
    - simpl. destruct (IH (step2f s a)) as (s1 & H1). destruct (sim_step s a) as (s0 & H0).
      exists (s0 ++ s1). rewrite run_app, <- H0. exact H1.
  Qed.

  Lemma abs_init jobs n : abs (init2 jobs n : state2) = init jobs n.
  Proof. reflexivity. Qed.

  Lemma simulation jobs n sched :
    exists sched1, abs (run2f sched (init2 jobs n)) = runf sched1 (init jobs n).
  Proof. rewrite <- abs_init. apply sim_run. Qed.

  Lemma inv_abs jobs n sched : invf jobs n (abs (run2f sched (init2 jobs n))).
  Proof.
    destruct (simulation jobs n sched) as (s1 & H). rewrite H. apply inv_run, inv_init.
  Qed.

  (** * What is specific to Pool2: capacities, closer, caller *)

  Record inv2 (s : state2) : Prop := mkInv2 {
    i2_cj : length (queue2 s) <= cj;
    i2_cr : length (rchan s) <= cr;
    i2_closer : closed_out s = true -> forallb is_exited (ws2 s) = true;
    i2_caller : caller_done s = true -> closed_out s = true /\ rchan s = []
  }.

  Lemma inv2_init jobs n : inv2 (init2 jobs n).
  Proof. split; simpl; try lia; discriminate. Qed.

  Lemma inv2_step s a : inv2 s -> inv2 (step2f s a).
  Proof.
    intros [Hj Hr Hc Hd].
    destruct a as [|[|[|i]]]; simpl.
    - unfold producer_step2. destruct (pending2 s) as [|j p].
      + split; auto.
      + destruct (length (queue2 s) <? cj) eqn:L; [|split; auto].
        apply Nat.ltb_lt in L. split; simpl; auto.
        rewrite app_length. simpl. lia.
    - unfold closer_step. destruct (forallb is_exited (ws2 s)) eqn:F.
      + split; simpl; auto. intros D. destruct (Hd D). auto.
      + split; auto. intros Co. specialize (Hc Co). discriminate.
    - unfold caller_step. destruct (caller_done s) eqn:D; [split; auto|].
      destruct (rchan s) as [|r rc] eqn:R.
      + destruct (closed_out s) eqn:C; [|split; auto; rewrite ?R, ?D, ?C; auto; discriminate].
        split; simpl; auto; lia.
      + split; simpl; auto; try discriminate. simpl in Hr. lia.
    - destruct (worker_step2_spec s i) as
        [ | l1 l2 j q Hw Hi Q | l1 l2 j p Hw Hi Q C P | l1 l2 pd Hw Hi Q Cl Pd
          | l1 l2 j Hw Hi Hm L | l1 l2 j Hw Hi Hm C R D | l1 l2 j Hw Hi F O ];
        [split; auto| | | | | | ];
        (assert (Hne : closed_out s = true -> False)
          by (intros Co; specialize (Hc Co); rewrite Hw in Hc;
              apply all_exited_mid in Hc; discriminate));
        split; simpl; auto; try lia;
        try (intros Co; exfalso; auto; fail);
        try (intros D'; destruct (Hd D') as [Co _]; exfalso; auto; fail).
      + rewrite Q in Hj. simpl in Hj. lia.
      + rewrite app_length. simpl. lia.
  Qed.

  Lemma inv2_run sched s : inv2 s -> inv2 (run2f sched s).
  Proof.
    revert s. induction sched as [|a sched IH]; intros s H; simpl; auto.
    apply IH, inv2_step, H.
  Qed.

  Lemma inv2_reach jobs n sched : inv2 (run2f sched (init2 jobs n)).
  Proof. apply inv2_run, inv2_init. Qed.

  (** when the caller's loop has ended: wg.Wait() had returned, nothing is left in the channel *)
  Lemma caller_done_finished jobs n sched :
    let s := run2f sched (init2 jobs n) in
    caller_done s = true ->
    finished (abs s) = true /\ rchan s = [] /\ closed_out s = true /\ out (abs s) = recvd s.
  Proof.
    intros s D. destruct (inv2_reach jobs n sched) as [_ _ Hc Hd]. fold s in Hc, Hd.
    destruct (Hd D) as [Co R].
    split; [unfold finished; simpl; apply Hc; exact Co|].
    split; [exact R|]. split; [exact Co|].
    simpl. rewrite R. apply app_nil_r.
  Qed.

  (** * Transfer of the safety theorems *)

  Lemma conservation2 jobs n sched :
    let s := run2f sched (init2 jobs n) in
    exists processed,
      Permutation jobs (pending2 s ++ queue2 s ++ busy_jobs (abs s) ++ processed)
      /\ recvd s ++ rchan s = outs_of _ _ f fails on_fail processed
      /\ errs2 s = map e_of (filter fails processed).
  Proof.
    intros s. destruct (simulation jobs n sched) as (s1 & H). fold s in H.
    destruct (conservation_general _ _ _ f fails e_of on_fail done_on_exit jobs n s1)
      as (p & Hp & Ho & He).
    rewrite <- H in Hp, Ho, He. exists p. auto.
  Qed.

  Lemma results2 jobs n sched :
    no_stop_failure _ fails on_fail jobs -> 1 <= n ->
    let s := run2f sched (init2 jobs n) in
    caller_done s = true -> Permutation (recvd s) (map f jobs).
  Proof.
    intros H Hn s D.
    destruct (caller_done_finished jobs n sched D) as (F & _ & _ & O). fold s in F, O.
    destruct (simulation jobs n sched) as (s1 & E). fold s in E.
    rewrite <- O, E. rewrite E in F.
    apply (results_schedule_independent _ _ _ f fails e_of on_fail done_on_exit jobs n s1 H Hn F).
  Qed.

  Lemma errors2 jobs n sched :
    1 <= n ->
    let s := run2f sched (init2 jobs n) in
    caller_done s = true -> (exists j, In j jobs /\ fails j = true) -> errs2 s <> [].
  Proof.
    intros Hn s D Hex.
    destruct (caller_done_finished jobs n sched D) as (F & _ & _ & _). fold s in F.
    destruct (simulation jobs n sched) as (s1 & E). fold s in E.
    change (errs2 s) with (errs (abs s)). rewrite E. rewrite E in F.
    apply (errors_reach_caller _ _ _ f fails e_of on_fail done_on_exit jobs n s1 Hn F Hex).
  Qed.

  Lemma errors_all2 jobs n sched :
    on_fail = Continue -> 1 <= n ->
    let s := run2f sched (init2 jobs n) in
    caller_done s = true -> Permutation (errs2 s) (map e_of (filter fails jobs)).
  Proof.
    intros O Hn s D.
    destruct (caller_done_finished jobs n sched D) as (F & _ & _ & _). fold s in F.
    destruct (simulation jobs n sched) as (s1 & E). fold s in E.
    change (errs2 s) with (errs (abs s)). rewrite E. rewrite E in F.
    apply (errors_all_reported _ _ _ f fails e_of on_fail done_on_exit jobs n s1 O Hn F).
  Qed.

End Pool2Proofs.
