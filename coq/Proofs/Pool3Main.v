(** Final statement forms for Properties/C11Pool3.v: ReadMultiTrees' producer (Model/PoolFeed.v),
    FBP's error hand-over (Model/PoolErr.v), TBE's distribution of the edges
    (Model/PoolSplit.v vs the channel-fed pool). *)
From Coq Require Import Bool Arith Lia List Permutation.
From GT Require Import Model.Pool Model.PoolFeed Model.PoolErr Model.PoolSplit.
From GT Require Import Proofs.Pool Proofs.PoolMain Proofs.PoolFeed Proofs.PoolErr Proofs.PoolSplit.
Import ListNotations.

Local Arguments run {job res err}.
Local Arguments init {job res err}.
Local Arguments finished {job res err} s.
Local Arguments out {job res err} s.
Local Arguments fgot {item} _.
Local Arguments fchan {item} _.
Local Arguments frun {item}.
Local Arguments finit {item}.
Local Arguments ffinished {item} _.
Local Arguments produced {item}.
Local Arguments efirst {job err} _.
Local Arguments erun {job err}.
Local Arguments einit {job err}.
Local Arguments efinished {job err} _.
Local Arguments split_processed {edge}.

(** * (a) the producer of ReadMultiTrees *)

Lemma feed_blocking_delivers_all (item : Type) c (items : list item) err k sched :
  1 <= k ->
  let s := frun c true sched (finit items err k) in
  ffinished s = true -> fgot s = produced items err.
Proof.
  intros Hk s F.
  destruct (finished_got item c true items err k sched Hk F) as [H|(H & _)]; [exact H|discriminate].
Qed.

Lemma feed_error_reaches_consumers (item : Type) c (items : list item) e k sched :
  1 <= k ->
  let s := frun c true sched (finit items (Some e) k) in
  ffinished s = true -> fgot s = items ++ [e].
Proof. intros Hk s F. apply (feed_blocking_delivers_all item c items (Some e) k sched Hk F). Qed.

Lemma feed_fifo (item : Type) c b (items : list item) err k sched :
  let s := frun c b sched (finit items err k) in
  exists rest, produced items err = fgot s ++ rest.
Proof. apply got_is_prefix. Qed.

Lemma feed_no_deadlock (item : Type) c b (items : list item) err k sched :
  exists cont, ffinished (frun c b cont (frun c b sched (finit items err k))) = true.
Proof. apply feed_deadlock_free. Qed.

Lemma feed_nonblocking_loses_only_the_error (item : Type) c (items : list item) err k sched :
  1 <= k ->
  let s := frun c false sched (finit items err k) in
  ffinished s = true -> fgot s = produced items err \/ (err <> None /\ fgot s = items).
Proof.
  intros Hk s F. destruct (finished_got item c false items err k sched Hk F) as [H|(_ & H)]; auto.
Qed.

Definition feed_bad_sched : list nat := [0;0;1;0;0;0;1;1].

Lemma feed_nonblocking_witness :
  let s := frun 1 false feed_bad_sched (finit [1;2] (Some 99) 1) in
  ffinished s = true /\ fgot s = [1;2] /\ fchan s = [].
Proof. vm_compute. repeat split. Qed.

Lemma feed_nonblocking_delivers_all_refuted :
  ~ (forall c (items : list nat) err k sched, 1 <= k ->
       let s := frun c false sched (finit items err k) in
       ffinished s = true -> fgot s = produced items err).
Proof.
  intros H. specialize (H 1 [1;2] (Some 99) 1 feed_bad_sched (le_n 1)).
  vm_compute in H. specialize (H eq_refl). discriminate.
Qed.

(** the same schedule with the blocking send: the producer waits, the record arrives *)
Lemma feed_blocking_example :
  let s := frun 1 true (feed_bad_sched ++ [0;1;0;1;1]) (finit [1;2] (Some 99) 1) in
  ffinished s = true /\ fgot s = [1;2;99].
Proof. vm_compute. repeat split. Qed.

(** * (b) FBP's error hand-over *)

Lemma fbp_mutex_terminates (job err : Type) (fails : job -> bool) (e_of : job -> err)
      (jobs : list job) n sched :
  exists cont,
    efinished (erun fails e_of ByMutex cont (erun fails e_of ByMutex sched (einit jobs n))) = true.
Proof. apply mutex_handover_terminates. reflexivity. Qed.

Lemma fbp_chan_deadlocks (job err : Type) (fails : job -> bool) (e_of : job -> err)
      j1 j2 (rest : list job) n cont :
  fails j1 = true -> fails j2 = true -> 2 <= n ->
  efinished (erun fails e_of ByChan cont
               (erun fails e_of ByChan [0; 0; 1; 2; 1] (einit (j1 :: j2 :: rest) n))) = false.
Proof.
  intros F1 F2 Hn. destruct n as [|[|n]]; try lia. apply chan_handover_deadlocks; auto.
Qed.

Lemma fbp_chan_terminates_refuted :
  ~ (forall (fails : nat -> bool) (jobs : list nat) n sched,
       exists cont,
         efinished (erun fails (fun j => j) ByChan cont
                          (erun fails (fun j => j) ByChan sched (einit jobs n))) = true).
Proof.
  intros H. destruct (H (fun _ => true) [1;2] 2 [0;0;1;2;1]) as (cont & Hc).
  rewrite (fbp_chan_deadlocks nat nat (fun _ => true) (fun j => j) 1 2 [] 2 cont) in Hc; auto.
  discriminate.
Qed.

(** three erroneous trees, three workers, the mutex: all reach Done, the first error is kept *)
Lemma fbp_mutex_example :
  let s := erun (fun _ => true) (fun j => 100 + j) ByMutex
                [0;0;0;0; 1;2;3; 2;1;3; 2;2; 3;3;3; 1;1;1] (einit [1;2;3] 3) in
  efinished s = true /\ efirst s = Some 102.
Proof. vm_compute. repeat split. Qed.

(** * (c) distributing the edges *)

Lemma channel_feed_every_edge_once (edge : Type) (edges : list edge) cpu sched :
  1 <= cpu ->
  let s := run (fun e : edge => e) (fun _ => false) (fun _ => tt) Continue true sched (init edges cpu) in
  finished s = true -> Permutation (out s) edges.
Proof.
  intros H s F.
  pose proof (results_continue edge edge unit (fun e => e) (fun _ => false) (fun _ => tt) true
                               edges cpu sched H F) as P.
  rewrite map_id in P. exact P.
Qed.

Lemma static_split_complete_iff (edge : Type) (edges : list edge) cpu :
  1 <= cpu -> (Permutation (split_processed edges cpu) edges <-> length edges mod cpu = 0).
Proof. apply split_complete_iff. Qed.

Lemma static_split_drops_the_remainder (edge : Type) (edges : list edge) cpu :
  1 <= cpu ->
  edges = split_processed edges cpu ++ skipn (cpu * (length edges / cpu)) edges
  /\ length (split_processed edges cpu) = length edges - length edges mod cpu.
Proof. intros H. split; [apply split_drops_remainder|apply split_processed_length; auto]. Qed.

Lemma static_split_every_edge_once_refuted :
  ~ (forall (edges : list nat) cpu, 1 <= cpu -> Permutation (split_processed edges cpu) edges).
Proof.
  intros H. specialize (H [1;2;3;4;5] 2 ltac:(lia)).
  apply Permutation_length in H. vm_compute in H. discriminate.
Qed.

Lemma static_split_example :
  split_processed [1;2;3;4;5] 2 = [1;2;3;4] /\ split_processed [1;2;3;4;5;6] 2 = [1;2;3;4;5;6]
  /\ split_processed [1;2;3] 4 = [].
Proof. vm_compute. repeat split. Qed.
