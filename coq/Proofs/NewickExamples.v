(** Definitions for the boundary examples of C01 (Properties/C01.v): the boolean round-trip
    test on the executable model and small tree constructors. *)
From Coq Require Import String Ascii ZArith QArith Bool List.
From GT Require Import Base.UTree Model.Newick Model.NewickNum Model.MultiTree Spec.NewickSpec
     Proofs.NewickTheorem Proofs.NewickNumC Proofs.NewickGlue.
Import ListNotations.
Local Close Scope Q_scope.
Local Open Scope string_scope.

(** the statement of C01 on one tree, as a computation on the executable model: the reader
    accepts the writer's text, same rose view, same second text *)
Definition rt_ok (t : utree) : bool :=
  match parse_go (write_go t) with
  | POk t' => rose_eqb (rose_of t') (rose_of t) && String.eqb (write_go t') (write_go t)
  | _ => false
  end.

(** inside the quantifier (with the numbers of the strconv model) *)
Definition wfC : utree -> bool := wfN numericC numokC.

Lemma rt_ok_wf : forall t, wfC t = true -> rt_ok t = true.
Proof.
  intros t H. unfold rt_ok, parse_go, write_go.
  destruct (round_trip fmt_go numericC parse_numC numokC strconv_ok_C t H) as [t' [Hp [Hr Hw]]].
  rewrite Hp, Hr, Hw. rewrite String.eqb_refl. reflexivity.
Qed.

Definition tip (n : string) : utree := UNode n [] [None].
Definition ed (l : Q) : einfo := mkE l nilv nilv [].
Definition e_ : einfo := ed nilv.
Definition S_ (e : einfo) (t : utree) : slot := Some (e, t).
Definition root2 (a b : slot) : utree := UNode "" [] [a; b].
Definition inner (n : string) (k : list slot) : utree := UNode n [] (None :: k).
Definition AB : list slot := [S_ e_ (tip "A"); S_ e_ (tip "B")].

(** the parsed-back text, for showing what a tree outside the quantifier turns into *)
Definition reread (t : utree) : string :=
  match parse_go (write_go t) with
  | POk t' => write_go t'
  | PErr m => "ERR " ++ m
  | POutOfFuel => "fuel"
  end.

(** the glue path on the executable model: reads of a buffer of [bufsz] bytes *)
Definition glue_go (bufsz : nat) (s : string) : multi_res :=
  read_multi (nparse numericC parse_numC) (phys_reads (S (String.length s)) bufsz s).

(** every ASCII character from 1 to 127 except [skip] *)
Definition ascii_but (skip : list nat) : string :=
  fold_right (fun n acc => if existsb (Nat.eqb n) skip then acc else String (ascii_of_nat n) acc)
             "" (seq 1 127).
