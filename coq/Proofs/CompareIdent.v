(** C08, part 8: the identical-only shortcut (comparetreeidentical: the loop over the compared
    tree's branches stops at the first branch that is not in the reference).  Whatever the trees,
    the Sametree flag and the error of the record are the same as without the shortcut; hence,
    on the domain, Sametree = "both 'only' counts are zero" with the shortcut too. *)
From Coq Require Import String NArith ZArith QArith Bool Arith Lia List Permutation.
From GT Require Import Base.UTree Spec.Obs Spec.CompareSpec Model.Reroot Model.Index Model.HashMap Model.EdgeIndex
     Model.Compare Proofs.IndexSplit Proofs.CompareBase Proofs.CompareTree Proofs.CompareMain.
Import ListNotations.
Local Close Scope Q_scope.

Section Loop.
  Variable tips : bool.
  Variable a : aindex.

  Lemma fold_stopped K : forall t c s,
      fold_left (cmp_step aindex ai_value tips true a) K (Some (t, c, s, true)) = Some (t, c, s, true).
  Proof. induction K as [|k r IH]; intros; simpl; auto. Qed.

  Lemma fold_ident K : forall t c s,
      exists t' c' stop,
        fold_left (cmp_step aindex ai_value tips true a) K (Some (t, c, s, false)) =
        Some (t', c', s && forallb (okf a) K, stop) /\
        (forallb (okf a) K = true ->
         t' = (t + count_if (cnt tips) K)%Z /\ c' = (c + count_if (fun k => cnt tips k && okf a k) K)%Z).
  Proof.
    induction K as [|k r IH]; intros t c s.
    - exists t, c, false. simpl. rewrite andb_true_r, !count_if_nil, !Z.add_0_r. auto.
    - cbn [fold_left forallb]. rewrite !count_if_cons.
      assert (STEP : cmp_step aindex ai_value tips true a (Some (t, c, s, false)) k =
                     Some (if okf a k
                           then ((if cnt tips k then t + 1 else t)%Z, (if cnt tips k then c + 1 else c)%Z, s, false)
                           else ((if cnt tips k then t + 1 else t)%Z, c, false, true))).
      { unfold cmp_step, ai_value, okf. fold (cnt tips k).
        destruct (key_tip k); cbn [orb]; auto.
        destruct (assoc_value ekey einfo_v ekey_eqb a k); reflexivity. }
      rewrite STEP. clear STEP.
      destruct (okf a k) eqn:O; cbn [andb].
      + destruct (IH (if cnt tips k then t + 1 else t)%Z (if cnt tips k then c + 1 else c)%Z s) as (t' & c' & stop & E & F).
        exists t', c', stop. split; [exact E|].
        intros H. destruct (F H) as [-> ->]. rewrite ?andb_true_r. destruct (cnt tips k); split; lia.
      + rewrite fold_stopped. eexists _, _, true. split; [now rewrite andb_false_r|]. discriminate.
  Qed.
End Loop.

Theorem compare_ident_same tips t1 t2 r :
  compare tips false t1 t2 = Some (Ok r) ->
  exists r', compare tips true t1 t2 = Some (Ok r') /\ bs_same r' = bs_same r /\ bs_err r' = bs_err r.
Proof.
  unfold compare, compare_gen.
  destruct (reinit 0 t1) as [[[names1 ks1]|m1]|]; try discriminate.
  destruct (build_index aindex ai_new ai_put ks1) as [idx|]; try discriminate.
  destruct (reinit 1 t2) as [[[names2 ks2]|m2]|]; try discriminate.
  - rewrite fold_cmp_noident.
    destruct (fold_ident tips idx ks2 0%Z 0%Z true) as (t' & c' & stop & E & F).
    unfold cmp_state in *. rewrite E. clear E.
    intros H. inversion H; subst; clear H. eexists. split; [reflexivity|]. cbn [bs_same bs_err]. split; auto.
    cbn [andb]. destruct (forallb (okf idx) ks2) eqn:S; auto.
    destruct (F eq_refl) as [_ ->]. reflexivity.
  - intros H. inversion H; subst. eexists. split; [reflexivity|]. auto.
Qed.

Corollary compare_ident_identical tips t1 t2 :
  good t1 -> good t2 -> Permutation (leaves t1) (leaves t2) ->
  dupfree t1 -> dupfree t2 -> tipflags t1 -> tipflags t2 ->
  exists r', compare tips true t1 t2 = Some (Ok r') /\
             bs_same r' = spec_identical tips t1 t2 /\ bs_err r' = EmptyString.
Proof.
  intros G1 G2 P D1 D2 F1 F2.
  destruct (compare_ident_same tips t1 t2 _ (compare_counts tips t1 t2 G1 G2 P D1 D2 F1 F2)) as (r' & E & S & Er).
  exists r'. auto.
Qed.
