(** C15, aliasing: Clone on a store of nodes, branches and comment cells (Model/HeapClone.v).
    [repr P h nid par t]: in the store [h], the node [nid] (whose parent is reached through
    [par] = (branch id, node id)) carries the tree [t], and every node, branch and comment
    cell it uses has its id in the region [P].  Results:
      - [repr] only reads the region (frame);
      - cloning a store region below [k] that carries [t], with all fresh ids at or above [k],
        leaves that region untouched and builds a region at or above [k] that carries
        [copy_node true t] = the abstract clone;
      - hence any later write to ids of one region leaves what the other carries unchanged. *)
From Coq Require Import String ZArith QArith Bool Arith Lia List.
From GT Require Import Base.UTree Model.LocalEdit Model.HeapClone.
Import ListNotations.
Local Close Scope Q_scope.

(** * representation *)
Fixpoint slots_repr (P : nat -> Prop) (h : heap)
         (R : nat -> option (nat * nat) -> utree -> Prop)
         (nid : nat) (par : option (nat * nat)) (ns bs : list nat) (l : list slot) : Prop :=
  match ns, bs, l with
  | [], [], [] => True
  | x :: ns', e :: bs', None :: r => par = Some (e, x) /\ slots_repr P h R nid par ns' bs' r
  | x :: ns', e :: bs', Some (ei, ch) :: r =>
    P e /\ (forall pe pn, par = Some (pe, pn) -> e <> pe) /\
    (exists he, hedges h e = Some he /\ he_left he = nid /\ he_right he = x /\
                he_len he = elen ei /\ he_sup he = esup ei /\ he_pv he = epv ei /\
                P (he_com he) /\ hcells h (he_com he) = Some (ecom ei)) /\
    R x (Some (e, nid)) ch /\ slots_repr P h R nid par ns' bs' r
  | _, _, _ => False
  end.

Fixpoint repr (P : nat -> Prop) (h : heap) (nid : nat) (par : option (nat * nat)) (t : utree) : Prop :=
  match t with
  | UNode n c sl =>
    P nid /\
    exists hn, hnodes h nid = Some hn /\ hn_name hn = n /\
               P (hn_com hn) /\ hcells h (hn_com hn) = Some c /\
               (fix go (ns bs : list nat) (l : list slot) {struct l} : Prop :=
                  match ns, bs, l with
                  | [], [], [] => True
                  | x :: ns', e :: bs', None :: r => par = Some (e, x) /\ go ns' bs' r
                  | x :: ns', e :: bs', Some (ei, ch) :: r =>
                    P e /\ (forall pe pn, par = Some (pe, pn) -> e <> pe) /\
                    (exists he, hedges h e = Some he /\ he_left he = nid /\ he_right he = x /\
                                he_len he = elen ei /\ he_sup he = esup ei /\ he_pv he = epv ei /\
                                P (he_com he) /\ hcells h (he_com he) = Some (ecom ei)) /\
                    repr P h x (Some (e, nid)) ch /\ go ns' bs' r
                  | _, _, _ => False
                  end) (hn_neigh hn) (hn_br hn) sl
  end.

Lemma repr_unfold P h nid par n c sl :
  repr P h nid par (UNode n c sl) <->
  (P nid /\ exists hn, hnodes h nid = Some hn /\ hn_name hn = n /\
                       P (hn_com hn) /\ hcells h (hn_com hn) = Some c /\
                       slots_repr P h (repr P h) nid par (hn_neigh hn) (hn_br hn) sl).
Proof.
  simpl. assert (G : forall l ns bs,
    (fix go (ns bs : list nat) (l : list slot) {struct l} : Prop :=
       match ns, bs, l with
       | [], [], [] => True
       | x :: ns', e :: bs', None :: r => par = Some (e, x) /\ go ns' bs' r
       | x :: ns', e :: bs', Some (ei, ch) :: r =>
         P e /\ (forall pe pn, par = Some (pe, pn) -> e <> pe) /\
         (exists he, hedges h e = Some he /\ he_left he = nid /\ he_right he = x /\
                     he_len he = elen ei /\ he_sup he = esup ei /\ he_pv he = epv ei /\
                     P (he_com he) /\ hcells h (he_com he) = Some (ecom ei)) /\
         repr P h x (Some (e, nid)) ch /\ go ns' bs' r
       | _, _, _ => False
       end) ns bs l <-> slots_repr P h (repr P h) nid par ns bs l).
  { induction l as [|[[ei ch]|] r IH]; intros [|x ns] [|e bs]; simpl; try tauto.
    - rewrite IH. tauto.
    - rewrite IH. tauto. }
  split; intros [H1 [hn H]]; split; auto; exists hn; rewrite G in *; exact H.
Qed.

(** * frame and monotonicity *)
Definition agree (P : nat -> Prop) (h h2 : heap) : Prop :=
  forall i, P i -> hnodes h i = hnodes h2 i /\ hedges h i = hedges h2 i /\ hcells h i = hcells h2 i.

Lemma repr_frame P h h2 t : forall nid par,
    agree P h h2 -> repr P h nid par t -> repr P h2 nid par t.
Proof.
  induction t as [n c sl IH] using utree_ind'. intros nid par A H.
  apply repr_unfold in H. apply repr_unfold. destruct H as [Pn [hn [H1 [H2 [H3 [H4 H5]]]]]].
  split; auto. exists hn. destruct (A nid Pn) as [<- _]. destruct (A _ H3) as [_ [_ <-]].
  repeat split; auto.
  revert H5. generalize (hn_neigh hn) (hn_br hn). induction IH as [|[[ei ch]|] r Hs _ IHr];
    intros [|x ns] [|e bs]; simpl; auto.
  - intros [Pe [Ne [[he [E1 E]] [Rc Rr]]]]. split; auto. split; auto. split.
    + exists he. destruct (A e Pe) as [_ [<- _]]. destruct E as [E2 [E3 [E4 [E5 [E6 [E7 E8]]]]]].
      destruct (A _ E7) as [_ [_ <-]]. repeat split; auto.
    + split; auto.
  - intros [E Rr]. split; auto.
Qed.

Lemma repr_mono (P P' : nat -> Prop) h t : forall nid par,
    (forall i, P i -> P' i) -> repr P h nid par t -> repr P' h nid par t.
Proof.
  induction t as [n c sl IH] using utree_ind'. intros nid par M H.
  apply repr_unfold in H. apply repr_unfold. destruct H as [Pn [hn [H1 [H2 [H3 [H4 H5]]]]]].
  split; auto. exists hn. repeat split; auto.
  revert H5. generalize (hn_neigh hn) (hn_br hn). induction IH as [|[[ei ch]|] r Hs _ IHr];
    intros [|x ns] [|e bs]; simpl; auto.
  - intros [Pe [Ne [[he [E1 E]] [Rc Rr]]]]. split; auto. split; auto. split.
    + exists he. destruct E as [E2 [E3 [E4 [E5 [E6 [E7 E8]]]]]]. repeat split; auto.
    + split; auto.
  - intros [E Rr]. split; auto.
Qed.

(** * the primitives *)
Lemma upd_same {A} (f : nat -> option A) i v : upd f i v i = Some v.
Proof. unfold upd. now rewrite Nat.eqb_refl. Qed.
Lemma upd_other {A} (f : nat -> option A) i v j : j <> i -> upd f i v j = f j.
Proof. unfold upd. intros H. apply Nat.eqb_neq in H. now rewrite H. Qed.

(** the three steps of copyTreeRecur before its loop: CopyNode(child),
    ConnectNodes(copynode, copychild), CopyEdge(edge, copyedge) *)
Definition header (h : heap) (cn : nat) (hc : hnode) (he : hedge) : heap * nat * nat :=
  let '(h1, cc) := copy_node_h h hc in
  let '(h2, ce) := connect h1 cn cc in
  (copy_edge_h h2 he ce, cc, ce).

Lemma header_spec h cn cnrec hc he :
  let m := hnext h in
  hnodes h cn = Some cnrec -> cn < m -> hn_com hc < m -> he_com he < m ->
  exists h3, header h cn hc he = (h3, m + 1, m + 3) /\ hnext h3 = m + 5 /\
    (forall i, hnodes h3 i =
               if Nat.eqb i (m + 1) then Some (mkHN (hn_name hc) m [cn] [m + 3])
               else if Nat.eqb i cn
                    then Some (mkHN (hn_name cnrec) (hn_com cnrec) (hn_neigh cnrec ++ [m + 1]) (hn_br cnrec ++ [m + 3]))
                    else hnodes h i) /\
    (forall i, hedges h3 i =
               if Nat.eqb i (m + 3) then Some (mkHE cn (m + 1) (he_len he) (he_sup he) (he_pv he) (m + 4))
               else hedges h i) /\
    (forall i, hcells h3 i =
               if Nat.eqb i (m + 4) then Some (cell_of h (he_com he))
               else if Nat.eqb i (m + 2) then Some []
                    else if Nat.eqb i m then Some (cell_of h (hn_com hc)) else hcells h i).
Proof.
  intros m Hcn Lcn Lc Le. unfold header, copy_node_h, alloc_cell. simpl.
  fold m. unfold connect, alloc_cell. simpl.
  replace (S m) with (m + 1) by lia. replace (S (m + 1)) with (m + 2) by lia.
  replace (S (m + 2)) with (m + 3) by lia.
  unfold add_child at 2. simpl.
  rewrite (upd_other _ (m + 1) _ cn) by lia. rewrite Hcn.
  unfold add_child. simpl.
  rewrite (upd_other _ cn _ (m + 1)) by lia. rewrite upd_same.
  unfold copy_edge_h. simpl. rewrite upd_same. unfold alloc_cell. simpl.
  replace (S (m + 3)) with (m + 4) by lia.
  eexists. split; [reflexivity|]. simpl. split; [lia|]. split; [|split].
  - intros i. unfold upd.
    destruct (Nat.eqb_spec i (m + 1)) as [->|N1]; auto.
  - intros i. unfold upd. destruct (Nat.eqb_spec i (m + 3)); auto.
  - intros i. unfold upd, cell_of. simpl. unfold upd.
    destruct (Nat.eqb_spec i (m + 4)) as [->|N4].
    + assert (X1 : Nat.eqb (he_com he) (m + 2) = false) by (apply Nat.eqb_neq; lia).
      assert (X2 : Nat.eqb (he_com he) m = false) by (apply Nat.eqb_neq; lia).
      now rewrite X1, X2.
    + destruct (Nat.eqb_spec i (m + 2)); auto.
Qed.

Lemma copy_rec_unfold f h cn e he hc :
  hedges h e = Some he -> hnodes h (he_right he) = Some hc ->
  copy_rec (S f) h cn e =
  fold_left (fun hh e' => if Nat.eqb e' e then hh else copy_rec f hh (snd (fst (header h cn hc he))) e')
            (hn_br hc) (fst (fst (header h cn hc he))).
Proof.
  intros H1 H2. simpl. rewrite H1, H2. unfold header.
  destruct (copy_node_h h hc) as [h1 cc]. destruct (connect h1 cn cc) as [h2 ce]. reflexivity.
Qed.

(** * regions *)
Definition below (k i : nat) : Prop := i < k.
Definition between (lo hi i : nat) : Prop := lo <= i < hi.

(** nothing below [m] changed, except the node [cn] *)
Definition stable (m cn : nat) (h h' : heap) : Prop :=
  (forall i, i < m -> i <> cn -> hnodes h' i = hnodes h i) /\
  (forall i, i < m -> hedges h' i = hedges h i) /\
  (forall i, i < m -> hcells h' i = hcells h i).

Lemma stable_refl m cn h : stable m cn h h.
Proof. repeat split; auto. Qed.

Lemma stable_trans m m2 cn h1 h2 h3 :
  m <= m2 -> stable m cn h1 h2 -> stable m2 cn h2 h3 -> stable m cn h1 h3.
Proof.
  intros L [A1 [A2 A3]] [B1 [B2 B3]]. repeat split; intros i Hi.
  - intros N. rewrite B1, A1; auto. lia.
  - rewrite B2, A2; auto. lia.
  - rewrite B3, A3; auto. lia.
Qed.

Lemma stable_agree k m cn h h' : k <= m -> k <= cn -> stable m cn h h' -> agree (below k) h h'.
Proof.
  intros L1 L2 [A1 [A2 A3]] i Hi. unfold below in Hi. repeat split; symmetry.
  - apply A1; lia.
  - apply A2; lia.
  - apply A3; lia.
Qed.

Lemma stable_agree_between lo hi m cn h h' :
  hi <= m -> (cn < lo \/ hi <= cn) -> stable m cn h h' -> agree (between lo hi) h h'.
Proof.
  intros L1 L2 [A1 [A2 A3]] i [Hi1 Hi2]. repeat split; symmetry.
  - apply A1; lia.
  - apply A2; lia.
  - apply A3; lia.
Qed.

(** what one copyTreeRecur call must achieve for the copied parent [cn] (record [cnrec]
    before the call), the source branch data [ei] and the source subtree [ch] *)
Definition child_ok (h' : heap) (m m' cn : nat) (cnrec : hnode) (ei : einfo) (ch : utree) : Prop :=
  exists cc ce,
    m <= cc < m' /\ m <= ce < m' /\
    hnodes h' cn = Some (mkHN (hn_name cnrec) (hn_com cnrec) (hn_neigh cnrec ++ [cc]) (hn_br cnrec ++ [ce])) /\
    (exists hce, hedges h' ce = Some hce /\ he_left hce = cn /\ he_right hce = cc /\
                 he_len hce = elen ei /\ he_sup hce = esup ei /\ he_pv hce = epv ei /\
                 between m m' (he_com hce) /\ hcells h' (he_com hce) = Some (ecom ei)) /\
    repr (between m m') h' cc (Some (ce, cn)) (copy_node false ch).

Definition copy_ok (ch : utree) : Prop :=
  forall fuel hc k m cn cnrec e he ei nid,
    usize ch <= fuel ->
    hnext hc = m -> k <= m -> k <= cn < m -> hnodes hc cn = Some cnrec ->
    e < k -> hedges hc e = Some he ->
    he_len he = elen ei -> he_sup he = esup ei -> he_pv he = epv ei ->
    he_com he < k -> hcells hc (he_com he) = Some (ecom ei) ->
    repr (below k) hc (he_right he) (Some (e, nid)) ch ->
    exists m', hnext (copy_rec fuel hc cn e) = m' /\ m <= m' /\
               stable m cn hc (copy_rec fuel hc cn e) /\
               child_ok (copy_rec fuel hc cn e) m m' cn cnrec ei ch.

Lemma slots_frame P h h2 nid par l : forall ns bs,
    agree P h h2 -> slots_repr P h (repr P h) nid par ns bs l ->
    slots_repr P h2 (repr P h2) nid par ns bs l.
Proof.
  induction l as [|[[ei ch]|] r IH]; intros [|x ns] [|e bs] A; simpl; auto.
  - intros [Pe [Ne [[he [E1 E]] [Rc Rr]]]]. split; auto. split; auto. split; [|split].
    + exists he. destruct (A e Pe) as [_ [<- _]]. destruct E as [E2 [E3 [E4 [E5 [E6 [E7 E8]]]]]].
      destruct (A _ E7) as [_ [_ <-]]. repeat split; auto.
    + eapply repr_frame; eauto.
    + apply IH; auto.
  - intros [E Rr]. split; auto.
Qed.

Lemma slots_mono (P P' : nat -> Prop) h nid par l : forall ns bs,
    (forall i, P i -> P' i) -> slots_repr P h (repr P h) nid par ns bs l ->
    slots_repr P' h (repr P' h) nid par ns bs l.
Proof.
  induction l as [|[[ei ch]|] r IH]; intros [|x ns] [|e bs] M; simpl; auto.
  - intros [Pe [Ne [[he [E1 E]] [Rc Rr]]]]. split; auto. split; auto. split; [|split].
    + exists he. destruct E as [E2 [E3 [E4 [E5 [E6 [E7 E8]]]]]]. repeat split; auto.
    + eapply repr_mono; eauto.
    + apply IH; auto.
  - intros [E Rr]. split; auto.
Qed.

Definition copy_slots (sl : list slot) : list slot :=
  flat_map (fun s : slot => match s with
                            | None => []
                            | Some (e, ch) => [Some (copy_edge e, copy_node false ch)]
                            end) sl.

Fixpoint kids_size (l : list slot) : nat :=
  match l with
  | [] => 0
  | None :: r => kids_size r
  | Some (_, c) :: r => usize c + kids_size r
  end.

Lemma usize_unfold n c sl : usize (UNode n c sl) = S (kids_size sl).
Proof. induction sl as [|[[e ch]|] r IH]; simpl in *; auto; lia. Qed.

(** the loop of copyTreeRecur over the branches of the source child *)
Lemma fold_ok f k e nid child cc name com par :
  forall sl ns bs hh accN accB mi,
    Forall (fun s : slot => match s with Some (_, t) => copy_ok t | None => True end) sl ->
    kids_size sl <= f ->
    slots_repr (below k) hh (repr (below k) hh) child (Some (e, nid)) ns bs sl ->
    hnext hh = mi -> k <= mi -> k <= cc < mi ->
    (forall pe pn, par = Some (pe, pn) -> pe < mi) ->
    hnodes hh cc = Some (mkHN name com accN accB) ->
    exists mi' newN newB,
      let hh' := fold_left (fun hh e' => if Nat.eqb e' e then hh else copy_rec f hh cc e') bs hh in
      hnext hh' = mi' /\ mi <= mi' /\ stable mi cc hh hh' /\
      hnodes hh' cc = Some (mkHN name com (accN ++ newN) (accB ++ newB)) /\
      slots_repr (between mi mi') hh' (repr (between mi mi') hh') cc par newN newB (copy_slots sl).
Proof.
  induction sl as [|[[ei ch]|] r IH]; intros [|x ns] [|e0 bs] hh accN accB mi HF Sz R Hn Lk Lc Lp Hc;
    simpl in R; try contradiction.
  - exists mi, [], []. simpl. rewrite !app_nil_r. repeat split; auto.
  - (* a child *)
    destruct R as [Pe [Ne [[he [E1 [E2 [E3 [E4 [E5 [E6 [E7 E8]]]]]]]] [Rc Rr]]]].
    apply Forall_cons_iff in HF as [Hch HFr]. simpl in Sz. subst mi.
    assert (Nee : Nat.eqb e0 e = false) by (apply Nat.eqb_neq; apply (Ne e nid eq_refl)).
    simpl fold_left. rewrite Nee.
    rewrite <- E3 in Rc. assert (Pe' := Pe). assert (E7' := E7). unfold below in Pe', E7'.
    destruct (Hch f hh k (hnext hh) cc (mkHN name com accN accB) e0 he ei child) as [m1 [N1 [L1 [S1 C1]]]]; auto; try lia.
    set (hh1 := copy_rec f hh cc e0) in *.
    destruct C1 as [cc' [ce' [Bc [Be [Hcc [[hce [F1 [F2 [F3 [F4 [F5 [F6 [F7 F8]]]]]]]] Rcc]]]]]].
    simpl in Hcc.
    assert (A1 : agree (below k) hh hh1) by (apply (stable_agree k (hnext hh) cc); auto; lia).
    destruct (IH ns bs hh1 (accN ++ [cc']) (accB ++ [ce']) m1) as [m2 [nN [nB [N2 [L2 [S2 [H2 R2]]]]]]]; auto; try lia.
    { eapply slots_frame; eauto. }
    { intros pe pn X. specialize (Lp pe pn X). lia. }
    exists m2, (cc' :: nN), (ce' :: nB). cbv zeta in *.
    set (hh2 := fold_left (fun hh e' => if Nat.eqb e' e then hh else copy_rec f hh cc e') bs hh1) in *.
    destruct S2 as [T1 [T2 T3]].
    split; [exact N2|]. split; [lia|]. split; [apply (stable_trans (hnext hh) m1 cc hh hh1 hh2); [lia|exact S1|repeat split; auto]|].
    split; [rewrite H2, <- !app_assoc; reflexivity|].
    simpl. split; [unfold between; lia|]. split.
    { intros pe pn X. specialize (Lp pe pn X). lia. }
    split; [|split].
    + exists hce. rewrite T2 by lia. unfold between in F7. rewrite T3 by lia.
      repeat split; auto; unfold between in *; lia.
    + apply (repr_mono (between (hnext hh) m1)); [unfold between; intros; lia|].
      eapply repr_frame; [|exact Rcc]. apply (stable_agree_between _ _ m1 cc); auto; [lia|repeat split; auto].
    + eapply slots_mono; [|exact R2]. unfold between. intros; lia.
  - (* the parent slot: its branch is the one we came through *)
    destruct R as [E Rr]. apply Forall_cons_iff in HF as [_ HFr]. injection E as <- _.
    simpl fold_left. rewrite Nat.eqb_refl. simpl copy_slots. apply (IH ns bs); auto.
Qed.

Lemma copy_node_false_unfold n c sl :
  copy_node false (UNode n c sl) = UNode n c (None :: copy_slots sl).
Proof. reflexivity. Qed.

Lemma cell_of_some h c l : hcells h c = Some l -> cell_of h c = l.
Proof. unfold cell_of. now intros ->. Qed.

(** * copyTreeRecur *)
Theorem copy_rec_ok ch : copy_ok ch.
Proof.
  induction ch as [n c sl IH] using utree_ind'.
  intros fuel hc k m cn cnrec e he ei nid Fu Hn Lk Lc Hcn Le He D1 D2 D3 Dc Hcell R.
  rewrite usize_unfold in Fu. destruct fuel as [|f]; [lia|].
  apply repr_unfold in R. destruct R as [Pc [hcrec [N1 [N2 [N3 [N4 N5]]]]]].
  unfold below in Pc, N3.
  rewrite (copy_rec_unfold f hc cn e he hcrec He N1).
  destruct (header_spec hc cn cnrec hcrec he) as [h3 [Hh [X0 [X1 [X2 X3]]]]]; auto; try lia.
  rewrite Hn in *. rewrite Hh. simpl fst. simpl snd.
  assert (A3 : agree (below k) hc h3).
  { intros i Hi. unfold below in Hi. rewrite X1, X2, X3.
    assert (Nat.eqb i (m + 1) = false) as -> by (apply Nat.eqb_neq; lia).
    assert (Nat.eqb i cn = false) as -> by (apply Nat.eqb_neq; lia).
    assert (Nat.eqb i (m + 3) = false) as -> by (apply Nat.eqb_neq; lia).
    assert (Nat.eqb i (m + 4) = false) as -> by (apply Nat.eqb_neq; lia).
    assert (Nat.eqb i (m + 2) = false) as -> by (apply Nat.eqb_neq; lia).
    assert (Nat.eqb i m = false) as -> by (apply Nat.eqb_neq; lia). auto. }
  assert (Hcc : hnodes h3 (m + 1) = Some (mkHN (hn_name hcrec) m [cn] [m + 3])).
  { rewrite X1, Nat.eqb_refl. reflexivity. }
  destruct (fold_ok f k e nid (he_right he) (m + 1) (hn_name hcrec) m (Some (m + 3, cn))
                    sl (hn_neigh hcrec) (hn_br hcrec) h3 [cn] [m + 3] (m + 5))
    as [m' [newN [newB [Y0 [Y1 [Y2 [Y3 Y4]]]]]]]; auto; try lia.
  { eapply slots_frame; eauto. }
  { intros pe pn X. inversion X; subst. lia. }
  cbv zeta in *.
  set (hh := fold_left (fun hh e' => if Nat.eqb e' e then hh else copy_rec f hh (m + 1) e') (hn_br hcrec) h3) in *.
  destruct Y2 as [T1 [T2 T3]].
  exists m'. split; [exact Y0|]. split; [lia|]. split.
  - (* nothing below m changed, but the copied parent *)
    repeat split; intros i Hi.
    + intros Ni. rewrite T1 by lia. rewrite X1.
      assert (Nat.eqb i (m + 1) = false) as -> by (apply Nat.eqb_neq; lia).
      assert (Nat.eqb i cn = false) as -> by (apply Nat.eqb_neq; lia). reflexivity.
    + rewrite T2 by lia. rewrite X2.
      assert (Nat.eqb i (m + 3) = false) as -> by (apply Nat.eqb_neq; lia). reflexivity.
    + rewrite T3 by lia. rewrite X3.
      assert (Nat.eqb i (m + 4) = false) as -> by (apply Nat.eqb_neq; lia).
      assert (Nat.eqb i (m + 2) = false) as -> by (apply Nat.eqb_neq; lia).
      assert (Nat.eqb i m = false) as -> by (apply Nat.eqb_neq; lia). reflexivity.
  - exists (m + 1), (m + 3). split; [lia|]. split; [lia|]. split; [|split].
    + rewrite T1 by lia. rewrite X1.
      assert (Nat.eqb cn (m + 1) = false) as -> by (apply Nat.eqb_neq; lia).
      rewrite Nat.eqb_refl. reflexivity.
    + exists (mkHE cn (m + 1) (he_len he) (he_sup he) (he_pv he) (m + 4)).
      rewrite T2 by lia. rewrite X2, Nat.eqb_refl. simpl.
      repeat split; auto; try (unfold between; lia).
      rewrite T3 by lia. rewrite X3, Nat.eqb_refl. now rewrite (cell_of_some hc _ _ Hcell).
    + rewrite copy_node_false_unfold. apply repr_unfold. split; [unfold between; lia|].
      exists (mkHN (hn_name hcrec) m ([cn] ++ newN) ([m + 3] ++ newB)). simpl.
      split; [exact Y3|]. split; [exact N2|]. split; [unfold between; lia|]. split.
      * rewrite T3 by lia. rewrite X3.
        assert (Nat.eqb m (m + 4) = false) as -> by (apply Nat.eqb_neq; lia).
        assert (Nat.eqb m (m + 2) = false) as -> by (apply Nat.eqb_neq; lia).
        rewrite Nat.eqb_refl. now rewrite (cell_of_some hc _ _ N4).
      * split; [reflexivity|]. eapply slots_mono; [|exact Y4]. unfold between. intros; lia.
Qed.

(** * Clone *)
Lemma slots_root_par (P : nat -> Prop) h R nid k nid0 l : forall ns bs,
    (forall i, P i -> i <> k) ->
    slots_repr P h R nid None ns bs l -> slots_repr P h R nid (Some (k, nid0)) ns bs l.
Proof.
  induction l as [|[[ei ch]|] r IH]; intros [|x ns] [|e bs] Hk; simpl; auto.
  - intros [Pe [_ [He [Rc Rr]]]]. split; auto. split.
    + intros pe pn X. inversion X; subst. now apply Hk.
    + split; auto.
  - intros [X _]. discriminate.
Qed.

Lemma fold_no_test (F : heap -> nat -> heap) k bs : forall h,
    (forall e, In e bs -> e <> k) ->
    fold_left (fun hh e => if Nat.eqb e k then hh else F hh e) bs h = fold_left F bs h.
Proof.
  induction bs as [|e r IH]; intros h H; simpl; auto.
  assert (Nat.eqb e k = false) as -> by (apply Nat.eqb_neq; apply H; now left).
  apply IH. intros e' He'. apply H. now right.
Qed.

Lemma slots_br_in (P : nat -> Prop) h R nid par l : forall ns bs e,
    slots_repr P h R nid par ns bs l -> par = None -> In e bs -> P e.
Proof.
  induction l as [|[[ei ch]|] r IH]; intros [|x ns] [|e0 bs] e; simpl; try tauto.
  - intros [Pe [_ [_ [_ Rr]]]] Hp [<-|H]; auto. eapply IH; eauto.
  - intros [X _] ->. discriminate.
Qed.

Theorem clone_h_ok t fuel h root k :
  repr (below k) h root None t -> k <= hnext h -> usize t <= fuel ->
  exists m', hnext (fst (clone_h fuel h root)) = m' /\ hnext h <= snd (clone_h fuel h root) < m' /\
    agree (below k) h (fst (clone_h fuel h root)) /\
    repr (below k) (fst (clone_h fuel h root)) root None t /\
    repr (between (hnext h) m') (fst (clone_h fuel h root)) (snd (clone_h fuel h root)) None (clone t).
Proof.
  destruct t as [n c sl]. intros R Lk Fu. assert (R0 := R).
  apply repr_unfold in R. destruct R as [Pr [hr [N1 [N2 [N3 [N4 N5]]]]]].
  unfold below in Pr, N3. set (m := hnext h) in *.
  unfold clone_h. rewrite N1. unfold copy_node_h, alloc_cell. simpl. fold m.
  set (h1 := mkH (upd (hnodes h) (S m) (mkHN (hn_name hr) m [] [])) (hedges h)
                 (upd (hcells h) m (cell_of h (hn_com hr))) (S (S m))).
  assert (A1 : agree (below k) h h1).
  { intros i Hi. unfold below in Hi. unfold h1. simpl. rewrite !upd_other by lia. auto. }
  rewrite usize_unfold in Fu.
  assert (Hk : forall i, below k i -> i <> k) by (unfold below; intros; lia).
  assert (Hbr : forall e, In e (hn_br hr) -> e <> k).
  { intros e He. apply Hk. eapply slots_br_in; eauto. }
  rewrite <- (fold_no_test (fun hh e => copy_rec fuel hh (S m) e) k (hn_br hr) h1 Hbr).
  destruct (fold_ok fuel k k root root (S m) (hn_name hr) m None
                    sl (hn_neigh hr) (hn_br hr) h1 [] [] (S (S m)))
    as [m' [newN [newB [Y0 [Y1 [Y2 [Y3 Y4]]]]]]]; auto; try lia.
  { apply Forall_forall. intros [[e ch]|] _; auto. apply copy_rec_ok. }
  { apply slots_root_par; auto. eapply slots_frame; eauto. }
  { intros pe pn X. discriminate. }
  { unfold h1. simpl. now rewrite upd_same. }
  cbv zeta in *.
  set (hh := fold_left (fun hh e' => if Nat.eqb e' k then hh else copy_rec fuel hh (S m) e') (hn_br hr) h1) in *.
  assert (A2 : agree (below k) h1 hh) by (apply (stable_agree k (S (S m)) (S m)); auto; lia).
  assert (A : agree (below k) h hh).
  { intros i Hi. destruct (A1 i Hi) as [B1 [B2 B3]]. destruct (A2 i Hi) as [C1 [C2 C3]].
    repeat split; congruence. }
  destruct Y2 as [T1 [T2 T3]].
  exists m'. split; [exact Y0|]. split; [lia|]. split; [exact A|]. split.
  - exact (repr_frame (below k) h hh (UNode n c sl) root None A R0).
  - unfold clone. change (copy_node true (UNode n c sl)) with (UNode n c (copy_slots sl)).
    apply repr_unfold. split; [unfold between; lia|].
    exists (mkHN (hn_name hr) m newN newB). simpl.
    split; [exact Y3|]. split; [exact N2|]. split; [unfold between; lia|]. split.
    + rewrite T3 by lia. unfold h1. simpl. rewrite upd_same. now rewrite (cell_of_some h _ _ N4).
    + eapply slots_mono; [|exact Y4]. unfold between. intros; lia.
Qed.

(** * independence: the two regions are disjoint and [repr] only reads its region *)
Theorem regions_disjoint k m m' i : k <= m -> below k i -> between m m' i -> False.
Proof. unfold below, between. lia. Qed.

(** whatever is written later at ids outside the source region (in particular anywhere in the
    region of the copy), the source still carries [t]; and symmetrically *)
Theorem clone_independent t fuel h root k :
  repr (below k) h root None t -> k <= hnext h -> usize t <= fuel ->
  let h' := fst (clone_h fuel h root) in
  let r' := snd (clone_h fuel h root) in
  (forall h2, agree (below k) h' h2 -> repr (below k) h2 root None t) /\
  (forall h2, agree (between (hnext h) (hnext h')) h' h2 ->
              repr (between (hnext h) (hnext h')) h2 r' None (clone t)).
Proof.
  intros R Lk Fu. destruct (clone_h_ok t fuel h root k R Lk Fu) as [m' [E [B [A [R1 R2]]]]].
  cbv zeta. rewrite E. split; intros h2 A2; eapply repr_frame; eauto.
Qed.

(** * the hypotheses are satisfiable: a store that carries (a[ca]:1[ea],b); *)
Definition ex_tree : utree :=
  UNode "" [] [Some (mkE 1 nilv nilv ["ea"%string], UNode "a" ["ca"%string] [None]);
               Some (mkE nilv nilv nilv [], UNode "b" [] [None])].

Definition ex_heap : heap :=
  mkH (fun i => match i with
                | 0 => Some (mkHN "" 10 [1; 2] [3; 4])
                | 1 => Some (mkHN "a" 11 [0] [3])
                | 2 => Some (mkHN "b" 12 [0] [4])
                | _ => None end)
      (fun i => match i with
                | 3 => Some (mkHE 0 1 1 nilv nilv 13)
                | 4 => Some (mkHE 0 2 nilv nilv nilv 14)
                | _ => None end)
      (fun i => match i with
                | 10 => Some []
                | 11 => Some ["ca"%string]
                | 12 => Some []
                | 13 => Some ["ea"%string]
                | 14 => Some []
                | _ => None end)
      15.

Lemma ex_heap_repr : repr (below 15) ex_heap 0 None ex_tree.
Proof.
  unfold ex_tree. apply repr_unfold. split; [unfold below; lia|].
  eexists. split; [reflexivity|]. simpl. repeat split; try (unfold below; lia); try discriminate.
  - eexists. repeat split; try reflexivity; unfold below; simpl; lia.
  - eexists. split; [reflexivity|]. repeat split; unfold below; simpl; lia.
  - eexists. repeat split; try reflexivity; unfold below; simpl; lia.
  - eexists. split; [reflexivity|]. repeat split; unfold below; simpl; lia.
Qed.

(** * field writes confined to a region *)
Lemma agree_refl P h : agree P h h.
Proof. intros i _. auto. Qed.
Lemma agree_trans P h1 h2 h3 : agree P h1 h2 -> agree P h2 h3 -> agree P h1 h3.
Proof.
  intros A B i Hi. destruct (A i Hi) as [A1 [A2 A3]]. destruct (B i Hi) as [B1 [B2 B3]].
  repeat split; congruence.
Qed.

Lemma write_agree (P : nat -> Prop) h w :
  (forall i, In i (touched h w) -> ~ P i) -> agree P h (apply_write h w).
Proof.
  intros T i Hi.
  assert (N : forall j, In j (touched h w) -> i <> j) by (intros j Hj ->; now apply (T j)).
  destruct w; simpl in *.
  - destruct (hnodes h nid); simpl; auto. rewrite upd_other; auto.
  - destruct (hedges h eid); simpl; auto. rewrite upd_other; auto.
  - destruct (hedges h eid); simpl; auto. rewrite upd_other; auto.
  - destruct (hedges h eid); simpl; auto. rewrite upd_other; auto.
  - destruct (hnodes h nid); simpl; auto. rewrite upd_other; auto. apply N. simpl. auto.
  - destruct (hnodes h nid); simpl; auto. rewrite upd_other; auto. apply N. simpl. auto.
  - destruct (hedges h eid); simpl; auto. rewrite upd_other; auto. apply N. simpl. auto.
  - destruct (hedges h eid); simpl; auto. rewrite upd_other; auto. apply N. simpl. auto.
Qed.

(** every write of the sequence touches only ids of the region [Q], in the store it is
    applied to *)
Fixpoint confined (Q : nat -> Prop) (h : heap) (ws : list hwrite) : Prop :=
  match ws with
  | [] => True
  | w :: r => (forall i, In i (touched h w) -> Q i) /\ confined Q (apply_write h w) r
  end.

Theorem writes_agree (P Q : nat -> Prop) : (forall i, P i -> Q i -> False) ->
  forall ws h, confined Q h ws -> agree P h (apply_writes h ws).
Proof.
  intros D. induction ws as [|w r IH]; intros h C; simpl.
  - apply agree_refl.
  - destruct C as [C1 C2]. eapply agree_trans; [|apply IH; exact C2].
    apply write_agree. intros i Hi Pi. exact (D i Pi (C1 i Hi)).
Qed.

(** what a region carries is unchanged by any sequence of writes confined to a disjoint region *)
Theorem repr_writes (P Q : nat -> Prop) h nid par t ws :
  (forall i, P i -> Q i -> False) -> confined Q h ws ->
  repr P h nid par t -> repr P (apply_writes h ws) nid par t.
Proof. intros D C R. eapply repr_frame; [apply (writes_agree P Q D ws h C)|exact R]. Qed.

(** editing either one never changes the other *)
Theorem clone_edits t fuel h root k :
  repr (below k) h root None t -> k <= hnext h -> usize t <= fuel ->
  let h' := fst (clone_h fuel h root) in
  let r' := snd (clone_h fuel h root) in
  (forall ws, confined (between (hnext h) (hnext h')) h' ws ->
              repr (below k) (apply_writes h' ws) root None t) /\
  (forall ws, confined (below k) h' ws ->
              repr (between (hnext h) (hnext h')) (apply_writes h' ws) r' None (clone t)).
Proof.
  intros R Lk Fu. destruct (clone_h_ok t fuel h root k R Lk Fu) as [m' [E [B [A [R1 R2]]]]].
  cbv zeta. rewrite E. split; intros ws C.
  - apply (repr_writes (below k) (between (hnext h) m')); auto.
    intros i Hi Hj. exact (regions_disjoint k (hnext h) m' i Lk Hi Hj).
  - apply (repr_writes (between (hnext h) m') (below k)); auto.
    intros i Hi Hj. exact (regions_disjoint k (hnext h) m' i Lk Hj Hi).
Qed.

(** * SubTree *)
Lemma fold_filter (F : heap -> nat -> heap) e bs : forall h,
    fold_left (fun hh e' => if Nat.eqb e' e then hh else F hh e') bs h =
    fold_left F (filter (fun e' => negb (Nat.eqb e' e)) bs) h.
Proof. induction bs as [|x r IH]; intros h; simpl; auto. destruct (Nat.eqb x e); simpl; auto. Qed.

Lemma slots_br_cases (P : nat -> Prop) h R nid par l : forall ns bs e',
    slots_repr P h R nid par ns bs l -> In e' bs ->
    (exists he, hedges h e' = Some he /\ he_left he = nid /\ P e' /\
                forall pe pn, par = Some (pe, pn) -> e' <> pe) \/
    (exists x, par = Some (e', x)).
Proof.
  induction l as [|[[ei ch]|] r IH]; intros [|x ns] [|e0 bs] e'; simpl; try tauto.
  - intros [Pe [Ne [[he [E1 [E2 _]]] [_ Rr]]]] [<-|H].
    + left. exists he. auto.
    + eapply IH; eauto.
  - intros [E Rr] [<-|H].
    + right. eauto.
    + eapply IH; eauto.
Qed.

Theorem subtree_h_ok t fuel h nid par k :
  repr (below k) h nid par t ->
  (forall pe pn, par = Some (pe, pn) -> exists hpe, hedges h pe = Some hpe /\ he_left hpe <> nid) ->
  k <= hnext h -> usize t <= fuel ->
  exists m', hnext (fst (subtree_h fuel h nid)) = m' /\ hnext h <= snd (subtree_h fuel h nid) < m' /\
    agree (below k) h (fst (subtree_h fuel h nid)) /\
    repr (below k) (fst (subtree_h fuel h nid)) nid par t /\
    repr (between (hnext h) m') (fst (subtree_h fuel h nid)) (snd (subtree_h fuel h nid)) None
         (copy_node true t).
Proof.
  destruct t as [n c sl]. intros R Hpar Lk Fu. assert (R0 := R).
  apply repr_unfold in R. destruct R as [Pr [hr [N1 [N2 [N3 [N4 N5]]]]]].
  unfold below in Pr, N3. set (m := hnext h) in *.
  set (pe0 := match par with Some (pe, _) => pe | None => k end).
  set (pn0 := match par with Some (_, pn) => pn | None => nid end).
  unfold subtree_h. rewrite N1. unfold copy_node_h, alloc_cell. simpl. fold m.
  set (h1 := mkH (upd (hnodes h) (S m) (mkHN (hn_name hr) m [] [])) (hedges h)
                 (upd (hcells h) m (cell_of h (hn_com hr))) (S (S m))).
  assert (A1 : agree (below k) h h1).
  { intros i Hi. unfold below in Hi. unfold h1. simpl. rewrite !upd_other by lia. auto. }
  rewrite usize_unfold in Fu.
  (* the branches kept by the test are those that are not the parent branch *)
  assert (Hf : filter (fun e => match hedges h e with
                                | Some he => Nat.eqb (he_left he) nid
                                | None => false end) (hn_br hr)
               = filter (fun e' => negb (Nat.eqb e' pe0)) (hn_br hr)).
  { apply filter_ext_in. intros e' He'.
    destruct (slots_br_cases _ _ _ _ _ _ _ _ e' N5 He') as [[he [E1 [E2 [E3 E4]]]]|[x Ex]].
    - rewrite E1, E2, Nat.eqb_refl. symmetry. apply negb_true_iff, Nat.eqb_neq.
      unfold pe0. destruct par as [[pe pn]|]; [apply (E4 pe pn eq_refl)|unfold below in E3; lia].
    - destruct (Hpar e' x Ex) as [hpe [H1 H2]]. rewrite H1.
      unfold pe0. rewrite Ex. rewrite Nat.eqb_refl. simpl. now apply Nat.eqb_neq. }
  rewrite Hf, <- (fold_filter (fun hh e => copy_rec fuel hh (S m) e) pe0 (hn_br hr) h1).
  destruct (fold_ok fuel k pe0 pn0 nid (S m) (hn_name hr) m None
                    sl (hn_neigh hr) (hn_br hr) h1 [] [] (S (S m)))
    as [m' [newN [newB [Y0 [Y1 [Y2 [Y3 Y4]]]]]]]; auto; try lia.
  { apply Forall_forall. intros [[e ch]|] _; auto. apply copy_rec_ok. }
  { eapply slots_frame; [exact A1|]. unfold pe0, pn0. destruct par as [[pe pn]|]; auto.
    apply slots_root_par; auto. unfold below. intros; lia. }
  { intros pe pn X. discriminate. }
  { unfold h1. simpl. now rewrite upd_same. }
  cbv zeta in *.
  set (hh := fold_left (fun hh e' => if Nat.eqb e' pe0 then hh else copy_rec fuel hh (S m) e') (hn_br hr) h1) in *.
  assert (A2 : agree (below k) h1 hh) by (apply (stable_agree k (S (S m)) (S m)); auto; lia).
  assert (A : agree (below k) h hh) by (eapply agree_trans; eauto).
  destruct Y2 as [T1 [T2 T3]].
  exists m'. split; [exact Y0|]. split; [lia|]. split; [exact A|]. split.
  - exact (repr_frame (below k) h hh (UNode n c sl) nid par A R0).
  - change (copy_node true (UNode n c sl)) with (UNode n c (copy_slots sl)).
    apply repr_unfold. split; [unfold between; lia|].
    exists (mkHN (hn_name hr) m newN newB). simpl.
    split; [exact Y3|]. split; [exact N2|]. split; [unfold between; lia|]. split.
    + rewrite T3 by lia. unfold h1. simpl. rewrite upd_same. now rewrite (cell_of_some h _ _ N4).
    + eapply slots_mono; [|exact Y4]. unfold between. intros; lia.
Qed.

Theorem subtree_edits t fuel h nid par k :
  repr (below k) h nid par t ->
  (forall pe pn, par = Some (pe, pn) -> exists hpe, hedges h pe = Some hpe /\ he_left hpe <> nid) ->
  k <= hnext h -> usize t <= fuel ->
  let h' := fst (subtree_h fuel h nid) in
  let r' := snd (subtree_h fuel h nid) in
  (forall ws, confined (between (hnext h) (hnext h')) h' ws ->
              repr (below k) (apply_writes h' ws) nid par t) /\
  (forall ws, confined (below k) h' ws ->
              repr (between (hnext h) (hnext h')) (apply_writes h' ws) r' None (copy_node true t)).
Proof.
  intros R Hp Lk Fu. destruct (subtree_h_ok t fuel h nid par k R Hp Lk Fu) as [m' [E [B [A [R1 R2]]]]].
  cbv zeta. rewrite E. split; intros ws C.
  - apply (repr_writes (below k) (between (hnext h) m')); auto.
    intros i Hi Hj. exact (regions_disjoint k (hnext h) m' i Lk Hi Hj).
  - apply (repr_writes (between (hnext h) m') (below k)); auto.
    intros i Hi Hj. exact (regions_disjoint k (hnext h) m' i Lk Hj Hi).
Qed.

(** * GraftTreeOnTip: what is shared afterwards *)
Lemma slots_add_par (P : nat -> Prop) h R nid pe pn l : forall ns bs,
    ~ P pe ->
    slots_repr P h R nid None ns bs l ->
    slots_repr P h R nid (Some (pe, pn)) (ns ++ [pn]) (bs ++ [pe]) (l ++ [None]).
Proof.
  induction l as [|[[ei ch]|] r IH]; intros [|x ns] [|e bs] Np; simpl; try tauto.
  - intros [Pe [_ [He [Rc Rr]]]]. split; auto. split.
    + intros pe' pn' X. inversion X; subst. intros ->. tauto.
    + split; auto.
  - intros [X _]. discriminate.
Qed.

(** the graft's root keeps its id and its descendants; it gains the host's node [pn] as a last
    neighbour through the host's branch [pe], whose right end it now is: the nodes of the graft
    are now nodes of the host (nothing is copied, nothing is allocated) *)
Theorem graft_h_shares h tn tr h' (Q : nat -> Prop) n c sl root :
  graft_h h tn tr = Some h' ->
  (* the graft: root [tr] (record [root]), everything below it in the region Q *)
  hnodes h tr = Some root -> hn_name root = n -> hcells h (hn_com root) = Some c ->
  slots_repr Q h (repr Q h) tr None (hn_neigh root) (hn_br root) sl ->
  exists pe pn hpe,
    hedges h pe = Some hpe /\ he_right hpe = tn /\ he_left hpe = pn /\
    (pn <> tr -> ~ Q tr -> ~ Q pn -> ~ Q pe ->
     hnext h' = hnext h /\
     hedges h' pe = Some (mkHE pn tr (he_len hpe) (he_sup hpe) (he_pv hpe) (he_com hpe)) /\
     (forall i, i <> pn -> i <> tr -> hnodes h' i = hnodes h i) /\
     (forall i, i <> pe -> hedges h' i = hedges h i) /\
     (forall i, hcells h' i = hcells h i) /\
     repr (fun i => Q i \/ i = tr \/ i = hn_com root) h' tr (Some (pe, pn))
          (add_up_end (UNode n c sl))).
Proof.
  unfold graft_h. intros G Hr Hn Hc Hs.
  destruct (hnodes h tn) as [tip|]; [|discriminate].
  destruct (find _ (hn_br tip)) as [pe|] eqn:Fe; [|discriminate].
  destruct (hedges h pe) as [hpe|] eqn:Epe; [|discriminate].
  destruct (hnodes h (he_left hpe)) as [par|] eqn:Epn; [|discriminate].
  rewrite Hr in G.
  destruct (index_of_nat tn (hn_neigh par)) as [idx|]; [|discriminate].
  inversion G; subst h'. clear G.
  apply find_some in Fe. destruct Fe as [_ Fe]. rewrite Epe in Fe. apply Nat.eqb_eq in Fe.
  exists pe, (he_left hpe), hpe. split; auto. split; auto. split; auto.
  intros Npt Qt Qp Qe. change (add_up_end (UNode n c sl)) with (UNode n c (sl ++ [None])).
  set (h2 := mkH _ _ _ _).
  assert (A : agree Q h h2).
  { intros i Qi. unfold h2. simpl. rewrite !upd_other; auto; intros ->; tauto. }
  split; [reflexivity|]. split; [unfold h2; simpl; now rewrite upd_same|].
  split; [intros i N1 N2; unfold h2; simpl; now rewrite !upd_other by auto|].
  split; [intros i N1; unfold h2; simpl; now rewrite upd_other by auto|]. split; [reflexivity|].
  (* the graft's handle now denotes a subtree of the host *)
  apply repr_unfold. split; [right; now left|].
  exists (mkHN (hn_name root) (hn_com root) (hn_neigh root ++ [he_left hpe]) (hn_br root ++ [pe])).
  split; [unfold h2; simpl; now rewrite upd_same|]. simpl.
  split; auto. split; [right; right; auto|]. split; [exact Hc|].
  apply (slots_mono Q).
  { intros i Qi. now left. }
  apply slots_add_par; auto.
  eapply slots_frame; eauto.
Qed.
