(** Heap model, Reroot, part 2: the two traversals of Tree.Reroot on a heap.
    [nodes_rec] (Tree.Nodes) lists the node ids in pre-order; [reorder_edges]
    (Tree.ReorderEdges) turns an orientation-free shape into an oriented one, touching only the
    [left]/[right] fields of the edges below the node it is called on. *)
From Coq Require Import String ZArith QArith Bool Arith Lia Permutation List.
From GT Require Import Base.UTree Model.Reroot Model.Heap Proofs.Enum Proofs.HeapBase Proofs.HeapRep
     Proofs.HeapGood Proofs.HeapGoodRep Proofs.HeapRerootL.
Import ListNotations.
Local Close Scope Q_scope.

(** * transfer of [shape] between heaps *)
Lemma shape_transfer o o' h h' : forall lt prev,
  (forall n, In n (lids lt) -> alookup n (hnodes h') = alookup n (hnodes h)) ->
  (forall e i c ei, In e (leids lt) -> edge_ok o h e i c ei -> edge_ok o' h' e i c ei) ->
  shape o h prev lt -> shape o' h' prev lt.
Proof.
  induction lt as [i n c sl IH] using ltree_ind'. intros prev Hn He H.
  apply shape_unfold in H. apply shape_unfold. destruct H as [hn (H1 & H2 & H3 & H4 & H5)].
  exists hn. split; [rewrite Hn; [exact H1|left; reflexivity]|]. repeat split; try assumption.
  rewrite Forall_forall in IH.
  apply (Forall2_impl_r _ _ _ _ H5). intros ce s Hin Hs. specialize (IH s Hin).
  destruct s as [[[e ei] ch]|]; cbn [slot_ok lslotP] in *; [|exact Hs].
  destruct Hs as (A & B & C & D & E). repeat split; try assumption.
  - apply He; [|exact D]. subst e. eapply in_leids_here. exact Hin.
  - apply IH; [| |exact E].
    + intros n0 Hi. apply Hn. eapply in_lids_child; eassumption.
    + intros e0 i0 c0 ei0 Hi. apply He. eapply in_leids_child; eassumption.
Qed.

Lemma edge_ok_eq o h h' e i c ei : alookup e (hedges h') = alookup e (hedges h) ->
  edge_ok o h e i c ei -> edge_ok o h' e i c ei.
Proof. intros E [ed (A & B & C)]. exists ed. rewrite E. repeat split; assumption. Qed.

Lemma in_sids sl e ei ch x : In (Some (e, ei, ch)) sl -> In x (lids ch) -> In x (sids sl).
Proof. intros Hs Hx. apply in_flat_map. exists (Some (e, ei, ch)). split; assumption. Qed.
Lemma in_seids sl e ei ch x : In (Some (e, ei, ch)) sl -> In x (leids ch) -> In x (seids sl).
Proof. intros Hs Hx. apply in_flat_map. exists (Some (e, ei, ch)). split; [assumption|right; assumption]. Qed.
Lemma in_seids_here sl e ei ch : In (Some (e, ei, ch)) sl -> In e (seids sl).
Proof. intros Hs. apply in_flat_map. exists (Some (e, ei, ch)). split; [assumption|left; reflexivity]. Qed.

Lemma slots_transfer o o' h h' prev i l sl :
  (forall n, In n (sids sl) -> alookup n (hnodes h') = alookup n (hnodes h)) ->
  (forall e i c ei, In e (seids sl) -> edge_ok o h e i c ei -> edge_ok o' h' e i c ei) ->
  Forall2 (slot_ok o h prev i) l sl -> Forall2 (slot_ok o' h' prev i) l sl.
Proof.
  intros Hn He H. apply (Forall2_impl_r _ _ _ _ H). intros ce s Hin Hs.
  destruct s as [[[e ei] ch]|]; cbn [slot_ok] in *; [|exact Hs].
  destruct Hs as (A & B & C & D & E). repeat split; try assumption.
  - apply He; [|exact D]. subst e. eapply in_seids_here. exact Hin.
  - eapply shape_transfer; [| |exact E].
    + intros n0 Hi. apply Hn. eapply in_sids; eassumption.
    + intros e0 i0 c0 ei0 Hi. apply He. eapply in_seids; eassumption.
Qed.

Lemma Forall2_length' {A B} (P : A -> B -> Prop) l l' : Forall2 P l l' -> length l = length l'.
Proof. induction 1; cbn; congruence. Qed.

Lemma shape_length o h prev i n c sl hn : shape o h prev (LNode i n c sl) -> alookup i (hnodes h) = Some hn ->
  length (hneigh hn) = length sl /\ length (hbr hn) = length sl.
Proof.
  intros Sh Hn. apply shape_unfold in Sh. destruct Sh as [hn' (A1 & A2 & A3 & A4 & A5)].
  rewrite Hn in A1. injection A1 as <-. apply Forall2_length' in A5. rewrite combine_length in A5. lia.
Qed.

(** * Tree.Nodes *)
Definition nodes_loop (f : nat) (h : heap) (cur : nat) (prev : option nat) : list nat -> hres (list nat) :=
  fix loop (l : list nat) : hres (list nat) :=
    match l with
    | [] => HOk []
    | n :: r =>
      if opt_nat_eqb (Some n) prev then loop r
      else do a <- nodes_rec f h n (Some cur); do b <- loop r; HOk (a ++ b)
    end.

Lemma nodes_rec_S f h cur prev :
  nodes_rec (S f) h cur prev = do hn <- get_node h cur; do rest <- nodes_loop f h cur prev (hneigh hn); HOk (cur :: rest).
Proof. reflexivity. Qed.

Lemma nodes_rec_ok o h : forall lt prev fuel,
  shape o h prev lt -> (forall p pe, prev = Some (p, pe) -> ~ In p (lids lt)) -> NoDup (lids lt) ->
  lheight lt <= fuel -> nodes_rec fuel h (lid lt) (option_map fst prev) = HOk (lids lt).
Proof.
  induction lt as [i n c sl IH] using ltree_ind'. intros prev fuel Sh Hp Hnd Hf.
  destruct fuel as [|f]; [cbn in Hf; lia|]. rewrite nodes_rec_S. cbn [lid].
  apply shape_unfold in Sh. destruct Sh as [hn (A1 & A2 & A3 & A4 & A5)].
  unfold get_node. rewrite A1. cbn [hbind]. rewrite lids_eq.
  assert (H : nodes_loop f h i (option_map fst prev) (map fst (slots_of hn)) = HOk (sids sl)).
  { assert (Hp' : forall p pe, prev = Some (p, pe) -> ~ In p (sids sl)).
    { intros p pe E Hi. apply (Hp p pe E). rewrite lids_eq. right. exact Hi. }
    assert (Hk : forall e ei ch, In (Some (e, ei, ch)) sl -> lheight ch <= f /\ NoDup (lids ch) /\ ~ In i (lids ch)).
    { intros e ei ch Hs. split; [pose proof (lheight_child i n c sl _ _ _ Hs); lia|]. split.
      - rewrite lids_eq in Hnd. inversion Hnd as [|? ? _ Hnd']; subst. exact (NoDup_flat_map_in _ _ _ Hnd' Hs).
      - eapply lids_head_notin; eassumption. }
    rewrite Forall_forall in IH. unfold slots_of. clear Hp Hnd Hf A1 A4. revert A5. generalize (combine (hneigh hn) (hbr hn)).
    induction sl as [|s sl IHsl]; intros l A5; inversion A5 as [|[c0 e0] ? l' ? Hs Hr]; subst; [reflexivity|].
    cbn [map fst nodes_loop]. destruct s as [[[e ei] ch]|]; cbn [slot_ok fst snd] in Hs.
    - destruct Hs as (B1 & B2 & B3 & B4 & B5). subst e0 c0.
      assert (opt_nat_eqb (Some (lid ch)) (option_map fst prev) = false) as ->.
      { destruct prev as [[p pe]|]; [|reflexivity]. cbn. apply Nat.eqb_neq. intros E.
        apply (Hp' p pe eq_refl). eapply in_sids; [left; reflexivity|]. rewrite <- E. apply lid_in_lids. }
      destruct (Hk e ei ch (or_introl eq_refl)) as (K1 & K2 & K3).
      assert (R : nodes_rec f h (lid ch) (Some i) = HOk (lids ch)).
      { apply (IH _ (or_introl eq_refl) (Some (i, e)) f B5); [intros p pe [= <- <-]; exact K3|exact K2|exact K1]. }
      rewrite R. cbn [hbind]. rewrite IHsl; [reflexivity| | | |exact Hr].
      + intros s Hs'. apply IH. right. exact Hs'.
      + intros p pe E Hi. apply (Hp' p pe E). cbn. apply in_or_app. right. exact Hi.
      + intros e' ei' ch' Hs'. apply Hk with (e := e') (ei := ei'). right. exact Hs'.
    - subst prev. cbn [option_map fst opt_nat_eqb]. rewrite Nat.eqb_refl. apply IHsl; [| | |exact Hr].
      + intros s Hs'. apply IH. right. exact Hs'.
      + intros p pe E Hi. apply (Hp' p pe E). exact Hi.
      + intros e' ei' ch' Hs'. apply Hk with (e := e') (ei := ei'). right. exact Hs'. }
  rewrite slots_of_fst in H by exact A4. rewrite H. reflexivity.
Qed.

(** * Tree.ReorderEdges *)
Definition reorder_loop (f : nat) (n : nat) (prev : option nat) : list nat -> heap -> hres heap :=
  fix loop (bs : list nat) (h : heap) : hres heap :=
    match bs with
    | [] => HOk h
    | e :: r =>
      do ed <- get_edge h e;
      if negb (opt_nat_eqb (Some (hright ed)) prev) && negb (opt_nat_eqb (Some (hleft ed)) prev)
      then
        let ed' := if Nat.eqb (hright ed) n then flip ed else ed in
        let h1 := if Nat.eqb (hright ed) n then set_edge h e ed' else h in
        do h2 <- reorder_edges f (hright ed') (Some n) h1;
        loop r h2
      else loop r h
    end.

Lemma reorder_edges_S f n prev h :
  reorder_edges (S f) n prev h = do hn <- get_node h n; reorder_loop f n prev (hbr hn) h.
Proof. reflexivity. Qed.

Lemma reorder_loop_cons f n prev e r h :
  reorder_loop f n prev (e :: r) h =
  do ed <- get_edge h e;
  if negb (opt_nat_eqb (Some (hright ed)) prev) && negb (opt_nat_eqb (Some (hleft ed)) prev)
  then
    do h2 <- reorder_edges f (hright (if Nat.eqb (hright ed) n then flip ed else ed)) (Some n)
                           (if Nat.eqb (hright ed) n then set_edge h e (if Nat.eqb (hright ed) n then flip ed else ed) else h);
    reorder_loop f n prev r h2
  else reorder_loop f n prev r h.
Proof. reflexivity. Qed.

(** everything but the edges is untouched *)
Definition same_nodes (h h' : heap) : Prop :=
  hnodes h' = hnodes h /\ hroot h' = hroot h /\ hnextn h' = hnextn h /\ hnexte h' = hnexte h.

Lemma same_nodes_refl h : same_nodes h h.
Proof. repeat split. Qed.
Lemma same_nodes_trans h1 h2 h3 : same_nodes h1 h2 -> same_nodes h2 h3 -> same_nodes h1 h3.
Proof. intros (A & B & C & D) (A' & B' & C' & D'). repeat split; congruence. Qed.

(** the way in: the parent [p] is outside, the parent edge [pe] exists and touches [p] *)
Definition prev_ok (h : heap) (prev : option (nat * nat)) (ns es : list nat) : Prop :=
  match prev with
  | None => True
  | Some (p, pe) => ~ In p ns /\ ~ In pe es /\
                    exists ed, alookup pe (hedges h) = Some ed /\ (hleft ed = p \/ hright ed = p)
  end.

Definition reorder_spec (lt : ltree) : Prop := forall fuel prev h,
  shape false h prev lt -> NoDup (lids lt) -> NoDup (leids lt) -> prev_ok h prev (lids lt) (leids lt) ->
  lheight lt <= fuel ->
  exists h', reorder_edges fuel (lid lt) (option_map fst prev) h = HOk h' /\ same_nodes h h' /\
             (forall e, ~ In e (leids lt) -> alookup e (hedges h') = alookup e (hedges h)) /\
             shape true h' prev lt.

Lemma reorder_loop_ok f i prev : forall slr l h,
  Forall2 (slot_ok false h prev i) l slr ->
  (forall e ei ch, In (Some (e, ei, ch)) slr -> reorder_spec ch /\ lheight ch <= f) ->
  NoDup (sids slr) -> NoDup (seids slr) -> ~ In i (sids slr) ->
  prev_ok h prev (i :: sids slr) (seids slr) ->
  exists h', reorder_loop f i (option_map fst prev) (map snd l) h = HOk h' /\ same_nodes h h' /\
             (forall e, ~ In e (seids slr) -> alookup e (hedges h') = alookup e (hedges h)) /\
             Forall2 (slot_ok true h' prev i) l slr.
Proof.
  induction slr as [|s slr IH]; intros l h F2 Hk Hnd Hned Hi Hprev; inversion F2 as [|[c0 e0] ? l' ? Hs Hr]; subst.
  { exists h. repeat split. constructor. }
  cbn [map snd]. rewrite reorder_loop_cons. destruct s as [[[e ei] ch]|]; cbn [slot_ok fst snd] in Hs.
  - (* a child slot *)
    destruct Hs as (B1 & B2 & B3 & [ed (B4 & B5 & B6)] & B7). subst e0 c0 ei.
    assert (Hin : In (Some (e, hinfo ed, ch)) (Some (e, hinfo ed, ch) :: slr)) by (left; reflexivity).
    destruct (Hk _ _ _ Hin) as [Hspec Hh].
    cbn [sids seids flat_map] in Hnd, Hned, Hi. fold (sids slr) in Hnd, Hi. fold (seids slr) in Hned.
    apply NoDup_app_iff in Hnd. destruct Hnd as (N1 & N2 & N3).
    inversion Hned as [|? ? Hne Hned']; subst. apply NoDup_app_iff in Hned'. destruct Hned' as (M1 & M2 & M3).
    assert (Hci : lid ch <> i). { intros E. apply Hi. apply in_or_app. left. rewrite <- E. apply lid_in_lids. }
    unfold get_edge. rewrite B4. cbn [hbind].
    assert (Hcond : negb (opt_nat_eqb (Some (hright ed)) (option_map fst prev)) &&
                    negb (opt_nat_eqb (Some (hleft ed)) (option_map fst prev)) = true).
    { destruct prev as [[p pe]|]; [|reflexivity]. cbn [option_map fst opt_nat_eqb].
      destruct Hprev as (P1 & _). apply andb_true_iff. rewrite !negb_true_iff, !Nat.eqb_neq.
      assert (p <> i) by (intros E; apply P1; left; symmetry; exact E).
      assert (p <> lid ch). { intros E. apply P1. right. cbn. apply in_or_app. left. rewrite E. apply lid_in_lids. }
      cbn in B6. destruct B6 as [[X Y]|[X Y]]; rewrite X, Y; split; congruence. }
    rewrite Hcond.
    assert (Hr' : hright (if Nat.eqb (hright ed) i then flip ed else ed) = lid ch).
    { cbn in B6. destruct (Nat.eqb_spec (hright ed) i) as [E|E]; cbn; destruct B6 as [[X Y]|[X Y]]; congruence. }
    rewrite Hr'.
    set (h1 := if Nat.eqb (hright ed) i then set_edge h e (if Nat.eqb (hright ed) i then flip ed else ed) else h).
    assert (H1 : same_nodes h h1 /\ (forall e0, e0 <> e -> alookup e0 (hedges h1) = alookup e0 (hedges h)) /\
                 exists ed1, alookup e (hedges h1) = Some ed1 /\ hinfo ed1 = hinfo ed /\ hleft ed1 = i /\ hright ed1 = lid ch).
    { unfold h1. cbn in B6. destruct (Nat.eqb_spec (hright ed) i) as [E|E].
      - split; [repeat split|]. split; [intros e0 Hne0; cbn; apply alookup_aupd_ne; exact Hne0|].
        exists (flip ed). cbn. rewrite alookup_aupd_eq. repeat split; [exact E|].
        destruct B6 as [[X Y]|[X Y]]; congruence.
      - split; [apply same_nodes_refl|]. split; [reflexivity|]. exists ed. repeat split; try assumption;
        destruct B6 as [[X Y]|[X Y]]; congruence. }
    clearbody h1. destruct H1 as ((SN1 & SN1') & F1 & [ed1 (E1 & E2 & E3 & E4)]).
    (* the recursive call *)
    destruct (Hspec f (Some (i, e)) h1) as [h2 (R1 & (SN2 & SN2') & F2' & S2)].
    { eapply shape_transfer; [| |exact B7].
      - intros n0 _. rewrite SN1. reflexivity.
      - intros e0 i0 c0 ei0 He0. apply edge_ok_eq. apply F1. intros ->. exact (Hne (in_or_app _ _ _ (or_introl He0))). }
    { exact N1. }
    { exact M1. }
    { cbn. split; [|split].
      - intros Hx. apply Hi. apply in_or_app. left. exact Hx.
      - intros Hx. apply Hne. apply in_or_app. left. exact Hx.
      - exists ed1. split; [exact E1|left; exact E3]. }
    { exact Hh. }
    cbn [option_map fst] in R1. rewrite R1. cbn [hbind].
    (* the rest of the loop *)
    destruct (IH l' h2) as [h' (L1 & (SN3 & SN3') & F3 & S3)].
    { eapply slots_transfer; [| |exact Hr].
      - intros n0 _. rewrite SN2, SN1. reflexivity.
      - intros e0 i0 c0 ei0 He0. apply edge_ok_eq. rewrite F2', F1; [reflexivity| |].
        + intros ->. apply Hne. apply in_or_app. right. exact He0.
        + intros Hx. exact (M3 _ Hx He0). }
    { intros e' ei' ch' Hs'. apply Hk with (e := e') (ei := ei'). right. exact Hs'. }
    { exact N2. }
    { exact M2. }
    { intros Hx. apply Hi. apply in_or_app. right. exact Hx. }
    { destruct prev as [[p pe]|]; [|exact I]. cbn in Hprev |- *. destruct Hprev as (P1 & P2 & [ped (P3 & P4)]).
      split; [|split].
      - intros [Hx|Hx]; apply P1; [left; exact Hx|right; apply in_or_app; right; exact Hx].
      - intros Hx. apply P2. right. apply in_or_app. right. exact Hx.
      - exists ped. split; [|exact P4]. rewrite F2', F1; [exact P3| |].
        + intros ->. apply P2. left. reflexivity.
        + intros Hx. apply P2. right. apply in_or_app. left. exact Hx. }
    exists h'. split; [exact L1|]. split; [apply (same_nodes_trans h h1 h'); [split; assumption|apply (same_nodes_trans h1 h2 h'); split; assumption]|].
    split.
    + intros e0 He0. cbn [seids flat_map] in He0. fold (seids slr) in He0.
      rewrite F3, F2', F1; [reflexivity| | |].
      * intros ->. apply He0. left. reflexivity.
      * intros Hx. apply He0. right. apply in_or_app. left. exact Hx.
      * intros Hx. apply He0. right. apply in_or_app. right. exact Hx.
    + constructor; [|exact S3]. cbn [slot_ok fst snd]. repeat split; try assumption; try reflexivity.
      * exists ed1. split; [|repeat split; assumption]. rewrite F3, F2'; [exact E1| |].
        -- intros Hx. apply Hne. apply in_or_app. left. exact Hx.
        -- intros Hx. apply Hne. apply in_or_app. right. exact Hx.
      * eapply shape_transfer; [| |exact S2].
        -- intros n0 _. rewrite SN3. reflexivity.
        -- intros e0 i0 c0 ei0 He0. apply edge_ok_eq. apply F3. intros Hx. exact (M3 _ He0 Hx).
  - (* the parent slot: skipped *)
    subst prev. cbn [prev_ok] in Hprev. destruct Hprev as (P1 & P2 & [ped (P3 & P4)]).
    unfold get_edge. rewrite P3. cbn [hbind option_map fst opt_nat_eqb].
    assert (Hcond : negb (Nat.eqb (hright ped) c0) && negb (Nat.eqb (hleft ped) c0) = false).
    { apply andb_false_iff. destruct P4 as [<-|<-]; [right|left]; rewrite Nat.eqb_refl; reflexivity. }
    rewrite Hcond.
    destruct (IH l' h Hr) as [h' (L1 & SN & F3 & S3)].
    { intros e' ei' ch' Hs'. apply Hk with (e := e') (ei := ei'). right. exact Hs'. }
    { exact Hnd. }
    { exact Hned. }
    { exact Hi. }
    { cbn. split; [exact P1|]. split; [exact P2|]. exists ped. split; assumption. }
    exists h'. split; [exact L1|]. split; [exact SN|]. split; [exact F3|].
    constructor; [reflexivity|exact S3].
Qed.

Theorem reorder_ok : forall lt, reorder_spec lt.
Proof.
  induction lt as [i n c sl IH] using ltree_ind'. intros fuel prev h Sh Hnd Hned Hprev Hf.
  destruct fuel as [|f]; [cbn in Hf; lia|]. rewrite reorder_edges_S. cbn [lid].
  pose proof Sh as Sh0. apply shape_unfold in Sh. destruct Sh as [hn (A1 & A2 & A3 & A4 & A5)].
  unfold get_node. rewrite A1. cbn [hbind].
  rewrite lids_eq in Hnd, Hprev. rewrite leids_eq in Hned, Hprev. fold (sids sl) in Hnd, Hprev. fold (seids sl) in Hned, Hprev.
  inversion Hnd as [|? ? Hni Hnd']; subst.
  destruct (reorder_loop_ok f i prev sl (slots_of hn) h A5) as [h' (L1 & SN & F3 & S3)].
  - intros e ei ch Hs. rewrite Forall_forall in IH. split; [exact (IH _ Hs)|].
    pose proof (lheight_child i (hname hn) (hcom hn) sl _ _ _ Hs). lia.
  - exact Hnd'.
  - exact Hned.
  - exact Hni.
  - exact Hprev.
  - rewrite slots_of_snd in L1 by exact A4. exists h'. split; [exact L1|]. split; [exact SN|]. split; [exact F3|].
    apply shape_unfold. exists hn. destruct SN as (SN & _). rewrite SN. repeat split; assumption.
Qed.
