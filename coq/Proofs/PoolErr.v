(** FBP's error hand-over (Model/PoolErr.v): with the mutex every worker reaches wg.Done() —
    from every reachable state, for every number of workers and of erroneous trees, some
    continuation ends with all workers Exited; with the capacity-1 channel and a blocking send
    before Done, a second failing worker blocks for ever. *)
From Coq Require Import Bool Arith Lia List.
From GT Require Import Model.Pool Model.PoolErr Proofs.Pool.
Import ListNotations.

Local Arguments epending {job err} _.
Local Arguments eclosed {job err} _.
Local Arguments equeue {job err} _.
Local Arguments ews {job err} _.
Local Arguments emutex {job err} _.
Local Arguments efirst {job err} _.
Local Arguments echan {job err} _.
Local Arguments mkE {job err}.
Local Arguments eproducer_step {job err}.
Local Arguments eworker_step {job err}.
Local Arguments estep {job err}.
Local Arguments erun {job err}.
Local Arguments einit {job err}.
Local Arguments efinished {job err} _.
Local Arguments e_exited {job} _.

Section ErrProofs.
  Variables (job err : Type).
  Variable fails : job -> bool.
  Variable e_of : job -> err.
  Variable mode : handover.

  Local Notation state := (est job err).
  Local Notation wst := (estate job).
  Local Notation stepf := (estep fails e_of mode).
  Local Notation runf := (erun fails e_of mode).

  Inductive wstepE (s : state) (i : nat) : state -> Prop :=
  | WE_stutter : wstepE s i s
  | WE_take l1 l2 j q :
      ews s = l1 ++ EIdle :: l2 -> length l1 = i -> equeue s = j :: q ->
      wstepE s i (mkE (epending s) (eclosed s) q (l1 ++ EBusy j :: l2) (emutex s) (efirst s) (echan s))
  | WE_exit l1 l2 :
      ews s = l1 ++ EIdle :: l2 -> length l1 = i -> equeue s = [] -> eclosed s = true ->
      wstepE s i (mkE (epending s) true [] (l1 ++ EExited :: l2) (emutex s) (efirst s) (echan s))
  | WE_ok l1 l2 j :
      ews s = l1 ++ EBusy j :: l2 -> length l1 = i -> fails j = false ->
      wstepE s i (mkE (epending s) (eclosed s) (equeue s) (l1 ++ EIdle :: l2) (emutex s) (efirst s) (echan s))
  | WE_lock l1 l2 j :
      ews s = l1 ++ EBusy j :: l2 -> length l1 = i -> fails j = true -> mode = ByMutex ->
      emutex s = false ->
      wstepE s i (mkE (epending s) (eclosed s) (equeue s) (l1 ++ ECrit j :: l2) true (efirst s) (echan s))
  | WE_send l1 l2 j :
      ews s = l1 ++ EBusy j :: l2 -> length l1 = i -> fails j = true -> mode = ByChan ->
      length (echan s) < 1 ->
      wstepE s i (mkE (epending s) (eclosed s) (equeue s) (l1 ++ EExited :: l2) (emutex s) (efirst s)
                      (echan s ++ [e_of j]))
  | WE_set l1 l2 j :
      ews s = l1 ++ ECrit j :: l2 -> length l1 = i ->
      wstepE s i (mkE (epending s) (eclosed s) (equeue s) (l1 ++ ELeave :: l2) (emutex s)
                      (match efirst s with None => Some (e_of j) | x => x end) (echan s))
  | WE_unlock l1 l2 :
      ews s = l1 ++ ELeave :: l2 -> length l1 = i ->
      wstepE s i (mkE (epending s) (eclosed s) (equeue s) (l1 ++ EExited :: l2) false (efirst s) (echan s)).

  Lemma eworker_step_spec s i : wstepE s i (eworker_step fails e_of mode s i).
  Proof.
    unfold eworker_step.
    destruct (nth_error (ews s) i) as [w|] eqn:E; [|apply WE_stutter].
    destruct (nth_error_mid _ _ _ E) as (l1 & l2 & Hl & Hlen & Hset).
    destruct w as [|j|j| |]; try apply WE_stutter.
    - destruct (equeue s) as [|j q] eqn:Q.
      + destruct (eclosed s) eqn:C; [|apply WE_stutter]. rewrite Hset. eapply WE_exit; eauto.
      + rewrite Hset. eapply WE_take; eauto.
    - destruct (fails j) eqn:F.
      + destruct mode eqn:Mo.
        * destruct (emutex s) eqn:Mx; [apply WE_stutter|]. rewrite Hset. eapply WE_lock; eauto.
        * destruct (length (echan s) <? 1) eqn:L; [|apply WE_stutter].
          apply Nat.ltb_lt in L. rewrite Hset. eapply WE_send; eauto.
      + rewrite Hset. eapply WE_ok; eauto.
    - rewrite Hset. eapply WE_set; eauto.
    - rewrite Hset. eapply WE_unlock; eauto.
  Qed.

  (** * the mutex is held exactly by the worker inside the critical section *)

  Definition in_crit (w : wst) : nat := match w with ECrit _ | ELeave => 1 | _ => 0 end.
  Definition ncrit (l : list wst) : nat := list_sum (map in_crit l).

  Lemma ncrit_mid l1 w l2 : ncrit (l1 ++ w :: l2) = ncrit l1 + in_crit w + ncrit l2.
  Proof. unfold ncrit. rewrite map_app, list_sum_app. simpl. lia. Qed.

  Definition minv (s : state) : Prop := (if emutex s then 1 else 0) = ncrit (ews s).

  Lemma minv_init jobs n : minv (einit jobs n).
  Proof.
    unfold minv. simpl. unfold ncrit. induction n; simpl; auto.
  Qed.

  Lemma minv_step s a : minv s -> minv (stepf s a).
  Proof.
    unfold minv. intros H. destruct a as [|i]; simpl.
    - unfold eproducer_step. destruct (epending s); simpl; auto.
    - destruct (eworker_step_spec s i) as
        [ | l1 l2 j q Hw Hi Q | l1 l2 Hw Hi Q C | l1 l2 j Hw Hi F | l1 l2 j Hw Hi F Mo Mx
          | l1 l2 j Hw Hi F Mo L | l1 l2 j Hw Hi | l1 l2 Hw Hi ]; auto;
        simpl; rewrite Hw in H; rewrite ncrit_mid in *; simpl in *;
        try (destruct (emutex s)); try discriminate; lia.
  Qed.

  Lemma minv_run sched s : minv s -> minv (runf sched s).
  Proof.
    revert s. induction sched as [|a sched IH]; intros s H; simpl; auto.
    apply IH, minv_step, H.
  Qed.

  Lemma crit_exists (l : list wst) :
    0 < ncrit l -> exists l1 w l2, l = l1 ++ w :: l2 /\ in_crit w = 1.
  Proof.
    unfold ncrit. induction l as [|w l IH]; simpl; [lia|].
    destruct (in_crit w) as [|[|x]] eqn:E.
    - intros H. destruct (IH H) as (l1 & w' & l2 & -> & Hw). exists (w :: l1), w', l2. auto.
    - intros _. exists [], w, l. auto.
    - destruct w; simpl in E; discriminate.
  Qed.

  Lemma not_all_e_exited (l : list wst) :
    forallb e_exited l = false -> exists l1 w l2, l = l1 ++ w :: l2 /\ e_exited w = false.
  Proof.
    induction l as [|w l IH]; simpl; [discriminate|].
    destruct (e_exited w) eqn:E; simpl.
    - intros H. destruct (IH H) as (l1 & w' & l2 & -> & Hw). exists (w :: l1), w', l2. auto.
    - intros _. exists [], w, l. auto.
  Qed.

  (** * termination stays reachable with the mutex *)

  Definition wtE (w : wst) : nat :=
    match w with EIdle => 1 | EBusy _ => 5 | ECrit _ => 3 | ELeave => 2 | EExited => 0 end.
  Definition wsumE (l : list wst) : nat := list_sum (map wtE l).
  Lemma wsumE_mid l1 w l2 : wsumE (l1 ++ w :: l2) = wsumE l1 + wtE w + wsumE l2.
  Proof. unfold wsumE. rewrite map_app, list_sum_app. simpl. lia. Qed.

  Definition eM (s : state) : nat :=
    6 * length (epending s) + (if eclosed s then 0 else 1) + 5 * length (equeue s) + wsumE (ews s).

  Lemma eprogress (s : state) :
    mode = ByMutex -> minv s -> efinished s = false -> exists a, eM (stepf s a) < eM s.
  Proof.
    intros Mo Hm F.
    assert (E : forall l1 l2 (x : wst), nth_error (l1 ++ x :: l2) (length l1) = Some x)
      by (intros; apply nth_error_mid_eq).
    (* a worker inside the critical section can always move *)
    assert (Hcrit : forall l1 w l2, ews s = l1 ++ w :: l2 -> in_crit w = 1 ->
                    eM (stepf s (S (length l1))) < eM s).
    { intros l1 w l2 Hw Hc. simpl. unfold eworker_step. rewrite Hw, E.
      destruct w as [|j|j| |]; simpl in Hc; try discriminate;
        rewrite set_nth_mid; unfold eM; simpl; rewrite Hw, !wsumE_mid; simpl; lia. }
    destruct (emutex s) eqn:Mx.
    - unfold minv in Hm. rewrite Mx in Hm.
      destruct (crit_exists (ews s)) as (l1 & w & l2 & Hw & Hc); [lia|].
      exists (S (length l1)). eapply Hcrit; eauto.
    - destruct (not_all_e_exited _ F) as (l1 & w & l2 & Hw & Hne).
      destruct w as [|j|j| |]; try discriminate;
        try (exists (S (length l1)); eapply Hcrit; eauto; fail).
      + destruct (equeue s) as [|j q] eqn:Q.
        * destruct (epending s) as [|j p] eqn:P.
          -- destruct (eclosed s) eqn:C.
             ++ exists (S (length l1)). simpl. unfold eworker_step. rewrite Hw, E, Q, C.
                rewrite set_nth_mid. unfold eM. simpl. rewrite Hw, Q, P, C, !wsumE_mid. simpl. lia.
             ++ exists 0. simpl. unfold eproducer_step. rewrite P. unfold eM. simpl.
                rewrite P, C. simpl. lia.
          -- exists 0. simpl. unfold eproducer_step. rewrite P. unfold eM. simpl.
             rewrite P, Q. simpl. lia.
        * exists (S (length l1)). simpl. unfold eworker_step. rewrite Hw, E, Q.
          rewrite set_nth_mid. unfold eM. simpl. rewrite Hw, Q, !wsumE_mid. simpl. lia.
      + exists (S (length l1)). simpl. unfold eworker_step. rewrite Hw, E, Mo, Mx.
        destruct (fails j); rewrite set_nth_mid; unfold eM; simpl; rewrite Hw, !wsumE_mid;
          simpl; lia.
  Qed.

  Lemma erun_snoc sched a (s : state) : runf (sched ++ [a]) s = stepf (runf sched s) a.
  Proof. unfold erun. rewrite fold_left_app. reflexivity. Qed.

  Lemma ecan_finish jobs n : mode = ByMutex -> forall m sched,
    eM (runf sched (einit jobs n)) <= m ->
    exists cont, efinished (runf cont (runf sched (einit jobs n))) = true.
  Proof.
    intros Mo m. induction m as [|m IH]; intros sched Hm;
      destruct (efinished (runf sched (einit jobs n))) eqn:F;
      try (exists []; exact F);
      destruct (eprogress _ Mo (minv_run sched _ (minv_init jobs n)) F) as (a & Ha).
    - lia.
    - destruct (IH (sched ++ [a])) as (cont & Hc).
      + rewrite erun_snoc. lia.
      + exists (a :: cont). rewrite erun_snoc in Hc. exact Hc.
  Qed.

  Lemma mutex_handover_terminates jobs n sched :
    mode = ByMutex ->
    exists cont, efinished (runf cont (runf sched (einit jobs n))) = true.
  Proof. intros Mo. eapply ecan_finish; eauto. Qed.

  (** * the capacity-1 channel: a failing worker that finds the channel full is stuck for ever *)

  Definition stuck (s : state) (i : nat) (j : job) : Prop :=
    nth_error (ews s) i = Some (EBusy j) /\ fails j = true /\ echan s <> [].

  Lemma stuck_step s i j a : mode = ByChan -> stuck s i j -> stuck (stepf s a) i j.
  Proof.
    intros Mo (Hn & Hf & Hc). destruct a as [|i']; simpl.
    - unfold eproducer_step. destruct (epending s); split; simpl; auto.
    - destruct (eworker_step_spec s i') as
        [ | l1 l2 j' q Hw Hi Q | l1 l2 Hw Hi Q C | l1 l2 j' Hw Hi F | l1 l2 j' Hw Hi F Mo' Mx
          | l1 l2 j' Hw Hi F Mo' L | l1 l2 j' Hw Hi | l1 l2 Hw Hi ];
        [split; auto| | | | | | | ];
        (split; [|split; simpl; auto; try (apply app_nonnil)]); simpl;
        rewrite Hw in Hn; subst i';
        (destruct (Nat.eq_dec i (length l1)) as [->|Ne];
         [rewrite nth_error_mid_eq in Hn; try discriminate
         |erewrite nth_error_mid_neq; [exact Hn|exact Ne]]).
      + injection Hn as <-. congruence.
      + congruence.
      + injection Hn as <-. exfalso. destruct (echan s); [congruence|simpl in L; lia].
  Qed.

  Lemma stuck_never_finishes s i j cont :
    mode = ByChan -> stuck s i j -> efinished (runf cont s) = false.
  Proof.
    intros Mo. revert s. induction cont as [|a cont IH]; intros s H; simpl.
    - destruct H as (Hn & _ & _). unfold efinished.
      destruct (forallb e_exited (ews s)) eqn:F; auto.
      rewrite forallb_forall in F. specialize (F _ (nth_error_In _ _ Hn)). discriminate.
    - apply IH. apply stuck_step; auto.
  Qed.

End ErrProofs.

(** two failing trees, two workers: each takes one; the first puts its error in the channel and
    exits, the second blocks in its send; nobody reads the channel before wg.Wait() returns *)
Lemma chan_handover_deadlocks {job err} (fails : job -> bool) (e_of : job -> err) j1 j2 rest n cont :
  fails j1 = true -> fails j2 = true ->
  efinished (erun fails e_of ByChan cont
               (erun fails e_of ByChan [0; 0; 1; 2; 1] (einit (j1 :: j2 :: rest) (S (S n))))) = false.
Proof.
  intros F1 F2. apply (stuck_never_finishes _ _ fails e_of ByChan _ 1 j2); auto.
  simpl. unfold eworker_step. simpl. unfold eworker_step. simpl. unfold eworker_step. simpl.
  rewrite F1. simpl. repeat split; auto. discriminate.
Qed.
