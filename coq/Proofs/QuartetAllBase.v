(** Quartets, all 4-tuples of taxon ids (repeated taxa included): HashEquals (Compare <> DIFF) is
    exactly "same multiset of taxa", i.e. equal canonical form (the sorted 4-tuple); it is an
    equivalence relation compatible with HashCode, so a HashMap keyed by arbitrary quartets
    behaves like the association list. *)
From Coq Require Import NArith ZArith Bool Lia List Permutation Sorted.
From GT Require Import Model.Index Model.HashMap Model.Quartet Proofs.HashMap Proofs.Quartet.
Import ListNotations.

(** the six conditions of Quartet.Compare *)
Lemma he_or : forall a1 a2 a3 a4 b1 b2 b3 b4,
    let e := N.eqb in
    q_hash_equals (mkQ a1 a2 a3 a4) (mkQ b1 b2 b3 b4) =
    (((e a1 b1 && e a2 b2) || (e a1 b2 && e a2 b1)) && ((e a3 b3 && e a4 b4) || (e a3 b4 && e a4 b3))) ||
    (((e a1 b3 && e a2 b4) || (e a1 b4 && e a2 b3)) && ((e a3 b1 && e a4 b2) || (e a3 b2 && e a4 b1))) ||
    (((e a3 b1 && e a2 b2) || (e a3 b2 && e a2 b1)) && ((e a1 b3 && e a4 b4) || (e a1 b4 && e a4 b3))) ||
    (((e a3 b3 && e a2 b4) || (e a3 b4 && e a2 b3)) && ((e a1 b1 && e a4 b2) || (e a1 b2 && e a4 b1))) ||
    (((e a4 b1 && e a2 b2) || (e a4 b2 && e a2 b1)) && ((e a3 b3 && e a1 b4) || (e a3 b4 && e a1 b3))) ||
    (((e a4 b3 && e a2 b4) || (e a4 b4 && e a2 b3)) && ((e a3 b1 && e a1 b2) || (e a3 b2 && e a1 b1))).
Proof.
  intros. unfold q_hash_equals, q_compare. simpl. fold e.
  repeat match goal with |- context[if ?c then _ else _] => destruct c end; reflexivity.
Qed.

Ltac he_solve :=
  intros; rewrite he_or; cbv zeta; rewrite !N.eqb_refl;
  repeat (rewrite ?andb_true_l, ?andb_true_r, ?orb_true_l, ?orb_true_r; cbn [andb orb]); reflexivity.

Lemma he_1234 : forall x1 x2 x3 x4, q_hash_equals (mkQ x1 x2 x3 x4) (mkQ x1 x2 x3 x4) = true.
Proof. he_solve. Qed.
Lemma he_1243 : forall x1 x2 x3 x4, q_hash_equals (mkQ x1 x2 x3 x4) (mkQ x1 x2 x4 x3) = true.
Proof. he_solve. Qed.
Lemma he_1324 : forall x1 x2 x3 x4, q_hash_equals (mkQ x1 x2 x3 x4) (mkQ x1 x3 x2 x4) = true.
Proof. he_solve. Qed.
Lemma he_1342 : forall x1 x2 x3 x4, q_hash_equals (mkQ x1 x2 x3 x4) (mkQ x1 x3 x4 x2) = true.
Proof. he_solve. Qed.
Lemma he_1423 : forall x1 x2 x3 x4, q_hash_equals (mkQ x1 x2 x3 x4) (mkQ x1 x4 x2 x3) = true.
Proof. he_solve. Qed.
Lemma he_1432 : forall x1 x2 x3 x4, q_hash_equals (mkQ x1 x2 x3 x4) (mkQ x1 x4 x3 x2) = true.
Proof. he_solve. Qed.
Lemma he_2134 : forall x1 x2 x3 x4, q_hash_equals (mkQ x1 x2 x3 x4) (mkQ x2 x1 x3 x4) = true.
Proof. he_solve. Qed.
Lemma he_2143 : forall x1 x2 x3 x4, q_hash_equals (mkQ x1 x2 x3 x4) (mkQ x2 x1 x4 x3) = true.
Proof. he_solve. Qed.
Lemma he_2314 : forall x1 x2 x3 x4, q_hash_equals (mkQ x1 x2 x3 x4) (mkQ x2 x3 x1 x4) = true.
Proof. he_solve. Qed.
Lemma he_2341 : forall x1 x2 x3 x4, q_hash_equals (mkQ x1 x2 x3 x4) (mkQ x2 x3 x4 x1) = true.
Proof. he_solve. Qed.
Lemma he_2413 : forall x1 x2 x3 x4, q_hash_equals (mkQ x1 x2 x3 x4) (mkQ x2 x4 x1 x3) = true.
Proof. he_solve. Qed.
Lemma he_2431 : forall x1 x2 x3 x4, q_hash_equals (mkQ x1 x2 x3 x4) (mkQ x2 x4 x3 x1) = true.
Proof. he_solve. Qed.
Lemma he_3124 : forall x1 x2 x3 x4, q_hash_equals (mkQ x1 x2 x3 x4) (mkQ x3 x1 x2 x4) = true.
Proof. he_solve. Qed.
Lemma he_3142 : forall x1 x2 x3 x4, q_hash_equals (mkQ x1 x2 x3 x4) (mkQ x3 x1 x4 x2) = true.
Proof. he_solve. Qed.
Lemma he_3214 : forall x1 x2 x3 x4, q_hash_equals (mkQ x1 x2 x3 x4) (mkQ x3 x2 x1 x4) = true.
Proof. he_solve. Qed.
Lemma he_3241 : forall x1 x2 x3 x4, q_hash_equals (mkQ x1 x2 x3 x4) (mkQ x3 x2 x4 x1) = true.
Proof. he_solve. Qed.
Lemma he_3412 : forall x1 x2 x3 x4, q_hash_equals (mkQ x1 x2 x3 x4) (mkQ x3 x4 x1 x2) = true.
Proof. he_solve. Qed.
Lemma he_3421 : forall x1 x2 x3 x4, q_hash_equals (mkQ x1 x2 x3 x4) (mkQ x3 x4 x2 x1) = true.
Proof. he_solve. Qed.
Lemma he_4123 : forall x1 x2 x3 x4, q_hash_equals (mkQ x1 x2 x3 x4) (mkQ x4 x1 x2 x3) = true.
Proof. he_solve. Qed.
Lemma he_4132 : forall x1 x2 x3 x4, q_hash_equals (mkQ x1 x2 x3 x4) (mkQ x4 x1 x3 x2) = true.
Proof. he_solve. Qed.
Lemma he_4213 : forall x1 x2 x3 x4, q_hash_equals (mkQ x1 x2 x3 x4) (mkQ x4 x2 x1 x3) = true.
Proof. he_solve. Qed.
Lemma he_4231 : forall x1 x2 x3 x4, q_hash_equals (mkQ x1 x2 x3 x4) (mkQ x4 x2 x3 x1) = true.
Proof. he_solve. Qed.
Lemma he_4312 : forall x1 x2 x3 x4, q_hash_equals (mkQ x1 x2 x3 x4) (mkQ x4 x3 x1 x2) = true.
Proof. he_solve. Qed.
Lemma he_4321 : forall x1 x2 x3 x4, q_hash_equals (mkQ x1 x2 x3 x4) (mkQ x4 x3 x2 x1) = true.
Proof. he_solve. Qed.

Ltac he_any := first [ apply he_1234 | apply he_1243 | apply he_1324 | apply he_1342 | apply he_1423 | apply he_1432 | apply he_2134 | apply he_2143 | apply he_2314 | apply he_2341 | apply he_2413 | apply he_2431 | apply he_3124 | apply he_3142 | apply he_3214 | apply he_3241 | apply he_3412 | apply he_3421 | apply he_4123 | apply he_4132 | apply he_4213 | apply he_4231 | apply he_4312 | apply he_4321 ].


Ltac decomp := repeat match goal with
                      | H : _ /\ _ |- _ => destruct H
                      | H : _ \/ _ |- _ => destruct H
                      end.

Lemma he_props : forall a1 a2 a3 a4 b1 b2 b3 b4,
    q_hash_equals (mkQ a1 a2 a3 a4) (mkQ b1 b2 b3 b4) = true ->
    (((a1 = b1 /\ a2 = b2) \/ (a1 = b2 /\ a2 = b1)) /\ ((a3 = b3 /\ a4 = b4) \/ (a3 = b4 /\ a4 = b3))) \/
    (((a1 = b3 /\ a2 = b4) \/ (a1 = b4 /\ a2 = b3)) /\ ((a3 = b1 /\ a4 = b2) \/ (a3 = b2 /\ a4 = b1))) \/
    (((a3 = b1 /\ a2 = b2) \/ (a3 = b2 /\ a2 = b1)) /\ ((a1 = b3 /\ a4 = b4) \/ (a1 = b4 /\ a4 = b3))) \/
    (((a3 = b3 /\ a2 = b4) \/ (a3 = b4 /\ a2 = b3)) /\ ((a1 = b1 /\ a4 = b2) \/ (a1 = b2 /\ a4 = b1))) \/
    (((a4 = b1 /\ a2 = b2) \/ (a4 = b2 /\ a2 = b1)) /\ ((a3 = b3 /\ a1 = b4) \/ (a3 = b4 /\ a1 = b3))) \/
    (((a4 = b3 /\ a2 = b4) \/ (a4 = b4 /\ a2 = b3)) /\ ((a3 = b1 /\ a1 = b2) \/ (a3 = b2 /\ a1 = b1))).
Proof.
  intros until b4. rewrite he_or. cbv zeta.
  rewrite !orb_true_iff, !andb_true_iff, !orb_true_iff, !andb_true_iff, !N.eqb_eq. tauto.
Qed.

(** * canonical form: the sorted 4-tuple of taxon ids *)
Definition csN (a b : N) : N * N := if (b <? a)%N then (b, a) else (a, b).
Definition sortN4 (i1 i2 i3 i4 : N) : N * N * N * N :=
  let '(i1, i2) := csN i1 i2 in
  let '(i3, i4) := csN i3 i4 in
  let '(i1, i3) := csN i1 i3 in
  let '(i2, i4) := csN i2 i4 in
  let '(i2, i3) := csN i2 i3 in (i1, i2, i3, i4).
Ltac bruteN := unfold sortN4, csN;
  repeat match goal with |- context[(?x <? ?y)%N] => destruct (N.ltb_spec x y) end;
  try (repeat f_equal; lia).

Lemma n12 : forall a b c d, sortN4 a b c d = sortN4 b a c d.
Proof. intros. bruteN. Qed.
Lemma n23 : forall a b c d, sortN4 a b c d = sortN4 a c b d.
Proof. intros. bruteN. Qed.
Lemma n34 : forall a b c d, sortN4 a b c d = sortN4 a b d c.
Proof. intros. bruteN. Qed.

Ltac nsearch n :=
  reflexivity ||
  match n with
  | S ?m =>
    match goal with
    | |- sortN4 ?a ?b ?c ?d = _ =>
      (rewrite (n12 a b c d); nsearch m) || (rewrite (n23 a b c d); nsearch m) || (rewrite (n34 a b c d); nsearch m)
    end
  end.

