(** C05: UnRoot's merge rule for the two root branches, in the form of the RULE text of
    driver/props/c05.py; supports are kept by UnRoot for every pair of root-branch supports drawn
    from {absent, 0, positive}; the reduced oracle and judge_negsup on trees with negative
    supports. *)
From Coq Require Import String ZArith QArith Bool Arith Lia Lqa List Permutation.
From GT Require Import Base.Sexp Base.UTree Base.Codec Spec.Obs Model.Reroot Model.Index Model.Outgroup
     Spec.Unrooted Judge.Common Judge.C05
     Proofs.RerootBase Proofs.Reroot Proofs.Unroot Proofs.Splits Proofs.USplits Proofs.C05Main Proofs.IndexSplit
     Proofs.OracleSup Proofs.OracleIndex Proofs.OutgroupKeep Proofs.OutgroupRemoveMain Proofs.OutgroupMidpoint
     Proofs.OutgroupClade Proofs.TreeEq Proofs.OracleEq Proofs.C05Judge.
Import ListNotations.
Local Close Scope Q_scope.
Local Open Scope string_scope.

(** * the merge rule *)
Definition absent (x : Q) : Prop := qeqb x nilv = true.

Theorem merged_edge_rule e1 e2 b1 b2 :
  let e3 := merged_edge e1 e2 b1 b2 in
  (absent (elen e3) <-> absent (elen e1) /\ absent (elen e2)) /\
  (absent (elen e1) /\ absent (elen e2) -> elen e3 = nilv) /\
  (~ (absent (elen e1) /\ absent (elen e2)) ->
   elen e3 = (qmax 0 (elen e1) + qmax 0 (elen e2))%Q /\ (0 <= elen e3)%Q) /\
  (b1 = true \/ b2 = true \/ (absent (esup e1) /\ absent (esup e2)) -> esup e3 = nilv) /\
  (b1 = false -> b2 = false -> ~ (absent (esup e1) /\ absent (esup e2)) ->
   esup e3 = qmax (qmax 0 (esup e1)) (qmax 0 (esup e2)) /\ (0 <= esup e3)%Q) /\
  epv e3 = nilv /\ ecom e3 = [].
Proof.
  intros e3. unfold e3, absent. split; [|split; [|split; [|split; [|split; [|split; reflexivity]]]]].
  - rewrite elen_merged_merge_len, isnil_merge. apply andb_true_iff.
  - intros [H1 H2]. unfold merged_edge. cbn [elen]. now rewrite H1, H2.
  - intros H. unfold merged_edge. cbn [elen].
    destruct (qeqb (elen e1) nilv) eqn:E1, (qeqb (elen e2) nilv) eqn:E2; simpl;
      try (exfalso; apply H; auto; fail);
      (split; [reflexivity|]); qmax_split; lra.
  - intros H. unfold merged_edge. cbn [esup].
    destruct H as [->|[->|[H1 H2]]].
    + reflexivity.
    + now rewrite andb_false_r.
    + rewrite H1, H2. simpl. now rewrite andb_false_r.
  - intros -> -> H. unfold merged_edge. cbn [esup]. simpl.
    destruct (qeqb (esup e1) nilv) eqn:E1, (qeqb (esup e2) nilv) eqn:E2; simpl;
      try (exfalso; apply H; auto; fail);
      (split; [reflexivity|]); qmax_split; lra.
Qed.

(** the four sentinel combinations, lengths *)
Theorem merged_len_cases e1 e2 b1 b2 :
  let l3 := elen (merged_edge e1 e2 b1 b2) in
  (absent (elen e1) -> absent (elen e2) -> l3 = nilv) /\
  (absent (elen e1) -> (0 <= elen e2)%Q -> (l3 == elen e2)%Q) /\
  ((0 <= elen e1)%Q -> absent (elen e2) -> (l3 == elen e1)%Q) /\
  ((0 <= elen e1)%Q -> (0 <= elen e2)%Q -> (l3 == elen e1 + elen e2)%Q).
Proof.
  intros l3. unfold l3. rewrite elen_merged_merge_len, merge_len_eq. unfold absent.
  assert (NA : forall x, (0 <= x)%Q -> qeqb x nilv = false).
  { intros x Hx. destruct (qeqb x nilv) eqn:E; auto. apply isnil_iff in E. lra. }
  repeat split.
  - intros H1 H2. now rewrite H1, H2.
  - intros H1 H2. rewrite H1, (NA _ H2). simpl. rewrite (isnil_pos0 _ H1), (pos_of_nonneg _ H2). ring.
  - intros H1 H2. rewrite H2, (NA _ H1). simpl. rewrite (isnil_pos0 _ H2), (pos_of_nonneg _ H1). ring.
  - intros H1 H2. rewrite (NA _ H1). simpl. now rewrite (pos_of_nonneg _ H1), (pos_of_nonneg _ H2).
Qed.

(** the four sentinel combinations, supports (both root children inner); a tip child: absent *)
Theorem merged_sup_cases e1 e2 :
  let s3 := esup (merged_edge e1 e2 false false) in
  (absent (esup e1) -> absent (esup e2) -> s3 = nilv) /\
  (absent (esup e1) -> (0 <= esup e2)%Q -> (s3 == esup e2)%Q) /\
  ((0 <= esup e1)%Q -> absent (esup e2) -> (s3 == esup e1)%Q) /\
  ((0 <= esup e1)%Q -> (0 <= esup e2)%Q -> (s3 == qmax (esup e1) (esup e2))%Q).
Proof.
  intros s3. unfold s3, merged_edge, absent. cbn [esup]. simpl.
  assert (NA : forall x, (0 <= x)%Q -> qeqb x nilv = false).
  { intros x Hx. destruct (qeqb x nilv) eqn:E; auto. apply isnil_iff in E. lra. }
  repeat split.
  - intros H1 H2. now rewrite H1, H2.
  - intros H1 H2. rewrite H1, (NA _ H2). simpl. apply isnil_iff in H1. qmax_split; lra.
  - intros H1 H2. rewrite H2, (NA _ H1). simpl. apply isnil_iff in H2. qmax_split; lra.
  - intros H1 H2. rewrite (NA _ H1). simpl. qmax_split; lra.
Qed.

Theorem merged_sup_tip e1 e2 b1 b2 :
  b1 = true \/ b2 = true -> esup (merged_edge e1 e2 b1 b2) = nilv.
Proof. intros H. apply merged_edge_rule. tauto. Qed.

(** where the merged branch sits: it is the one new branch of the unrooted tree *)
Theorem unroot_merge_rule t :
  wf t = true -> rooted t = true ->
  exists e1 N1 e2 N2 far,
    kids t = [(e1, N1); (e2, N2)] /\ (far = N1 \/ far = N2) /\
    let e3 := merged_edge e1 e2 (is_tip N1) (is_tip N2) in
    Permutation (bsplits (unroot t)) ((e3, leaves far, isleaf far) :: bsplits N1 ++ bsplits N2).
Proof.
  intros W R. destruct (rooted_shape t W R) as (n0&c0&e1&n1&c1&sl1&e2&n2&c2&sl2&->).
  exists e1, (UNode n1 c1 sl1), e2, (UNode n2 c2 sl2),
         (if Nat.eqb (length sl1) 1 then UNode n1 c1 sl1 else UNode n2 c2 sl2).
  split; [reflexivity|]. split; [destruct (Nat.eqb (length sl1) 1); auto|].
  apply unroot_bsplits.
Qed.

(** * supports kept for root-branch supports in {absent, 0, positive} *)
Lemma good_sup_cases e : good_sup e <-> absent (esup e) \/ (esup e == 0)%Q \/ (0 < esup e)%Q.
Proof.
  unfold good_sup, absent. split.
  - intros [H|H]; auto. right. destruct (Qlt_le_dec 0 (esup e)); auto. left. lra.
  - intros [H|[H|H]]; auto; right; lra.
Qed.

Theorem unroot_supports_kept t :
  wf t = true -> rooted t = true -> root_has_inner_child t = true -> NoDup (leaves t) ->
  (forall p, In p (kids t) ->
             absent (esup (fst p)) \/ (esup (fst p) == 0)%Q \/ (0 < esup (fst p))%Q) ->
  supports_kept t (unroot t) = true.
Proof.
  intros W R Hi ND Hs. apply supports_kept_of_lookup. apply unroot_usplits_sup; auto.
  intros p Hp. apply good_sup_cases. now apply Hs.
Qed.

(** the nine combinations on a concrete rooted tree (inner/inner root children, every branch
    with a length), and the reason negative supports are outside the property *)
Definition Es2 (l s : Q) : einfo := mkE l s nilv [].
Definition merge_tree (s1 s2 : Q) : utree :=
  UNode "" [] [Some (Es2 1%Q s1, UNode "x" [] [None; Some (E 1%Q, tip "a"); Some (E 2%Q, tip "b")]);
               Some (Es2 (1#2)%Q s2, UNode "y" [] [Some (E 1%Q, tip "c"); None; Some (E 3%Q, tip "d")])].

Lemma merge_example :
  forallb (fun s1 => forallb (fun s2 =>
     let t := merge_tree s1 s2 in
     wf t && rooted t && root_has_inner_child t && negb (has_dup (leaves t)) &&
     supports_kept t (unroot t) && negb (utree_eqb (unroot t) t))
     [nilv; 0%Q; (3#4)%Q]) [nilv; 0%Q; (3#4)%Q] = true /\
  supports_kept (merge_tree (-1#2)%Q (-1#2)%Q) (unroot (merge_tree (-1#2)%Q (-1#2)%Q)) = false.
Proof. split; vm_compute; reflexivity. Qed.

(** * negative supports: the reduced oracle, judge_negsup *)
Theorem oracle_reduced_accepts_unroot t :
  wf t = true -> 2 <= degree t -> (rooted t = true -> root_has_inner_child t = true) ->
  oracle_reduced t (unroot t) = None.
Proof.
  intros W D Hi. destruct (unroot_stage t W D Hi) as (W' & _ & L & _).
  now apply oracle_reduced_of_perm.
Qed.

Theorem oracle_reduced_accepts_outgroup strict t names t' :
  wf t = true -> 2 <= degree t -> (rooted t = true -> root_has_inner_child t = true) ->
  reroot_outgroup false strict t names = Ok t' -> oracle_reduced t t' = None.
Proof.
  intros W D Hi H. destruct (reroot_outgroup_keep_preserves strict t names t' W D Hi H) as (W' & _ & L & _).
  now apply oracle_reduced_of_perm.
Qed.

Lemma outgroup_good remove strict t names t' :
  wf t = true -> 2 <= degree t -> (rooted t = true -> root_has_inner_child t = true) ->
  NoDup (leaves t) -> reroot_outgroup remove strict t names = Ok t' -> good t'.
Proof.
  intros W D Hi ND H. destruct remove.
  - destruct (reroot_outgroup_remove strict t names t' W D Hi ND H) as (W' & D' & Rm & PL & _).
    repeat split; auto.
    assert (NDA : NoDup (leaves t' ++ Rm)) by (eapply Permutation_NoDup; [exact PL | exact ND]).
    exact (NoDup_app_l _ _ NDA).
  - destruct (reroot_outgroup_keep_preserves strict t names t' W D Hi H) as (W' & D' & L & _).
    apply (good_of_perm t); auto. lia.
Qed.

Definition neg_tree_ok (t : utree) : Prop :=
  wf t = true /\ 2 <= degree t /\ (rooted t = true -> root_has_inner_child t = true) /\ NoDup (leaves t).

Theorem judge_negsup_unroot c o t :
  get_tree "tree" c = Some t -> get_string "panic" o = None -> neg_tree_ok t ->
  obs_tree true (unroot t) o ->
  exists b tag, judge_negsup "unroot" c o = VOk b tag.
Proof.
  intros Ht Hp (W & D & Hi & ND) Ho. unfold judge_negsup. rewrite Ht, Hp.
  pose proof Ho as (He & _). rewrite He. eval_eqb. cbv iota. cbn [negb andb].
  destruct (unroot_stage t W D Hi) as (W' & D' & L & _).
  destruct (tail_accepts true true (unroot t) o (oracle_reduced t) Ho (fun x => x)
              (oracle_reduced_accepts_unroot t W D Hi) (oracle_reduced_teq t (unroot t))
              (good_of_perm t _ ND W' D' L)) as (g & Hg & Heq & Hf).
  rewrite Hg, Hf, Heq. eauto.
Qed.

Theorem judge_negsup_midpoint c o t :
  get_tree "tree" c = Some t -> get_string "panic" o = None -> neg_tree_ok t ->
  obs_result true (reroot_midpoint t) o ->
  exists b tag, judge_negsup "midpoint" c o = VOk b tag.
Proof.
  intros Ht Hp (W & D & Hi & ND) Ho. unfold judge_negsup. rewrite Ht, Hp.
  destruct (reroot_midpoint t) as [t'|m] eqn:H; simpl in Ho.
  - pose proof Ho as (He & _). rewrite He. eval_eqb. cbv iota. cbn [negb andb].
    destruct (reroot_midpoint_wf_leaves t t' W D Hi H) as (W' & D' & L).
    destruct (tail_accepts true true t' o (oracle_reduced t) Ho (fun x => x)
                (oracle_reduced_of_perm t t' W' L) (oracle_reduced_teq t t')
                (good_of_perm t t' ND W' ltac:(lia) L)) as (g & Hg & Heq & Hf).
    rewrite Hg, Hf, Heq. eauto.
  - destruct Ho as (msg & He & Hm). rewrite He. eval_eqb. cbv iota. rewrite Hm. eauto.
Qed.

Theorem judge_negsup_outgroup remove strict names c o t :
  get_tree "tree" c = Some t -> get_string "panic" o = None ->
  get_strings "names" c = Some names ->
  get_bool "remove" c = Some remove -> get_bool "strict" c = Some strict ->
  neg_tree_ok t ->
  obs_result true (reroot_outgroup remove strict t names) o ->
  exists b tag, judge_negsup "outgroup" c o = VOk b tag.
Proof.
  intros Ht Hp Hn Hr Hs (W & D & Hi & ND) Ho. unfold judge_negsup. rewrite Ht, Hp.
  destruct (reroot_outgroup remove strict t names) as [t'|m] eqn:H; simpl in Ho.
  - pose proof Ho as (He & _). rewrite He. eval_eqb. cbv iota.
    rewrite Hn, Hr, Hs. cbn [obind]. rewrite H. cbn [negb andb].
    pose proof (outgroup_good remove strict t names t' W D Hi ND H) as G.
    destruct remove.
    + destruct (tail_accepts true true t' o (fun _ => None) Ho (fun x => x)
                  eq_refl (fun _ _ => eq_refl) G) as (g & Hg & Heq & Hf).
      rewrite Hg, Hf, Heq. eauto.
    + destruct (tail_accepts true true t' o (oracle_reduced t) Ho (fun x => x)
                  (oracle_reduced_accepts_outgroup strict t names t' W D Hi H) (oracle_reduced_teq t t') G)
        as (g & Hg & Heq & Hf).
      rewrite Hg, Hf, Heq. eauto.
  - destruct Ho as (msg & He & Hm). rewrite He. eval_eqb. cbv iota.
    rewrite Hn, Hr, Hs. cbn [obind]. rewrite H, Hm. eauto.
Qed.

(** a rooted tree with negative supports on its root branches and inside: hypotheses satisfiable,
    the judge is run on the encoded output of the model *)
Definition negsup_tree : utree :=
  UNode "" [] [Some (Es2 1%Q (-1#2)%Q, UNode "x" [] [None; Some (E 1%Q, tip "a");
                     Some (Es2 2%Q (-2)%Q, UNode "z" [] [Some (E 1%Q, tip "b"); None; Some (E 1%Q, tip "e")])]);
               Some (Es2 (1#2)%Q (-1#64)%Q, UNode "y" [] [Some (E 1%Q, tip "c"); None; Some (E 3%Q, tip "d")])].

Definition enc_obs_tree (t' : utree) : sexp :=
  let '(idx, st, bs) := tables_obs t' in
  SList [SList [Atom "err"; Atom ""]; SList [Atom "tree"; enc_utree t'];
         SList [Atom "audit"; SList []];
         SList [Atom "tipidx"; enc_strings idx];
         SList [Atom "tipstate";
                SList (map (fun x : string * bool * Z =>
                              SList [Atom (fst (fst x)); Atom (if snd (fst x) then "T" else "F");
                                     Atom (string_of_Z (snd x))]) st)];
         SList [Atom "bitsets"; SList (map (fun z => Atom (string_of_Z z)) bs)]].

Lemma negsup_example :
  has_neg_sup negsup_tree = true /\
  wf negsup_tree = true /\ rooted negsup_tree = true /\ root_has_inner_child negsup_tree = true /\
  has_dup (leaves negsup_tree) = false /\
  supports_kept negsup_tree (unroot negsup_tree) = false /\
  oracle_reduced negsup_tree (unroot negsup_tree) = None /\
  judge (SList [SList [Atom "op"; Atom "unroot"]; SList [Atom "tree"; enc_utree negsup_tree]])
        (enc_obs_tree (unroot negsup_tree)) = VOk true "unroot:negsup" /\
  (exists t', reroot_midpoint negsup_tree = Ok t' /\
     judge (SList [SList [Atom "op"; Atom "midpoint"]; SList [Atom "tree"; enc_utree negsup_tree]])
           (enc_obs_tree t') = VOk true "midpoint:negsup").
Proof.
  repeat (split; [vm_compute; reflexivity|]).
  eexists. split; [vm_compute; reflexivity|]. vm_compute. reflexivity.
Qed.
