(** C06 without the proviso "no single-child inner node": what [rm_sub] does on any well-formed
    subtree with distinct tip names.  Besides the leaves and the pair distances, the multiset of
    leaf sets below the single-child nodes ([SC]) is tracked: the pruning never creates one. *)
From Coq Require Import String ZArith QArith Bool Arith Lia List Permutation Setoid Morphisms.
From GT Require Import Base.UTree Spec.Obs Spec.Induced Model.Reroot Spec.Unrooted Proofs.RerootBase Proofs.PruneBase
     Model.Prune Proofs.PruneStep Proofs.PruneSub Proofs.PruneRoot Proofs.Prune Proofs.CollapseBase
     Proofs.PruneSplits Proofs.OracleDist Proofs.OracleSets.
Import ListNotations.
Local Close Scope Q_scope.
Local Arguments n_up : simpl never.
Local Arguments leaves : simpl never.
Local Arguments depths : simpl never.
Local Arguments pairdists : simpl never.
Local Arguments wf_sub : simpl never.
Local Arguments merge_edge : simpl never.
Local Arguments reparent : simpl never.

(** * multiset inclusion *)
Definition msub {A} (X Y : list A) : Prop := exists rest, Permutation (X ++ rest) Y.

Lemma msub_refl {A} (X : list A) : msub X X.
Proof. exists []. now rewrite app_nil_r. Qed.
Lemma msub_nil {A} (Y : list A) : msub [] Y.
Proof. exists Y. reflexivity. Qed.
Lemma msub_trans {A} (X Y Z : list A) : msub X Y -> msub Y Z -> msub X Z.
Proof.
  intros [r1 P1] [r2 P2]. exists (r1 ++ r2). rewrite app_assoc, P1. exact P2.
Qed.
Lemma msub_app {A} (X X' Y Y' : list A) : msub X X' -> msub Y Y' -> msub (X ++ Y) (X' ++ Y').
Proof.
  intros [r1 P1] [r2 P2]. exists (r1 ++ r2). rewrite <- P1, <- P2. perm.
Qed.
Lemma msub_perm {A} (X Y : list A) : Permutation X Y -> msub X Y.
Proof. intros P. exists []. now rewrite app_nil_r. Qed.
Lemma msub_perm_r {A} (X Y Y' : list A) : Permutation Y Y' -> msub X Y -> msub X Y'.
Proof. intros P [r Q]. exists r. now rewrite Q. Qed.
Lemma msub_app_r {A} (X Y Z : list A) : msub X Z -> msub X (Y ++ Z).
Proof. intros [r P]. exists (Y ++ r). rewrite <- P. perm. Qed.
Lemma msub_app_l {A} (X Y Z : list A) : msub X Y -> msub X (Y ++ Z).
Proof. intros [r P]. exists (r ++ Z). rewrite <- P. perm. Qed.

Lemma fcl_perm k X Y : Permutation X Y -> Permutation (fcl k X) (fcl k Y).
Proof. intros P. unfold fcl. now apply Permutation_flat_map. Qed.
Lemma msub_fcl k X Y : msub X Y -> msub (fcl k X) (fcl k Y).
Proof. intros [r P]. exists (fcl k r). rewrite <- fcl_app. now apply fcl_perm. Qed.

(** * leaf sets below the single-child nodes *)
Definition SC (t : utree) : list (list string) := single_clades_sub (fun L => sset L) t.
Definition kSC (ks : list (einfo * utree)) : list (list string) := flat_map (fun p => SC (snd p)) ks.
Definition SCroot (t : utree) : list (list string) := single_clades (fun L => sset L) t.

Lemma sset_nonempty l : l <> [] -> sset l <> [].
Proof.
  destruct l as [|x l]; [congruence|]. intros _ E.
  assert (H : In x (sset (x :: l))) by (apply sset_In; now left). rewrite E in H. destruct H.
Qed.

Lemma SC_unfold n c sl :
  SC (UNode n c sl) = (if Nat.eqb (length sl) 2 then [sset (leaves (UNode n c sl))] else []) ++ kSC (kids_of sl).
Proof.
  unfold SC at 1. simpl single_clades_sub. f_equal.
  - destruct (Nat.eqb (length sl) 2); auto.
    generalize (sset_nonempty _ (leaves_nonempty (UNode n c sl))).
    destruct (sset (leaves (UNode n c sl))); [congruence|reflexivity].
  - unfold kSC. induction sl as [|[[e ch]|] r IH]; simpl; auto. now rewrite IH.
Qed.
Lemma SCroot_unfold n c sl : SCroot (UNode n c sl) = kSC (kids_of sl).
Proof. reflexivity. Qed.
Lemma kSC_app a b : kSC (a ++ b) = kSC a ++ kSC b.
Proof. apply flat_map_app. Qed.
Lemma kSC_cons p r : kSC (p :: r) = SC (snd p) ++ kSC r.
Proof. reflexivity. Qed.

Lemma SC_sub : forall c L, In L (SC c) -> L <> [] /\ forall x, In x L -> In x (leaves c).
Proof.
  induction c as [n cm sl IH] using utree_ind'. intros L HL. rewrite SC_unfold in HL.
  apply in_app_or in HL. destruct HL as [HL|HL].
  - destruct (Nat.eqb (length sl) 2); [|destruct HL]. destruct HL as [<-|[]]. split.
    + apply sset_nonempty, leaves_nonempty.
    + intros x. now rewrite sset_In.
  - unfold kSC in HL. rewrite in_flat_map in HL. destruct HL as [[e ch] [Hp HL]]. simpl in HL.
    assert (Hin : In (Some (e, ch)) sl) by (apply kids_of_In; auto).
    rewrite Forall_forall in IH. destruct (IH _ Hin L HL) as [H1 H2]. split; auto.
    intros x Hx. rewrite leaves_unfold. destruct (kids_of sl) eqn:E; [destruct Hp|]. rewrite <- E.
    unfold kleaves. rewrite in_flat_map. exists (e, ch). split; auto. rewrite E. exact Hp.
Qed.

Lemma reparent_SC c : wf_sub c = true -> SC (reparent c) = SC c.
Proof.
  intros Hw. generalize (reparent_degree c Hw) (reparent_leaves c). destruct c as [n cm sl]. unfold reparent, degree. simpl uslots.
  intros Hd Hl. rewrite !SC_unfold, Hd. unfold reparent in Hl. rewrite Hl.
  now rewrite kids_of_app, kids_of_drop_up, app_nil_r.
Qed.

Section Gen.
  Variable nm : string.
  Notation w := len0.
  Notation k := (knm nm).

  Lemma kSC_keep ks : ~ In nm (kleaves ks) -> fcl k (kSC ks) = kSC ks.
  Proof.
    intros H. apply fcl_id. intros L HL. unfold kSC in HL. rewrite in_flat_map in HL.
    destruct HL as [p [Hp HL]]. destruct (SC_sub _ _ HL) as [H1 H2]. split; auto.
    intros x Hx. apply knm_true. intros ->. apply H. unfold kleaves. rewrite in_flat_map.
    exists p. split; auto.
  Qed.

  Lemma SC_keep c : ~ In nm (leaves c) -> fcl k (SC c) = SC c.
  Proof.
    intros H. apply fcl_id. intros L HL. destruct (SC_sub _ _ HL) as [H1 H2]. split; auto.
    intros x Hx. apply knm_true. intros ->. auto.
  Qed.

  (** the head entry of a node that keeps its number of neighbours *)
  Lemma head_same (m m' : nat) t t' :
    m' = m -> Permutation (leaves t') (filter k (leaves t)) ->
    msub (if Nat.eqb m' 2 then [sset (leaves t')] else [])
         (fcl k (if Nat.eqb m 2 then [sset (leaves t)] else [])).
  Proof.
    intros El P. rewrite El. destruct (Nat.eqb m 2); [|apply msub_refl].
    assert (E : filter k (sset (leaves t)) = sset (leaves t')).
    { apply canon_ext; [apply filter_canon, sset_canon|apply sset_canon|].
      intros x. rewrite filter_In, !sset_In. split.
      - intros [H1 H2]. symmetry in P. apply (Permutation_in _ P). apply filter_In. auto.
      - intros H. apply (Permutation_in _ P) in H. apply filter_In in H. tauto. }
    unfold fcl. simpl. rewrite E, app_nil_r.
    generalize (sset_nonempty _ (leaves_nonempty t')). destruct (sset (leaves t')); [congruence|]. intros _. apply msub_refl.
  Qed.

  Definition out_specg (t : utree) (o : outcome) : Prop :=
    match o with
    | ONotFound => ~ In nm (leaves t)
    | OKeep t' =>
      In nm (leaves t) /\ wf_sub t' = true /\ kids t' <> [] /\
      deq (depths w t') (fD k (depths w t)) /\ dists_equiv (pairdists w t') (fP k (pairdists w t)) /\
      msub (SC t') (fcl k (SC t))
    | OGone => leaves t = [nm] /\ pairdists w t = []
    | OSplice e c =>
      In nm (leaves t) /\ wf_sub c = true /\
      deq (shift (w e) (depths w c)) (fD k (depths w t)) /\ dists_equiv (pairdists w c) (fP k (pairdists w t)) /\
      msub (SC c) (fcl k (SC t))
    | OFail _ => False
    end.

  Lemma out_specg_in t o : out_specg t o -> o <> ONotFound -> In nm (leaves t).
  Proof.
    destruct o; simpl; try tauto. intros [H1 _] _. rewrite H1. now left.
  Qed.

  Lemma contrib_goneg e ch : leaves ch = [nm] -> pairdists w ch = [] -> fC k (contrib_of w (e, ch)) = ([], []).
  Proof.
    intros HL HP. unfold fC, contrib_of. simpl. rewrite HP. f_equal.
    generalize (depths_names w ch). rewrite HL. destruct (depths w ch) as [|[a d] [|? ?]]; simpl; try discriminate.
    intros E. inversion E; subst. unfold fD, shift. simpl. now rewrite knm_false.
  Qed.

  Definition hit_okg (t : utree) : Prop :=
    wf_sub t = true -> NoDup (leaves t) -> out_specg t (hit nm (rm_sub nm) t).

  Lemma node_hitg sl :
    Forall (fun s : slot => match s with Some (_, c) => hit_okg c | None => True end) sl ->
    forallb (fun p => wf_sub (snd p)) (kids_of sl) = true ->
    NoDup (kleaves (kids_of sl)) ->
    match first_hit (hit nm (rm_sub nm)) 0 sl with
    | None => ~ In nm (kleaves (kids_of sl))
    | Some (i, e, o) =>
      exists A ch B, sl = A ++ Some (e, ch) :: B /\ i = length A /\ out_specg ch o /\ o <> ONotFound /\
                     ~ In nm (kleaves (kids_of A)) /\ ~ In nm (kleaves (kids_of B)) /\ In nm (leaves ch) /\
                     wf_sub ch = true
    end.
  Proof.
    intros IH Hw Hnd. rewrite Forall_forall in IH.
    destruct (first_hit (hit nm (rm_sub nm)) 0 sl) as [[[i e] o]|] eqn:E.
    - destruct (first_hit_some _ _ _ _ _ _ E) as [A [ch [B [-> [-> [H1 [H2 H3]]]]]]].
      exists A, ch, B. rewrite kids_of_app, kids_of_cons_some in *.
      rewrite forallb_app in Hw. simpl in Hw.
      rewrite !andb_true_iff in Hw. destruct Hw as [_ [Hw _]].
      rewrite kleaves_app, kleaves_cons in Hnd. simpl snd in Hnd.
      assert (Hch : hit_okg ch).
      { apply (IH (Some (e, ch))). apply in_or_app. right. now left. }
      assert (Hnd' : NoDup (leaves ch)).
      { apply NoDup_app_remove_l in Hnd. now apply NoDup_app_remove_r in Hnd. }
      specialize (Hch Hw Hnd'). rewrite H1 in Hch.
      assert (Hin : In nm (leaves ch)) by (eapply out_specg_in; eauto).
      destruct (NoDup_mid _ _ _ _ Hnd Hin) as [_ [Ha Hb]].
      repeat split; auto.
    - intros Hin. unfold kleaves in Hin. rewrite in_flat_map in Hin. destruct Hin as [[e c] [Hp Hin]].
      simpl in Hin. apply kids_of_In in Hp.
      generalize (first_hit_none _ _ _ E e c Hp). intros Hnf.
      assert (Hc : hit_okg c) by (apply (IH (Some (e, c))); auto).
      apply kids_of_In in Hp.
      rewrite forallb_forall in Hw. specialize (Hw _ Hp). simpl in Hw.
      assert (Hnd' : NoDup (leaves c)).
      { clear -Hnd Hp. induction (kids_of sl) as [|q r IHr]; [destruct Hp|].
        rewrite kleaves_cons in Hnd. destruct Hp as [->|Hp].
        - now apply NoDup_app_remove_r in Hnd.
        - apply IHr; auto. now apply NoDup_app_remove_l in Hnd. }
      specialize (Hc Hw Hnd'). rewrite Hnf in Hc. simpl in Hc. auto.
  Qed.

  Ltac kidsplit :=
    repeat (rewrite ?kids_of_app, ?kids_of_cons_some, ?kids_of_cons_none, ?forallb_app, ?andb_true_iff,
            ?n_up_app, ?n_up_cons, ?n_up_nil, ?app_length, ?kleaves_app, ?kleaves_cons, ?kSC_app, ?kSC_cons in *; simpl forallb in *; simpl snd in *;
            simpl length in *).

  (** old SC list of the node, filtered: the parts of the untouched children are unchanged *)
  Lemma kSC_filtered KA KB p :
    ~ In nm (kleaves KA) -> ~ In nm (kleaves KB) ->
    fcl k (kSC (KA ++ p :: KB)) = kSC KA ++ fcl k (SC (snd p)) ++ kSC KB.
  Proof. intros HA HB. now rewrite kSC_app, kSC_cons, !fcl_app, !kSC_keep. Qed.

  Lemma rm_sub_okg : forall t, hit_okg t.
  Proof.
    induction t as [n c sl IH] using utree_ind'.
    intros Hwf Hnd. unfold hit.
    rewrite wf_sub_unfold in Hwf.
    apply andb_true_iff in Hwf. destruct Hwf as [Hup Hwk]. apply Nat.eqb_eq in Hup.
    destruct (is_tip (UNode n c sl) && String.eqb (uname (UNode n c sl)) nm) eqn:Etip.
    { apply andb_true_iff in Etip. destruct Etip as [E1 E2]. apply Nat.eqb_eq in E1. apply String.eqb_eq in E2.
      unfold degree in E1. simpl in E1, E2. simpl.
      assert (Ek : kids_of sl = []).
      { generalize (length_slots sl). rewrite E1, Hup. destruct (kids_of sl); simpl; auto. lia. }
      split.
      - rewrite leaves_unfold, Ek. now subst.
      - rewrite pairdists_agg, Ek. reflexivity. }
    simpl rm_sub. change (fun ch : utree => rm_sub nm ch) with (rm_sub nm).
    destruct (kids_of sl) as [|k0 kr] eqn:Ek.
    { assert (El : length sl = 1) by (rewrite length_slots, Ek, Hup; reflexivity).
      destruct sl as [|[p|] [|s2 r]]; simpl in El; try lia; try (simpl in Ek; discriminate).
      simpl. intros [->|[]].
      unfold is_tip, degree in Etip. simpl in Etip. now rewrite String.eqb_refl in Etip. }
    rewrite <- Ek in *. assert (Hne : kids_of sl <> []) by (rewrite Ek; discriminate). clear Ek k0 kr.
    assert (Hndk : NoDup (kleaves (kids_of sl))).
    { rewrite leaves_unfold in Hnd. destruct (kids_of sl); [congruence|auto]. }
    generalize (node_hitg sl IH Hwk Hndk).
    destruct (first_hit (hit nm (rm_sub nm)) 0 sl) as [[[i e] o]|].
    2:{ intros Hnot. simpl. rewrite leaves_unfold. destruct (kids_of sl); [congruence|auto]. }
    intros [A [ch [B [-> [-> [Ho [Hnf [HA [HB [Hin Hwch]]]]]]]]]].
    set (T := UNode n c (A ++ Some (e, ch) :: B)) in *.
    assert (LT : leaves T = kleaves (kids_of A) ++ leaves ch ++ kleaves (kids_of B)).
    { unfold T. rewrite leaves_unfold. kidsplit.
      destruct (kids_of A ++ (e, ch) :: kids_of B) eqn:E0; [destruct (kids_of A); discriminate|]. reflexivity. }
    assert (Hint : In nm (leaves T)) by (rewrite LT, !in_app_iff; auto).
    assert (Dt : depths w T = aggD (contribs w (kids_of A ++ (e, ch) :: kids_of B))).
    { unfold T. rewrite depths_agg; kidsplit; auto. }
    assert (Pt : pairdists w T = aggP (contribs w (kids_of A ++ (e, ch) :: kids_of B))).
    { unfold T. rewrite pairdists_agg. now kidsplit. }
    assert (ST : SC T = (if Nat.eqb (length (A ++ Some (e, ch) :: B)) 2 then [sset (leaves T)] else []) ++
                        kSC (kids_of A ++ (e, ch) :: kids_of B)).
    { unfold T. rewrite SC_unfold. now kidsplit. }
    kidsplit. destruct Hwk as [HwA [_ HwB]].
    destruct o as [|ch'| |ec cc|m]; simpl in Ho.
    - congruence.
    - (* kept below *)
      destruct Ho as [_ [Hw' [Hk' [HD [HP HS]]]]].
      rewrite set_nth_app. simpl.
      destruct (agg_keep nm (kids_of A) (kids_of B) HA HB (e, ch) (e, ch') (contrib_keep nm e ch ch' HD HP)) as [G1 G2].
      rewrite <- Dt in G1. rewrite <- Pt in G2.
      set (T' := UNode n c (A ++ Some (e, ch') :: B)).
      assert (Dn : depths w T' = aggD (contribs w (kids_of A ++ (e, ch') :: kids_of B))).
      { unfold T'. rewrite depths_agg; kidsplit; auto. destruct (kids_of A); discriminate. }
      rewrite <- Dn in G1.
      assert (LP : Permutation (leaves T') (filter k (leaves T))) by (now apply leaves_from_depths).
      split; auto. split.
      { unfold T'. rewrite wf_sub_unfold. kidsplit. repeat split; auto. apply Nat.eqb_eq; lia. }
      split. { unfold T', kids. simpl. kidsplit. destruct (kids_of A); discriminate. }
      split; auto. split. { unfold T'. rewrite pairdists_agg. now kidsplit. }
      unfold T' at 1. rewrite SC_unfold, ST, fcl_app. kidsplit. apply msub_app.
      + apply (head_same _ _ T T'); auto.
      + rewrite !fcl_app, !kSC_keep by auto.
        apply msub_app; [apply msub_refl|]. apply msub_app; [exact HS|apply msub_refl].
    - (* the child disappears *)
      destruct Ho as [HLc HPc].
      rewrite remove_nth_app.
      destruct (agg_gone nm (kids_of A) (kids_of B) HA HB (e, ch) (contrib_goneg e ch HLc HPc)) as [G1 G2].
      rewrite <- Dt in G1. rewrite <- Pt in G2. rewrite <- kids_of_app in G1, G2.
      assert (GS : msub (kSC (kids_of (A ++ B))) (fcl k (kSC (kids_of A) ++ SC ch ++ kSC (kids_of B)))).
      { rewrite kids_of_app, kSC_app, !fcl_app, !kSC_keep by auto.
        apply msub_app; [apply msub_refl|]. apply msub_app_r. apply msub_refl. }
      assert (HwL : forallb (fun p => wf_sub (snd p)) (kids_of (A ++ B)) = true) by (kidsplit; auto).
      assert (HuL : n_up (A ++ B) = 1) by (kidsplit; lia).
      assert (HlL : S (length (A ++ B)) = length (A ++ Some (e, ch) :: B)) by (rewrite !app_length; simpl; lia).
      assert (HKL : kids_of (A ++ B) = kids_of A ++ kids_of B) by apply kids_of_app.
      remember (A ++ B) as L.
      destruct L as [|s1 [|s2 [|s3 L]]].
      + unfold n_up in HuL. simpl in HuL. lia.
      + (* the node is a chain node: it disappears too *)
        destruct s1 as [[e1 c1]|]; [rewrite n_up_cons in HuL; unfold n_up in HuL; simpl in HuL; lia|].
        simpl. simpl in HKL. symmetry in HKL. apply app_eq_nil in HKL. destruct HKL as [EA EB].
        split.
        * rewrite LT, EA, EB. simpl. now rewrite HLc.
        * rewrite Pt, EA, EB. unfold contribs, aggP. simpl. now rewrite HPc.
      + destruct s1 as [[e1 c1]|], s2 as [[e2 c2]|]; rewrite ?n_up_cons in HuL; unfold n_up in HuL; simpl in HuL; try lia.
        * simpl after_del_sub. simpl. simpl in HwL. rewrite andb_true_r in HwL.
          unfold aggD, aggP, contrib_of in G1, G2. simpl in G1, G2. rewrite app_nil_r in G1. rewrite app_nil_r in G2.
          repeat split; auto.
          rewrite ST, fcl_app. apply msub_app_r. eapply msub_trans; [|exact GS]. simpl. rewrite app_nil_r. apply msub_refl.
        * simpl after_del_sub. simpl. simpl in HwL. rewrite andb_true_r in HwL.
          unfold aggD, aggP, contrib_of in G1, G2. simpl in G1, G2. rewrite app_nil_r in G1. rewrite app_nil_r in G2.
          repeat split; auto.
          rewrite ST, fcl_app. apply msub_app_r. eapply msub_trans; [|exact GS]. simpl. rewrite app_nil_r. apply msub_refl.
      + assert (Hk3 : kids_of (s1 :: s2 :: s3 :: L) <> []).
        { intros E0. generalize (length_slots (s1 :: s2 :: s3 :: L)). rewrite E0, HuL. simpl. lia. }
        assert (E3 : after_del_sub nm n c (s1 :: s2 :: s3 :: L) = OKeep (UNode n c (s1 :: s2 :: s3 :: L))).
        { destruct s1 as [[? ?]|], s2 as [[? ?]|]; reflexivity. }
        rewrite E3. simpl. repeat split; auto.
        * rewrite wf_sub_unfold, HuL, HwL. reflexivity.
        * rewrite depths_agg; auto.
        * rewrite pairdists_agg; auto.
        * rewrite SC_unfold, ST, fcl_app. simpl length. apply msub_app_r. simpl. exact GS.
    - (* a child was suppressed *)
      destruct Ho as [_ [Hw' [HD [HP HS]]]].
      unfold splice. rewrite remove_nth_app. simpl.
      set (e' := merge_edge e ec (Nat.ltb 1 (length (A ++ Some (e, ch) :: B))) (Nat.ltb 1 (degree cc))).
      destruct (agg_move nm (kids_of A) (kids_of B) HA HB (e, ch) (e', reparent cc)
                         (contrib_splice nm e ch ec cc _ _ HD HP)) as [G1 G2].
      rewrite <- Dt in G1. rewrite <- Pt in G2.
      set (T' := UNode n c ((A ++ B) ++ [Some (e', reparent cc)])).
      assert (Dn : depths w T' = aggD (contribs w ((kids_of A ++ kids_of B) ++ [(e', reparent cc)]))).
      { unfold T'. rewrite depths_agg; kidsplit; auto. destruct (kids_of A ++ kids_of B); discriminate. }
      rewrite <- Dn in G1.
      assert (LP : Permutation (leaves T') (filter k (leaves T))) by (now apply leaves_from_depths).
      split; auto. split.
      { unfold T'. rewrite wf_sub_unfold. kidsplit. repeat split; auto using reparent_wf_sub. apply Nat.eqb_eq; lia. }
      split. { unfold T', kids. simpl. kidsplit. destruct (kids_of A ++ kids_of B); discriminate. }
      split; auto. split. { unfold T'. rewrite pairdists_agg. now kidsplit. }
      unfold T' at 1. rewrite SC_unfold, ST, fcl_app. apply msub_app.
      + apply (head_same _ _ T T'); auto. kidsplit. lia.
      + kidsplit. rewrite !fcl_app, !kSC_keep by auto.
        change (kSC []) with (@nil (list string)). rewrite app_nil_r, (reparent_SC cc Hw').
        eapply msub_perm_r; [|apply msub_app; [apply msub_refl|exact HS]]. perm.
    - destruct Ho.
  Qed.
End Gen.
